package main

// Happens-before race detector (vector clocks) and the message ownership ledger.

import (
	"fmt"
	"go/token"
	"go/types"
	"sort"
	"strings"

	"golang.org/x/tools/go/ssa"
)

type epoch struct {
	g   int
	c   int
	pos token.Pos
	fn  string
}

type shadow struct {
	w     epoch
	hasW  bool
	reads map[int]epoch
}

type RaceDet struct {
	vm  *VM
	sh  map[interface{}]*shadow
	atm map[*Value]*syncObj
}

func newRaceDet(vm *VM) *RaceDet {
	return &RaceDet{vm: vm, sh: map[interface{}]*shadow{}, atm: map[*Value]*syncObj{}}
}

func vcGet(vc []int, i int) int {
	if i < len(vc) {
		return vc[i]
	}
	return 0
}

func vcJoin(a, b []int) []int {
	if len(b) > len(a) {
		a = append(a, make([]int, len(b)-len(a))...)
	}
	for i, v := range b {
		if v > a[i] {
			a[i] = v
		}
	}
	return a
}

func (g *G) tick() {
	for len(g.vc) <= g.id {
		g.vc = append(g.vc, 0)
	}
	g.vc[g.id]++
}

func (r *RaceDet) fork(parent, child *G) {
	if parent != nil {
		if len(parent.vc) <= parent.id {
			parent.tick()
		}
		child.vc = append([]int(nil), parent.vc...)
		parent.tick()
	}
	child.tick()
}

func (r *RaceDet) forkVC(vc []int, child *G) {
	child.vc = append([]int(nil), vc...)
	child.tick()
}

func (r *RaceDet) join(g, h *G) { g.vc = vcJoin(g.vc, h.vc) }
func (r *RaceDet) exit(g *G)    {}
func (r *RaceDet) release(g *G, o *syncObj) {
	if len(g.vc) <= g.id {
		g.tick()
	}
	o.vc = vcJoin(o.vc, g.vc)
	g.tick()
}
func (r *RaceDet) acquire(g *G, o *syncObj) { g.vc = vcJoin(g.vc, o.vc) }
func (r *RaceDet) snapshotRelease(g *G) []int {
	if len(g.vc) <= g.id {
		g.tick()
	}
	s := append([]int(nil), g.vc...)
	g.tick()
	return s
}
func (r *RaceDet) acquireVC(g *G, vc []int) { g.vc = vcJoin(g.vc, vc) }
func (r *RaceDet) handoff(a, b *G) {
	if len(a.vc) <= a.id {
		a.tick()
	}
	if len(b.vc) <= b.id {
		b.tick()
	}
	j := vcJoin(append([]int(nil), a.vc...), b.vc)
	a.vc = append([]int(nil), j...)
	b.vc = append([]int(nil), j...)
	a.tick()
	b.tick()
}
func (r *RaceDet) atomicOp(g *G, p *Value) {
	o := r.atm[p]
	if o == nil {
		o = &syncObj{}
		r.atm[p] = o
	}
	r.acquire(g, o)
	r.release(g, o)
}

func (r *RaceDet) access(g *G, key interface{}, write bool, pos token.Pos, desc func() string) {
	if len(g.vc) <= g.id {
		g.tick()
	}
	s := r.sh[key]
	if s == nil {
		s = &shadow{}
		r.sh[key] = s
	}
	fn := ""
	if g.fr != nil {
		fn = g.fr.fn.String()
	}
	cur := epoch{g: g.id, c: g.vc[g.id], pos: pos, fn: fn}
	if s.hasW && s.w.g != g.id && s.w.c > vcGet(g.vc, s.w.g) {
		r.report(g, s.w, cur, "write", pick2(write, "write", "read"), desc)
	}
	if write {
		for _, rd := range s.reads {
			if rd.g != g.id && rd.c > vcGet(g.vc, rd.g) {
				r.report(g, rd, cur, "read", "write", desc)
			}
		}
		s.w = cur
		s.hasW = true
		s.reads = nil
	} else {
		if s.reads == nil {
			s.reads = map[int]epoch{}
		}
		s.reads[g.id] = cur
	}
}

func pick2(c bool, a, b string) string {
	if c {
		return a
	}
	return b
}

func shortFn(fn string) string {
	fn = strings.ReplaceAll(fn, "go.nanomsg.org/mangos/v3/", "")
	return fn
}

func (r *RaceDet) report(g *G, a, b epoch, ka, kb string, desc func() string) {
	vm := r.vm
	pa, pb := vm.posStr(a.pos), vm.posStr(b.pos)
	fns := []string{shortFn(a.fn), shortFn(b.fn)}
	sort.Strings(fns)
	d := ""
	if desc != nil {
		d = desc()
	}
	label := fmt.Sprintf("race/%s/%s|%s", d, fns[0], fns[1])
	msg := fmt.Sprintf("unsynchronised %s at %s (%s) and %s at %s (%s) of %s", ka, pa, shortFn(a.fn), kb, pb, shortFn(b.fn), d)
	vm.ex.recordViolation(vm, g, label, msg, pb, nil)
}

// describeAddr names the memory location an SSA address value denotes.
func describeAddr(v ssa.Value) string {
	switch a := v.(type) {
	case *ssa.FieldAddr:
		t := a.X.Type()
		if p, ok := t.Underlying().(*types.Pointer); ok {
			t = p.Elem()
		}
		name := t.String()
		name = strings.TrimPrefix(name, "go.nanomsg.org/mangos/v3/")
		if st, ok := t.Underlying().(*types.Struct); ok {
			return name + "." + st.Field(a.Field).Name()
		}
		return name
	case *ssa.IndexAddr:
		return describeAddr(a.X) + "[]"
	case *ssa.Global:
		return strings.TrimPrefix(a.String(), "go.nanomsg.org/mangos/v3/")
	case *ssa.UnOp:
		return describeAddr(a.X)
	case *ssa.Alloc:
		return "local " + a.Comment
	case *ssa.FreeVar:
		return "captured " + a.Name()
	case *ssa.Parameter:
		return "*" + a.Name()
	}
	if v != nil {
		return v.Name()
	}
	return "?"
}

func (g *G) access(addr *Value, write bool, pos token.Pos) {
	vm := g.vm
	if vm.lenient > 0 {
		return
	}
	if vm.race != nil && g.fr != nil && g.fr.info.isMangos {
		av := g.curAddr
		vm.race.access(g, addr, write, pos, func() string { return describeAddr(av) })
	}
	if vm.ledger != nil {
		vm.ledger.access(g, addr, write, pos)
	}
}

func (g *G) accessObj(obj interface{}, write bool, pos token.Pos) {
	vm := g.vm
	if vm.race != nil && g.fr != nil && g.fr.info.isMangos && vm.lenient == 0 {
		av := g.curAddr
		vm.race.access(g, obj, write, pos, func() string { return "map " + describeAddr(av) })
	}
}

// ---------------- ownership ledger (C17)

type msgInfo struct {
	p        *Value // the Message struct cell
	released bool
	relPos   token.Pos
	owned    bool
	id       int
}

type Ledger struct {
	vm    *VM
	msgs  map[*Value]*msgInfo
	cells map[*Value]*msgInfo // field cells and backing array cells of tracked messages
	owned map[*Value]*msgInfo // cells of application-owned header/body
	n     int
}

func newLedger(vm *VM) *Ledger {
	return &Ledger{vm: vm, msgs: map[*Value]*msgInfo{}, cells: map[*Value]*msgInfo{}, owned: map[*Value]*msgInfo{}}
}

func msgPtr(v Value) *Value {
	if ifc, ok := v.(Iface); ok {
		if ifc.T == nil || !strings.HasSuffix(ifc.T.String(), "mangos/v3.Message") {
			return nil
		}
		v = ifc.V
	}
	p, _ := v.(*Value)
	return p
}

func (l *Ledger) track(p *Value) *msgInfo {
	mi := l.msgs[p]
	if mi == nil {
		l.n++
		mi = &msgInfo{p: p, id: l.n}
		l.msgs[p] = mi
	}
	return mi
}

// cellsOf enumerates the cells belonging to a message: its fields and the full
// capacity of bbuf/hbuf.
func (l *Ledger) cellsOf(p *Value) []*Value {
	st, ok := (*p).(Struct)
	if !ok {
		return nil
	}
	var cs []*Value
	for i := range st {
		cs = append(cs, &st[i])
	}
	t := l.vm.lookupType("go.nanomsg.org/mangos/v3", "Message")
	for _, fn := range []string{"bbuf", "hbuf"} {
		if s, ok := st[fieldIndex(t, fn)].([]Value); ok {
			s = s[:cap(s)]
			for i := range s {
				cs = append(cs, &s[i])
			}
		}
	}
	return cs
}

func (l *Ledger) poolNew(g *G, v Value) {
	if p := msgPtr(v); p != nil {
		l.track(p)
	}
}

func (l *Ledger) poolGet(g *G, v Value) {
	p := msgPtr(v)
	if p == nil {
		return
	}
	mi := l.track(p)
	mi.released = false
	for _, c := range l.cellsOf(p) {
		delete(l.cells, c)
	}
}

// releasedByApp: is the Free that leads to this Put called by application
// (harness) code rather than by the library?
func releasedByApp(g *G) bool {
	for fr := g.fr; fr != nil; fr = fr.caller {
		name := fr.fn.String()
		if strings.HasPrefix(name, "(*go.nanomsg.org/mangos/v3.Message).") || strings.HasPrefix(name, "(*sync.Pool).") {
			continue
		}
		return !fr.info.isMangos
	}
	return true
}

func (l *Ledger) poolPut(g *G, v Value, pos token.Pos) {
	p := msgPtr(v)
	if p == nil {
		return
	}
	mi := l.track(p)
	vm := l.vm
	if mi.released {
		vm.ex.recordViolation(vm, g, "ledger/double-release", fmt.Sprintf("message #%d released twice (first at %s, again at %s)", mi.id, vm.posStr(mi.relPos), vm.posStr(pos)), vm.posStr(pos), nil)
		return
	}
	if mi.owned {
		if releasedByApp(g) {
			// the application gives its message back: ownership ends
			mi.owned = false
			for c, o := range l.owned {
				if o == mi {
					delete(l.owned, c)
				}
			}
		} else {
			vm.ex.recordViolation(vm, g, "ledger/release-of-app-owned", fmt.Sprintf("library released message #%d that the application owns (%s)", mi.id, g.curFn()), vm.posStr(pos), nil)
		}
	}
	mi.released = true
	mi.relPos = pos
	for _, c := range l.cellsOf(p) {
		l.cells[c] = mi
	}
}

func (l *Ledger) markOwned(g *G, v Value) {
	p := msgPtr(v)
	if p == nil {
		return
	}
	mi := l.track(p)
	mi.owned = true
	st := (*p).(Struct)
	t := l.vm.lookupType("go.nanomsg.org/mangos/v3", "Message")
	for _, fn := range []string{"Header", "Body"} {
		if s, ok := st[fieldIndex(t, fn)].([]Value); ok {
			for i := range s {
				l.owned[&s[i]] = mi
			}
		}
	}
	l.owned[&st[fieldIndex(t, "Header")]] = mi
	l.owned[&st[fieldIndex(t, "Body")]] = mi
}

func (l *Ledger) access(g *G, addr *Value, write bool, pos token.Pos) {
	vm := l.vm
	inLib := g.fr != nil && g.fr.info.isMangos
	if mi, ok := l.cells[addr]; ok && mi.released && (inLib || (g.fr != nil && g.fr.info.isEnv && !g.isMain && !g.helper)) {
		// the pool's own Get path re-initialises after poolGet, so any access here is after release
		vm.ex.recordViolation(vm, g, "ledger/use-after-release", fmt.Sprintf("library %s of message #%d at %s after it was released at %s", pick2(write, "write", "read"), mi.id, vm.posStr(pos), vm.posStr(mi.relPos)), vm.posStr(pos), nil)
	}
	if write && inLib {
		if mi, ok := l.owned[addr]; ok {
			vm.ex.recordViolation(vm, g, "ledger/write-to-app-owned", fmt.Sprintf("library write at %s into message #%d owned by the application", vm.posStr(pos), mi.id), vm.posStr(pos), nil)
		}
	}
}
