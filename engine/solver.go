package main

import (
	"bufio"
	"fmt"
	"io"
	"os"
	"os/exec"
	"strconv"
	"strings"
	"time"
)

type SatResult int

const (
	Unsat SatResult = iota
	Sat
	Unknown
)

func (r SatResult) String() string { return [...]string{"unsat", "sat", "unknown"}[r] }

type Solver struct {
	name     string
	cmd      *exec.Cmd
	in       io.WriteCloser
	out      *bufio.Reader
	asserted []*Term // one push level per entry
	Queries  int
	Unknowns int
	Errors   []string
	Time     time.Duration
	log      io.Writer
	declared map[*Term]bool
	scratch  bool
	kind     string
	timeout  int
	Retries  int
	lines    chan string
	Restarts int
}

func NewSolver(kind string, timeoutMs int) (*Solver, error) {
	s := &Solver{name: kind, kind: kind, timeout: timeoutMs, declared: map[*Term]bool{}}
	if err := s.start(); err != nil {
		return nil, err
	}
	return s, nil
}

func (s *Solver) start() error {
	var cmd *exec.Cmd
	switch s.kind {
	case "z3", "z3-new":
		cmd = exec.Command(s.kind, "-in", "-smt2")
	case "cvc5":
		cmd = exec.Command("cvc5", "--incremental", "--lang", "smt2", "--produce-models", fmt.Sprintf("--tlimit-per=%d", s.timeout))
	default:
		return fmt.Errorf("unknown solver %s", s.kind)
	}
	in, err := cmd.StdinPipe()
	if err != nil {
		return err
	}
	out, err := cmd.StdoutPipe()
	if err != nil {
		return err
	}
	cmd.Stderr = nil
	if err := cmd.Start(); err != nil {
		return err
	}
	s.cmd, s.in = cmd, in
	s.out = bufio.NewReaderSize(out, 1<<16)
	s.declared = map[*Term]bool{}
	s.asserted = nil
	s.scratch = false
	lines := make(chan string, 64)
	s.lines = lines
	rd := s.out
	go func() {
		for {
			line, err := rd.ReadString('\n')
			if err != nil {
				close(lines)
				return
			}
			line = strings.TrimSpace(line)
			if line != "" {
				lines <- line
			}
		}
	}()
	if s.kind == "cvc5" {
		s.send("(set-logic ALL)")
		s.send("(set-option :global-declarations true)")
	} else {
		s.send("(set-option :global-declarations true)")
		s.send(fmt.Sprintf("(set-option :timeout %d)", s.timeout))
		s.send("(set-option :produce-models true)")
	}
	return nil
}

// restart kills a hung solver and starts a fresh one (all definitions are re-sent lazily).
func (s *Solver) restart() {
	s.Restarts++
	if s.cmd != nil {
		s.in.Close()
		s.cmd.Process.Kill()
		s.cmd.Wait()
		s.cmd = nil
	}
	if err := s.start(); err != nil {
		s.Errors = append(s.Errors, "solver restart: "+err.Error())
	}
}

func (s *Solver) Close() {
	if s == nil || s.cmd == nil {
		return
	}
	s.in.Close()
	s.cmd.Process.Kill()
	s.cmd.Wait()
	s.cmd = nil
}

func (s *Solver) send(line string) {
	if s.log != nil {
		fmt.Fprintln(s.log, line)
	}
	io.WriteString(s.in, line)
	io.WriteString(s.in, "\n")
}

// ensure emits declarations/definitions for t (post-order).
func (s *Solver) ensure(t *Term) {
	if s.declared[t] {
		return
	}
	if t.isLeaf() {
		if t.op == OpVar {
			s.send(fmt.Sprintf("(declare-const %s %s)", t.ref(), sortStr(t.w)))
		}
		s.declared[t] = true
		return
	}
	for _, a := range t.args {
		s.ensure(a)
	}
	s.send(fmt.Sprintf("(define-fun %s () %s %s)", t.ref(), sortStr(t.w), t.body()))
	s.declared[t] = true
}

func (s *Solver) syncPC(pc []*Term) {
	k := 0
	for k < len(pc) && k < len(s.asserted) && pc[k] == s.asserted[k] {
		k++
	}
	if n := len(s.asserted) - k; n > 0 {
		s.send(fmt.Sprintf("(pop %d)", n))
		s.asserted = s.asserted[:k]
	}
	for ; k < len(pc); k++ {
		s.ensure(pc[k])
		s.send("(push 1)")
		s.send(fmt.Sprintf("(assert %s)", pc[k].ref()))
		s.asserted = append(s.asserted, pc[k])
	}
}

func (s *Solver) readLine() string {
	select {
	case line, ok := <-s.lines:
		if !ok {
			s.Errors = append(s.Errors, "solver pipe closed")
			return "(error pipe)"
		}
		return line
	case <-time.After(time.Duration(s.timeout+10000) * time.Millisecond):
		// the solver ignored its own time limit: kill it, answer unknown
		s.restart()
		return "timeout-killed"
	}
}

// Check decides satisfiability of pc ∧ extra. Leaves extra asserted in a
// scratch level that the next call pops (so Model can be called right after).
func (s *Solver) Check(pc []*Term, extra ...*Term) SatResult {
	t0 := time.Now()
	defer func() { s.Time += time.Since(t0) }()
	s.dropScratch()
	s.syncPC(pc)
	for _, e := range extra {
		s.ensure(e)
	}
	s.send("(push 1)")
	s.scratch = true
	for _, e := range extra {
		s.send(fmt.Sprintf("(assert %s)", e.ref()))
	}
	s.send("(check-sat)")
	s.Queries++
	line := s.readLine()
	switch line {
	case "sat":
		return Sat
	case "unsat":
		return Unsat
	}
	if line == "unknown" && s.kind != "cvc5" {
		// give a query that ran into the time limit one more try with four times the limit (a loaded machine
		// makes cheap queries slow); only a second non-answer counts as unknown
		s.Retries++
		old := s.timeout
		s.timeout = 4 * old
		s.send(fmt.Sprintf("(set-option :timeout %d)", s.timeout))
		s.send("(check-sat)")
		line = s.readLine()
		s.timeout = old
		if line != "timeout-killed" {
			s.send(fmt.Sprintf("(set-option :timeout %d)", old))
		}
		switch line {
		case "sat":
			return Sat
		case "unsat":
			return Unsat
		}
	}
	if strings.HasPrefix(line, "(error") {
		s.Errors = append(s.Errors, line)
	}
	if os.Getenv("GOSYM_DEBUG_UNKNOWN") != "" {
		fmt.Fprintln(os.Stderr, "solver non-answer:", line)
	}
	s.Unknowns++
	return Unknown
}

func (s *Solver) dropScratch() {
	if s.scratch {
		s.send("(pop 1)")
		s.scratch = false
	}
}

// Values returns the model values of the given terms after a Sat Check.
func (s *Solver) Values(ts []*Term) map[*Term]string {
	res := map[*Term]string{}
	for i := 0; i < len(ts); i += 50 {
		j := i + 50
		if j > len(ts) {
			j = len(ts)
		}
		var sb strings.Builder
		sb.WriteString("(get-value (")
		for _, t := range ts[i:j] {
			s.ensure(t)
		}
		for _, t := range ts[i:j] {
			sb.WriteString(t.ref())
			sb.WriteString(" ")
		}
		sb.WriteString("))")
		s.send(sb.String())
		txt := s.readSexp()
		if strings.HasPrefix(txt, "(error") {
			s.Errors = append(s.Errors, txt)
			continue
		}
		vals := parseGetValue(txt)
		for k, t := range ts[i:j] {
			if k < len(vals) {
				res[t] = vals[k]
			}
		}
	}
	return res
}

func (s *Solver) readSexp() string {
	var sb strings.Builder
	depth := 0
	started := false
	for {
		line := s.readLine()
		sb.WriteString(line)
		sb.WriteString(" ")
		inq := false
		for _, c := range line {
			if c == '|' || c == '"' {
				inq = !inq
			}
			if inq {
				continue
			}
			if c == '(' {
				depth++
				started = true
			} else if c == ')' {
				depth--
			}
		}
		if started && depth <= 0 {
			break
		}
		if !started {
			break
		}
	}
	return sb.String()
}

// parseGetValue splits "((a v1) (b v2))" into the value texts.
func parseGetValue(txt string) []string {
	toks := tokenize(txt)
	// toks: ( ( name value... ) ( name value... ) )
	var res []string
	i := 0
	if len(toks) == 0 || toks[0] != "(" {
		return nil
	}
	i = 1
	for i < len(toks) && toks[i] == "(" {
		i++ // into pair
		// name: a token or a parenthesised expr
		i = skipExpr(toks, i)
		st := i
		i = skipExpr(toks, i)
		res = append(res, strings.Join(toks[st:i], " "))
		if i < len(toks) && toks[i] == ")" {
			i++
		}
	}
	return res
}

func skipExpr(toks []string, i int) int {
	if i >= len(toks) {
		return i
	}
	if toks[i] != "(" {
		return i + 1
	}
	d := 0
	for i < len(toks) {
		if toks[i] == "(" {
			d++
		} else if toks[i] == ")" {
			d--
			if d == 0 {
				return i + 1
			}
		}
		i++
	}
	return i
}

func tokenize(s string) []string {
	var toks []string
	i := 0
	for i < len(s) {
		c := s[i]
		switch {
		case c == ' ' || c == '\t' || c == '\n' || c == '\r':
			i++
		case c == '(' || c == ')':
			toks = append(toks, string(c))
			i++
		case c == '|':
			j := i + 1
			for j < len(s) && s[j] != '|' {
				j++
			}
			toks = append(toks, s[i:j+1])
			i = j + 1
		default:
			j := i
			for j < len(s) && !strings.ContainsRune(" \t\n\r()", rune(s[j])) {
				j++
			}
			toks = append(toks, s[i:j])
			i = j
		}
	}
	return toks
}

// parseBV turns "#x0a", "#b101", "(_ bv10 8)", "true", "false", "5", "(- 5)" into uint64.
func parseNum(v string) (uint64, bool) {
	v = strings.TrimSpace(v)
	switch {
	case v == "true":
		return 1, true
	case v == "false":
		return 0, true
	case strings.HasPrefix(v, "#x"):
		n, err := strconv.ParseUint(v[2:], 16, 64)
		return n, err == nil
	case strings.HasPrefix(v, "#b"):
		n, err := strconv.ParseUint(v[2:], 2, 64)
		return n, err == nil
	case strings.HasPrefix(v, "( _ bv"):
		f := strings.Fields(v)
		n, err := strconv.ParseUint(strings.TrimPrefix(f[2], "bv"), 10, 64)
		return n, err == nil
	case strings.HasPrefix(v, "( - "):
		f := strings.Fields(v)
		n, err := strconv.ParseInt(strings.TrimSuffix(f[2], ".0"), 10, 64)
		return uint64(-n), err == nil
	}
	n, err := strconv.ParseInt(strings.TrimSuffix(v, ".0"), 10, 64)
	return uint64(n), err == nil
}
