package main

import (
	"fmt"
	"go/token"
	"go/types"
	"os"
	"path/filepath"
	"strings"
	"sync"

	"golang.org/x/tools/go/packages"
	"golang.org/x/tools/go/ssa"
	"golang.org/x/tools/go/ssa/ssautil"
)

var traceOn = false

func traceInstr(g *G, fr *Frame, ins ssa.Instruction) {
	if v, ok := ins.(ssa.Value); ok {
		fmt.Fprintf(os.Stderr, "g%d %s\t%s = %s\n", g.id, g.vm.posStr(fr.pos), v.Name(), ins)
	} else {
		fmt.Fprintf(os.Stderr, "g%d %s\t%s\n", g.id, g.vm.posStr(fr.pos), ins)
	}
}

type goFunc func(g *G) Value

type Program struct {
	prog        *ssa.Program
	pkgs        []*ssa.Package
	byPath      map[string]*ssa.Package
	initRefs    map[*ssa.Package]map[*ssa.Global]bool
	reachesLock map[*ssa.Function]bool
	mu          sync.Mutex
}

var lenientInit = map[string]bool{
	"errors": true, "io": true, "bytes": true, "bufio": true, "encoding/binary": true,
	"strings": true, "strconv": true, "unicode/utf8": true, "sort": true, "math": true,
	"math/bits": true, "sync": true, "sync/atomic": true, "internal/bytealg": true,
	"internal/oserror": true, "io/fs": true, "syscall": true, "os": true, "net": true, "time": true, "context": true,
	"internal/poll": true,
	// only for its error values (ErrBadHandshake is compared by transport/ws); everything behind it is stubbed (vws)
	"github.com/gorilla/websocket": true,
	"go.nanomsg.org/mangos/v3/macat/macat": true,
}

func loadProgram(repo, harnessDir string) (*Program, error) {
	overlay := map[string][]byte{}
	err := filepath.Walk(harnessDir, func(p string, info os.FileInfo, err error) error {
		if err != nil {
			return err
		}
		if info.IsDir() || !strings.HasSuffix(p, ".go") {
			return nil
		}
		rel, _ := filepath.Rel(harnessDir, p)
		b, err := os.ReadFile(p)
		if err != nil {
			return err
		}
		overlay[filepath.Join(repo, rel)] = b
		return nil
	})
	if err != nil {
		return nil, err
	}
	patterns := []string{".", "./internal/core", "./protocol/...", "./transport/...", "./macat", "./macat/macat", "./errors"}
	seen := map[string]bool{}
	for p := range overlay {
		d := filepath.Dir(p)
		rel, _ := filepath.Rel(repo, d)
		if strings.HasPrefix(rel, "zzverif") && !seen[rel] {
			seen[rel] = true
			patterns = append(patterns, "./"+rel)
		}
	}
	cfg := &packages.Config{
		Mode:    packages.LoadAllSyntax,
		Dir:     repo,
		Overlay: overlay,
		Env:     append(os.Environ(), "GOFLAGS=-mod=mod", "GOPROXY=off", "GOSUMDB=off", "GOTOOLCHAIN=local", "CGO_ENABLED=0"),
	}
	pkgs, err := packages.Load(cfg, patterns...)
	if err != nil {
		return nil, err
	}
	nerr := 0
	packages.Visit(pkgs, nil, func(p *packages.Package) {
		for _, e := range p.Errors {
			fmt.Fprintln(os.Stderr, "load error:", e)
			nerr++
		}
	})
	if nerr > 0 {
		return nil, fmt.Errorf("%d package load errors", nerr)
	}
	prog, spkgs := ssautil.AllPackages(pkgs, ssa.InstantiateGenerics)
	prog.Build()
	P := &Program{prog: prog, byPath: map[string]*ssa.Package{}, initRefs: map[*ssa.Package]map[*ssa.Global]bool{}}
	for _, sp := range prog.AllPackages() {
		P.byPath[sp.Pkg.Path()] = sp
	}
	for _, sp := range spkgs {
		if sp != nil {
			P.pkgs = append(P.pkgs, sp)
		}
	}
	return P, nil
}

// initWritten: globals referenced by the package initialiser (conservatively "needs init").
func (P *Program) initWritten(pkg *ssa.Package) map[*ssa.Global]bool {
	P.mu.Lock()
	defer P.mu.Unlock()
	if m, ok := P.initRefs[pkg]; ok {
		return m
	}
	m := map[*ssa.Global]bool{}
	var scan func(f *ssa.Function)
	scan = func(f *ssa.Function) {
		if f == nil {
			return
		}
		for _, b := range f.Blocks {
			for _, ins := range b.Instrs {
				for _, op := range ins.Operands(nil) {
					if gl, ok := (*op).(*ssa.Global); ok && gl.Pkg == pkg {
						m[gl] = true
					}
				}
			}
		}
	}
	scan(pkg.Func("init"))
	for i := 1; ; i++ {
		f := pkg.Func(fmt.Sprintf("init#%d", i))
		if f == nil {
			break
		}
		scan(f)
	}
	P.initRefs[pkg] = m
	return m
}

var theProgram *Program

func (vm *VM) pkgInitialised(p *ssa.Package) bool { return vm.initDone[p] }

func (vm *VM) needsInit(g *ssa.Global) bool {
	if g.Pkg == nil {
		return false
	}
	return theProgram.initWritten(g.Pkg)[g]
}

func (vm *VM) strictPkg(p *ssa.Package) bool {
	path := p.Pkg.Path()
	// the macat command's main package only copies os.Args / os.Exit / os.Stderr into variables that the harness
	// replaces: its initialiser runs leniently
	return strings.HasPrefix(path, "go.nanomsg.org/mangos/v3") && path != "go.nanomsg.org/mangos/v3/macat/macat"
}

// callInit runs (or skips) a package initialiser according to policy.
func (g *G) callInit(fn *ssa.Function) {
	vm := g.vm
	pkg := fn.Pkg
	if vm.initDone[pkg] {
		return
	}
	path := pkg.Pkg.Path()
	switch {
	case vm.strictPkg(pkg):
		vm.initDone[pkg] = true
		g.runBody(fn)
	case lenientInit[path]:
		vm.initDone[pkg] = true
		vm.lenient++
		func() {
			defer func() {
				vm.lenient--
				if r := recover(); r != nil {
					if pa, ok := r.(pathAbort); ok && pa.kind == "KILL" {
						panic(r)
					}
					// partial init: remaining globals keep whatever they have
				}
			}()
			saved := g.fr
			savedDepth := g.depth
			defer func() { g.fr = saved; g.depth = savedDepth }()
			g.runBody(fn)
		}()
	default:
		// not run: globals of this package read as poison if init would have set them
	}
}

// runBody executes fn's SSA body bypassing intrinsic/init interception.
func (g *G) runBody(fn *ssa.Function) Value {
	info := getFnInfo(fn)
	fr := &Frame{fn: fn, info: info, caller: g.fr, g: g}
	fr.env = make([]Value, info.nregs)
	fr.visits = make([]int, len(fn.Blocks))
	for _, l := range fn.Locals {
		p := new(Value)
		*p = zero(l.Type().(*types.Pointer).Elem())
		fr.set(l, p)
	}
	saved := g.fr
	g.fr = fr
	g.depth++
	fr.block = fn.Blocks[0]
	g.runFrame(fr)
	g.depth--
	g.fr = saved
	return fr.result
}

func (vm *VM) resetPath() {
	vm.globals = map[*ssa.Global]*Value{}
	vm.pc = nil
	vm.gs = nil
	vm.cur = nil
	vm.main = nil
	vm.steps = 0
	vm.preempts = 0
	vm.switches = 0
	vm.stallSpanUsed = 0
	vm.mainKeepOK = false
	vm.nextID = 0
	vm.timers = nil
	// the clock starts one nanosecond after the zero instant: an instant read from it is never the zero time
	// (which code uses as "not set")
	vm.now = IntV{C: 1}
	vm.side = map[*Value]interface{}{}
	vm.inputs = nil
	vm.observes = nil
	vm.killing = false
	vm.pathDone = make(chan *PathResult, 4)
	vm.initDone = map[*ssa.Package]bool{}
	vm.lenient = 0
	vm.noPreempt = 0
	vm.allocSym = nil
	vm.evlog = nil
	vm.nameCtr = map[string]int{}
	if vm.cfg.Race {
		vm.race = newRaceDet(vm)
	}
	if vm.cfg.Ledger {
		vm.ledger = newLedger(vm)
	}
}

func (vm *VM) runPath(harness *ssa.Function) *PathResult {
	vm.resetPath()
	body := goFunc(func(g *G) Value {
		// initialise the harness package; its synthetic init pulls in its imports first
		if harness.Pkg != nil {
			if f := harness.Pkg.Func("init"); f != nil {
				g.callInit(f)
			}
		}
		vm.steps = 0
		return g.call(harness, nil, token.NoPos)
	})
	m := vm.spawn(body, nil, "main", token.NoPos)
	m.isMain = true
	vm.main = m
	vm.cur = m
	m.wake <- struct{}{}
	res := <-vm.pathDone
	vm.killing = true
	for _, h := range vm.gs {
		if h.state != gDone {
			select {
			case h.wake <- struct{}{}:
			default:
			}
		}
	}
	vm.wg.Wait()
	return res
}
