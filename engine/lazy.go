package main

// Lazy (universal) mode: a function is run from an arbitrary state. Receiver,
// arguments, globals and everything reachable from them are initialised lazily
// with fresh symbolic scalars; calls that leave the package under analysis
// return arbitrary values; channels and maps behave arbitrarily. The only thing
// tracked precisely is the balance of sync.Mutex / RWMutex operations of this
// invocation (and of same-package callees, which are executed).

import (
	"fmt"
	"go/token"
	"go/types"
	"os"
	"sort"
	"strings"
	"time"

	"golang.org/x/tools/go/ssa"
	"golang.org/x/tools/go/ssa/ssautil"
)

type Lazy struct{ t types.Type }
type LazyString struct{ id int }
type LazyFunc struct{ sig *types.Signature }
type lazyIfaceT struct{ types.Type } // marker dynamic type of an arbitrary interface value

type lazyState struct {
	n        int
	delta    map[*Value]int
	rdelta   map[*Value]int
	lockPos  map[*Value]token.Pos
	lockDesc map[*Value]string
	streq    map[string]*Term
	strvars  map[int][]*Term
	rootPkg  *ssa.Package
	depth    int
	nilFlag  map[*Value]*Term
}

func (vm *VM) lazyReset(root *ssa.Function) {
	pkg := root.Pkg
	if pkg == nil && root.Parent() != nil {
		p := root
		for p.Parent() != nil {
			p = p.Parent()
		}
		pkg = p.Pkg
	}
	vm.lz = &lazyState{delta: map[*Value]int{}, rdelta: map[*Value]int{}, lockPos: map[*Value]token.Pos{}, lockDesc: map[*Value]string{},
		streq: map[string]*Term{}, strvars: map[int][]*Term{}, rootPkg: pkg, nilFlag: map[*Value]*Term{}}
}

func (vm *VM) lzFresh(w int) *Term {
	vm.lz.n++
	return vm.tb.Var(fmt.Sprintf("lz%d_w%d", vm.lz.n, w), w)
}

func (vm *VM) lazyMaxLen() int {
	if v, ok := vm.cfg.Params["lazy_len"]; ok {
		return v
	}
	return 2
}

// mat materialises an arbitrary value of type t (one level).
func (g *G) mat(t types.Type) Value {
	vm := g.vm
	switch u := t.Underlying().(type) {
	case *types.Basic:
		switch {
		case u.Info()&types.IsBoolean != 0:
			return BoolV{S: vm.lzFresh(0)}
		case u.Info()&types.IsInteger != 0:
			w, _ := intInfo(u)
			return IntV{S: vm.lzFresh(w)}
		case u.Info()&types.IsFloat != 0:
			return FloatV{C: 1}
		case u.Info()&types.IsString != 0:
			vm.lz.n++
			return LazyString{id: vm.lz.n}
		case u.Kind() == types.UnsafePointer:
			return (*Value)(nil)
		}
	case *types.Pointer:
		// nil-ness stays symbolic: it only forks the path where the code tests it
		p := new(Value)
		*p = Lazy{u.Elem()}
		vm.lz.nilFlag[p] = vm.lzFresh(0)
		return p
	case *types.Struct:
		s := make(Struct, u.NumFields())
		for i := range s {
			s[i] = Lazy{u.Field(i).Type()}
		}
		return s
	case *types.Array:
		if u.Len() > 64 {
			panic(pathAbort{kind: "CUT", msg: "large lazy array"})
		}
		a := make(Array, u.Len())
		for i := range a {
			a[i] = Lazy{u.Elem()}
		}
		return a
	case *types.Slice:
		return g.lazySlice(u.Elem())
	case *types.Map:
		m := newMap()
		m.lazyElem = u.Elem()
		m.lazyKey = u.Key()
		return m
	case *types.Chan:
		c := vm.newChan(0, u.Elem())
		return c
	case *types.Interface:
		if vm.choose(2, "lazy-iface-nil", 'Z') == 1 {
			return Iface{}
		}
		return Iface{T: lazyIfaceT{t}, V: nil}
	case *types.Signature:
		if vm.choose(2, "lazy-func-nil", 'Z') == 1 {
			return (*ssa.Function)(nil)
		}
		return LazyFunc{sig: u}
	case *types.Tuple:
		if u.Len() == 1 {
			return Lazy{u.At(0).Type()}
		}
		r := make(Tuple, u.Len())
		for i := range r {
			r[i] = Lazy{u.At(i).Type()}
		}
		return r
	}
	panic(pathAbort{kind: "CUT", msg: fmt.Sprintf("lazy value of type %v", t)})
}

// lazySlice: a slice of arbitrary (symbolic) length and unknown content.
func (g *G) lazySlice(elem types.Type) *SymSlice {
	vm := g.vm
	ln := vm.lzFresh(64)
	vm.addPC(vm.tb.Cmp(OpSLe, vm.tb.Const(0, 64), ln))
	vm.addPC(vm.tb.Cmp(OpSLe, ln, vm.tb.Const(1<<20, 64)))
	return &SymSlice{arr: nil, len: IntV{S: ln}, cap: IntV{S: ln}, elem: elem}
}

// lzDeref: p is about to be dereferenced. An arbitrary pointer that the code
// dereferences without testing is taken to be non-nil (a nil one would just
// panic here); one the code has found to be nil panics.
func (g *G) lzDeref(p *Value, pos token.Pos) {
	if p == nil {
		g.tpanic("nil", "nil pointer dereference", pos)
	}
	vm := g.vm
	if f := vm.lz.nilFlag[p]; f != nil {
		if vm.pcHas(f) {
			g.tpanic("nil", "nil pointer dereference", pos)
		}
		nf := vm.tb.BNot(f)
		if !vm.pcHas(nf) {
			vm.addPC(nf)
		}
	}
}

// cell returns the materialised content of *p (materialising in place).
func (g *G) cell(p *Value) Value {
	if lz, ok := (*p).(Lazy); ok {
		*p = g.mat(lz.t)
	}
	return *p
}

func (vm *VM) havoc(res *types.Tuple) Value {
	switch res.Len() {
	case 0:
		return nil
	case 1:
		return Lazy{res.At(0).Type()}
	}
	r := make(Tuple, res.Len())
	for i := range r {
		r[i] = Lazy{res.At(i).Type()}
	}
	return r
}

func isSyncType(t types.Type) bool {
	if n, ok := t.(*types.Named); ok && n.Obj().Pkg() != nil {
		p := n.Obj().Pkg().Path()
		return p == "sync" || p == "sync/atomic"
	}
	return false
}

// havocArgs: code outside the analysed package (hooks, interface methods,
// other packages) may change whatever the arguments point to.
func (g *G) havocArgs(args []Value) {
	for _, a := range args {
		var p *Value
		var pt types.Type
		switch v := a.(type) {
		case Iface:
			if v.T == nil {
				continue
			}
			if _, lazy := v.T.(lazyIfaceT); lazy {
				continue
			}
			pp, ok := v.V.(*Value)
			if !ok || pp == nil {
				continue
			}
			p, pt = pp, v.T
		default:
			continue
		}
		ptr, ok := pt.Underlying().(*types.Pointer)
		if !ok {
			continue
		}
		st, ok := ptr.Elem().Underlying().(*types.Struct)
		if !ok {
			continue
		}
		cur, ok := (*p).(Struct)
		if !ok {
			continue
		}
		for i := 0; i < st.NumFields() && i < len(cur); i++ {
			ft := st.Field(i).Type()
			if isSyncType(ft) {
				continue
			}
			cur[i] = Lazy{ft}
		}
	}
}

// havocPtrArgs forgets what pointer arguments of a summarised callee point to.
func (g *G) havocPtrArgs(f *ssa.Function, args []Value) {
	for i, a := range args {
		if i >= len(f.Params) {
			break
		}
		p, ok := a.(*Value)
		if !ok || p == nil {
			continue
		}
		ptr, ok := f.Params[i].Type().Underlying().(*types.Pointer)
		if !ok {
			continue
		}
		st, ok := ptr.Elem().Underlying().(*types.Struct)
		if !ok {
			continue
		}
		cur, ok := (*p).(Struct)
		if !ok {
			continue
		}
		for k := 0; k < st.NumFields() && k < len(cur); k++ {
			ft := st.Field(k).Type()
			if isSyncType(ft) {
				continue
			}
			// keep embedded structs that contain mutexes intact one level down
			if fst, ok := ft.Underlying().(*types.Struct); ok && !isSyncType(ft) {
				has := false
				for j := 0; j < fst.NumFields(); j++ {
					if isSyncType(fst.Field(j).Type()) {
						has = true
					}
				}
				if has {
					continue
				}
			}
			cur[k] = Lazy{ft}
		}
	}
	g.havocArgs(args)
}

// ---- lock accounting

func (g *G) lzLock(p *Value, pos token.Pos, read bool, desc string) {
	lz := g.vm.lz
	g.lzDeref(p, pos)
	if lz.delta[p] >= 1 || (!read && lz.rdelta[p] >= 1) {
		g.vm.ex.recordViolation(g.vm, g, "C12/lock/locked-twice@"+g.rootName()+"/"+desc,
			fmt.Sprintf("%s locks %s at %s while this invocation already holds it (locked at %s)", g.rootName(), desc, g.vm.posStr(pos), g.vm.posStr(lz.lockPos[p])), g.vm.posStr(pos), nil)
		panic(pathAbort{kind: "CUT", msg: "self-deadlock"})
	}
	// lock-order edges: every mutex this invocation currently holds -> the one being acquired
	for q, d := range lz.delta {
		if d >= 1 && q != p {
			g.vm.ex.noteLockEdge(lz.lockDesc[q], desc, g.rootName(), g.vm.posStr(lz.lockPos[q]), g.vm.posStr(pos))
		}
	}
	for q, d := range lz.rdelta {
		if d >= 1 && q != p {
			g.vm.ex.noteLockEdge(lz.lockDesc[q], desc, g.rootName(), g.vm.posStr(lz.lockPos[q]), g.vm.posStr(pos))
		}
	}
	if read {
		lz.rdelta[p]++
	} else {
		lz.delta[p]++
	}
	lz.lockPos[p] = pos
	lz.lockDesc[p] = desc
}

func (g *G) lzUnlock(p *Value, pos token.Pos, read bool, desc string) {
	lz := g.vm.lz
	g.lzDeref(p, pos)
	if read {
		lz.rdelta[p]--
	} else {
		lz.delta[p]--
	}
	if lz.delta[p] < -1 || lz.rdelta[p] < -1 {
		g.vm.ex.recordViolation(g.vm, g, "C12/lock/unlocked-twice@"+g.rootName()+"/"+desc,
			fmt.Sprintf("%s unlocks %s twice (second time at %s)", g.rootName(), desc, g.vm.posStr(pos)), g.vm.posStr(pos), nil)
		panic(pathAbort{kind: "CUT", msg: "double unlock"})
	}
	if _, ok := lz.lockDesc[p]; !ok {
		lz.lockDesc[p] = desc
		lz.lockPos[p] = pos
	}
}

func (g *G) rootName() string {
	return strings.ReplaceAll(g.vm.lzRoot.String(), "go.nanomsg.org/mangos/v3/", "")
}

// lzCheckBalance is called when the root returns normally.
func (g *G) lzCheckBalance() {
	lz := g.vm.lz
	vm := g.vm
	vm.ex.Obligations++
	bad := false
	var keys []*Value
	for p := range lz.lockDesc {
		keys = append(keys, p)
	}
	sort.Slice(keys, func(i, j int) bool { return lz.lockDesc[keys[i]] < lz.lockDesc[keys[j]] })
	for _, p := range keys {
		d := lz.delta[p] + lz.rdelta[p]
		if d > 0 {
			bad = true
			vm.ex.recordViolation(vm, g, "C12/lock/returns-holding@"+g.rootName()+"/"+lz.lockDesc[p],
				fmt.Sprintf("%s returns still holding %s (locked at %s)", g.rootName(), lz.lockDesc[p], vm.posStr(lz.lockPos[p])), vm.posStr(lz.lockPos[p]), nil)
		} else if d < 0 {
			bad = true
			vm.ex.recordViolation(vm, g, "C12/lock/returns-having-released@"+g.rootName()+"/"+lz.lockDesc[p],
				fmt.Sprintf("%s returns having released %s which it did not lock (at %s)", g.rootName(), lz.lockDesc[p], vm.posStr(lz.lockPos[p])), vm.posStr(lz.lockPos[p]), nil)
		}
	}
	if !bad {
		vm.ex.Discharged++
	}
}

// ---- calls

func samePkg(fn *ssa.Function, pkg *ssa.Package) bool {
	f := fn
	for f.Parent() != nil {
		f = f.Parent()
	}
	return f.Pkg != nil && f.Pkg == pkg
}

func mutexDesc(g *G) string {
	if g.fr == nil {
		return "mutex"
	}
	return "mutex"
}

func (g *G) lazyCall(fn Value, args []Value, pos token.Pos, recvDesc string) Value {
	vm := g.vm
	switch f := fn.(type) {
	case *ssa.Function:
		if f == nil {
			g.tpanic("nil", "call of nil function", pos)
		}
		name := f.String()
		switch name {
		case "(*sync.Mutex).Lock", "(*sync.RWMutex).Lock":
			g.lzLock(args[0].(*Value), pos, false, recvDesc)
			return nil
		case "(*sync.Mutex).Unlock", "(*sync.RWMutex).Unlock":
			g.lzUnlock(args[0].(*Value), pos, false, recvDesc)
			return nil
		case "(*sync.RWMutex).RLock":
			g.lzLock(args[0].(*Value), pos, true, recvDesc)
			return nil
		case "(*sync.RWMutex).RUnlock":
			g.lzUnlock(args[0].(*Value), pos, true, recvDesc)
			return nil
		case "(*sync.Mutex).TryLock":
			if vm.choose(2, "trylock", 'Z') == 0 {
				g.lzLock(args[0].(*Value), pos, false, recvDesc)
				return mkBool(true)
			}
			return mkBool(false)
		case "(*sync.Cond).Wait", "(*sync.Cond).Signal", "(*sync.Cond).Broadcast":
			return nil
		case "(*sync.Once).Do":
			if vm.choose(2, "once", 'Z') == 0 {
				g.lazyCall(args[1], nil, pos, "")
			}
			return nil
		}
		if f.Blocks != nil && f.Synthetic == "" && samePkg(f, vm.lz.rootPkg) && theProgram.reachesLock != nil && !theProgram.reachesLock[f] && len(f.AnonFuncs) == 0 {
			// a same-package callee that cannot touch a mutex: only its effect on data matters
			g.havocPtrArgs(f, args)
			return vm.havoc(f.Signature.Results())
		}
		if f.Blocks != nil && (f.Synthetic != "" && f.Synthetic != "package initializer" || samePkg(f, vm.lz.rootPkg)) {
			if vm.lz.depth < 8 {
				vm.lz.depth++
				defer func() { vm.lz.depth-- }()
				if len(f.FreeVars) > 0 {
					panic(pathAbort{kind: "CUT", msg: "call of closure body without bindings"})
				}
				return g.callSSADirect(f, args, nil, pos)
			}
			panic(pathAbort{kind: "CUT", msg: "inlining depth"})
		}
		g.havocArgs(args)
		return vm.havoc(f.Signature.Results())
	case *Closure:
		if samePkg(f.Fn, vm.lz.rootPkg) && vm.lz.depth < 8 {
			vm.lz.depth++
			defer func() { vm.lz.depth-- }()
			return g.callSSADirect(f.Fn, args, f.Env, pos)
		}
		return vm.havoc(f.Fn.Signature.Results())
	case LazyFunc:
		g.havocArgs(args)
		return vm.havoc(f.sig.Results())
	case *ssa.Builtin:
		return g.callBuiltin(f, args, pos, nil)
	}
	panic(pathAbort{kind: "CUT", msg: fmt.Sprintf("lazy call of %T", fn)})
}

// callSSADirect executes fn's body without intrinsic interception.
func (g *G) callSSADirect(fn *ssa.Function, args []Value, env []Value, pos token.Pos) Value {
	info := getFnInfo(fn)
	if info.isMangos {
		g.vm.ex.noteFunc(fn)
	}
	fr := &Frame{fn: fn, info: info, caller: g.fr, g: g, pos: pos}
	fr.env = make([]Value, info.nregs)
	fr.visits = make([]int, len(fn.Blocks))
	k := 0
	for range fn.Params {
		fr.env[k] = args[k]
		k++
	}
	for i := range fn.FreeVars {
		fr.env[k] = env[i]
		k++
	}
	for _, l := range fn.Locals {
		p := new(Value)
		*p = zero(l.Type().(*types.Pointer).Elem())
		fr.set(l, p)
	}
	g.depth++
	if g.depth > 200 {
		panic(pathAbort{kind: "CUT", msg: "call depth"})
	}
	saved := g.fr
	g.fr = fr
	fr.block = fn.Blocks[0]
	g.runFrame(fr)
	g.fr = saved
	g.depth--
	return fr.result
}

// ---- instruction overrides

func (g *G) visitLazy(fr *Frame, ins ssa.Instruction) int {
	vm := g.vm
	switch ins := ins.(type) {
	case *ssa.UnOp:
		switch ins.Op {
		case token.MUL:
			p, ok := fr.get(ins.X).(*Value)
			if !ok {
				panic(pathAbort{kind: "CUT", msg: "load from non-pointer"})
			}
			g.lzDeref(p, ins.Pos())
			fr.set(ins, copyVal(g.cell(p)))
			return kNext
		case token.ARROW:
			ch, _ := fr.get(ins.X).(*ChanV)
			var et types.Type
			if ct, ok := ins.X.Type().Underlying().(*types.Chan); ok {
				et = ct.Elem()
			}
			_ = ch
			if ins.CommaOk {
				fr.set(ins, Tuple{Lazy{et}, BoolV{S: vm.lzFresh(0)}})
			} else {
				fr.set(ins, Lazy{et})
			}
			return kNext
		}
	case *ssa.FieldAddr:
		p, ok := fr.get(ins.X).(*Value)
		if !ok {
			panic(pathAbort{kind: "CUT", msg: "FieldAddr on non-pointer"})
		}
		g.lzDeref(p, ins.Pos())
		st, ok := g.cell(p).(Struct)
		if !ok {
			panic(pathAbort{kind: "CUT", msg: fmt.Sprintf("FieldAddr: cell holds %T", *p)})
		}
		fr.set(ins, &st[ins.Field])
		return kNext
	case *ssa.IndexAddr:
		x := fr.get(ins.X)
		if p, ok := x.(*Value); ok {
			g.lzDeref(p, ins.Pos())
			g.cell(p)
		}
		if ss, ok := x.(*SymSlice); ok && ss.arr == nil {
			// arbitrary element of an arbitrary slice (index taken to be in range)
			idx := fr.get(ins.Index).(IntV)
			inr := vm.tb.Cmp(OpSLt, vm.intTerm(idx, 64), vm.intTerm(ss.len, 64))
			if vm.check(inr) == Unsat {
				g.tpanic("index", "index out of range", ins.Pos())
			}
			vm.addPC(inr)
			c := new(Value)
			*c = Lazy{ss.elem}
			fr.set(ins, c)
			return kNext
		}
	case *ssa.Store:
		if p, ok := fr.get(ins.Addr).(*Value); ok {
			g.lzDeref(p, ins.Pos())
		}
	case *ssa.Call:
		fnv, args := g.prepareCallLazy(fr, &ins.Call)
		desc := ""
		if len(ins.Call.Args) > 0 {
			desc = describeAddr(ins.Call.Args[0])
		}
		var r Value
		if b, ok := fnv.(*ssa.Builtin); ok {
			r = g.lazyBuiltin(b, args, ins.Pos(), ins)
		} else {
			r = g.lazyCall(fnv, args, ins.Pos(), desc)
		}
		fr.set(ins, r)
		return kNext
	case *ssa.Go:
		return kNext // analysed separately as a root
	case *ssa.Defer:
		fnv, args := g.prepareCallLazy(fr, &ins.Call)
		desc := ""
		if len(ins.Call.Args) > 0 {
			desc = describeAddr(ins.Call.Args[0])
		}
		fr.defers = append(fr.defers, deferred{fn: fnv, args: args, pos: ins.Pos(), desc: desc})
		return kNext
	case *ssa.RunDefers:
		for len(fr.defers) > 0 {
			d := fr.defers[len(fr.defers)-1]
			fr.defers = fr.defers[:len(fr.defers)-1]
			if b, ok := d.fn.(*ssa.Builtin); ok {
				g.lazyBuiltin(b, d.args, d.pos, nil)
			} else {
				g.lazyCall(d.fn, d.args, d.pos, d.desc)
			}
		}
		return kNext
	case *ssa.MakeChan:
		fr.set(ins, vm.newChan(0, ins.Type().Underlying().(*types.Chan).Elem()))
		return kNext
	case *ssa.Send:
		return kNext
	case *ssa.Select:
		n := len(ins.States)
		total := n
		if !ins.Blocking {
			total++
		}
		if total == 0 {
			panic(pathAbort{kind: "CUT", msg: "empty select"})
		}
		c := vm.choose(total, "lazy-select", 'Z')
		chosen := c
		if c >= n {
			chosen = -1
		}
		r := Tuple{mkInt(uint64(int64(chosen))), BoolV{S: vm.lzFresh(0)}}
		for _, st := range ins.States {
			if st.Dir == types.RecvOnly {
				r = append(r, Lazy{st.Chan.Type().Underlying().(*types.Chan).Elem()})
			}
		}
		fr.set(ins, r)
		return kNext
	case *ssa.Lookup:
		if mt, ok := ins.X.Type().Underlying().(*types.Map); ok {
			found := vm.choose(2, "lazy-map-found", 'Z') == 0
			var v Value
			if found {
				v = Lazy{mt.Elem()}
			} else {
				v = zero(mt.Elem())
			}
			if ins.CommaOk {
				fr.set(ins, Tuple{v, mkBool(found)})
			} else {
				fr.set(ins, v)
			}
			return kNext
		}
		if _, ok := fr.get(ins.X).(LazyString); ok {
			fr.set(ins, IntV{S: vm.lzFresh(8)})
			return kNext
		}
	case *ssa.MapUpdate:
		return kNext
	case *ssa.Range:
		if mt, ok := ins.X.Type().Underlying().(*types.Map); ok {
			fr.set(ins, &lazyMapIter{left: vm.choose(2, "lazy-range", 'Z'), mt: mt})
			return kNext
		}
		if _, ok := fr.get(ins.X).(LazyString); ok {
			fr.set(ins, &strIter{s: ""})
			return kNext
		}
	case *ssa.Next:
		if it, ok := fr.get(ins.Iter).(*lazyMapIter); ok {
			if it.left > 0 {
				it.left--
				fr.set(ins, Tuple{mkBool(true), Lazy{it.mt.Key()}, Lazy{it.mt.Elem()}})
			} else {
				fr.set(ins, Tuple{mkBool(false), nil, nil})
			}
			return kNext
		}
	case *ssa.TypeAssert:
		itf := fr.get(ins.X).(Iface)
		if _, isLazy := itf.T.(lazyIfaceT); isLazy {
			okc := vm.choose(2, "lazy-typeassert", 'Z') == 0
			var v Value
			if okc {
				if _, isI := ins.AssertedType.Underlying().(*types.Interface); isI {
					v = Iface{T: lazyIfaceT{ins.AssertedType}}
				} else {
					v = Lazy{ins.AssertedType}
				}
			} else {
				if !ins.CommaOk {
					g.tpanic("typeassert", "lazy type assertion fails", ins.Pos())
				}
				v = zero(ins.AssertedType)
			}
			if ins.CommaOk {
				fr.set(ins, Tuple{v, mkBool(okc)})
			} else {
				fr.set(ins, v)
			}
			return kNext
		}
	case *ssa.MakeSlice:
		ln, cp := fr.get(ins.Len).(IntV), fr.get(ins.Cap).(IntV)
		if ln.S != nil || cp.S != nil {
			fr.set(ins, g.lazySlice(ins.Type().Underlying().(*types.Slice).Elem()))
			return kNext
		}
	case *ssa.Convert:
		if ss, ok := fr.get(ins.X).(*SymSlice); ok && ss.arr == nil {
			if isString(ins.Type()) {
				vm.lz.n++
				fr.set(ins, LazyString{id: vm.lz.n})
			} else {
				fr.set(ins, ss)
			}
			return kNext
		}
		if _, ok := fr.get(ins.X).(LazyString); ok {
			if _, isSlice := ins.Type().Underlying().(*types.Slice); isSlice {
				fr.set(ins, Lazy{ins.Type()})
			} else {
				fr.set(ins, fr.get(ins.X))
			}
			return kNext
		}
		if isString(ins.Type()) {
			if _, isSlice := ins.X.Type().Underlying().(*types.Slice); isSlice && false {
				vm.lz.n++
				fr.set(ins, LazyString{id: vm.lz.n})
				return kNext
			}
		}
	case *ssa.BinOp:
		x, y := fr.get(ins.X), fr.get(ins.Y)
		if r, ok := g.lazyBinop(ins, x, y); ok {
			fr.set(ins, r)
			return kNext
		}
	case *ssa.Slice:
		if ss, ok := fr.get(ins.X).(*SymSlice); ok && ss.arr == nil {
			fr.set(ins, g.lazySlice(ss.elem))
			return kNext
		}
		if _, ok := fr.get(ins.X).(LazyString); ok {
			vm.lz.n++
			fr.set(ins, LazyString{id: vm.lz.n})
			return kNext
		}
		if p, ok := fr.get(ins.X).(*Value); ok {
			g.lzDeref(p, ins.Pos())
			g.cell(p)
		}
	case *ssa.Index:
		if _, ok := fr.get(ins.X).(LazyString); ok {
			fr.set(ins, IntV{S: vm.lzFresh(8)})
			return kNext
		}
	case *ssa.Panic:
		g.tpanic("explicit", "panic", ins.Pos())
	}
	return g.visit(fr, ins)
}

type lazyMapIter struct {
	left int
	mt   *types.Map
}

func (g *G) lazyBinop(ins *ssa.BinOp, x, y Value) (Value, bool) {
	vm := g.vm
	lsx, okx := x.(LazyString)
	lsy, oky := y.(LazyString)
	if okx || oky {
		switch ins.Op {
		case token.EQL, token.NEQ:
			var key string
			var id int
			switch {
			case okx && oky:
				key = fmt.Sprintf("%d=%d", lsx.id, lsy.id)
			case okx:
				s, _ := y.(string)
				key = fmt.Sprintf("%d=%q", lsx.id, s)
				id = lsx.id
			default:
				s, _ := x.(string)
				key = fmt.Sprintf("%d=%q", lsy.id, s)
				id = lsy.id
			}
			t, ok := vm.lz.streq[key]
			if !ok {
				t = vm.lzFresh(0)
				vm.lz.streq[key] = t
				if id != 0 {
					// a string equals at most one constant
					for _, o := range vm.lz.strvars[id] {
						vm.addPC(vm.tb.BNot(vm.tb.BAnd(o, t)))
					}
					vm.lz.strvars[id] = append(vm.lz.strvars[id], t)
				}
			}
			if ins.Op == token.NEQ {
				return vm.boolFromTerm(vm.tb.BNot(t)), true
			}
			return BoolV{S: t}, true
		case token.ADD:
			vm.lz.n++
			return LazyString{id: vm.lz.n}, true
		default:
			return BoolV{S: vm.lzFresh(0)}, true
		}
	}
	// arbitrary slices compared with nil
	if ins.Op == token.EQL || ins.Op == token.NEQ {
		var ss *SymSlice
		if a, ok := x.(*SymSlice); ok {
			ss = a
		} else if b, ok := y.(*SymSlice); ok {
			ss = b
		}
		if ss != nil {
			e := vm.tb.Eq(vm.intTerm(ss.len, 64), vm.tb.Const(0, 64))
			if ins.Op == token.NEQ {
				e = vm.tb.BNot(e)
			}
			return vm.boolFromTerm(e), true
		}
	}
	// arbitrary pointers compared with nil
	if px, ok := x.(*Value); ok && (ins.Op == token.EQL || ins.Op == token.NEQ) {
		if py, ok := y.(*Value); ok {
			var f *Term
			switch {
			case px != nil && py == nil:
				f = vm.lz.nilFlag[px]
			case py != nil && px == nil:
				f = vm.lz.nilFlag[py]
			}
			if f != nil {
				if ins.Op == token.NEQ {
					return vm.boolFromTerm(vm.tb.BNot(f)), true
				}
				return BoolV{S: f}, true
			}
		}
	}
	// comparisons involving arbitrary interface values
	ix, okx2 := x.(Iface)
	iy, oky2 := y.(Iface)
	if okx2 && oky2 && (ins.Op == token.EQL || ins.Op == token.NEQ) {
		_, lx := ix.T.(lazyIfaceT)
		_, ly := iy.T.(lazyIfaceT)
		if (lx && iy.T != nil) || (ly && ix.T != nil) {
			return BoolV{S: vm.lzFresh(0)}, true
		}
		if lx || ly {
			// lazy non-nil vs nil
			return mkBool(ins.Op == token.NEQ), true
		}
	}
	// function values / lazy funcs compared with nil
	if _, ok := x.(LazyFunc); ok {
		return mkBool(ins.Op == token.NEQ), true
	}
	if _, ok := y.(LazyFunc); ok {
		return mkBool(ins.Op == token.NEQ), true
	}
	return nil, false
}

func (g *G) prepareCallLazy(fr *Frame, c *ssa.CallCommon) (Value, []Value) {
	if c.Method != nil {
		v := fr.get(c.Value)
		recv, ok := v.(Iface)
		if !ok {
			panic(pathAbort{kind: "CUT", msg: "invoke on non-interface"})
		}
		if recv.T == nil {
			g.tpanic("nil", "method invoked on nil interface", c.Pos())
		}
		if _, isLazy := recv.T.(lazyIfaceT); isLazy {
			sig := c.Method.Type().(*types.Signature)
			var args []Value
			for _, a := range c.Args {
				args = append(args, fr.get(a))
			}
			return LazyFunc{sig: sig}, args
		}
	}
	return g.prepareCall(fr, c)
}

func (g *G) lazyBuiltin(b *ssa.Builtin, args []Value, pos token.Pos, call *ssa.Call) Value {
	vm := g.vm
	switch b.Name() {
	case "len", "cap":
		switch a := args[0].(type) {
		case *MapV, *ChanV:
			t := vm.lzFresh(64)
			vm.addPC(vm.tb.Cmp(OpSLe, vm.tb.Const(0, 64), t))
			vm.addPC(vm.tb.Cmp(OpSLe, t, vm.tb.Const(4, 64)))
			return IntV{S: t}
		case LazyString:
			_ = a
			t := vm.lzFresh(64)
			vm.addPC(vm.tb.Cmp(OpSLe, vm.tb.Const(0, 64), t))
			vm.addPC(vm.tb.Cmp(OpSLe, t, vm.tb.Const(4, 64)))
			return IntV{S: t}
		}
	case "delete", "close", "print", "println":
		return nil
	case "panic":
		g.tpanic("explicit", "panic", pos)
	case "append":
		if _, ok := args[1].(LazyString); ok {
			return args[0]
		}
		s0, l0 := args[0].(*SymSlice)
		s1, l1 := args[1].(*SymSlice)
		if l0 && s0.arr == nil {
			return g.lazySlice(s0.elem)
		}
		if l1 && s1.arr == nil {
			return g.lazySlice(s1.elem)
		}
	case "copy":
		if _, ok := args[1].(LazyString); ok {
			return mkInt(0)
		}
		s0, l0 := args[0].(*SymSlice)
		s1, l1 := args[1].(*SymSlice)
		if (l0 && s0.arr == nil) || (l1 && s1.arr == nil) {
			t := vm.lzFresh(64)
			vm.addPC(vm.tb.Cmp(OpSLe, vm.tb.Const(0, 64), t))
			return IntV{S: t}
		}
	case "recover":
		return Iface{}
	}
	return g.callBuiltin(b, args, pos, call)
}

// ---- roots

type lazyRoot struct {
	fn *ssa.Function
}

func isLockCall(c *ssa.CallCommon) bool {
	if f := c.StaticCallee(); f != nil {
		switch f.String() {
		case "(*sync.Mutex).Lock", "(*sync.Mutex).Unlock", "(*sync.RWMutex).Lock", "(*sync.RWMutex).Unlock", "(*sync.RWMutex).RLock", "(*sync.RWMutex).RUnlock":
			return true
		}
		// promoted-method wrappers of embedded mutexes
		if f.Synthetic != "" && (f.Name() == "Lock" || f.Name() == "Unlock" || f.Name() == "RLock" || f.Name() == "RUnlock") {
			return true
		}
	}
	return false
}

func lazyTargetPkg(path string) bool {
	if !strings.HasPrefix(path, "go.nanomsg.org/mangos/v3") {
		return false
	}
	for _, bad := range []string{"/zzverif", "/internal/test", "/test", "/examples", "/perf", "/macat/macat"} {
		if strings.Contains(path, bad) {
			return false
		}
	}
	return true
}

func findLazyRoots(P *Program) []*ssa.Function {
	all := ssautil.AllFunctions(P.prog)
	var fns []*ssa.Function
	for f := range all {
		top := f
		for top.Parent() != nil {
			top = top.Parent()
		}
		if top.Pkg == nil || !lazyTargetPkg(top.Pkg.Pkg.Path()) || f.Blocks == nil {
			continue
		}
		if f.Synthetic != "" {
			continue
		}
		if strings.HasPrefix(f.Name(), "VH") || strings.HasPrefix(f.Name(), "ZZ") {
			continue
		}
		if pos := P.prog.Fset.Position(f.Pos()); strings.Contains(pos.Filename, "zz_verif") {
			continue
		}
		fns = append(fns, f)
	}
	sort.Slice(fns, func(i, j int) bool { return fns[i].String() < fns[j].String() })
	// direct lock users, static callees within the package, callers
	direct := map[*ssa.Function]bool{}
	callees := map[*ssa.Function][]*ssa.Function{}
	callers := map[*ssa.Function]int{}
	goTarget := map[*ssa.Function]bool{}
	escaped := map[*ssa.Function]bool{}
	inSet := map[*ssa.Function]bool{}
	for _, f := range fns {
		inSet[f] = true
	}
	for _, f := range fns {
		for _, b := range f.Blocks {
			for _, ins := range b.Instrs {
				var cc *ssa.CallCommon
				isGo := false
				switch i := ins.(type) {
				case *ssa.Call:
					cc = &i.Call
				case *ssa.Defer:
					cc = &i.Call
				case *ssa.Go:
					cc = &i.Call
					isGo = true
				}
				if cc != nil {
					if isLockCall(cc) {
						direct[f] = true
					}
					var callee *ssa.Function
					if sc := cc.StaticCallee(); sc != nil {
						callee = sc
					} else if mc, ok := cc.Value.(*ssa.MakeClosure); ok {
						callee = mc.Fn.(*ssa.Function)
					}
					if callee != nil && inSet[callee] {
						if isGo {
							goTarget[callee] = true
						} else {
							callees[f] = append(callees[f], callee)
							callers[callee]++
						}
					}
				}
				// function values that escape (passed as arguments, stored, bound)
				for _, op := range ins.Operands(nil) {
					var fv *ssa.Function
					switch v := (*op).(type) {
					case *ssa.Function:
						fv = v
					case *ssa.MakeClosure:
						fv = v.Fn.(*ssa.Function)
					}
					if fv == nil || !inSet[fv] {
						continue
					}
					if cc != nil && (cc.Value == *op) {
						continue // it is the callee
					}
					if _, isMC := ins.(*ssa.MakeClosure); isMC {
						continue
					}
					escaped[fv] = true
				}
			}
		}
	}
	// closures created by MakeClosure: escaped if any referrer is not a direct call/defer/go of it
	for _, f := range fns {
		for _, b := range f.Blocks {
			for _, ins := range b.Instrs {
				mc, ok := ins.(*ssa.MakeClosure)
				if !ok {
					continue
				}
				fv := mc.Fn.(*ssa.Function)
				if !inSet[fv] || mc.Referrers() == nil {
					continue
				}
				for _, r := range *mc.Referrers() {
					switch rr := r.(type) {
					case *ssa.Call:
						if rr.Call.Value == mc {
							continue
						}
					case *ssa.Defer:
						if rr.Call.Value == mc {
							continue
						}
					case *ssa.Go:
						if rr.Call.Value == mc {
							continue
						}
					case *ssa.DebugRef:
						continue
					}
					escaped[fv] = true
				}
			}
		}
	}
	reaches := map[*ssa.Function]bool{}
	for f := range direct {
		reaches[f] = true
	}
	for changed := true; changed; {
		changed = false
		for _, f := range fns {
			if reaches[f] {
				continue
			}
			for _, c := range callees[f] {
				if reaches[c] {
					reaches[f] = true
					changed = true
					break
				}
			}
		}
	}
	P.reachesLock = reaches
	var roots []*ssa.Function
	for _, f := range fns {
		if !reaches[f] {
			continue
		}
		isRoot := false
		switch {
		case f.Parent() != nil: // anonymous function
			isRoot = goTarget[f] || escaped[f]
		default:
			exported := f.Object() != nil && f.Object().Exported()
			isRoot = exported || goTarget[f] || escaped[f] || callers[f] == 0
		}
		if isRoot {
			roots = append(roots, f)
		}
	}
	return roots
}

// runLazyRoot explores one root function from an arbitrary state.
func runLazyRoot(P *Program, base *RunCfg, root *ssa.Function) (*Report, error) {
	cfg := *base
	cfg.Name = "lazy:" + strings.ReplaceAll(root.String(), "go.nanomsg.org/mangos/v3/", "")
	solver, err := NewSolver("z3", cfg.QueryMs)
	if err != nil {
		return nil, err
	}
	defer solver.Close()
	vm := &VM{prog: P.prog, tb: NewTermBank(), solver: solver, cfg: &cfg, funcsSeen: map[*ssa.Function]bool{}, lazyMode: true, lzRoot: root}
	if os.Getenv("GOSYM_LAZY_ONLY") != "" {
		labelStats = map[string]int{}
	}
	ex := NewExplorer(vm, &cfg)
	rep := ex.Run(func() *PathResult {
		vm.resetPath()
		vm.lazyReset(root)
		body := goFunc(func(g *G) Value {
			var args []Value
			for _, p := range root.Params {
				args = append(args, Value(Lazy{p.Type()}))
			}
			var env []Value
			for _, fv := range root.FreeVars {
				env = append(env, Value(Lazy{fv.Type()}))
			}
			g.callSSADirect(root, args, env, token.NoPos)
			g.lzCheckBalance()
			vm.ex.Reached["returned"]++
			return nil
		})
		m := vm.spawn(body, nil, "main", token.NoPos)
		m.isMain = true
		vm.main = m
		vm.cur = m
		m.wake <- struct{}{}
		res := <-vm.pathDone
		vm.killing = true
		for _, h := range vm.gs {
			if h.state != gDone {
				select {
				case h.wake <- struct{}{}:
				default:
				}
			}
		}
		vm.wg.Wait()
		return res
	})
	if labelStats != nil {
		fmt.Println("decision label stats:", labelStats, "paths", rep.Paths, rep.PathKinds)
	}
	for i, m := range rep.Inconclusive {
		rep.Inconclusive[i] = cfg.Name + ": " + m
	}
	return rep, nil
}

var _ = time.Now
