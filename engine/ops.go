package main

import (
	"fmt"
	"go/token"
	"go/types"
	"math"
	"unicode/utf8"
)

// ---- integer helpers

func (vm *VM) intTerm(v IntV, w int) *Term {
	if v.S != nil {
		return v.S
	}
	if vm.intMode {
		return vm.tb.Const(v.C, SortInt) // C holds sign-extended value
	}
	return vm.tb.Const(v.C, w)
}

func (vm *VM) boolTerm(v BoolV) *Term {
	if v.S != nil {
		return v.S
	}
	return vm.tb.Bool(v.C)
}

func (vm *VM) fromTerm(t *Term) IntV {
	if t.IsConst() {
		return IntV{C: t.val}
	}
	return IntV{S: t}
}

func (vm *VM) boolFromTerm(t *Term) BoolV {
	if t.IsConst() {
		return BoolV{C: t.val != 0}
	}
	return BoolV{S: t}
}

// norm truncates/sign-normalises a concrete integer to its type: stored as
// the sign-extended (signed) or zero-extended (unsigned) 64-bit pattern.
func norm(c uint64, w int, signed bool) uint64 {
	if w >= 64 {
		return c
	}
	if signed {
		return uint64(sext64(c, w))
	}
	return c & mask(w)
}

func (g *G) binop(op token.Token, t types.Type, x, y Value, pos token.Pos) Value {
	vm := g.vm
	switch x := x.(type) {
	case IntV:
		yi, ok := y.(IntV)
		if !ok {
			panic(fmt.Sprintf("binop %v: int vs %T", op, y))
		}
		return g.intBinop(op, t, x, yi, pos)
	case BoolV:
		yb := y.(BoolV)
		if x.S == nil && yb.S == nil {
			switch op {
			case token.EQL:
				return mkBool(x.C == yb.C)
			case token.NEQ:
				return mkBool(x.C != yb.C)
			}
		} else {
			e := vm.tb.Eq(vm.boolTerm(x), vm.boolTerm(yb))
			switch op {
			case token.EQL:
				return vm.boolFromTerm(e)
			case token.NEQ:
				return vm.boolFromTerm(vm.tb.BNot(e))
			}
		}
	case FloatV:
		return g.floatBinop(op, x, y.(FloatV))
	case string, SymStr:
		return g.strBinop(op, x, y)
	}
	switch op {
	case token.EQL:
		return g.equals(t, x, y)
	case token.NEQ:
		b := g.equals(t, x, y)
		return vm.bnot(b)
	}
	panic(unsupported(fmt.Sprintf("binop %v on %T", op, x)))
}

func (vm *VM) bnot(b BoolV) BoolV {
	if b.S == nil {
		return mkBool(!b.C)
	}
	return vm.boolFromTerm(vm.tb.BNot(b.S))
}

func (g *G) intBinop(op token.Token, t types.Type, x, y IntV, pos token.Pos) Value {
	vm := g.vm
	w, signed := intInfo(t)
	if op == token.SHL || op == token.SHR {
		return g.shift(op, w, signed, x, y)
	}
	if x.S == nil && y.S == nil {
		a, b := x.C, y.C
		var r uint64
		switch op {
		case token.ADD:
			r = a + b
		case token.SUB:
			r = a - b
		case token.MUL:
			r = a * b
		case token.QUO:
			if b == 0 {
				g.tpanic("divide", "integer divide by zero", pos)
			}
			if signed {
				r = uint64(int64(a) / int64(b))
			} else {
				r = a / b
			}
		case token.REM:
			if b == 0 {
				g.tpanic("divide", "integer divide by zero", pos)
			}
			if signed {
				r = uint64(int64(a) % int64(b))
			} else {
				r = a % b
			}
		case token.AND:
			r = a & b
		case token.OR:
			r = a | b
		case token.XOR:
			r = a ^ b
		case token.AND_NOT:
			r = a &^ b
		case token.EQL:
			return mkBool(a == b)
		case token.NEQ:
			return mkBool(a != b)
		case token.LSS:
			if signed {
				return mkBool(int64(a) < int64(b))
			}
			return mkBool(a < b)
		case token.LEQ:
			if signed {
				return mkBool(int64(a) <= int64(b))
			}
			return mkBool(a <= b)
		case token.GTR:
			if signed {
				return mkBool(int64(a) > int64(b))
			}
			return mkBool(a > b)
		case token.GEQ:
			if signed {
				return mkBool(int64(a) >= int64(b))
			}
			return mkBool(a >= b)
		default:
			panic(unsupported(fmt.Sprintf("int binop %v", op)))
		}
		return IntV{C: norm(r, w, signed)}
	}
	// symbolic
	tw := w
	if vm.intMode {
		tw = SortInt
	}
	a, b := vm.intTerm(x, w), vm.intTerm(y, w)
	_ = tw
	tb := vm.tb
	var r *Term
	switch op {
	case token.ADD:
		r = tb.Arith(OpAdd, a, b)
	case token.SUB:
		r = tb.Arith(OpSub, a, b)
	case token.MUL:
		r = tb.Arith(OpMul, a, b)
	case token.QUO, token.REM:
		if vm.intMode {
			// division by a non-zero constant stays linear: q = trunc(a / c), r = a - c*q
			if !b.IsConst() || int64(b.val) == 0 {
				panic(unsupported("symbolic division in int mode by a non-constant divisor"))
			}
			c := int64(b.val)
			q := tb.IntQuoConst(a, c)
			if c < 0 {
				q = tb.intArith(OpSub, tb.Const(0, SortInt), tb.IntQuoConst(a, -c))
			}
			if op == token.QUO {
				r = q
			} else {
				r = tb.intArith(OpSub, a, tb.intArith(OpMul, b, q))
			}
			break
		}
		nz := tb.BNot(tb.Eq(b, tb.Const(0, w)))
		if !g.branch(nz, "div-nonzero") {
			g.tpanic("divide", "integer divide by zero", pos)
		}
		switch {
		case op == token.QUO && signed:
			r = tb.Arith(OpSDiv, a, b)
		case op == token.QUO:
			r = tb.Arith(OpUDiv, a, b)
		case signed:
			r = tb.Arith(OpSRem, a, b)
		default:
			r = tb.Arith(OpURem, a, b)
		}
	case token.AND:
		r = tb.Arith(OpAnd, a, b)
	case token.OR:
		r = tb.Arith(OpOr, a, b)
	case token.XOR:
		r = tb.Arith(OpXor, a, b)
	case token.AND_NOT:
		r = tb.Arith(OpAnd, a, tb.Not(b))
	case token.EQL:
		return vm.boolFromTerm(tb.Eq(a, b))
	case token.NEQ:
		return vm.boolFromTerm(tb.BNot(tb.Eq(a, b)))
	case token.LSS:
		return vm.boolFromTerm(tb.Cmp(pick(signed, OpSLt, OpULt), a, b))
	case token.LEQ:
		return vm.boolFromTerm(tb.Cmp(pick(signed, OpSLe, OpULe), a, b))
	case token.GTR:
		return vm.boolFromTerm(tb.Cmp(pick(signed, OpSLt, OpULt), b, a))
	case token.GEQ:
		return vm.boolFromTerm(tb.Cmp(pick(signed, OpSLe, OpULe), b, a))
	default:
		panic(unsupported(fmt.Sprintf("symbolic int binop %v", op)))
	}
	return vm.fromTermT(r, w, signed)
}

// fromTermT wraps a term as IntV, normalising constants to the stored form.
func (vm *VM) fromTermT(t *Term, w int, signed bool) IntV {
	if t.IsConst() {
		if t.w == SortInt {
			return IntV{C: t.val}
		}
		return IntV{C: norm(t.val, w, signed)}
	}
	return IntV{S: t}
}

func pick(c bool, a, b Op) Op {
	if c {
		return a
	}
	return b
}

func (g *G) shift(op token.Token, w int, signed bool, x, y IntV) Value {
	vm := g.vm
	if x.S == nil && y.S == nil {
		n := y.C
		var r uint64
		if op == token.SHL {
			if n >= 64 {
				r = 0
			} else {
				r = x.C << n
			}
		} else {
			if signed {
				if n >= 64 {
					n = 63
				}
				r = uint64(int64(x.C) >> n)
			} else {
				xx := x.C & mask(w)
				if n >= 64 {
					r = 0
				} else {
					r = xx >> n
				}
			}
		}
		return IntV{C: norm(r, w, signed)}
	}
	if vm.intMode {
		panic(unsupported("symbolic shift in int mode"))
	}
	tb := vm.tb
	a := vm.intTerm(x, w)
	var b *Term
	if y.S == nil {
		c := y.C
		if c > uint64(w) {
			c = uint64(w)
		}
		b = tb.Const(c, w)
	} else {
		// clamp the count into w bits: if any high bit set => >= w
		ys := y.S
		if ys.w > w {
			hi := tb.Extract(ys, ys.w-1, w)
			lo := tb.Extract(ys, w-1, 0)
			b = tb.Ite(tb.Eq(hi, tb.Const(0, ys.w-w)), lo, tb.Const(uint64(w), w))
		} else {
			b = tb.ZExt(ys, w)
		}
	}
	var r *Term
	switch {
	case op == token.SHL:
		r = tb.Arith(OpShl, a, b)
	case signed:
		r = tb.Arith(OpAShr, a, b)
	default:
		r = tb.Arith(OpLShr, a, b)
	}
	return vm.fromTermT(r, w, signed)
}

func (g *G) floatBinop(op token.Token, x, y FloatV) Value {
	vm := g.vm
	if x.S == nil && y.S == nil {
		a, b := x.C, y.C
		switch op {
		case token.ADD:
			return FloatV{C: a + b}
		case token.SUB:
			return FloatV{C: a - b}
		case token.MUL:
			return FloatV{C: a * b}
		case token.QUO:
			return FloatV{C: a / b}
		case token.EQL:
			return mkBool(a == b)
		case token.NEQ:
			return mkBool(a != b)
		case token.LSS:
			return mkBool(a < b)
		case token.LEQ:
			return mkBool(a <= b)
		case token.GTR:
			return mkBool(a > b)
		case token.GEQ:
			return mkBool(a >= b)
		}
		panic(unsupported("float op"))
	}
	tb := vm.tb
	a, b := vm.floatTerm(x), vm.floatTerm(y)
	switch op {
	case token.ADD:
		return FloatV{S: tb.bin(OpIAdd, SortReal, a, b)}
	case token.SUB:
		return FloatV{S: tb.bin(OpISub, SortReal, a, b)}
	case token.MUL:
		return FloatV{S: tb.bin(OpIMul, SortReal, a, b)}
	case token.LSS:
		return vm.boolFromTerm(tb.bin(OpILt, 0, a, b))
	case token.LEQ:
		return vm.boolFromTerm(tb.bin(OpILe, 0, a, b))
	case token.GTR:
		return vm.boolFromTerm(tb.bin(OpILt, 0, b, a))
	case token.GEQ:
		return vm.boolFromTerm(tb.bin(OpILe, 0, b, a))
	case token.EQL:
		return vm.boolFromTerm(tb.Eq(a, b))
	case token.NEQ:
		return vm.boolFromTerm(tb.BNot(tb.Eq(a, b)))
	}
	panic(unsupported(fmt.Sprintf("symbolic float op %v", op)))
}

func (vm *VM) floatTerm(v FloatV) *Term {
	if v.S != nil {
		return v.S
	}
	return vm.tb.RConst(v.C)
}

// ---- strings

func strBytes(v Value) []Value {
	switch v := v.(type) {
	case string:
		r := make([]Value, len(v))
		for i := 0; i < len(v); i++ {
			r[i] = mkInt(uint64(v[i]))
		}
		return r
	case SymStr:
		return []Value(v)
	}
	panic(fmt.Sprintf("strBytes of %T", v))
}

func mkStr(bs []Value) Value {
	buf := make([]byte, len(bs))
	for i, b := range bs {
		iv := b.(IntV)
		if iv.S != nil {
			c := make(SymStr, len(bs))
			copy(c, bs)
			return c
		}
		buf[i] = byte(iv.C)
	}
	return string(buf)
}

func strLen(v Value) int {
	switch v := v.(type) {
	case string:
		return len(v)
	case SymStr:
		return len(v)
	}
	panic(fmt.Sprintf("strLen of %T", v))
}

func (g *G) strBinop(op token.Token, x, y Value) Value {
	vm := g.vm
	xs, xok := x.(string)
	ys, yok := y.(string)
	if xok && yok {
		switch op {
		case token.ADD:
			return xs + ys
		case token.EQL:
			return mkBool(xs == ys)
		case token.NEQ:
			return mkBool(xs != ys)
		case token.LSS:
			return mkBool(xs < ys)
		case token.LEQ:
			return mkBool(xs <= ys)
		case token.GTR:
			return mkBool(xs > ys)
		case token.GEQ:
			return mkBool(xs >= ys)
		}
	}
	xb, yb := strBytes(x), strBytes(y)
	switch op {
	case token.ADD:
		return mkStr(append(append([]Value{}, xb...), yb...))
	case token.EQL, token.NEQ:
		var r BoolV
		if len(xb) != len(yb) {
			r = mkBool(false)
		} else {
			t := vm.tb.True
			for i := range xb {
				t = vm.tb.BAnd(t, vm.tb.Eq(vm.intTerm(xb[i].(IntV), 8), vm.intTerm(yb[i].(IntV), 8)))
			}
			r = vm.boolFromTerm(t)
		}
		if op == token.NEQ {
			return vm.bnot(r)
		}
		return r
	}
	panic(unsupported("ordering on symbolic strings"))
}

// ---- equality

func (g *G) equals(t types.Type, x, y Value) BoolV {
	vm := g.vm
	switch x := x.(type) {
	case IntV:
		yi := y.(IntV)
		if x.S == nil && yi.S == nil {
			return mkBool(x.C == yi.C)
		}
		w := 64
		if t != nil && isInteger(t) {
			w, _ = intInfo(t)
		} else if x.S != nil {
			w = x.S.w
		} else {
			w = yi.S.w
		}
		return vm.boolFromTerm(vm.tb.Eq(vm.intTerm(x, w), vm.intTerm(yi, w)))
	case BoolV:
		yb := y.(BoolV)
		if x.S == nil && yb.S == nil {
			return mkBool(x.C == yb.C)
		}
		return vm.boolFromTerm(vm.tb.Eq(vm.boolTerm(x), vm.boolTerm(yb)))
	case FloatV:
		return g.floatBinop(token.EQL, x, y.(FloatV)).(BoolV)
	case string, SymStr:
		return g.strBinop(token.EQL, x, y).(BoolV)
	case *Value:
		return mkBool(x == y.(*Value))
	case *ChanV:
		return mkBool(x == y.(*ChanV))
	case *MapV:
		return mkBool(x == y.(*MapV))
	case Struct:
		ys := y.(Struct)
		var st *types.Struct
		if t != nil {
			st, _ = t.Underlying().(*types.Struct)
		}
		r := mkBool(true)
		for i := range x {
			var ft types.Type
			if st != nil {
				if st.Field(i).Name() == "_" {
					continue
				}
				ft = st.Field(i).Type()
			}
			r = vm.band(r, g.equals(ft, x[i], ys[i]))
		}
		return r
	case Array:
		ya := y.(Array)
		var et types.Type
		if t != nil {
			if at, ok := t.Underlying().(*types.Array); ok {
				et = at.Elem()
			}
		}
		r := mkBool(true)
		for i := range x {
			r = vm.band(r, g.equals(et, x[i], ya[i]))
		}
		return r
	case Iface:
		yi := y.(Iface)
		if x.T == nil || yi.T == nil {
			return mkBool(x.T == nil && yi.T == nil)
		}
		if !types.Identical(x.T, yi.T) {
			return mkBool(false)
		}
		if !types.Comparable(x.T) {
			g.tpanic("uncomparable", "comparing uncomparable type "+x.T.String(), token.NoPos)
		}
		return g.equals(x.T, x.V, yi.V)
	case []Value:
		// only comparison with nil is legal
		ys, _ := y.([]Value)
		return mkBool(x == nil && ys == nil)
	}
	if isNilFunc(x) || isNilFunc(y) {
		return mkBool(isNilFunc(x) && isNilFunc(y))
	}
	panic(unsupported(fmt.Sprintf("equals on %T", x)))
}

func (vm *VM) band(a, b BoolV) BoolV {
	if a.S == nil {
		if !a.C {
			return a
		}
		return b
	}
	if b.S == nil {
		if !b.C {
			return b
		}
		return a
	}
	return vm.boolFromTerm(vm.tb.BAnd(a.S, b.S))
}

func (vm *VM) bor(a, b BoolV) BoolV {
	if a.S == nil {
		if a.C {
			return a
		}
		return b
	}
	if b.S == nil {
		if b.C {
			return b
		}
		return a
	}
	return vm.boolFromTerm(vm.tb.BOr(a.S, b.S))
}

// ---- unary

func (g *G) unopArith(op token.Token, t types.Type, x Value) Value {
	vm := g.vm
	switch op {
	case token.SUB:
		switch x := x.(type) {
		case IntV:
			w, signed := intInfo(t)
			if x.S == nil {
				return IntV{C: norm(-x.C, w, signed)}
			}
			return vm.fromTermT(vm.tb.Neg(x.S), w, signed)
		case FloatV:
			if x.S == nil {
				return FloatV{C: -x.C}
			}
			return FloatV{S: vm.tb.bin(OpISub, SortReal, vm.tb.RConst(0), x.S)}
		}
	case token.NOT:
		return vm.bnot(x.(BoolV))
	case token.XOR:
		xi := x.(IntV)
		w, signed := intInfo(t)
		if xi.S == nil {
			return IntV{C: norm(^xi.C, w, signed)}
		}
		return vm.fromTermT(vm.tb.Not(xi.S), w, signed)
	}
	panic(unsupported(fmt.Sprintf("unop %v on %T", op, x)))
}

// ---- conversions

func (g *G) conv(dst, src types.Type, x Value) Value {
	vm := g.vm
	ud, us := dst.Underlying(), src.Underlying()
	switch ud := ud.(type) {
	case *types.Pointer, *types.Signature, *types.Struct, *types.Array, *types.Map, *types.Chan, *types.Interface:
		return x
	case *types.Slice:
		// string -> []byte / []rune
		if isString(src) {
			eb, _ := ud.Elem().Underlying().(*types.Basic)
			if eb != nil && eb.Kind() == types.Uint8 {
				bs := strBytes(x)
				out := make([]Value, len(bs))
				copy(out, bs)
				return out
			}
			s, ok := x.(string)
			if !ok {
				panic(unsupported("[]rune of symbolic string"))
			}
			var out []Value
			for _, r := range s {
				out = append(out, mkInt(uint64(r)))
			}
			if out == nil {
				out = []Value{}
			}
			return out
		}
		return x
	case *types.Basic:
		switch {
		case ud.Kind() == types.UnsafePointer:
			return x
		case ud.Info()&types.IsString != 0:
			switch us := us.(type) {
			case *types.Basic:
				if us.Info()&types.IsString != 0 {
					return x
				}
				if us.Info()&types.IsInteger != 0 {
					xi := x.(IntV)
					if xi.S != nil {
						panic(unsupported("string(symbolic rune)"))
					}
					return string(rune(int64(xi.C)))
				}
			case *types.Slice:
				var bs []Value
				switch s := x.(type) {
				case []Value:
					bs = s
				case *SymSlice:
					bs = g.concretizeSlice(s)
				}
				eb := us.Elem().Underlying().(*types.Basic)
				if eb.Kind() == types.Uint8 {
					return mkStr(bs)
				}
				var rs []rune
				for _, b := range bs {
					iv := b.(IntV)
					if iv.S != nil {
						panic(unsupported("string([]rune symbolic)"))
					}
					rs = append(rs, rune(int64(iv.C)))
				}
				return string(rs)
			}
		case ud.Info()&types.IsInteger != 0:
			dw, dsigned := intInfo(ud)
			switch xv := x.(type) {
			case IntV:
				sw, ssigned := intInfo(us)
				if xv.S == nil {
					return IntV{C: norm(xv.C, dw, dsigned)}
				}
				if vm.intMode {
					return xv
				}
				var t *Term
				switch {
				case dw <= sw:
					t = vm.tb.Extract(xv.S, dw-1, 0)
				case ssigned:
					t = vm.tb.SExt(xv.S, dw)
				default:
					t = vm.tb.ZExt(xv.S, dw)
				}
				return vm.fromTermT(t, dw, dsigned)
			case FloatV:
				if xv.S == nil {
					f := xv.C
					if dsigned {
						return IntV{C: norm(uint64(int64(f)), dw, true)}
					}
					return IntV{C: norm(uint64(f), dw, false)}
				}
				if !vm.intMode {
					panic(unsupported("symbolic float->int outside int mode"))
				}
				return IntV{S: vm.tb.ToInt(xv.S)}
			case *Value: // unsafe.Pointer -> uintptr
				return IntV{C: 0}
			}
		case ud.Info()&types.IsFloat != 0:
			switch xv := x.(type) {
			case FloatV:
				if ud.Kind() == types.Float32 && xv.S == nil {
					return FloatV{C: float64(float32(xv.C))}
				}
				return xv
			case IntV:
				if xv.S == nil {
					_, ssigned := intInfo(us)
					if ssigned {
						return FloatV{C: float64(int64(xv.C))}
					}
					return FloatV{C: float64(xv.C)}
				}
				if !vm.intMode {
					panic(unsupported("symbolic int->float outside int mode"))
				}
				return FloatV{S: vm.tb.ToReal(xv.S)}
			}
		case ud.Info()&types.IsBoolean != 0:
			return x
		}
	}
	panic(unsupported(fmt.Sprintf("conversion %v -> %v (%T)", src, dst, x)))
}

func isNilFunc(v Value) bool { return isNilFn(v) }

var _ = math.Abs
var _ = utf8.RuneError
