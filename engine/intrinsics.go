package main

import (
	"fmt"
	"go/constant"
	"go/token"
	"go/types"
	"sort"
	"strconv"
	"strings"
	"sync"

	"golang.org/x/tools/go/ssa"
	"golang.org/x/tools/go/ssa/ssautil"
)

type Intrinsic func(g *G, args []Value, pos token.Pos) Value

const verifPkg = "go.nanomsg.org/mangos/v3/zzverif/verif"

func isMangosPkg(path string) bool {
	return strings.HasPrefix(path, "go.nanomsg.org/mangos/v3") && !strings.HasPrefix(path, "go.nanomsg.org/mangos/v3/zzverif")
}

// isEnvPkg: the stubs standing for the operating system and third-party libraries below the transports. What
// the library hands them must still be the library's to hand over: a stub reading a released buffer is a use
// after release by the library.
func isEnvPkg(path string) bool {
	for _, s := range []string{"/zzverif/vws", "/zzverif/vnet", "/zzverif/vt"} {
		if strings.HasSuffix(path, s) {
			return true
		}
	}
	return false
}

var intrinsics map[string]Intrinsic

func lookupIntrinsic(fn *ssa.Function) Intrinsic {
	if intrinsics == nil {
		return nil
	}
	name := fn.String()
	if in, ok := intrinsics[name]; ok {
		return in
	}
	if strings.HasPrefix(name, verifPkg+".init") {
		return func(g *G, args []Value, pos token.Pos) Value { return nil }
	}
	if strings.HasPrefix(name, verifPkg+".") || strings.HasPrefix(name, "(*"+verifPkg+".") {
		return func(g *G, args []Value, pos token.Pos) Value {
			panic(unsupported("verif API function not implemented in VM: " + name))
		}
	}
	return nil
}

func fieldIndex(t types.Type, name string) int {
	if p, ok := t.Underlying().(*types.Pointer); ok {
		t = p.Elem()
	}
	st := t.Underlying().(*types.Struct)
	for i := 0; i < st.NumFields(); i++ {
		if st.Field(i).Name() == name {
			return i
		}
	}
	panic("no field " + name + " in " + t.String())
}

func (vm *VM) lookupType(pkg, name string) types.Type {
	p := vm.prog.ImportedPackage(pkg)
	if p == nil {
		panic(unsupported("package not loaded: " + pkg))
	}
	return p.Type(name).Type()
}

func (vm *VM) lookupFunc(pkg, name string) *ssa.Function {
	p := vm.prog.ImportedPackage(pkg)
	if p == nil {
		panic(unsupported("package not loaded: " + pkg))
	}
	f := p.Func(name)
	if f == nil {
		panic(unsupported("function not found: " + pkg + "." + name))
	}
	return f
}

func (vm *VM) inputName(name string) string {
	n := vm.nameCtr[name]
	vm.nameCtr[name] = n + 1
	if n == 0 {
		return name
	}
	return fmt.Sprintf("%s#%d", name, n)
}

func (vm *VM) freshInput(name string, w int, signed bool) IntV {
	nm := vm.inputName(name)
	if vm.ex.concModel != nil {
		v, have := vm.ex.concModel[nm]
		if !have && vm.ex.random != nil {
			v = randomValue(vm.ex.random, w)
			vm.ex.concModel[nm] = v
		}
		vm.inputs = append(vm.inputs, inputRec{name: nm})
		if w == 0 {
			return IntV{C: v}
		}
		return IntV{C: norm(v, w, signed)}
	}
	tw := w
	if vm.intMode && w > 0 {
		tw = SortInt
	}
	t := vm.tb.Var(nm, tw)
	vm.inputs = append(vm.inputs, inputRec{name: nm, t: t})
	if vm.intMode && w > 0 {
		// range constraint of the Go type
		lo, hi := int64(0), int64(0)
		if signed {
			if w >= 64 {
				lo, hi = -(1 << 62), 1<<62
			} else {
				lo, hi = -(1 << uint(w-1)), 1<<uint(w-1)-1
			}
		} else {
			if w >= 63 {
				hi = 1 << 62
			} else {
				hi = 1<<uint(w) - 1
			}
		}
		vm.addPC(vm.tb.Cmp(OpILe, vm.tb.Const(uint64(lo), SortInt), t))
		vm.addPC(vm.tb.Cmp(OpILe, t, vm.tb.Const(uint64(hi), SortInt)))
	}
	return IntV{S: t}
}

func argStr(v Value) string {
	s, ok := v.(string)
	if !ok {
		panic(unsupported("verif API needs a constant string name"))
	}
	return s
}

func argInt(g *G, v Value) int {
	iv := v.(IntV)
	if iv.S != nil {
		return int(int64(g.concretize(iv, "api-int")))
	}
	return int(int64(iv.C))
}

func nilErr() Value { return Iface{} }

func (g *G) mkError(msg Value) Value {
	f := g.vm.lookupFunc("errors", "New")
	return g.call(f, []Value{msg}, token.NoPos)
}

func init() {
	I := map[string]Intrinsic{}
	V := func(name string, f Intrinsic) { I[verifPkg+"."+name] = f }

	// ---------- verif API
	V("Bool", func(g *G, a []Value, pos token.Pos) Value {
		iv := g.vm.freshInput(argStr(a[0]), 0, false)
		if iv.S == nil {
			return mkBool(iv.C != 0)
		}
		return BoolV{S: iv.S}
	})
	V("Byte", func(g *G, a []Value, pos token.Pos) Value { return g.vm.freshInput(argStr(a[0]), 8, false) })
	V("Uint16", func(g *G, a []Value, pos token.Pos) Value { return g.vm.freshInput(argStr(a[0]), 16, false) })
	V("Uint32", func(g *G, a []Value, pos token.Pos) Value { return g.vm.freshInput(argStr(a[0]), 32, false) })
	V("Uint64", func(g *G, a []Value, pos token.Pos) Value { return g.vm.freshInput(argStr(a[0]), 64, false) })
	V("Int", func(g *G, a []Value, pos token.Pos) Value { return g.vm.freshInput(argStr(a[0]), 64, true) })
	V("Int64", func(g *G, a []Value, pos token.Pos) Value { return g.vm.freshInput(argStr(a[0]), 64, true) })
	V("Duration", func(g *G, a []Value, pos token.Pos) Value { return g.vm.freshInput(argStr(a[0]), 64, true) })
	V("Bytes", func(g *G, a []Value, pos token.Pos) Value {
		name := argStr(a[0])
		n := argInt(g, a[1])
		s := make([]Value, n)
		for i := range s {
			s[i] = g.vm.freshInput(fmt.Sprintf("%s[%d]", name, i), 8, false)
		}
		return s
	})
	V("Choice", func(g *G, a []Value, pos token.Pos) Value {
		name := g.vm.inputName("choice:" + argStr(a[0]))
		n := argInt(g, a[1])
		if n <= 0 {
			panic(pathAbort{kind: "INFEASIBLE", msg: "Choice over empty range"})
		}
		return mkInt(uint64(g.vm.choose(n, name, 'H')))
	})
	V("BoundaryCount", func(g *G, a []Value, pos token.Pos) Value {
		return mkInt(uint64(len(boundaryLens(g.vm.prog, argStr(a[0]), argInt(g, a[1])))))
	})
	V("Boundary", func(g *G, a []Value, pos token.Pos) Value {
		l := boundaryLens(g.vm.prog, argStr(a[0]), argInt(g, a[1]))
		i := argInt(g, a[2])
		if i < 0 || i >= len(l) {
			panic(pathAbort{kind: "INFEASIBLE", msg: "Boundary index out of range"})
		}
		return mkInt(uint64(l[i]))
	})
	V("Param", func(g *G, a []Value, pos token.Pos) Value {
		if v, ok := g.vm.cfg.Params[argStr(a[0])]; ok {
			return mkInt(uint64(int64(v)))
		}
		return a[1]
	})
	V("Assume", func(g *G, a []Value, pos token.Pos) Value {
		c := a[0].(BoolV)
		if c.S == nil {
			if !c.C {
				panic(pathAbort{kind: "INFEASIBLE", msg: "assume(false)"})
			}
			return nil
		}
		if g.vm.check(c.S) == Unsat {
			panic(pathAbort{kind: "INFEASIBLE", msg: "assumption unsatisfiable"})
		}
		g.vm.addPC(c.S)
		return nil
	})
	V("Assert", func(g *G, a []Value, pos token.Pos) Value {
		g.assert(a[0].(BoolV), argStr(a[1]), pos)
		return nil
	})
	V("AssertVM", func(g *G, a []Value, pos token.Pos) Value {
		g.vm.ex.vmOnly[argStr(a[1])] = true
		g.assert(a[0].(BoolV), argStr(a[1]), pos)
		return nil
	})
	V("Fail", func(g *G, a []Value, pos token.Pos) Value {
		g.assert(mkBool(false), argStr(a[0]), pos)
		return nil
	})
	V("Reach", func(g *G, a []Value, pos token.Pos) Value {
		g.vm.ex.Reached[argStr(a[0])]++
		return nil
	})
	V("Observe", func(g *G, a []Value, pos token.Pos) Value {
		s := argStr(a[0])
		if vs, ok := a[1].([]Value); ok {
			for _, v := range vs {
				s += " " + obsFmt(v)
			}
		}
		if len(g.vm.observes) < 400 {
			g.vm.observes = append(g.vm.observes, s)
		}
		g.vm.logEvent("observe: " + s)
		return nil
	})
	V("Go", func(g *G, a []Value, pos token.Pos) Value {
		name := argStr(a[0])
		ng := g.vm.spawn(a[1], nil, "harness:"+name, pos)
		ng.helper = true
		if g.vm.race != nil {
			g.vm.race.fork(g, ng)
		}
		p := new(Value)
		*p = Struct{(*ChanV)(nil)}
		g.vm.side[p] = ng
		return p
	})
	I["(*"+verifPkg+".G).Done"] = func(g *G, a []Value, pos token.Pos) Value {
		h := g.vm.side[a[0].(*Value)].(*G)
		if h.state == gDone && g.vm.race != nil {
			g.vm.race.join(g, h)
		}
		return mkBool(h.state == gDone)
	}
	I["(*"+verifPkg+".G).Blocked"] = func(g *G, a []Value, pos token.Pos) Value {
		h := g.vm.side[a[0].(*Value)].(*G)
		return mkBool(h.state == gBlocked && !h.ready())
	}
	V("Quiesce", func(g *G, a []Value, pos token.Pos) Value { g.quiesce(); return nil })
	V("QuiesceKeep", func(g *G, a []Value, pos token.Pos) Value { g.quiesceK(true); return nil })
	V("RunOutClock", func(g *G, a []Value, pos token.Pos) Value {
		for i := 0; ; i++ {
			g.quiesce()
			if !g.vm.fireSomeTimer() {
				break
			}
			if i > 200 {
				panic(pathAbort{kind: "UNWIND", msg: "RunOutClock: more than 200 timer firings"})
			}
		}
		return nil
	})
	V("FireTimer", func(g *G, a []Value, pos token.Pos) Value {
		g.quiesce()
		ok := g.vm.fireSomeTimer()
		g.quiesce()
		return mkBool(ok)
	})
	V("RunClockTo", func(g *G, a []Value, pos token.Pos) Value {
		// fires every pending timer whose deadline is not after t (concrete ones in deadline order), letting everything
		// run in between; then the clock reads at least t. Timers armed meanwhile are included. With a symbolic t or a
		// symbolic deadline "due by t" is decided by the solver under the path condition (both outcomes explored when
		// both are feasible); among symbolic due timers the order of firing is the order of arming.
		vm := g.vm
		tv := a[0].(IntV)
		due := func(tm *TimerV) bool {
			if tv.S == nil && tm.deadline.S == nil {
				return int64(tm.deadline.C) <= int64(tv.C)
			}
			tb := vm.tb
			d, t := vm.intTerm(tm.deadline, 64), vm.intTerm(tv, 64)
			var c *Term
			if vm.intMode {
				c = tb.Cmp(OpILe, d, t)
			} else {
				c = tb.Cmp(OpSLe, d, t)
			}
			return g.branch(c, "timer-due")
		}
		for i := 0; i < 64; i++ {
			g.quiesce()
			var best *TimerV
			for _, tm := range vm.pendingTimers() {
				if !due(tm) {
					continue
				}
				if best == nil {
					best = tm
				} else if best.deadline.S == nil && tm.deadline.S == nil && int64(tm.deadline.C) < int64(best.deadline.C) {
					best = tm
				}
			}
			if best == nil {
				break
			}
			vm.fireTimer(best)
		}
		g.quiesce()
		if vm.now.S == nil && tv.S == nil {
			if int64(vm.now.C) < int64(tv.C) {
				vm.now = IntV{C: tv.C}
			}
		} else {
			tb := vm.tb
			n, t := vm.intTerm(vm.now, 64), vm.intTerm(tv, 64)
			var c *Term
			if vm.intMode {
				c = tb.Cmp(OpILt, n, t)
			} else {
				c = tb.Cmp(OpSLt, n, t)
			}
			vm.now = vm.fromTermT(tb.Ite(c, t, n), 64, true)
		}
		return nil
	})
	V("FireTimerNow", func(g *G, a []Value, pos token.Pos) Value {
		// fires one pending timer without waiting for quiescence before or after: usable from any goroutine,
		// so that a timer callback races with whatever else is going on
		return mkBool(g.vm.fireSomeTimer())
	})
	V("FireTimerN", func(g *G, a []Value, pos token.Pos) Value {
		g.quiesce()
		p := g.vm.pendingTimers()
		i := argInt(g, a[0])
		if i < 0 || i >= len(p) {
			return mkBool(false)
		}
		g.vm.fireTimer(p[i])
		g.quiesce()
		return mkBool(true)
	})
	V("PendingCallbackTimers", func(g *G, a []Value, pos token.Pos) Value {
		// timers armed with time.AfterFunc (stoppable by their owner), as opposed to time.After channels
		n := 0
		for _, t := range g.vm.pendingTimers() {
			if t.fn != nil {
				n++
			}
		}
		return mkInt(uint64(n))
	})
	V("PendingTimers", func(g *G, a []Value, pos token.Pos) Value { return mkInt(uint64(len(g.vm.pendingTimers()))) })
	V("Now", func(g *G, a []Value, pos token.Pos) Value { return g.vm.now })
	V("LiveGoroutines", func(g *G, a []Value, pos token.Pos) Value {
		n := 0
		for _, h := range g.vm.gs {
			if h.state != gDone && !h.isMain && !h.helper {
				n++
			}
		}
		return mkInt(uint64(n))
	})
	V("AllocBytes", func(g *G, a []Value, pos token.Pos) Value {
		if g.vm.allocSym == nil {
			return mkInt(0)
		}
		return g.vm.fromTermT(g.vm.allocSym, 64, true)
	})
	V("Owned", func(g *G, a []Value, pos token.Pos) Value {
		if g.vm.ledger != nil {
			g.vm.ledger.markOwned(g, a[0])
		}
		return nil
	})
	V("Released", func(g *G, a []Value, pos token.Pos) Value {
		if g.vm.ledger == nil {
			panic(unsupported("verif.Released without ledger"))
		}
		p := msgPtr(a[0])
		if p == nil {
			return mkBool(false)
		}
		mi := g.vm.ledger.msgs[p]
		return mkBool(mi != nil && mi.released)
	})
	V("Concretize", func(g *G, a []Value, pos token.Pos) Value {
		return mkInt(g.concretize(a[0].(IntV), "harness"))
	})
	V("NoPreempt", func(g *G, a []Value, pos token.Pos) Value {
		g.vm.noPreempt++
		defer func() { g.vm.noPreempt-- }()
		g.call(a[0], nil, pos)
		return nil
	})
	V("And", func(g *G, a []Value, pos token.Pos) Value { return g.vm.band(a[0].(BoolV), a[1].(BoolV)) })
	V("Or", func(g *G, a []Value, pos token.Pos) Value { return g.vm.bor(a[0].(BoolV), a[1].(BoolV)) })
	V("Not", func(g *G, a []Value, pos token.Pos) Value { return g.vm.bnot(a[0].(BoolV)) })
	V("Implies", func(g *G, a []Value, pos token.Pos) Value { return g.vm.bor(g.vm.bnot(a[0].(BoolV)), a[1].(BoolV)) })
	V("Iff", func(g *G, a []Value, pos token.Pos) Value { return g.equals(nil, a[0], a[1]) })
	V("All", func(g *G, a []Value, pos token.Pos) Value {
		r := mkBool(true)
		if s, ok := a[0].([]Value); ok {
			for _, x := range s {
				r = g.vm.band(r, x.(BoolV))
			}
		}
		return r
	})
	V("BytesEq", func(g *G, a []Value, pos token.Pos) Value {
		x, y := g.asSlice(a[0]), g.asSlice(a[1])
		if len(x) != len(y) {
			return mkBool(false)
		}
		r := mkBool(true)
		for i := range x {
			r = g.vm.band(r, g.equals(types.Typ[types.Uint8], x[i], y[i]))
		}
		return r
	})
	V("IteByte", func(g *G, a []Value, pos token.Pos) Value {
		c := a[0].(BoolV)
		if c.S == nil {
			if c.C {
				return a[1]
			}
			return a[2]
		}
		return g.vm.fromTermT(g.vm.tb.Ite(c.S, g.vm.intTerm(a[1].(IntV), 8), g.vm.intTerm(a[2].(IntV), 8)), 8, false)
	})
	V("InVM", func(g *G, a []Value, pos token.Pos) Value { return mkBool(true) })
	V("Blocked", nil)
	delete(I, verifPkg+".Blocked")

	// ---------- sync
	I["(*sync.Mutex).Lock"] = func(g *G, a []Value, pos token.Pos) Value { g.mutexLock(a[0].(*Value), pos); return nil }
	I["(*sync.Mutex).Unlock"] = func(g *G, a []Value, pos token.Pos) Value { g.mutexUnlock(a[0].(*Value), pos); return nil }
	I["(*sync.Mutex).TryLock"] = func(g *G, a []Value, pos token.Pos) Value {
		m := g.vm.mutexOf(a[0].(*Value))
		if m.locked || m.readers > 0 {
			return mkBool(false)
		}
		g.mutexLock(a[0].(*Value), pos)
		return mkBool(true)
	}
	I["(*sync.RWMutex).Lock"] = I["(*sync.Mutex).Lock"]
	I["(*sync.RWMutex).Unlock"] = I["(*sync.Mutex).Unlock"]
	I["(*sync.RWMutex).RLock"] = func(g *G, a []Value, pos token.Pos) Value { g.mutexRLock(a[0].(*Value), pos); return nil }
	I["(*sync.RWMutex).RUnlock"] = func(g *G, a []Value, pos token.Pos) Value { g.mutexRUnlock(a[0].(*Value), pos); return nil }

	condL := func(g *G, p *Value) Iface {
		t := g.vm.lookupType("sync", "Cond")
		st := (*p).(Struct)
		return st[fieldIndex(t, "L")].(Iface)
	}
	I["(*sync.Cond).Wait"] = func(g *G, a []Value, pos token.Pos) Value {
		p := a[0].(*Value)
		cs := g.vm.condOf(p)
		L := condL(g, p)
		cw := &condWaiter{g: g}
		cs.waiters = append(cs.waiters, cw)
		g.vm.noPreempt++
		g.invoke(L, "Unlock")
		g.vm.noPreempt--
		g.block("Cond.Wait", func() bool { return cw.woken })
		if g.vm.race != nil && cw.wakeVC != nil {
			g.vm.race.acquireVC(g, cw.wakeVC)
		}
		g.invoke(L, "Lock")
		return nil
	}
	I["(*sync.Cond).Signal"] = func(g *G, a []Value, pos token.Pos) Value {
		cs := g.vm.condOf(a[0].(*Value))
		g.schedPoint("signal")
		for len(cs.waiters) > 0 {
			w := cs.waiters[0]
			cs.waiters = cs.waiters[1:]
			if !w.woken {
				w.woken = true
				if g.vm.race != nil {
					w.wakeVC = g.vm.race.snapshotRelease(g)
				}
				break
			}
		}
		return nil
	}
	I["(*sync.Cond).Broadcast"] = func(g *G, a []Value, pos token.Pos) Value {
		cs := g.vm.condOf(a[0].(*Value))
		g.schedPoint("broadcast")
		for _, w := range cs.waiters {
			w.woken = true
			if g.vm.race != nil {
				w.wakeVC = g.vm.race.snapshotRelease(g)
			}
		}
		cs.waiters = nil
		return nil
	}
	I["(*sync.Once).Do"] = func(g *G, a []Value, pos token.Pos) Value {
		p := a[0].(*Value)
		st, _ := g.vm.side[p].(*onceSt)
		if st == nil {
			st = &onceSt{}
			g.vm.side[p] = st
		}
		g.schedPoint("once")
		if st.done {
			if g.vm.race != nil {
				g.vm.race.acquire(g, &st.sync)
			}
			return nil
		}
		if st.running {
			g.block("Once.Do (running elsewhere)", func() bool { return st.done })
			if g.vm.race != nil {
				g.vm.race.acquire(g, &st.sync)
			}
			return nil
		}
		st.running = true
		g.call(a[1], nil, pos)
		st.done = true
		if g.vm.race != nil {
			g.vm.race.release(g, &st.sync)
		}
		return nil
	}
	wgOf := func(g *G, p *Value) *wgSt {
		st, _ := g.vm.side[p].(*wgSt)
		if st == nil {
			st = &wgSt{}
			g.vm.side[p] = st
		}
		return st
	}
	wgAdd := func(g *G, p *Value, n int, pos token.Pos) {
		st := wgOf(g, p)
		g.schedPoint("wg")
		st.n += n
		if g.vm.race != nil {
			g.vm.race.release(g, &st.sync)
		}
		if st.n < 0 {
			g.tpanic("waitgroup", "sync: negative WaitGroup counter", pos)
		}
	}
	I["(*sync.WaitGroup).Add"] = func(g *G, a []Value, pos token.Pos) Value {
		wgAdd(g, a[0].(*Value), argInt(g, a[1]), pos)
		return nil
	}
	I["(*sync.WaitGroup).Done"] = func(g *G, a []Value, pos token.Pos) Value {
		wgAdd(g, a[0].(*Value), -1, pos)
		return nil
	}
	I["(*sync.WaitGroup).Wait"] = func(g *G, a []Value, pos token.Pos) Value {
		st := wgOf(g, a[0].(*Value))
		g.schedPoint("wgwait")
		if st.n != 0 {
			g.block("WaitGroup.Wait", func() bool { return st.n == 0 })
		}
		if g.vm.race != nil {
			g.vm.race.acquire(g, &st.sync)
		}
		return nil
	}
	poolOf := func(g *G, p *Value) *poolSt {
		st, _ := g.vm.side[p].(*poolSt)
		if st == nil {
			st = &poolSt{}
			g.vm.side[p] = st
		}
		return st
	}
	I["(*sync.Pool).Get"] = func(g *G, a []Value, pos token.Pos) Value {
		p := a[0].(*Value)
		st := poolOf(g, p)
		g.schedPoint("pool")
		k := -1
		if g.vm.cfg.PoolAny {
			c := g.vm.choose(len(st.items)+1, "pool-get", 'P')
			if c < len(st.items) {
				k = c
			}
		} else if len(st.items) > 0 {
			k = len(st.items) - 1
		}
		if k >= 0 {
			it := st.items[k]
			st.items = append(st.items[:k:k], st.items[k+1:]...)
			if g.vm.race != nil {
				g.vm.race.acquireVC(g, st.vcs[k])
				st.vcs = append(st.vcs[:k:k], st.vcs[k+1:]...)
			}
			if g.vm.ledger != nil {
				g.vm.ledger.poolGet(g, it)
			}
			return it
		}
		t := g.vm.lookupType("sync", "Pool")
		nf := (*p).(Struct)[fieldIndex(t, "New")]
		if isNilFn(nf) {
			return Iface{}
		}
		r := g.call(nf, nil, pos)
		if g.vm.ledger != nil {
			g.vm.ledger.poolNew(g, r)
		}
		return r
	}
	I["(*sync.Pool).Put"] = func(g *G, a []Value, pos token.Pos) Value {
		st := poolOf(g, a[0].(*Value))
		g.schedPoint("pool")
		if g.vm.ledger != nil {
			g.vm.ledger.poolPut(g, a[1], pos)
		}
		st.items = append(st.items, a[1])
		if g.vm.race != nil {
			st.vcs = append(st.vcs, g.vm.race.snapshotRelease(g))
		}
		return nil
	}

	// ---------- sync/atomic
	atomicRMW := func(w int, signed bool, f func(g *G, old IntV, args []Value) (IntV, Value)) Intrinsic {
		return func(g *G, a []Value, pos token.Pos) Value {
			p := a[0].(*Value)
			if p == nil {
				g.tpanic("nil", "nil pointer dereference (atomic)", pos)
			}
			g.schedPoint("atomic")
			if g.vm.race != nil {
				g.vm.race.atomicOp(g, p)
			}
			if g.vm.ledger != nil && g.vm.lenient == 0 {
				// ownership only: an atomic operation is no plain access for the race detector
				g.vm.ledger.access(g, p, true, pos)
			}
			nv, ret := f(g, (*p).(IntV), a)
			*p = nv
			return ret
		}
	}
	for _, ty := range []struct {
		n      string
		w      int
		signed bool
		t      types.Type
	}{{"Int32", 32, true, types.Typ[types.Int32]}, {"Uint32", 32, false, types.Typ[types.Uint32]}, {"Int64", 64, true, types.Typ[types.Int64]}, {"Uint64", 64, false, types.Typ[types.Uint64]}, {"Uintptr", 64, false, types.Typ[types.Uintptr]}} {
		ty := ty
		I["sync/atomic.Add"+ty.n] = atomicRMW(ty.w, ty.signed, func(g *G, old IntV, a []Value) (IntV, Value) {
			nv := g.intBinop(token.ADD, ty.t, old, a[1].(IntV), token.NoPos).(IntV)
			return nv, nv
		})
		I["sync/atomic.Load"+ty.n] = atomicRMW(ty.w, ty.signed, func(g *G, old IntV, a []Value) (IntV, Value) { return old, old })
		I["sync/atomic.Store"+ty.n] = atomicRMW(ty.w, ty.signed, func(g *G, old IntV, a []Value) (IntV, Value) { return a[1].(IntV), nil })
		I["sync/atomic.Swap"+ty.n] = atomicRMW(ty.w, ty.signed, func(g *G, old IntV, a []Value) (IntV, Value) { return a[1].(IntV), old })
		I["sync/atomic.CompareAndSwap"+ty.n] = atomicRMW(ty.w, ty.signed, func(g *G, old IntV, a []Value) (IntV, Value) {
			eq := g.equals(ty.t, old, a[1])
			var take bool
			if eq.S == nil {
				take = eq.C
			} else {
				take = g.branch(eq.S, "cas")
			}
			if take {
				return a[2].(IntV), mkBool(true)
			}
			return old, mkBool(false)
		})
	}

	// ---------- time
	mkTimerHandle := func(g *G, t *TimerV, fnName string) *Value {
		tt := g.vm.lookupType("time", "Timer")
		p := new(Value)
		st := zero(tt).(Struct)
		if t.ch != nil {
			st[fieldIndex(tt, "C")] = t.ch
		}
		*p = st
		g.vm.side[p] = t
		t.handle = p
		return p
	}
	I["time.After"] = func(g *G, a []Value, pos token.Pos) Value {
		ch := g.vm.newChan(1, g.vm.lookupType("time", "Time"))
		g.vm.newTimer(a[0].(IntV), nil, ch, g, pos)
		return ch
	}
	I["time.AfterFunc"] = func(g *G, a []Value, pos token.Pos) Value {
		t := g.vm.newTimer(a[0].(IntV), a[1], nil, g, pos)
		return mkTimerHandle(g, t, "AfterFunc")
	}
	I["time.NewTimer"] = func(g *G, a []Value, pos token.Pos) Value {
		ch := g.vm.newChan(1, g.vm.lookupType("time", "Time"))
		t := g.vm.newTimer(a[0].(IntV), nil, ch, g, pos)
		return mkTimerHandle(g, t, "NewTimer")
	}
	I["(*time.Timer).Stop"] = func(g *G, a []Value, pos token.Pos) Value {
		p := a[0].(*Value)
		if p == nil {
			g.tpanic("nil", "nil pointer dereference (Timer.Stop)", pos)
		}
		t, ok := g.vm.side[p].(*TimerV)
		if !ok {
			g.tpanic("explicit", "time: Stop called on uninitialized Timer", pos)
		}
		g.schedPoint("timerstop")
		was := t.active
		t.active = false
		return mkBool(was)
	}
	I["(*time.Timer).Reset"] = func(g *G, a []Value, pos token.Pos) Value {
		p := a[0].(*Value)
		t, ok := g.vm.side[p].(*TimerV)
		if !ok {
			g.tpanic("explicit", "time: Reset called on uninitialized Timer", pos)
		}
		g.schedPoint("timerreset")
		was := t.active
		t.active = true
		t.fired = false
		t.deadline = g.vm.addDur(g.vm.now, a[1].(IntV))
		found := false
		for _, x := range g.vm.timers {
			if x == t {
				found = true
			}
		}
		if !found {
			g.vm.timers = append(g.vm.timers, t)
		}
		return mkBool(was)
	}
	I["time.Sleep"] = func(g *G, a []Value, pos token.Pos) Value {
		t := g.vm.newTimer(a[0].(IntV), nil, nil, g, pos)
		g.block("time.Sleep", func() bool { return t.fired })
		return nil
	}
	I["time.Now"] = func(g *G, a []Value, pos token.Pos) Value { return g.vm.timeValue(g.vm.now) }
	I["time.Since"] = func(g *G, a []Value, pos token.Pos) Value {
		t := a[0].(Struct)
		return g.intBinop(token.SUB, types.Typ[types.Int64], g.vm.now, t[1].(IntV), pos)
	}
	I["(time.Time).Sub"] = func(g *G, a []Value, pos token.Pos) Value {
		return g.intBinop(token.SUB, types.Typ[types.Int64], a[0].(Struct)[1].(IntV), a[1].(Struct)[1].(IntV), pos)
	}
	I["(time.Time).Add"] = func(g *G, a []Value, pos token.Pos) Value {
		return g.vm.timeValue(g.intBinop(token.ADD, types.Typ[types.Int64], a[0].(Struct)[1].(IntV), a[1].(IntV), pos).(IntV))
	}
	I["(time.Time).After"] = func(g *G, a []Value, pos token.Pos) Value {
		return g.intBinop(token.GTR, types.Typ[types.Int64], a[0].(Struct)[1].(IntV), a[1].(Struct)[1].(IntV), pos)
	}
	I["(time.Time).Before"] = func(g *G, a []Value, pos token.Pos) Value {
		return g.intBinop(token.LSS, types.Typ[types.Int64], a[0].(Struct)[1].(IntV), a[1].(Struct)[1].(IntV), pos)
	}
	I["(time.Time).IsZero"] = func(g *G, a []Value, pos token.Pos) Value {
		return g.intBinop(token.EQL, types.Typ[types.Int64], a[0].(Struct)[1].(IntV), IntV{}, pos)
	}

	// ---------- randomness
	I["math/rand.Float64"] = func(g *G, a []Value, pos token.Pos) Value {
		vm := g.vm
		vm.ex.stubsUsed["math/rand.Float64"]++
		if !vm.intMode || vm.ex.concModel != nil {
			return FloatV{C: 0.5}
		}
		nm := vm.inputName("rand.Float64")
		t := vm.tb.Var(nm, SortReal)
		vm.inputs = append(vm.inputs, inputRec{name: nm, t: t})
		vm.addPC(vm.tb.bin(OpILe, 0, vm.tb.RConst(0), t))
		vm.addPC(vm.tb.bin(OpILt, 0, t, vm.tb.RConst(1)))
		return FloatV{S: t}
	}
	randRead := func(g *G, a []Value, pos token.Pos) Value {
		g.vm.ex.stubsUsed["rand.Read"]++
		b := a[0].([]Value)
		for i := range b {
			if g.vm.cfg.SymRand {
				b[i] = g.vm.freshInput(fmt.Sprintf("rand.Read[%d]", i), 8, false)
			} else {
				b[i] = mkInt(uint64(0x11 * (i + 1) & 0xff))
			}
		}
		return Tuple{mkInt(uint64(len(b))), nilErr()}
	}
	I["crypto/rand.Read"] = randRead
	I["math/rand.Read"] = randRead

	// ---------- bytealg / strings helpers that are assembly in the real library
	I["internal/bytealg.IndexByte"] = func(g *G, a []Value, pos token.Pos) Value {
		return g.indexByte(a[0].([]Value), a[1].(IntV))
	}
	I["internal/bytealg.IndexByteString"] = func(g *G, a []Value, pos token.Pos) Value {
		return g.indexByte(strBytes(a[0]), a[1].(IntV))
	}
	I["strings.Index"] = func(g *G, a []Value, pos token.Pos) Value {
		return mkInt(uint64(int64(strings.Index(argStr(a[0]), argStr(a[1])))))
	}
	I["strings.Contains"] = func(g *G, a []Value, pos token.Pos) Value {
		return mkBool(strings.Contains(argStr(a[0]), argStr(a[1])))
	}
	I["strings.IndexByte"] = func(g *G, a []Value, pos token.Pos) Value {
		return g.indexByte(strBytes(a[0]), a[1].(IntV))
	}
	// time.quote only decorates error messages (ranges over the runes of the offending text)
	I["time.quote"] = func(g *G, a []Value, pos token.Pos) Value { return "\"<text>\"" }
	// strings.Builder guards against copies and builds its result with package unsafe
	I["(*strings.Builder).copyCheck"] = func(g *G, a []Value, pos token.Pos) Value { return nil }
	I["(*strings.Builder).String"] = func(g *G, a []Value, pos token.Pos) Value {
		st := (*a[0].(*Value)).(Struct)
		t := g.vm.lookupType("strings", "Builder")
		bs, _ := st[fieldIndex(t, "buf")].([]Value)
		c := make([]Value, len(bs))
		copy(c, bs)
		return mkStr(c)
	}
	I["internal/stringslite.Clone"] = func(g *G, a []Value, pos token.Pos) Value { return a[0] }
	I["strings.Clone"] = func(g *G, a []Value, pos token.Pos) Value { return a[0] }
	I["internal/bytealg.CountString"] = func(g *G, a []Value, pos token.Pos) Value {
		s := argStr(a[0])
		c := byte(a[1].(IntV).C)
		n := 0
		for i := 0; i < len(s); i++ {
			if s[i] == c {
				n++
			}
		}
		return mkInt(uint64(n))
	}
	I["internal/bytealg.Count"] = func(g *G, a []Value, pos token.Pos) Value {
		n := 0
		c := a[1].(IntV)
		for _, b := range a[0].([]Value) {
			eq := g.equals(types.Typ[types.Uint8], b, c)
			if (eq.S == nil && eq.C) || (eq.S != nil && g.branch(eq.S, "count")) {
				n++
			}
		}
		return mkInt(uint64(n))
	}
	I["internal/bytealg.IndexString"] = func(g *G, a []Value, pos token.Pos) Value {
		return mkInt(uint64(int64(strings.Index(argStr(a[0]), argStr(a[1])))))
	}
	I["internal/bytealg.Compare"] = func(g *G, a []Value, pos token.Pos) Value {
		x, y := mkStr(a[0].([]Value)), mkStr(a[1].([]Value))
		xs, ok1 := x.(string)
		ys, ok2 := y.(string)
		if !ok1 || !ok2 {
			panic(unsupported("bytes.Compare on symbolic bytes"))
		}
		return mkInt(uint64(int64(strings.Compare(xs, ys))))
	}
	I["strings.ToLower"] = func(g *G, a []Value, pos token.Pos) Value { return strings.ToLower(argStr(a[0])) }
	I["strings.ToUpper"] = func(g *G, a []Value, pos token.Pos) Value { return strings.ToUpper(argStr(a[0])) }
	I["strings.TrimSpace"] = func(g *G, a []Value, pos token.Pos) Value { return strings.TrimSpace(argStr(a[0])) }
	I["internal/bytealg.MakeNoZero"] = func(g *G, a []Value, pos token.Pos) Value {
		n := argInt(g, a[0])
		s := make([]Value, n)
		for i := range s {
			s[i] = IntV{}
		}
		return s
	}
	I["runtime.Gosched"] = func(g *G, a []Value, pos token.Pos) Value { g.schedPoint("gosched"); return nil }
	I["runtime.KeepAlive"] = func(g *G, a []Value, pos token.Pos) Value { return nil }

	// ---------- fmt (mini)
	I["fmt.Sprintf"] = func(g *G, a []Value, pos token.Pos) Value { return g.sprintf(argStr(a[0]), a[1]) }
	I["fmt.Errorf"] = func(g *G, a []Value, pos token.Pos) Value { return g.mkError(g.sprintf(argStr(a[0]), a[1])) }
	I["fmt.Sprint"] = func(g *G, a []Value, pos token.Pos) Value { return g.sprint(a[0], false) }
	I["fmt.Sprintln"] = func(g *G, a []Value, pos token.Pos) Value { return g.sprint(a[0], true) }
	fprint := func(g *G, w Value, s Value) Value {
		bs := strBytes(s)
		out := make([]Value, len(bs))
		copy(out, bs)
		r := g.invoke(w.(Iface), "Write", out)
		return r
	}
	I["fmt.Fprintf"] = func(g *G, a []Value, pos token.Pos) Value { return fprint(g, a[0], g.sprintf(argStr(a[1]), a[2])) }
	I["fmt.Fprint"] = func(g *G, a []Value, pos token.Pos) Value { return fprint(g, a[0], g.sprint(a[1], false)) }
	I["fmt.Fprintln"] = func(g *G, a []Value, pos token.Pos) Value { return fprint(g, a[0], g.sprint(a[1], true)) }
	I["fmt.Println"] = func(g *G, a []Value, pos token.Pos) Value { return Tuple{mkInt(0), nilErr()} }
	I["fmt.Printf"] = func(g *G, a []Value, pos token.Pos) Value { return Tuple{mkInt(0), nilErr()} }

	// ---------- encoding/binary Read/Write (layout from the actual Go types)
	I["encoding/binary.Read"] = func(g *G, a []Value, pos token.Pos) Value {
		return g.binaryRead(a[0].(Iface), a[1].(Iface), a[2].(Iface), pos)
	}
	I["encoding/binary.Write"] = func(g *G, a []Value, pos token.Pos) Value {
		return g.binaryWrite(a[0].(Iface), a[1].(Iface), a[2].(Iface), pos)
	}

	I["strconv.Atoi"] = nil
	delete(I, "strconv.Atoi")
	intrinsics = I
	registerEnvIntrinsics(I)
}

// obsFmt mirrors verif.fmtObs of the native harness API.
func obsFmt(v Value) string {
	var t types.Type
	if ifc, ok := v.(Iface); ok {
		if ifc.T == nil {
			return "nil"
		}
		if types.Implements(ifc.T, errorIface) {
			return "err"
		}
		t, v = ifc.T, ifc.V
	}
	switch x := v.(type) {
	case nil:
		return "nil"
	case IntV:
		if x.S != nil {
			return "sym(" + x.S.String() + ")"
		}
		if t != nil && isInteger(t) {
			if _, signed := intInfo(t); !signed {
				return fmt.Sprintf("%d", x.C)
			}
		}
		return fmt.Sprintf("%d", int64(x.C))
	case BoolV:
		if x.S != nil {
			return "sym(" + x.S.String() + ")"
		}
		return fmt.Sprintf("%v", x.C)
	case string:
		return strconv.Quote(x)
	case []Value:
		var sb strings.Builder
		sb.WriteString("[")
		for i, b := range x {
			if i > 0 {
				sb.WriteString(" ")
			}
			if iv, ok := b.(IntV); ok && iv.S == nil {
				fmt.Fprintf(&sb, "%d", iv.C&0xff)
			} else {
				sb.WriteString("sym")
			}
		}
		sb.WriteString("]")
		return sb.String()
	}
	return fmt.Sprintf("?%T", v)
}

var errorIface = types.Universe.Lookup("error").Type().Underlying().(*types.Interface)

func (g *G) asSlice(v Value) []Value {
	switch v := v.(type) {
	case []Value:
		return v
	case *SymSlice:
		return g.concretizeSlice(v)
	}
	panic(fmt.Sprintf("asSlice of %T", v))
}

func (g *G) assert(c BoolV, label string, pos token.Pos) {
	vm := g.vm
	ex := vm.ex
	ex.Asserts[label]++
	ex.Obligations++
	if c.S == nil {
		if !c.C {
			ex.recordViolation(vm, g, label, "assertion failed (concrete on this path)", vm.posStr(pos), nil)
		} else {
			ex.Discharged++
		}
		return
	}
	neg := vm.tb.BNot(c.S)
	r1 := vm.check(neg)
	if vm.solver2 != nil {
		r2 := vm.solver2.Check(vm.pc, neg)
		ex.CrossChecked++
		if r1 != Unknown && r2 != Unknown && r1 != r2 {
			ex.Inconclusive = append(ex.Inconclusive, fmt.Sprintf("SOLVER-DISAGREE on assertion %s: %s says %s, %s says %s", label, vm.solver.name, r1, vm.solver2.name, r2))
		}
		if r2 == Unknown {
			ex.CrossUnknown++
		}
	}
	switch r1 {
	case Sat:
		m := vm.modelAfterSat()
		ex.recordViolation(vm, g, label, "assertion can fail: "+c.S.String(), vm.posStr(pos), m)
	case Unsat:
		ex.Discharged++
	default:
		ex.Inconclusive = append(ex.Inconclusive, "solver unknown on assertion "+label)
	}
	// continue under the assertion (if feasible)
	if vm.check(c.S) == Unsat {
		panic(pathAbort{kind: "INFEASIBLE", msg: "assertion always fails here; path ends"})
	}
	vm.addPC(c.S)
}

func (g *G) indexByte(b []Value, c IntV) Value {
	for i := range b {
		eq := g.equals(types.Typ[types.Uint8], b[i], c)
		var hit bool
		if eq.S == nil {
			hit = eq.C
		} else {
			hit = g.branch(eq.S, "indexbyte")
		}
		if hit {
			return mkInt(uint64(i))
		}
	}
	return mkInt(^uint64(0))
}

// ---- mini fmt

func (g *G) fmtArg(v Value, verb byte, flags string) []Value {
	if ifc, ok := v.(Iface); ok {
		if ifc.T == nil {
			return strBytes("<nil>")
		}
		// error / Stringer
		if verb == 'v' || verb == 's' || verb == 'w' || verb == 'q' {
			if m := g.vm.lookupMethod(ifc.T, "Error"); m != nil {
				r := g.call(m, []Value{ifc.V}, token.NoPos)
				return strBytes(r)
			}
			if m := g.vm.lookupMethod(ifc.T, "String"); m != nil {
				if m.Signature.Params().Len() == 0 {
					r := g.call(m, []Value{ifc.V}, token.NoPos)
					return strBytes(r)
				}
			}
		}
		return g.fmtArg2(ifc.V, ifc.T, verb, flags)
	}
	return g.fmtArg2(v, nil, verb, flags)
}

func (g *G) fmtArg2(v Value, t types.Type, verb byte, flags string) []Value {
	vm := g.vm
	switch x := v.(type) {
	case string:
		if verb == 'q' {
			return strBytes(fmt.Sprintf("%q", x))
		}
		if verb == 'x' {
			return strBytes(fmt.Sprintf("%x", x))
		}
		return strBytes(x)
	case SymStr:
		return []Value(x)
	case BoolV:
		if x.S == nil {
			return strBytes(fmt.Sprint(x.C))
		}
		return strBytes("‹symbool›")
	case IntV:
		signed := true
		w := 64
		if t != nil && isInteger(t) {
			w, signed = intInfo(t)
		}
		if x.S == nil {
			f := "%" + flags + string(verb)
			if verb == 'v' || verb == 's' {
				f = "%" + flags + "d"
			}
			if signed {
				return strBytes(fmt.Sprintf(f, int64(x.C)))
			}
			return strBytes(fmt.Sprintf(f, x.C))
		}
		if verb == 'x' && w == 8 && (flags == "02" || flags == "") {
			tb := vm.tb
			hexd := func(n *Term) Value {
				// n: 4-bit
				n8 := tb.ZExt(n, 8)
				lt := tb.Cmp(OpULt, n8, tb.Const(10, 8))
				return IntV{S: tb.Ite(lt, tb.Arith(OpAdd, n8, tb.Const('0', 8)), tb.Arith(OpAdd, n8, tb.Const('a'-10, 8)))}
			}
			hi := tb.Extract(x.S, 7, 4)
			lo := tb.Extract(x.S, 3, 0)
			if flags == "02" {
				return []Value{hexd(hi), hexd(lo)}
			}
		}
		vm.ex.stubsUsed["fmt:%"+string(verb)+" of symbolic int → placeholder"]++
		return strBytes("‹sym›")
	case FloatV:
		if x.S == nil {
			return strBytes(fmt.Sprint(x.C))
		}
		return strBytes("‹symfloat›")
	case []Value:
		if verb == 's' || verb == 'x' || verb == 'q' {
			if s, ok := mkStr(x).(string); ok {
				return strBytes(fmt.Sprintf("%"+string(verb), s))
			}
		}
		return strBytes(valStr(x))
	case *Value:
		if x == nil {
			return strBytes("<nil>")
		}
		return strBytes("0xc000000000")
	}
	if verb == 'T' && t != nil {
		return strBytes(t.String())
	}
	return strBytes(valStr(v))
}

func (g *G) sprintf(format string, argsV Value) Value {
	var args []Value
	if s, ok := argsV.([]Value); ok {
		args = s
	}
	var out []Value
	ai := 0
	for i := 0; i < len(format); i++ {
		c := format[i]
		if c != '%' {
			out = append(out, mkInt(uint64(c)))
			continue
		}
		i++
		if i >= len(format) {
			break
		}
		if format[i] == '%' {
			out = append(out, mkInt('%'))
			continue
		}
		st := i
		for i < len(format) && strings.IndexByte("0123456789+-# .", format[i]) >= 0 {
			i++
		}
		if i >= len(format) {
			break
		}
		flags := format[st:i]
		verb := format[i]
		if ai >= len(args) {
			out = append(out, strBytes("%!"+string(verb)+"(MISSING)")...)
			continue
		}
		a := args[ai]
		ai++
		if verb == 'T' {
			if ifc, ok := a.(Iface); ok && ifc.T != nil {
				out = append(out, strBytes(ifc.T.String())...)
				continue
			}
		}
		out = append(out, g.fmtArg(a, verb, flags)...)
	}
	return mkStr(out)
}

func (g *G) sprint(argsV Value, ln bool) Value {
	var out []Value
	if args, ok := argsV.([]Value); ok {
		for i, a := range args {
			if i > 0 && ln {
				out = append(out, mkInt(' '))
			}
			out = append(out, g.fmtArg(a, 'v', "")...)
		}
	}
	if ln {
		out = append(out, mkInt('\n'))
	}
	return mkStr(out)
}

// ---- encoding/binary

type binField struct {
	path []int
	w    int // bytes
}

func binLayout(t types.Type, path []int, out *[]binField) bool {
	switch u := t.Underlying().(type) {
	case *types.Basic:
		if u.Info()&types.IsInteger == 0 && u.Kind() != types.Bool {
			return false
		}
		w := 1
		if u.Kind() != types.Bool {
			bw, _ := intInfo(u)
			if u.Kind() == types.Int || u.Kind() == types.Uint || u.Kind() == types.Uintptr {
				return false // not fixed-size for encoding/binary
			}
			w = bw / 8
		}
		*out = append(*out, binField{path: append([]int(nil), path...), w: w})
		return true
	case *types.Struct:
		for i := 0; i < u.NumFields(); i++ {
			if !binLayout(u.Field(i).Type(), append(path, i), out) {
				return false
			}
		}
		return true
	case *types.Array:
		for i := 0; i < int(u.Len()); i++ {
			if !binLayout(u.Elem(), append(path, i), out) {
				return false
			}
		}
		return true
	}
	return false
}

func cellAt(p *Value, path []int) *Value {
	cur := p
	for _, i := range path {
		switch c := (*cur).(type) {
		case Struct:
			cur = &c[i]
		case Array:
			cur = &c[i]
		default:
			panic("cellAt: not aggregate")
		}
	}
	return cur
}

func (g *G) byteOrderBig(order Iface) bool {
	if order.T == nil {
		g.tpanic("nil", "nil ByteOrder", token.NoPos)
	}
	return strings.Contains(order.T.String(), "bigEndian")
}

func (g *G) binaryRead(r, order, data Iface, pos token.Pos) Value {
	vm := g.vm
	pt, ok := data.T.Underlying().(*types.Pointer)
	if !ok {
		panic(unsupported("binary.Read into " + data.T.String()))
	}
	var fields []binField
	if !binLayout(pt.Elem(), nil, &fields) {
		panic(unsupported("binary.Read layout of " + pt.Elem().String()))
	}
	total := 0
	for _, f := range fields {
		total += f.w
	}
	bs := make([]Value, total)
	for i := range bs {
		bs[i] = IntV{}
	}
	res := g.call(vm.lookupFunc("io", "ReadFull"), []Value{r, bs}, pos).(Tuple)
	if e := res[1].(Iface); e.T != nil {
		return e
	}
	big := g.byteOrderBig(order)
	p := data.V.(*Value)
	off := 0
	for _, f := range fields {
		cell := cellAt(p, f.path)
		var acc *Term
		conc := true
		var cv uint64
		for k := 0; k < f.w; k++ {
			idx := off + k
			if !big {
				idx = off + f.w - 1 - k
			}
			b := bs[idx].(IntV)
			if b.S != nil {
				conc = false
			}
			bt := vm.intTerm(b, 8)
			if acc == nil {
				acc = bt
			} else {
				acc = vm.tb.Concat(acc, bt)
			}
			cv = cv<<8 | (b.C & 0xff)
		}
		_, isBool := (*cell).(BoolV)
		switch {
		case isBool:
			if conc {
				*cell = mkBool(cv != 0)
			} else {
				*cell = vm.boolFromTerm(vm.tb.BNot(vm.tb.Eq(acc, vm.tb.Const(0, 8))))
			}
		case conc:
			// need signedness: look at existing cell is IntV; width f.w*8. Stored normalised by static type: find type
			*cell = IntV{C: cv}
		default:
			*cell = IntV{S: acc}
		}
		off += f.w
	}
	// normalise signed concrete values by their static types
	normaliseInts(pt.Elem(), p)
	return nilErr()
}

func normaliseInts(t types.Type, p *Value) {
	switch u := t.Underlying().(type) {
	case *types.Basic:
		if iv, ok := (*p).(IntV); ok && iv.S == nil && u.Info()&types.IsInteger != 0 {
			w, s := intInfo(u)
			*p = IntV{C: norm(iv.C, w, s)}
		}
	case *types.Struct:
		st := (*p).(Struct)
		for i := range st {
			normaliseInts(u.Field(i).Type(), &st[i])
		}
	case *types.Array:
		a := (*p).(Array)
		for i := range a {
			normaliseInts(u.Elem(), &a[i])
		}
	}
}

func (g *G) binaryWrite(w, order, data Iface, pos token.Pos) Value {
	vm := g.vm
	t := data.T
	var p *Value
	if pt, ok := t.Underlying().(*types.Pointer); ok {
		t = pt.Elem()
		p = data.V.(*Value)
	} else {
		p = new(Value)
		*p = data.V
	}
	var fields []binField
	if !binLayout(t, nil, &fields) {
		panic(unsupported("binary.Write layout of " + t.String()))
	}
	big := g.byteOrderBig(order)
	var bs []Value
	for _, f := range fields {
		cell := cellAt(p, f.path)
		var iv IntV
		switch c := (*cell).(type) {
		case IntV:
			iv = c
		case BoolV:
			if c.S != nil {
				panic(unsupported("binary.Write of symbolic bool"))
			}
			if c.C {
				iv = IntV{C: 1}
			}
		}
		for k := 0; k < f.w; k++ {
			sh := k
			if big {
				sh = f.w - 1 - k
			}
			if iv.S == nil {
				bs = append(bs, mkInt((iv.C>>(8*uint(sh)))&0xff))
			} else {
				bs = append(bs, vm.fromTermT(vm.tb.Extract(iv.S, 8*sh+7, 8*sh), 8, false))
			}
		}
	}
	res := g.invoke(w, "Write", bs).(Tuple)
	return res[1]
}

// boundaryLens derives candidate lengths from the code under test: every integer constant c with 2 <= c <= max
// that occurs as an operand in a (non-harness) function of the listed packages contributes c-1, c, c+1; 0 and 1 are
// always included. Recomputed from the current source on every run, so a size threshold introduced by a change
// (an inline-buffer length, a "large message" cut-off, a pool class) puts its own neighbours on the list.
var boundaryCache sync.Map

func boundaryLens(prog *ssa.Program, scope string, max int) []int {
	key := fmt.Sprintf("%s|%d", scope, max)
	if v, ok := boundaryCache.Load(key); ok {
		return v.([]int)
	}
	want := map[string]bool{}
	for _, p := range strings.Split(scope, ",") {
		want[strings.TrimSpace(p)] = true
	}
	set := map[int]bool{0: true, 1: true}
	add := func(c int64) {
		if c >= 2 && c <= int64(max) {
			for _, d := range []int64{c - 1, c, c + 1} {
				if d <= int64(max) {
					set[int(d)] = true
				}
			}
		}
	}
	for f := range ssautil.AllFunctions(prog) {
		top := f
		for top.Parent() != nil {
			top = top.Parent()
		}
		if top.Pkg == nil || !want[top.Pkg.Pkg.Path()] || f.Blocks == nil {
			continue
		}
		if strings.HasPrefix(top.Name(), "VH") || strings.HasPrefix(top.Name(), "ZZ") {
			continue
		}
		if pos := prog.Fset.Position(f.Pos()); strings.Contains(pos.Filename, "zz_verif") || strings.HasSuffix(pos.Filename, "_test.go") {
			continue
		}
		for _, b := range f.Blocks {
			for _, ins := range b.Instrs {
				for _, op := range ins.Operands(nil) {
					if op == nil || *op == nil {
						continue
					}
					if c, ok := (*op).(*ssa.Const); ok && c.Value != nil && c.Value.Kind() == constant.Int {
						if v, exact := constant.Int64Val(c.Value); exact {
							add(v)
						}
					}
				}
			}
		}
	}
	var out []int
	for v := range set {
		out = append(out, v)
	}
	sort.Ints(out)
	boundaryCache.Store(key, out)
	return out
}
