package main

// SMT terms: hash-consed, constant-folded. Sorts: Bool (w==0), BitVec w (w>0),
// Int (w==-1), Real (w==-2).

import (
	"fmt"
	"math/big"
	"strings"
)

type Op uint8

const (
	OpVar Op = iota
	OpConst
	OpAdd
	OpSub
	OpMul
	OpUDiv
	OpURem
	OpSDiv
	OpSRem
	OpAnd
	OpOr
	OpXor
	OpNot // bvnot
	OpNeg
	OpShl
	OpLShr
	OpAShr
	OpConcat
	OpExtract // aux: hi, lo
	OpZExt    // aux: n extra bits
	OpSExt
	OpEq
	OpULt
	OpULe
	OpSLt
	OpSLe
	OpBAnd
	OpBOr
	OpBNot
	OpIte
	// Int / Real
	OpIAdd
	OpISub
	OpIMul
	OpIDiv // SMT-LIB div (floor for a positive divisor)
	OpILt
	OpILe
	OpToReal
	OpToInt
	OpRConst // real constant, name holds decimal/rational text
)

const (
	SortBool = 0
	SortInt  = -1
	SortReal = -2
)

type Term struct {
	op     Op
	w      int // sort
	args   []*Term
	val    uint64 // const value (BV/Bool/Int small)
	a1, a2 int    // aux
	name   string
	id     int
	defd   bool // emitted to solver as define-fun / declare
}

type TermBank struct {
	tab   map[string]*Term
	n     int
	vars  []*Term
	True  *Term
	False *Term
}

func NewTermBank() *TermBank {
	tb := &TermBank{tab: map[string]*Term{}}
	tb.True = tb.mk(&Term{op: OpConst, w: 0, val: 1})
	tb.False = tb.mk(&Term{op: OpConst, w: 0, val: 0})
	return tb
}

func (tb *TermBank) mk(t *Term) *Term {
	var sb strings.Builder
	fmt.Fprintf(&sb, "%d:%d:%d:%d:%d:%s", t.op, t.w, t.val, t.a1, t.a2, t.name)
	for _, a := range t.args {
		fmt.Fprintf(&sb, ",%d", a.id)
	}
	k := sb.String()
	if o, ok := tb.tab[k]; ok {
		return o
	}
	tb.n++
	t.id = tb.n
	tb.tab[k] = t
	return t
}

func mask(w int) uint64 {
	if w >= 64 {
		return ^uint64(0)
	}
	return (uint64(1) << uint(w)) - 1
}

func sext64(v uint64, w int) int64 {
	if w >= 64 {
		return int64(v)
	}
	sh := uint(64 - w)
	return int64(v<<sh) >> sh
}

func (tb *TermBank) Var(name string, w int) *Term {
	n := tb.n
	t := tb.mk(&Term{op: OpVar, w: w, name: name})
	if tb.n != n {
		tb.vars = append(tb.vars, t)
	}
	return t
}

func (tb *TermBank) Const(v uint64, w int) *Term {
	if w == 0 {
		if v != 0 {
			return tb.True
		}
		return tb.False
	}
	if w > 0 {
		v &= mask(w)
	}
	return tb.mk(&Term{op: OpConst, w: w, val: v})
}

func (tb *TermBank) Bool(b bool) *Term {
	if b {
		return tb.True
	}
	return tb.False
}

func (t *Term) IsConst() bool { return t.op == OpConst }

func (tb *TermBank) bin(op Op, w int, a, b *Term) *Term {
	return tb.mk(&Term{op: op, w: w, args: []*Term{a, b}})
}

// BV arithmetic with folding.
func (tb *TermBank) Arith(op Op, a, b *Term) *Term {
	w := a.w
	if a.w != b.w {
		panic(fmt.Sprintf("term width mismatch %d vs %d op %d", a.w, b.w, op))
	}
	if w < 0 {
		return tb.intArith(op, a, b)
	}
	if a.IsConst() && b.IsConst() {
		x, y := a.val, b.val
		var r uint64
		ok := true
		switch op {
		case OpAdd:
			r = x + y
		case OpSub:
			r = x - y
		case OpMul:
			r = x * y
		case OpAnd:
			r = x & y
		case OpOr:
			r = x | y
		case OpXor:
			r = x ^ y
		case OpUDiv:
			if y == 0 {
				r = mask(w)
			} else {
				r = x / y
			}
		case OpURem:
			if y == 0 {
				r = x
			} else {
				r = x % y
			}
		case OpSDiv:
			if y == 0 {
				ok = false
			} else {
				r = uint64(sext64(x, w) / sext64(y, w))
			}
		case OpSRem:
			if y == 0 {
				ok = false
			} else {
				r = uint64(sext64(x, w) % sext64(y, w))
			}
		case OpShl:
			if y >= uint64(w) {
				r = 0
			} else {
				r = x << y
			}
		case OpLShr:
			if y >= uint64(w) {
				r = 0
			} else {
				r = x >> y
			}
		case OpAShr:
			if y >= uint64(w) {
				y = uint64(w - 1)
			}
			r = uint64(sext64(x, w) >> y)
		default:
			ok = false
		}
		if ok {
			return tb.Const(r, w)
		}
	}
	// light simplifications
	switch op {
	case OpAdd, OpOr, OpXor:
		if a.IsConst() && a.val == 0 {
			return b
		}
		if b.IsConst() && b.val == 0 {
			return a
		}
	case OpSub, OpShl, OpLShr, OpAShr:
		if b.IsConst() && b.val == 0 {
			return a
		}
	case OpAnd:
		if a.IsConst() && a.val == 0 {
			return a
		}
		if b.IsConst() && b.val == 0 {
			return b
		}
		if a.IsConst() && a.val == mask(w) {
			return b
		}
		if b.IsConst() && b.val == mask(w) {
			return a
		}
	case OpMul:
		if a.IsConst() && a.val == 1 {
			return b
		}
		if b.IsConst() && b.val == 1 {
			return a
		}
	}
	return tb.bin(op, w, a, b)
}

func (tb *TermBank) intArith(op Op, a, b *Term) *Term {
	var iop Op
	switch op {
	case OpAdd, OpIAdd:
		iop = OpIAdd
	case OpSub, OpISub:
		iop = OpISub
	case OpMul, OpIMul:
		iop = OpIMul
	default:
		panic(unsupported(fmt.Sprintf("int-mode arithmetic op %d", op)))
	}
	if a.w == SortInt && a.IsConst() && b.IsConst() {
		x, y := int64(a.val), int64(b.val)
		switch iop {
		case OpIAdd:
			return tb.Const(uint64(x+y), SortInt)
		case OpISub:
			return tb.Const(uint64(x-y), SortInt)
		case OpIMul:
			return tb.Const(uint64(x*y), SortInt)
		}
	}
	return tb.bin(iop, a.w, a, b)
}

// IntQuoConst is Go's truncating a / c for a mathematical-integer term and a constant c > 0:
// ite(a >= 0, div a c, -(div (-a) c)). Linear for the solver (constant divisor).
func (tb *TermBank) IntQuoConst(a *Term, c int64) *Term {
	if a.IsConst() {
		return tb.Const(uint64(int64(a.val)/c), SortInt)
	}
	cc := tb.Const(uint64(c), SortInt)
	zero := tb.Const(0, SortInt)
	pos := tb.bin(OpIDiv, SortInt, a, cc)
	neg := tb.intArith(OpSub, zero, tb.bin(OpIDiv, SortInt, tb.intArith(OpSub, zero, a), cc))
	return tb.Ite(tb.Cmp(OpILe, zero, a), pos, neg)
}

func (tb *TermBank) Not(a *Term) *Term { // bvnot
	if a.IsConst() {
		return tb.Const(^a.val, a.w)
	}
	return tb.mk(&Term{op: OpNot, w: a.w, args: []*Term{a}})
}

func (tb *TermBank) Neg(a *Term) *Term {
	if a.w < 0 {
		return tb.intArith(OpSub, tb.Const(0, a.w), a)
	}
	if a.IsConst() {
		return tb.Const(-a.val, a.w)
	}
	return tb.mk(&Term{op: OpNeg, w: a.w, args: []*Term{a}})
}

func (tb *TermBank) Extract(a *Term, hi, lo int) *Term {
	if hi == a.w-1 && lo == 0 {
		return a
	}
	if a.IsConst() {
		return tb.Const(a.val>>uint(lo), hi-lo+1)
	}
	if a.op == OpConcat {
		// concat(x,y): y is low part
		y := a.args[1]
		x := a.args[0]
		if hi < y.w {
			return tb.Extract(y, hi, lo)
		}
		if lo >= y.w {
			return tb.Extract(x, hi-y.w, lo-y.w)
		}
	}
	if a.op == OpZExt || a.op == OpSExt {
		x := a.args[0]
		if hi < x.w {
			return tb.Extract(x, hi, lo)
		}
		if a.op == OpZExt && lo >= x.w {
			return tb.Const(0, hi-lo+1)
		}
	}
	return tb.mk(&Term{op: OpExtract, w: hi - lo + 1, args: []*Term{a}, a1: hi, a2: lo})
}

func (tb *TermBank) ZExt(a *Term, to int) *Term {
	if to == a.w {
		return a
	}
	if to < a.w {
		return tb.Extract(a, to-1, 0)
	}
	if a.IsConst() {
		return tb.Const(a.val, to)
	}
	return tb.mk(&Term{op: OpZExt, w: to, args: []*Term{a}, a1: to - a.w})
}

func (tb *TermBank) SExt(a *Term, to int) *Term {
	if to == a.w {
		return a
	}
	if to < a.w {
		return tb.Extract(a, to-1, 0)
	}
	if a.IsConst() {
		return tb.Const(uint64(sext64(a.val, a.w)), to)
	}
	return tb.mk(&Term{op: OpSExt, w: to, args: []*Term{a}, a1: to - a.w})
}

func (tb *TermBank) Concat(hi, lo *Term) *Term {
	if hi.IsConst() && lo.IsConst() && hi.w+lo.w <= 64 {
		return tb.Const(hi.val<<uint(lo.w)|lo.val, hi.w+lo.w)
	}
	if hi.IsConst() && hi.val == 0 {
		return tb.ZExt(lo, hi.w+lo.w)
	}
	return tb.mk(&Term{op: OpConcat, w: hi.w + lo.w, args: []*Term{hi, lo}})
}

func (tb *TermBank) Eq(a, b *Term) *Term {
	if a == b {
		return tb.True
	}
	if a.w != b.w {
		panic(fmt.Sprintf("eq sort mismatch %d %d", a.w, b.w))
	}
	if a.IsConst() && b.IsConst() {
		return tb.Bool(a.val == b.val)
	}
	if a.w == 0 {
		if a.IsConst() {
			a, b = b, a
		}
		if b.IsConst() {
			if b.val != 0 {
				return a
			}
			return tb.BNot(a)
		}
	}
	if a.id > b.id {
		a, b = b, a
	}
	return tb.bin(OpEq, 0, a, b)
}

func (tb *TermBank) Cmp(op Op, a, b *Term) *Term {
	if a.w != b.w {
		panic(fmt.Sprintf("cmp sort mismatch %d %d", a.w, b.w))
	}
	if a.w < 0 {
		iop := OpILt
		if op == OpULe || op == OpSLe || op == OpILe {
			iop = OpILe
		}
		if a.w == SortInt && a.IsConst() && b.IsConst() {
			if iop == OpILt {
				return tb.Bool(int64(a.val) < int64(b.val))
			}
			return tb.Bool(int64(a.val) <= int64(b.val))
		}
		return tb.bin(iop, 0, a, b)
	}
	if a.IsConst() && b.IsConst() {
		switch op {
		case OpULt:
			return tb.Bool(a.val < b.val)
		case OpULe:
			return tb.Bool(a.val <= b.val)
		case OpSLt:
			return tb.Bool(sext64(a.val, a.w) < sext64(b.val, b.w))
		case OpSLe:
			return tb.Bool(sext64(a.val, a.w) <= sext64(b.val, b.w))
		}
	}
	if a == b {
		return tb.Bool(op == OpULe || op == OpSLe)
	}
	return tb.bin(op, 0, a, b)
}

func (tb *TermBank) BNot(a *Term) *Term {
	if a.IsConst() {
		return tb.Bool(a.val == 0)
	}
	if a.op == OpBNot {
		return a.args[0]
	}
	return tb.mk(&Term{op: OpBNot, w: 0, args: []*Term{a}})
}

func (tb *TermBank) BAnd(a, b *Term) *Term {
	if a.IsConst() {
		if a.val == 0 {
			return a
		}
		return b
	}
	if b.IsConst() {
		if b.val == 0 {
			return b
		}
		return a
	}
	if a == b {
		return a
	}
	return tb.bin(OpBAnd, 0, a, b)
}

func (tb *TermBank) BOr(a, b *Term) *Term {
	if a.IsConst() {
		if a.val != 0 {
			return a
		}
		return b
	}
	if b.IsConst() {
		if b.val != 0 {
			return b
		}
		return a
	}
	if a == b {
		return a
	}
	return tb.bin(OpBOr, 0, a, b)
}

func (tb *TermBank) Ite(c, a, b *Term) *Term {
	if c.IsConst() {
		if c.val != 0 {
			return a
		}
		return b
	}
	if a == b {
		return a
	}
	if a.w == 0 && a.IsConst() && b.IsConst() {
		if a.val != 0 {
			return c
		}
		return tb.BNot(c)
	}
	return tb.mk(&Term{op: OpIte, w: a.w, args: []*Term{c, a, b}})
}

func (tb *TermBank) ToReal(a *Term) *Term {
	if a.w == SortReal {
		return a
	}
	return tb.mk(&Term{op: OpToReal, w: SortReal, args: []*Term{a}})
}

func (tb *TermBank) ToInt(a *Term) *Term {
	if a.w == SortInt {
		return a
	}
	return tb.mk(&Term{op: OpToInt, w: SortInt, args: []*Term{a}})
}

func (tb *TermBank) RConst(f float64) *Term {
	r := new(big.Rat)
	r.SetFloat64(f)
	return tb.mk(&Term{op: OpRConst, w: SortReal, name: r.String()})
}

// ---------- printing

func sortStr(w int) string {
	switch {
	case w == 0:
		return "Bool"
	case w == SortInt:
		return "Int"
	case w == SortReal:
		return "Real"
	}
	return fmt.Sprintf("(_ BitVec %d)", w)
}

func (t *Term) ref() string {
	switch t.op {
	case OpVar:
		return "|" + t.name + "|"
	case OpConst:
		switch {
		case t.w == 0:
			if t.val != 0 {
				return "true"
			}
			return "false"
		case t.w == SortInt:
			if int64(t.val) < 0 {
				return fmt.Sprintf("(- %d)", -int64(t.val))
			}
			return fmt.Sprintf("%d", t.val)
		case t.w == SortReal:
			return fmt.Sprintf("%d.0", int64(t.val))
		}
		return fmt.Sprintf("(_ bv%d %d)", t.val, t.w)
	case OpRConst:
		if i := strings.IndexByte(t.name, '/'); i >= 0 {
			num, den := t.name[:i], t.name[i+1:]
			if strings.HasPrefix(num, "-") {
				return fmt.Sprintf("(- (/ %s.0 %s.0))", num[1:], den)
			}
			return fmt.Sprintf("(/ %s.0 %s.0)", num, den)
		}
		if strings.HasPrefix(t.name, "-") {
			return fmt.Sprintf("(- %s.0)", t.name[1:])
		}
		return t.name + ".0"
	}
	return fmt.Sprintf("t!%d", t.id)
}

var opNames = map[Op]string{
	OpAdd: "bvadd", OpSub: "bvsub", OpMul: "bvmul", OpUDiv: "bvudiv", OpURem: "bvurem",
	OpSDiv: "bvsdiv", OpSRem: "bvsrem", OpAnd: "bvand", OpOr: "bvor", OpXor: "bvxor",
	OpNot: "bvnot", OpNeg: "bvneg", OpShl: "bvshl", OpLShr: "bvlshr", OpAShr: "bvashr",
	OpConcat: "concat", OpEq: "=", OpULt: "bvult", OpULe: "bvule", OpSLt: "bvslt", OpSLe: "bvsle",
	OpBAnd: "and", OpBOr: "or", OpBNot: "not", OpIte: "ite",
	OpIAdd: "+", OpISub: "-", OpIMul: "*", OpIDiv: "div", OpILt: "<", OpILe: "<=", OpToReal: "to_real", OpToInt: "to_int",
}

// body returns the SMT-LIB expression of a non-leaf term in terms of refs of its args.
func (t *Term) body() string {
	var sb strings.Builder
	switch t.op {
	case OpExtract:
		fmt.Fprintf(&sb, "((_ extract %d %d) %s)", t.a1, t.a2, t.args[0].ref())
		return sb.String()
	case OpZExt:
		fmt.Fprintf(&sb, "((_ zero_extend %d) %s)", t.a1, t.args[0].ref())
		return sb.String()
	case OpSExt:
		fmt.Fprintf(&sb, "((_ sign_extend %d) %s)", t.a1, t.args[0].ref())
		return sb.String()
	}
	sb.WriteString("(")
	sb.WriteString(opNames[t.op])
	for _, a := range t.args {
		sb.WriteString(" ")
		sb.WriteString(a.ref())
	}
	sb.WriteString(")")
	return sb.String()
}

func (t *Term) isLeaf() bool { return t.op == OpVar || t.op == OpConst || t.op == OpRConst }

// String gives a readable (fully expanded, depth-limited) rendering for reports.
func (t *Term) String() string { return t.str(6) }

func (t *Term) str(d int) string {
	if t.isLeaf() {
		if t.op == OpVar {
			return t.name
		}
		if t.op == OpConst && t.w > 0 {
			return fmt.Sprintf("%d", t.val)
		}
		return t.ref()
	}
	if d == 0 {
		return "…"
	}
	var sb strings.Builder
	sb.WriteString("(")
	switch t.op {
	case OpExtract:
		fmt.Fprintf(&sb, "extract[%d:%d]", t.a1, t.a2)
	case OpZExt:
		fmt.Fprintf(&sb, "zext%d", t.a1)
	case OpSExt:
		fmt.Fprintf(&sb, "sext%d", t.a1)
	default:
		sb.WriteString(opNames[t.op])
	}
	for _, a := range t.args {
		sb.WriteString(" ")
		sb.WriteString(a.str(d - 1))
	}
	sb.WriteString(")")
	return sb.String()
}
