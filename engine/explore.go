package main

import (
	"fmt"
	"go/token"
	"math/rand"
	"sort"
	"strings"
	"time"

	"golang.org/x/tools/go/ssa"
)

var labelStats map[string]int

type Decision struct {
	Kind   byte     `json:"k"` // B branch, S sched, L select, T timer, C concretize, U unique, H harness choice, P pool
	N      int      `json:"n"`
	Choice int      `json:"c"`
	Label  string   `json:"l,omitempty"`
	B0     bool     `json:"b0,omitempty"`
	Vals   []uint64 `json:"v,omitempty"`
}

type PathResult struct {
	Kind      string
	Msg       string
	Pos       string
	G         string
	PanicKind string
	Stack     string
	Fn        string
}

type Violation struct {
	Label    string            `json:"label"`
	Msg      string            `json:"msg"`
	Pos      string            `json:"pos"`
	Harness  string            `json:"harness"`
	Trace    []Decision        `json:"trace"`
	Model    map[string]string `json:"model"`
	Events   []string          `json:"events,omitempty"`
	Observes []string          `json:"observes,omitempty"`
	Count    int               `json:"count"`
	Stack    string            `json:"stack,omitempty"`
	PathNo   int               `json:"path_no"`
}

type Explorer struct {
	vm     *VM
	cfg    *RunCfg
	trace  []Decision
	pos    int
	replay bool // concrete replay of a given trace: no backtracking

	Paths        int
	PathKinds    map[string]int
	Violations   map[string]*Violation
	violOrder    []string
	Inconclusive []string
	Reached      map[string]int
	Asserts      map[string]int // label -> times checked
	Obligations  int
	Discharged   int
	DecisionPts  int
	Steps        int64
	Funcs        map[string]bool
	Samples      []map[string]interface{}
	MaxTraceLen  int
	start        time.Time
	concModel    map[string]uint64 // concrete replay: input values
	Infeasible   int
	branchSolver int
	stubsUsed    map[string]int
	shard        int
	random       *rand.Rand
	LockEdges    map[string]LockEdge
	vmOnly       map[string]bool
	CrossChecked int
	CrossUnknown int
	lastObserves []string
}

func NewExplorer(vm *VM, cfg *RunCfg) *Explorer {
	ex := &Explorer{vm: vm, cfg: cfg, PathKinds: map[string]int{}, Violations: map[string]*Violation{}, Reached: map[string]int{}, Asserts: map[string]int{}, Funcs: map[string]bool{}, stubsUsed: map[string]int{}, vmOnly: map[string]bool{}}
	vm.ex = ex
	return ex
}

type LockEdge struct {
	From, To, Root, PosFrom, PosTo string
}

func (ex *Explorer) noteLockEdge(from, to, root, pf, pt string) {
	if from == "" || to == "" || from == to {
		return
	}
	k := from + "->" + to
	if ex.LockEdges == nil {
		ex.LockEdges = map[string]LockEdge{}
	}
	if _, ok := ex.LockEdges[k]; !ok {
		ex.LockEdges[k] = LockEdge{from, to, root, pf, pt}
	}
}

func (ex *Explorer) noteFunc(fn *ssa.Function) {
	if !ex.vm.funcsSeen[fn] {
		ex.vm.funcsSeen[fn] = true
		ex.Funcs[fn.String()] = true
	}
}

// shardCheck prunes subtrees that belong to another shard (static partition of
// the decision tree by the first ShardDepth decisions).
func (ex *Explorer) shardCheck() {
	n := ex.cfg.Shards
	if n <= 1 || ex.replay {
		return
	}
	d := ex.cfg.ShardDepth
	if ex.pos != d {
		return
	}
	h := 0
	for i := 0; i < d; i++ {
		h = h*31 + ex.trace[i].Choice + 7*i
	}
	if h%n != ex.shard {
		panic(pathAbort{kind: "SKIP", msg: "other shard"})
	}
}

// choose returns a decision in [0,n).
func (vm *VM) choose(n int, label string, kind byte) int {
	ex := vm.ex
	if n <= 1 {
		return 0
	}
	if ex.pos < len(ex.trace) {
		d := ex.trace[ex.pos]
		if d.Kind != kind || d.N != n {
			panic(pathAbort{kind: "ENGINE", msg: fmt.Sprintf("replay divergence at decision %d: recorded %c/%d (%s), now %c/%d (%s)", ex.pos, d.Kind, d.N, d.Label, kind, n, label)})
		}
		ex.pos++
		ex.shardCheck()
		return d.Choice
	}
	if ex.random != nil {
		c := ex.random.Intn(n)
		ex.trace = append(ex.trace, Decision{Kind: kind, N: n, Choice: c, Label: label})
		ex.pos++
		return c
	}
	if ex.replay {
		panic(pathAbort{kind: "ENGINE", msg: "replay trace exhausted at " + label})
	}
	if len(ex.trace) >= ex.cfg.MaxDepth {
		panic(pathAbort{kind: "BUDGET", msg: fmt.Sprintf("decision depth %d exceeded", ex.cfg.MaxDepth)})
	}
	ex.trace = append(ex.trace, Decision{Kind: kind, N: n, Choice: 0, Label: label})
	ex.pos++
	ex.DecisionPts++
	ex.shardCheck()
	return 0
}

func (vm *VM) addPC(t *Term) {
	if t.IsConst() {
		return
	}
	vm.pc = append(vm.pc, t)
}

func literalVar(t *Term) *Term {
	if t.op == OpVar && t.w == 0 {
		return t
	}
	if t.op == OpBNot && t.args[0].op == OpVar {
		return t.args[0]
	}
	return nil
}

func termMentions(t, v *Term, seen map[*Term]bool) bool {
	if t == v {
		return true
	}
	if seen[t] {
		return false
	}
	seen[t] = true
	for _, a := range t.args {
		if termMentions(a, v, seen) {
			return true
		}
	}
	return false
}

func (vm *VM) pcMentions(v *Term) bool {
	seen := map[*Term]bool{}
	for _, p := range vm.pc {
		if termMentions(p, v, seen) {
			return true
		}
	}
	return false
}

func (vm *VM) pcHas(t *Term) bool {
	for _, p := range vm.pc {
		if p == t {
			return true
		}
	}
	return false
}

func (vm *VM) check(extra ...*Term) SatResult {
	return vm.solver.Check(vm.pc, extra...)
}

// branch decides a symbolic condition, forking when both outcomes are feasible.
func (g *G) branch(cond *Term, label string) bool {
	vm := g.vm
	ex := vm.ex
	if cond.IsConst() {
		return cond.val != 0
	}
	if ex.concModel != nil {
		panic(pathAbort{kind: "ENGINE", msg: "symbolic branch during concrete replay: " + cond.String()})
	}
	ncond := vm.tb.BNot(cond)
	if vm.pcHas(cond) {
		return true
	}
	if vm.pcHas(ncond) {
		return false
	}
	if ex.pos < len(ex.trace) {
		d := ex.trace[ex.pos]
		if d.Kind != 'B' {
			panic(pathAbort{kind: "ENGINE", msg: fmt.Sprintf("replay divergence at decision %d: recorded %c (%s), now branch %s", ex.pos, d.Kind, d.Label, label)})
		}
		ex.pos++
		out := d.B0
		if d.Choice == 1 {
			out = !d.B0
		}
		if out {
			vm.addPC(cond)
		} else {
			vm.addPC(ncond)
		}
		return out
	}
	if len(ex.trace) >= ex.cfg.MaxDepth {
		panic(pathAbort{kind: "BUDGET", msg: fmt.Sprintf("decision depth %d exceeded", ex.cfg.MaxDepth)})
	}
	var tOK, fOK bool
	if v := literalVar(cond); v != nil && vm.lazyMode && !vm.pcMentions(v) {
		// a fresh unconstrained boolean: both outcomes are feasible
		tOK, fOK = true, true
	} else {
		rt := vm.check(cond)
		rf := vm.check(ncond)
		ex.branchSolver += 2
		tOK = rt != Unsat
		fOK = rf != Unsat
	}
	var d Decision
	switch {
	case tOK && fOK:
		d = Decision{Kind: 'B', N: 2, B0: true, Label: label}
		ex.DecisionPts++
	case tOK:
		d = Decision{Kind: 'B', N: 1, B0: true, Label: label}
	case fOK:
		d = Decision{Kind: 'B', N: 1, B0: false, Label: label}
	default:
		panic(pathAbort{kind: "INFEASIBLE", msg: "path condition unsatisfiable at branch " + label})
	}
	ex.trace = append(ex.trace, d)
	ex.pos++
	if d.B0 {
		vm.addPC(cond)
	} else {
		vm.addPC(ncond)
	}
	return d.B0
}

// unique reports whether v has exactly one feasible value under the path condition.
func (g *G) unique(v IntV) (uint64, bool) {
	vm := g.vm
	ex := vm.ex
	if v.S == nil {
		return v.C, true
	}
	if ex.pos < len(ex.trace) {
		d := ex.trace[ex.pos]
		if d.Kind != 'U' {
			panic(pathAbort{kind: "ENGINE", msg: fmt.Sprintf("replay divergence at decision %d: recorded %c, now unique", ex.pos, d.Kind)})
		}
		ex.pos++
		if len(d.Vals) == 1 {
			return d.Vals[0], true
		}
		return 0, false
	}
	d := Decision{Kind: 'U', N: 1}
	if vm.check() == Sat {
		vals := vm.solver.Values([]*Term{v.S})
		if s, ok := vals[v.S]; ok {
			if n, ok := parseNum(s); ok {
				c := vm.tb.Const(n, v.S.w)
				if vm.check(vm.tb.BNot(vm.tb.Eq(v.S, c))) == Unsat {
					d.Vals = []uint64{normTerm(n, v.S.w)}
				}
			}
		}
	}
	ex.trace = append(ex.trace, d)
	ex.pos++
	if len(d.Vals) == 1 {
		return d.Vals[0], true
	}
	return 0, false
}

func normTerm(n uint64, w int) uint64 {
	if w > 0 && w < 64 {
		return n & mask(w)
	}
	return n
}

// concretize enumerates the feasible values of v (bounded) as a decision.
func (g *G) concretize(v IntV, label string) uint64 {
	vm := g.vm
	ex := vm.ex
	if v.S == nil {
		return v.C
	}
	t := v.S
	var d Decision
	if ex.pos < len(ex.trace) {
		d = ex.trace[ex.pos]
		if d.Kind != 'C' {
			panic(pathAbort{kind: "ENGINE", msg: fmt.Sprintf("replay divergence at decision %d: recorded %c, now concretize %s", ex.pos, d.Kind, label)})
		}
		ex.pos++
	} else {
		max := ex.cfg.ConcMax
		var vals []uint64
		var excl []*Term
		for {
			if vm.check(excl...) != Sat {
				break
			}
			m := vm.solver.Values([]*Term{t})
			s, ok := m[t]
			if !ok {
				panic(pathAbort{kind: "UNSUPPORTED", msg: "no model value while concretizing " + label})
			}
			n, ok := parseNum(s)
			if !ok {
				panic(pathAbort{kind: "UNSUPPORTED", msg: "unparsable model value " + s})
			}
			n = normTerm(n, t.w)
			vals = append(vals, n)
			excl = append(excl, vm.tb.BNot(vm.tb.Eq(t, vm.tb.Const(n, t.w))))
			if len(vals) > max {
				panic(pathAbort{kind: "BUDGET", msg: fmt.Sprintf("more than %d feasible values while concretizing %s (%s)", max, label, t.String())})
			}
		}
		if len(vals) == 0 {
			panic(pathAbort{kind: "INFEASIBLE", msg: "no feasible value for " + label})
		}
		sort.Slice(vals, func(i, j int) bool { return vals[i] < vals[j] })
		d = Decision{Kind: 'C', N: len(vals), Vals: vals, Label: label}
		if len(ex.trace) >= ex.cfg.MaxDepth {
			panic(pathAbort{kind: "BUDGET", msg: "decision depth exceeded"})
		}
		ex.trace = append(ex.trace, d)
		ex.pos++
		if len(vals) > 1 {
			ex.DecisionPts++
		}
	}
	val := d.Vals[d.Choice]
	vm.addPC(vm.tb.Eq(t, vm.tb.Const(val, t.w)))
	if t.w > 0 && t.w < 64 {
		// sign-normalise: callers treat as int
		return uint64(sext64(val, t.w))
	}
	return val
}

func (g *G) toIntNonNeg(v IntV, panicMsg string, pos token.Pos) int {
	if v.S != nil {
		tb := g.vm.tb
		nonneg := tb.Cmp(OpSLe, tb.Const(0, v.S.w), v.S)
		if !g.branch(nonneg, "nonneg") {
			g.tpanic("makechan", panicMsg, pos)
		}
		// the runtime refuses sizes whose byte size exceeds the address space
		notHuge := tb.Cmp(OpSLe, v.S, tb.Const(1<<45, v.S.w))
		if !g.branch(notHuge, "not-huge") {
			g.tpanic("makechan-huge", panicMsg, pos)
		}
		return int(g.concretize(v, "size"))
	}
	n := int64(v.C)
	if n < 0 {
		g.tpanic("makechan", panicMsg, pos)
	}
	if n > 1<<45 {
		g.tpanic("makechan-huge", panicMsg, pos)
	}
	if n > 1<<20 {
		panic(pathAbort{kind: "BUDGET", msg: fmt.Sprintf("channel of %d elements", n)})
	}
	return int(n)
}

// ---- violations

func (ex *Explorer) violation(vm *VM, g *G, label, msg string, pos token.Pos) {
	ex.recordViolation(vm, g, label, msg, vm.posStr(pos), nil)
}

func (ex *Explorer) recordViolation(vm *VM, g *G, label, msg, pos string, model map[string]string) {
	if v, ok := ex.Violations[label]; ok {
		v.Count++
		return
	}
	if model == nil {
		model = vm.currentModel()
	}
	v := &Violation{Label: label, Msg: msg, Pos: pos, Harness: ex.cfg.Name, Model: model, Count: 1, PathNo: ex.Paths}
	v.Trace = append([]Decision(nil), ex.trace[:ex.pos]...)
	n := len(vm.evlog)
	st := 0
	if n > 60 {
		st = n - 60
	}
	v.Events = append([]string(nil), vm.evlog[st:]...)
	v.Observes = append([]string(nil), vm.observes...)
	if g != nil {
		v.Stack = g.stack()
	}
	ex.Violations[label] = v
	ex.violOrder = append(ex.violOrder, label)
}

// currentModel asks the solver for values of all inputs under the current PC.
func (vm *VM) currentModel() map[string]string {
	m := map[string]string{}
	if len(vm.inputs) == 0 {
		return m
	}
	if vm.ex.concModel != nil {
		for k, v := range vm.ex.concModel {
			m[k] = fmt.Sprint(v)
		}
		return m
	}
	if vm.check() != Sat {
		return m
	}
	return vm.modelAfterSat()
}

func (vm *VM) modelAfterSat() map[string]string {
	m := map[string]string{}
	var ts []*Term
	for _, in := range vm.inputs {
		ts = append(ts, in.t)
	}
	vals := vm.solver.Values(ts)
	for _, in := range vm.inputs {
		if s, ok := vals[in.t]; ok {
			if n, ok := parseNum(s); ok {
				m[in.name] = fmt.Sprint(n)
			} else {
				m[in.name] = s
			}
		}
	}
	return m
}

// ---- the exploration loop

type Report struct {
	Cfg          *RunCfg
	Paths        int
	PathKinds    map[string]int
	Violations   []*Violation
	Inconclusive []string
	Reached      map[string]int
	MissingReach []string
	Asserts      map[string]int
	Obligations  int
	Discharged   int
	DecisionPts  int
	Steps        int64
	Funcs        []string
	Samples      []map[string]interface{}
	Queries      int
	Unknowns     int
	SolverErrors []string
	SolverTimeS  float64
	WallS        float64
	Complete     bool
	Verdict      string // HOLDS | VIOLATED | INCONCLUSIVE
	MaxTraceLen  int
	Stubs        map[string]int
	LockEdges    map[string]LockEdge
	VMOnly       map[string]bool
	CrossChecked int
	CrossUnknown int
}

func (ex *Explorer) Run(runPath func() *PathResult) *Report {
	ex.start = time.Now()
	deadline := ex.start.Add(time.Duration(ex.cfg.TimeoutS) * time.Second)
	complete := false
	for {
		ex.pos = 0
		res := runPath()
		ex.Paths++
		ex.PathKinds[res.Kind]++
		ex.lastObserves = append([]string(nil), ex.vm.observes...)
		ex.Steps += ex.vm.steps
		if len(ex.trace) > ex.MaxTraceLen {
			ex.MaxTraceLen = len(ex.trace)
		}
		if labelStats != nil {
			for i := 0; i < ex.pos && i < len(ex.trace); i++ {
				if ex.trace[i].N > 1 {
					labelStats[ex.trace[i].Label]++
				}
			}
		}
		if ex.vm.lazyMode && res.Kind != "OK" && res.Kind != "ENGINE" && res.Kind != "INFEASIBLE" && res.Kind != "SKIP" {
			// arbitrary-state exploration: panics, cut loops and unsupported constructs just end the path
			ex.PathKinds[res.Kind]--
			ex.PathKinds["CUT:"+res.Kind]++
			res = &PathResult{Kind: "CUTPATH", Msg: res.Msg}
		}
		switch res.Kind {
		case "OK", "CUTPATH":
		case "INFEASIBLE":
			ex.Infeasible++
		case "SKIP":
			ex.Paths--
			ex.PathKinds["SKIP"]--
		case "PANIC":
			plabel := "panic:" + res.PanicKind + "@" + res.Fn
			ex.recordViolation(ex.vm, nil, plabel, res.Msg+" at "+res.Pos+" in goroutine "+res.G, res.Pos, nil)
			if v := ex.Violations[plabel]; v != nil && v.Stack == "" {
				v.Stack = res.Stack
			}
		case "DEADLOCK":
			dl, dm := "deadlock", res.Msg
			if i := strings.IndexByte(dm, 0); i >= 0 {
				dl, dm = dm[:i], dm[i+1:]
			}
			ex.recordViolation(ex.vm, nil, dl, dm, res.Pos, nil)
		default: // UNSUPPORTED, BUDGET, UNWIND, ENGINE
			msg := fmt.Sprintf("%s: %s @%s", res.Kind, res.Msg, res.Pos)
			if len(ex.Inconclusive) < 20 {
				ex.Inconclusive = append(ex.Inconclusive, msg)
			}
		}
		if len(ex.Samples) < 3 || (res.Kind != "OK" && len(ex.Samples) < 6) {
			ex.Samples = append(ex.Samples, ex.sample(res))
		}
		if ex.replay {
			complete = true
			break
		}
		// backtrack
		ex.trace = ex.trace[:minInt(ex.pos, len(ex.trace))]
		for len(ex.trace) > 0 {
			last := &ex.trace[len(ex.trace)-1]
			if last.Choice+1 < last.N {
				last.Choice++
				break
			}
			ex.trace = ex.trace[:len(ex.trace)-1]
		}
		if len(ex.trace) == 0 {
			complete = true
			break
		}
		if ex.Paths >= ex.cfg.MaxPaths {
			ex.Inconclusive = append(ex.Inconclusive, fmt.Sprintf("BUDGET: path limit %d reached", ex.cfg.MaxPaths))
			break
		}
		if time.Now().After(deadline) {
			ex.Inconclusive = append(ex.Inconclusive, fmt.Sprintf("BUDGET: time limit %ds reached after %d paths", ex.cfg.TimeoutS, ex.Paths))
			break
		}
	}
	r := &Report{Cfg: ex.cfg, Paths: ex.Paths, PathKinds: ex.PathKinds, Inconclusive: ex.Inconclusive, Reached: ex.Reached,
		Asserts: ex.Asserts, Obligations: ex.Obligations, Discharged: ex.Discharged, DecisionPts: ex.DecisionPts, Steps: ex.Steps,
		Samples: ex.Samples, Complete: complete, MaxTraceLen: ex.MaxTraceLen, Stubs: ex.stubsUsed, LockEdges: ex.LockEdges, VMOnly: ex.vmOnly, CrossChecked: ex.CrossChecked, CrossUnknown: ex.CrossUnknown}
	for _, l := range ex.violOrder {
		r.Violations = append(r.Violations, ex.Violations[l])
	}
	for f := range ex.Funcs {
		r.Funcs = append(r.Funcs, f)
	}
	sort.Strings(r.Funcs)
	for _, m := range ex.cfg.Reach {
		if ex.Reached[m] == 0 {
			r.MissingReach = append(r.MissingReach, m)
		}
	}
	if s := ex.vm.solver; s != nil {
		r.Queries = s.Queries
		r.Unknowns = s.Unknowns
		r.SolverErrors = s.Errors
		r.SolverTimeS = s.Time.Seconds()
	}
	r.WallS = time.Since(ex.start).Seconds()
	switch {
	case len(r.Violations) > 0:
		r.Verdict = "VIOLATED"
	case len(r.Inconclusive) > 0 || !complete || r.Unknowns > 0 || len(r.SolverErrors) > 0 || len(r.MissingReach) > 0:
		r.Verdict = "INCONCLUSIVE"
		if r.Unknowns > 0 {
			r.Inconclusive = append(r.Inconclusive, fmt.Sprintf("solver answered unknown %d times", r.Unknowns))
		}
		if len(r.MissingReach) > 0 {
			r.Inconclusive = append(r.Inconclusive, "VACUOUS: markers never reached: "+strings.Join(r.MissingReach, ","))
		}
	default:
		r.Verdict = "HOLDS"
	}
	return r
}

func minInt(a, b int) int {
	if a < b {
		return a
	}
	return b
}

func (ex *Explorer) sample(res *PathResult) map[string]interface{} {
	var ds []string
	for i, d := range ex.trace {
		if i >= ex.pos || i > 40 {
			break
		}
		if d.N > 1 || d.Kind == 'C' {
			s := fmt.Sprintf("%c:%d/%d", d.Kind, d.Choice, d.N)
			if d.Kind == 'B' {
				out := d.B0
				if d.Choice == 1 {
					out = !out
				}
				s = fmt.Sprintf("B:%v", out)
			}
			if d.Kind == 'C' {
				s = fmt.Sprintf("C:%s=%d", d.Label, d.Vals[d.Choice])
			}
			if d.Label != "" && d.Kind != 'C' {
				s += "(" + d.Label + ")"
			}
			ds = append(ds, s)
		}
	}
	m := map[string]interface{}{"path": ex.Paths, "result": res.Kind, "decisions": ds, "steps": ex.vm.steps}
	if res.Msg != "" {
		m["msg"] = res.Msg
	}
	if len(ex.vm.pc) > 0 {
		var pcs []string
		for i, p := range ex.vm.pc {
			if i >= 6 {
				pcs = append(pcs, "…")
				break
			}
			pcs = append(pcs, p.String())
		}
		m["path_condition"] = pcs
	}
	if len(ex.vm.observes) > 0 {
		o := ex.vm.observes
		if len(o) > 12 {
			o = o[:12]
		}
		m["observed"] = o
	}
	return m
}
