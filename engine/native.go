package main

// Native runs of sequential harnesses with `go test -overlay`: (a) differential
// validation of the VM against the real Go build on random concrete input
// vectors, (b) confirmation of a solver counterexample on the real build.

import (
	"encoding/json"
	"fmt"
	"math/rand"
	"os"
	"os/exec"
	"path/filepath"
	"sort"
	"strconv"
	"strings"
	"time"

	"golang.org/x/tools/go/ssa"
)

const modPath = "go.nanomsg.org/mangos/v3"

type nativeItem struct {
	fn   string // harness function name
	file string // replay file
}

type nativeResult struct {
	observes []string
	fails    []string
	assumeF  bool
	panicked string
	ended    bool
}

// runNative executes the items (all harnesses of one package) in one go test process.
func runNative(P *Program, pkg *ssa.Package, items []nativeItem, timeout time.Duration) (map[string]*nativeResult, string, error) {
	rel := strings.TrimPrefix(strings.TrimPrefix(pkg.Pkg.Path(), modPath), "/")
	dir := filepath.Join(repoDir, rel)
	tmp, err := os.MkdirTemp(filepath.Join(verifDir, "out"), "native")
	if err != nil {
		return nil, "", err
	}
	defer os.RemoveAll(tmp)
	// test file
	fnames := map[string]bool{}
	for _, it := range items {
		fnames[it.fn] = true
	}
	var fl []string
	for f := range fnames {
		fl = append(fl, f)
	}
	sort.Strings(fl)
	var sb strings.Builder
	fmt.Fprintf(&sb, "package %s\n\nimport (\n\t\"fmt\"\n\t\"os\"\n\t\"strings\"\n\t\"testing\"\n\n\tzzv \"%s/zzverif/verif\"\n)\n\n", pkg.Pkg.Name(), modPath)
	sb.WriteString("var zzVerifFuncs = map[string]func(){\n")
	for _, f := range fl {
		fmt.Fprintf(&sb, "\t%q: %s,\n", f, f)
	}
	sb.WriteString("}\n\nfunc TestZZVerifNative(t *testing.T) {\n\tzzv.Diff = true\n\tfor _, item := range strings.Split(os.Getenv(\"VERIF_REPLAY_LIST\"), \",\") {\n\t\tparts := strings.SplitN(item, \"=\", 2)\n\t\tfmt.Println(\"VERIF-BEGIN\", parts[1])\n\t\tzzv.Reset(parts[1])\n\t\tfunc() {\n\t\t\tdefer func() {\n\t\t\t\tif r := recover(); r != nil && !zzv.IsAssumeFalse(r) {\n\t\t\t\t\tfmt.Println(\"VERIF-PANIC\", r)\n\t\t\t\t}\n\t\t\t}()\n\t\t\tzzVerifFuncs[parts[0]]()\n\t\t}()\n\t\tfmt.Println(\"VERIF-END\")\n\t}\n}\n")
	testFile := filepath.Join(tmp, "zz_verif_native_test.go")
	if err := os.WriteFile(testFile, []byte(sb.String()), 0o644); err != nil {
		return nil, "", err
	}
	// overlay
	repl := map[string]string{}
	hdir := filepath.Join(verifDir, "harness")
	filepath.Walk(hdir, func(p string, info os.FileInfo, err error) error {
		if err == nil && !info.IsDir() && strings.HasSuffix(p, ".go") {
			r, _ := filepath.Rel(hdir, p)
			repl[filepath.Join(repoDir, r)] = p
		}
		return nil
	})
	repl[filepath.Join(dir, "zz_verif_native_test.go")] = testFile
	ob, _ := json.Marshal(map[string]interface{}{"Replace": repl})
	ovFile := filepath.Join(tmp, "overlay.json")
	os.WriteFile(ovFile, ob, 0o644)
	var list []string
	for _, it := range items {
		list = append(list, it.fn+"="+it.file)
	}
	cmd := exec.Command("go", "test", "-v", "-vet=off", "-count=1", "-overlay", ovFile, "-run", "^TestZZVerifNative$", "-timeout", fmt.Sprintf("%ds", int(timeout.Seconds())), "./"+rel)
	if rel == "" {
		cmd.Args[len(cmd.Args)-1] = "."
	}
	cmd.Dir = repoDir
	cmd.Env = append(os.Environ(), "GOFLAGS=-mod=mod", "GOPROXY=off", "GOSUMDB=off", "GOTOOLCHAIN=local", "VERIF_REPLAY_LIST="+strings.Join(list, ","))
	out, _ := cmd.CombinedOutput()
	res := map[string]*nativeResult{}
	var cur *nativeResult
	for _, line := range strings.Split(string(out), "\n") {
		line = strings.TrimSpace(line)
		switch {
		case strings.HasPrefix(line, "VERIF-BEGIN "):
			cur = &nativeResult{}
			res[strings.TrimPrefix(line, "VERIF-BEGIN ")] = cur
		case cur == nil:
		case line == "VERIF-END":
			cur.ended = true
			cur = nil
		case strings.HasPrefix(line, "VERIF-OBSERVE "):
			cur.observes = append(cur.observes, strings.TrimPrefix(line, "VERIF-OBSERVE "))
		case strings.HasPrefix(line, "VERIF-ASSERT-FAIL "):
			cur.fails = append(cur.fails, strings.TrimPrefix(line, "VERIF-ASSERT-FAIL "))
		case line == "VERIF-ASSUME-FALSE":
			cur.assumeF = true
		case strings.HasPrefix(line, "VERIF-PANIC"):
			cur.panicked = line
		}
	}
	return res, string(out), nil
}

// randomValue: boundary-heavy random value of width w.
func randomValue(r *rand.Rand, w int) uint64 {
	if w == 0 {
		return uint64(r.Intn(2))
	}
	m := mask(w)
	switch r.Intn(8) {
	case 0:
		return 0
	case 1:
		return 1
	case 2:
		return m
	case 3:
		return m >> 1
	case 4:
		return (m >> 1) + 1
	case 5:
		return uint64(r.Intn(300)) & m
	}
	return r.Uint64() & m
}

type diffVector struct {
	file     string
	observes []string
	fails    []string
	kind     string
}

// vmRandomRuns executes the harness n times concretely in the VM on random
// input vectors and random decisions, writing one replay file per run.
func vmRandomRuns(P *Program, cfg *RunCfg, n int, seed int64, dir string) ([]*diffVector, error) {
	fn, err := findFunc(P, cfg.Func)
	if err != nil {
		return nil, err
	}
	var out []*diffVector
	for i := 0; i < n*3 && len(out) < n; i++ {
		solver, err := NewSolver("z3", cfg.QueryMs)
		if err != nil {
			return nil, err
		}
		c := *cfg
		vm := &VM{prog: P.prog, tb: NewTermBank(), solver: solver, cfg: &c, intMode: cfg.IntMode, funcsSeen: map[*ssa.Function]bool{}}
		ex := NewExplorer(vm, &c)
		ex.replay = true
		ex.random = rand.New(rand.NewSource(seed*1000 + int64(i)))
		ex.concModel = map[string]uint64{}
		ex.trace = nil
		rep := ex.Run(func() *PathResult { return vm.runPath(fn) })
		solver.Close()
		kind := "OK"
		for k, v := range rep.PathKinds {
			if v > 0 {
				kind = k
			}
		}
		if kind == "INFEASIBLE" {
			continue // assumption false on this vector
		}
		dv := &diffVector{kind: kind, observes: append([]string(nil), ex.lastObserves...)}
		for _, v := range rep.Violations {
			if !rep.VMOnly[v.Label] {
				dv.fails = append(dv.fails, v.Label)
			}
		}
		model := map[string]string{}
		for k, v := range ex.concModel {
			model[k] = strconv.FormatUint(v, 10)
		}
		choices := map[string]int{}
		for _, d := range ex.trace {
			if d.Kind == 'H' {
				choices[d.Label] = d.Choice
			}
		}
		file := filepath.Join(dir, fmt.Sprintf("%s_%d.json", sanitize(cfg.Name), len(out)))
		b, _ := json.Marshal(map[string]interface{}{"model": model, "choices": choices, "params": cfg.Params})
		os.WriteFile(file, b, 0o644)
		dv.file = file
		out = append(out, dv)
	}
	return out, nil
}

// diffValidate compares VM and native runs for the sequential harnesses of a property.
func diffValidate(P *Program, cfgs []*RunCfg, n int, seed int64) (validated int, mismatches []string, err error) {
	dir, err := os.MkdirTemp(filepath.Join(verifDir, "out"), "diff")
	if err != nil {
		return 0, nil, err
	}
	defer os.RemoveAll(dir)
	byPkg := map[*ssa.Package][]nativeItem{}
	vecs := map[string]*diffVector{}
	names := map[string]string{}
	for _, cfg := range cfgs {
		fn, e := findFunc(P, cfg.Func)
		if e != nil {
			return 0, nil, e
		}
		nv := n
		if cfg.DiffOnly {
			nv = 4 * n // the corpus exists for this comparison: more vectors
		}
		dvs, e := vmRandomRuns(P, cfg, nv, seed, dir)
		if e != nil {
			return 0, nil, e
		}
		for _, dv := range dvs {
			byPkg[fn.Pkg] = append(byPkg[fn.Pkg], nativeItem{fn: fn.Name(), file: dv.file})
			vecs[dv.file] = dv
			names[dv.file] = cfg.Name
		}
	}
	for pkg, items := range byPkg {
		res, raw, e := runNative(P, pkg, items, 120*time.Second)
		if e != nil {
			return validated, mismatches, e
		}
		for _, it := range items {
			dv := vecs[it.file]
			nr := res[it.file]
			if nr == nil || !nr.ended {
				tail := raw
				if len(tail) > 600 {
					tail = tail[len(tail)-600:]
				}
				mismatches = append(mismatches, fmt.Sprintf("%s: native run did not complete: %s", names[it.file], strings.ReplaceAll(tail, "\n", " | ")))
				continue
			}
			if dv.kind != "OK" && dv.kind != "PANIC" {
				continue // VM could not run this vector (unsupported / budget): not a comparison
			}
			vo := strings.Join(dv.observes, "\n")
			no := strings.Join(nr.observes, "\n")
			vf := strings.Join(dv.fails, ",")
			nf := strings.Join(nr.fails, ",")
			if dv.kind == "PANIC" && nr.panicked == "" {
				mismatches = append(mismatches, fmt.Sprintf("%s: VM panics, native does not (%s)", names[it.file], filepath.Base(it.file)))
				continue
			}
			if vo != no {
				mismatches = append(mismatches, fmt.Sprintf("%s: observation logs differ: VM {%s} native {%s}", names[it.file], strings.ReplaceAll(vo, "\n", "; "), strings.ReplaceAll(no, "\n", "; ")))
				continue
			}
			if dv.kind == "OK" && vf != nf {
				mismatches = append(mismatches, fmt.Sprintf("%s: assertion outcomes differ: VM {%s} native {%s}", names[it.file], vf, nf))
				continue
			}
			validated++
		}
	}
	return validated, mismatches, nil
}

// nativeConfirm replays one counterexample natively; returns whether the
// assertion label fails there too, and a short description.
func nativeConfirm(P *Program, cfg *RunCfg, replayPath, label string) (bool, string) {
	fn, err := findFunc(P, cfg.Func)
	if err != nil {
		return false, err.Error()
	}
	res, raw, err := runNative(P, fn.Pkg, []nativeItem{{fn: fn.Name(), file: replayPath}}, 120*time.Second)
	if err != nil {
		return false, err.Error()
	}
	nr := res[replayPath]
	if nr == nil {
		t := raw
		if len(t) > 400 {
			t = t[len(t)-400:]
		}
		return false, "native run produced no result: " + strings.ReplaceAll(t, "\n", " | ")
	}
	for _, f := range nr.fails {
		if f == label {
			return true, "native: assertion " + label + " fails on the real build"
		}
	}
	if strings.HasPrefix(label, "panic:") && nr.panicked != "" {
		return true, "native: " + nr.panicked
	}
	if strings.HasPrefix(label, "panic:") && !nr.ended {
		t := raw
		if i := strings.Index(t, "fatal error"); i >= 0 {
			t = t[i:]
		} else if i := strings.Index(t, "panic:"); i >= 0 {
			t = t[i:]
		}
		if len(t) > 200 {
			t = t[:200]
		}
		return true, "native: the process died: " + strings.ReplaceAll(t, "\n", " | ")
	}
	return false, fmt.Sprintf("native run: fails=%v panicked=%q", nr.fails, nr.panicked)
}
