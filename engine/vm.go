package main

import (
	"fmt"
	"go/constant"
	"go/token"
	"go/types"
	"os"
	"strings"
	"sync"

	"golang.org/x/tools/go/ssa"
)

// RunCfg: per-harness bounds and modes.
type RunCfg struct {
	Name        string         `json:"name"`
	Func        string         `json:"func"` // "pkgpath.FuncName"
	Mode        string         `json:"mode"` // "canonical" | "explore"
	Preempt     int            `json:"preempt"`
	Unwind      int            `json:"unwind"`
	MaxSteps    int64          `json:"max_steps"`
	MaxPaths    int            `json:"max_paths"`
	MaxDepth    int            `json:"max_depth"`
	TimeoutS    int            `json:"timeout_s"`
	Params      map[string]int `json:"params"`
	IntMode     bool           `json:"int_mode"`
	Race        bool           `json:"race"`
	Ledger      bool           `json:"ledger"`
	PoolAny     bool           `json:"pool_any"`
	TimerRace   bool           `json:"timer_race"`
	SwitchBound int            `json:"switch_bound"`
	Stall       bool           `json:"stall"`      // explore: a preempted goroutine stays stopped until all others are at rest
	StallSpan   int            `json:"stall_span"` // ... and may stay stopped across this many further Quiesce points of the harness
	Shards      int            `json:"shards"`
	ShardDepth  int            `json:"shard_depth"`
	CrossSolver string         `json:"cross_solver"`
	MapRotate   bool           `json:"map_rotate"`
	SymRand     bool           `json:"sym_rand"`
	OpaqueMake  bool           `json:"opaque_make"`
	Reach       []string       `json:"reach"`       // markers that must be reached
	ExpectViol  []string       `json:"expect_viol"` // labels (prefix) that must be violated (twins)
	Sequential  bool           `json:"sequential"`  // eligible for native replay
	DiffOnly    bool           `json:"diff_only"`   // translator-validation corpus: no symbolic exploration, concrete differential runs only
	Notes       string         `json:"notes"`
	ConcMax     int            `json:"conc_max"` // max values when concretizing
	Lazy        bool           `json:"lazy"`
	Twin        bool           `json:"twin"`
	QueryMs     int            `json:"query_ms"`
	Group       string         `json:"group"`
}

type fnInfo struct {
	regs      map[ssa.Value]int
	nregs     int
	intrinsic Intrinsic
	name      string
	isMangos  bool
	isEnv     bool // environment stub (connection, transport) the library hands buffers to
}

var fnInfos sync.Map // *ssa.Function -> *fnInfo

func getFnInfo(fn *ssa.Function) *fnInfo {
	if v, ok := fnInfos.Load(fn); ok {
		return v.(*fnInfo)
	}
	fi := &fnInfo{regs: map[ssa.Value]int{}, name: fn.String()}
	n := 0
	add := func(v ssa.Value) {
		fi.regs[v] = n
		n++
	}
	for _, p := range fn.Params {
		add(p)
	}
	for _, p := range fn.FreeVars {
		add(p)
	}
	for _, b := range fn.Blocks {
		for _, ins := range b.Instrs {
			if v, ok := ins.(ssa.Value); ok {
				add(v)
			}
		}
	}
	fi.nregs = n
	fi.intrinsic = lookupIntrinsic(fn)
	if fn.Pkg != nil {
		fi.isMangos = isMangosPkg(fn.Pkg.Pkg.Path())
		fi.isEnv = isEnvPkg(fn.Pkg.Pkg.Path())
	} else if fn.Parent() != nil && fn.Parent().Pkg != nil {
		fi.isMangos = isMangosPkg(fn.Parent().Pkg.Pkg.Path())
		fi.isEnv = isEnvPkg(fn.Parent().Pkg.Pkg.Path())
	}
	v, _ := fnInfos.LoadOrStore(fn, fi)
	return v.(*fnInfo)
}

type deferred struct {
	fn   Value
	args []Value
	pos  token.Pos
	desc string
}

type Frame struct {
	fn          *ssa.Function
	info        *fnInfo
	env         []Value
	block, prev *ssa.BasicBlock
	defers      []deferred
	result      Value
	caller      *Frame
	pos         token.Pos
	visits      []int
	g           *G
}

type VM struct {
	prog    *ssa.Program
	tb      *TermBank
	solver  *Solver
	solver2 *Solver // optional second solver for cross-checking assertion queries
	cfg     *RunCfg
	ex      *Explorer

	intMode bool

	// per-path state
	globals   map[*ssa.Global]*Value
	pc        []*Term
	gs        []*G
	cur       *G
	main      *G
	steps     int64
	preempts  int
	nextID    int
	timers    []*TimerV
	now       IntV
	side      map[*Value]interface{} // sync primitives' state keyed by address
	inputs    []inputRec
	observes  []string
	killing   bool
	pathDone  chan *PathResult
	wg        sync.WaitGroup
	initDone  map[*ssa.Package]bool
	lenient   int
	allocSym  *Term // symbolic sum of opaque allocations
	allocs    []string
	ledger    *Ledger
	race      *RaceDet
	funcsSeen map[*ssa.Function]bool
	evlog     []string
	nameCtr   map[string]int
	poolSeq   int
	noPreempt int
	lazyMode  bool
	lzRoot    *ssa.Function
	lz        *lazyState
	switches  int
	stallSpanUsed int
	mainKeepOK    bool
}

type inputRec struct {
	name string
	t    *Term
}

func (fr *Frame) get(v ssa.Value) Value {
	switch v := v.(type) {
	case nil:
		return nil
	case *ssa.Const:
		return constValue(v)
	case *ssa.Global:
		if p, ok := fr.g.vm.globals[v]; ok {
			return p
		}
		return fr.g.vm.globalAddr(v)
	case *ssa.Function:
		return v
	case *ssa.Builtin:
		return v
	}
	if i, ok := fr.info.regs[v]; ok {
		r := fr.env[i]
		if lz, isL := r.(Lazy); isL {
			r = fr.g.mat(lz.t)
			if lz2, again := r.(Lazy); again { // single-element tuple unwrap
				r = fr.g.mat(lz2.t)
			}
			fr.env[i] = r
		}
		if p, isP := r.(Poison); isP && fr.g.vm.lenient == 0 {
			panic(unsupported("use of poisoned value: " + p.why))
		}
		return r
	}
	panic(fmt.Sprintf("get: no register for %T %v in %s", v, v.Name(), fr.fn))
}

func (fr *Frame) set(v ssa.Value, x Value) {
	fr.env[fr.info.regs[v]] = x
}

func (vm *VM) globalAddr(g *ssa.Global) *Value {
	if p, ok := vm.globals[g]; ok {
		return p
	}
	var cell Value
	t := g.Type().(*types.Pointer).Elem()
	if vm.lazyMode {
		p := new(Value)
		*p = Lazy{t}
		vm.globals[g] = p
		return p
	}
	if g.Pkg != nil && !vm.pkgInitialised(g.Pkg) {
		cell = zeroLenient(t)
		// globals of packages whose init was not run: zero for plain data is
		// still the Go semantics before init; mark so that reads of
		// initialised-by-init globals are caught.
		if vm.needsInit(g) {
			cell = Poison{why: "global " + g.String() + " of uninitialised package"}
		}
		if v, ok := knownGlobals[g.String()]; ok {
			cell = v
		}
	} else {
		cell = zeroLenient(t)
	}
	p := new(Value)
	*p = cell
	vm.globals[g] = p
	return p
}

// values of a few std-lib globals whose package initialiser is not run
var knownGlobals = map[string]Value{
	"net/http.use121": BoolV{C: false},
}

func zeroLenient(t types.Type) (v Value) {
	defer func() {
		if r := recover(); r != nil {
			v = Poison{why: fmt.Sprint(r)}
		}
	}()
	return zero(t)
}

func constValue(c *ssa.Const) Value {
	if c.Value == nil {
		return zero(c.Type())
	}
	if t, ok := c.Type().Underlying().(*types.Basic); ok {
		switch {
		case t.Info()&types.IsBoolean != 0:
			return mkBool(constant.BoolVal(c.Value))
		case t.Info()&types.IsInteger != 0:
			w, signed := intInfo(t)
			if signed {
				return IntV{C: norm(uint64(c.Int64()), w, true)}
			}
			return IntV{C: norm(c.Uint64(), w, false)}
		case t.Info()&types.IsFloat != 0:
			return FloatV{C: c.Float64()}
		case t.Info()&types.IsString != 0:
			if c.Value.Kind() == constant.String {
				return constant.StringVal(c.Value)
			}
			return string(rune(c.Int64()))
		}
	}
	panic(unsupported(fmt.Sprintf("constant %v of type %v", c, c.Type())))
}

func (vm *VM) posStr(pos token.Pos) string {
	if pos == token.NoPos {
		return "?"
	}
	p := vm.prog.Fset.Position(pos)
	f := p.Filename
	if pre := repoDir + "/"; strings.HasPrefix(f, pre) {
		f = f[len(pre):]
	}
	return fmt.Sprintf("%s:%d", f, p.Line)
}

func (g *G) tpanic(kind, msg string, pos token.Pos) {
	if pos == token.NoPos && g.fr != nil {
		pos = g.fr.pos
	}
	panic(targetPanic{v: msg, kind: kind, pos: g.vm.posStr(pos), fn: g.curFn()})
}

func (g *G) curFn() string {
	for fr := g.fr; fr != nil; fr = fr.caller {
		if fr.info.isMangos {
			return strings.ReplaceAll(fr.fn.String(), "go.nanomsg.org/mangos/v3/", "")
		}
	}
	if g.fr != nil {
		return g.fr.fn.String()
	}
	return "?"
}

// ---- calls

func (g *G) call(fn Value, args []Value, pos token.Pos) Value {
	if g.vm.lazyMode {
		if gf, ok := fn.(goFunc); ok {
			return gf(g)
		}
		return g.lazyCall(fn, args, pos, "")
	}
	switch fn := fn.(type) {
	case *ssa.Function:
		if fn == nil {
			g.tpanic("nil", "call of nil function", pos)
		}
		return g.callSSA(fn, args, nil, pos)
	case *Closure:
		return g.callSSA(fn.Fn, args, fn.Env, pos)
	case *ssa.Builtin:
		return g.callBuiltin(fn, args, pos, nil)
	case goFunc:
		return fn(g)
	case Poison:
		panic(unsupported("call of poisoned function value: " + fn.why))
	}
	panic(fmt.Sprintf("cannot call %T", fn))
}

func (g *G) callSSA(fn *ssa.Function, args []Value, env []Value, pos token.Pos) Value {
	vm := g.vm
	info := getFnInfo(fn)
	if info.intrinsic != nil {
		return info.intrinsic(g, args, pos)
	}
	if fn.Synthetic == "package initializer" {
		g.callInit(fn)
		return nil
	}
	if fn.Blocks == nil {
		panic(unsupported("no code for function: " + info.name))
	}
	if info.isMangos {
		vm.ex.noteFunc(fn)
	}
	fr := &Frame{fn: fn, info: info, caller: g.fr, g: g, pos: pos}
	fr.env = make([]Value, info.nregs)
	fr.visits = make([]int, len(fn.Blocks))
	k := 0
	for range fn.Params {
		fr.env[k] = args[k]
		k++
	}
	for i := range fn.FreeVars {
		fr.env[k] = env[i]
		k++
	}
	for _, l := range fn.Locals {
		p := new(Value)
		*p = zero(l.Type().(*types.Pointer).Elem())
		fr.set(l, p)
	}
	g.depth++
	if g.depth > 400 {
		panic(pathAbort{kind: "BUDGET", msg: "call depth > 400 in " + info.name})
	}
	saved := g.fr
	g.fr = fr
	fr.block = fn.Blocks[0]
	g.runFrame(fr)
	g.fr = saved
	g.depth--
	return fr.result
}

// block coverage of the library code by the harnesses (GOSYM_COVER=<file>): which SSA blocks of non-harness
// mangos functions were executed on some explored path
type coverKey struct {
	fn  *ssa.Function
	blk int
}

var coverOn = os.Getenv("GOSYM_COVER") != ""
var coverBlocks sync.Map

func (g *G) runFrame(fr *Frame) {
	vm := g.vm
	unwind := vm.cfg.Unwind
	cov := coverOn && fr.fn.Pkg != nil && strings.HasPrefix(fr.fn.Pkg.Pkg.Path(), modPath) && !strings.Contains(fr.fn.Pkg.Pkg.Path(), "/zzverif")
	for fr.block != nil {
		b := fr.block
		if cov {
			coverBlocks.Store(coverKey{fr.fn, b.Index}, true)
		}
		fr.visits[b.Index]++
		if fr.visits[b.Index] > unwind {
			if vm.lazyMode {
				panic(pathAbort{kind: "CUT", msg: "loop bound"})
			}
			panic(pathAbort{kind: "UNWIND", msg: fmt.Sprintf("block %d of %s visited > %d times (%s)", b.Index, fr.fn, unwind, vm.posStr(fr.pos))})
		}
		instrs := b.Instrs
		// phis
		np := 0
		for np < len(instrs) {
			if _, ok := instrs[np].(*ssa.Phi); !ok {
				break
			}
			np++
		}
		if np > 0 {
			pi := -1
			for i, p := range b.Preds {
				if p == fr.prev {
					pi = i
					break
				}
			}
			tmp := make([]Value, np)
			for i := 0; i < np; i++ {
				tmp[i] = fr.get(instrs[i].(*ssa.Phi).Edges[pi])
			}
			for i := 0; i < np; i++ {
				fr.set(instrs[i].(*ssa.Phi), tmp[i])
			}
		}
		jumped := false
		for _, ins := range instrs[np:] {
			vm.steps++
			if vm.steps > vm.cfg.MaxSteps {
				panic(pathAbort{kind: "BUDGET", msg: fmt.Sprintf("instruction budget %d exhausted", vm.cfg.MaxSteps)})
			}
			if p := ins.Pos(); p != token.NoPos {
				fr.pos = p
			}
			if traceOn {
				traceInstr(g, fr, ins)
			}
			var k int
			if vm.lazyMode {
				k = g.visitLazy(fr, ins)
			} else if vm.lenient > 0 {
				k = g.visitLenient(fr, ins)
			} else {
				k = g.visit(fr, ins)
			}
			if k == kReturn {
				return
			}
			if k == kJump {
				jumped = true
				break
			}
		}
		if !jumped {
			panic("block fell through: " + fr.fn.String())
		}
	}
}

const (
	kNext = iota
	kReturn
	kJump
)

func (g *G) visitLenient(fr *Frame, ins ssa.Instruction) (k int) {
	defer func() {
		if r := recover(); r != nil {
			pa, ok := r.(pathAbort)
			if ok && pa.kind == "KILL" {
				panic(r)
			}
			why := fmt.Sprint(r)
			if ok {
				why = pa.msg
			}
			if tp, ok := r.(targetPanic); ok {
				why = fmt.Sprint(tp.v)
			}
			switch ins := ins.(type) {
			case ssa.Value:
				fr.set(ins, Poison{why: why})
				k = kNext
			case *ssa.Store:
				// poison the destination if we can find it
				func() {
					defer func() { recover() }()
					if p, ok := fr.get(ins.Addr).(*Value); ok && p != nil {
						*p = Poison{why: why}
					}
				}()
				k = kNext
			case *ssa.If, *ssa.Jump, *ssa.Return, *ssa.Panic:
				// cannot continue this function
				panic(lenientAbort{why})
			default:
				k = kNext
			}
		}
	}()
	return g.visit(fr, ins)
}

type lenientAbort struct{ why string }

func (g *G) visit(fr *Frame, ins ssa.Instruction) int {
	vm := g.vm
	switch ins := ins.(type) {
	case *ssa.DebugRef:
	case *ssa.UnOp:
		fr.set(ins, g.unop(fr, ins))
	case *ssa.BinOp:
		fr.set(ins, g.binop(ins.Op, ins.X.Type(), fr.get(ins.X), fr.get(ins.Y), ins.Pos()))
	case *ssa.Call:
		fn, args := g.prepareCall(fr, &ins.Call)
		var r Value
		if b, ok := fn.(*ssa.Builtin); ok {
			r = g.callBuiltin(b, args, ins.Pos(), ins)
		} else {
			r = g.call(fn, args, ins.Pos())
		}
		fr.set(ins, r)
	case *ssa.ChangeInterface:
		fr.set(ins, fr.get(ins.X))
	case *ssa.ChangeType:
		fr.set(ins, fr.get(ins.X))
	case *ssa.Convert:
		fr.set(ins, g.conv(ins.Type(), ins.X.Type(), fr.get(ins.X)))
	case *ssa.MakeInterface:
		fr.set(ins, Iface{T: ins.X.Type(), V: fr.get(ins.X)})
	case *ssa.Extract:
		fr.set(ins, fr.get(ins.Tuple).(Tuple)[ins.Index])
	case *ssa.Slice:
		fr.set(ins, g.sliceOp(ins, fr.get(ins.X), fr.get(ins.Low), fr.get(ins.High), fr.get(ins.Max)))
	case *ssa.Return:
		switch len(ins.Results) {
		case 0:
		case 1:
			fr.result = fr.get(ins.Results[0])
		default:
			res := make(Tuple, len(ins.Results))
			for i, r := range ins.Results {
				res[i] = fr.get(r)
			}
			fr.result = res
		}
		fr.block = nil
		return kReturn
	case *ssa.RunDefers:
		for len(fr.defers) > 0 {
			d := fr.defers[len(fr.defers)-1]
			fr.defers = fr.defers[:len(fr.defers)-1]
			if b, ok := d.fn.(*ssa.Builtin); ok {
				g.callBuiltin(b, d.args, d.pos, nil)
			} else {
				g.call(d.fn, d.args, d.pos)
			}
		}
	case *ssa.Panic:
		x := fr.get(ins.X)
		msg := "panic"
		if ifc, ok := x.(Iface); ok {
			msg = valStr(ifc.V)
			if ifc.T != nil {
				if s, ok := g.errString(ifc); ok {
					msg = s
				}
			}
		}
		panic(targetPanic{v: msg, kind: "explicit", pos: vm.posStr(ins.Pos()), fn: g.curFn()})
	case *ssa.Send:
		g.chanSend(fr.get(ins.Chan).(*ChanV), fr.get(ins.X), ins.Pos())
	case *ssa.Store:
		addr, ok := fr.get(ins.Addr).(*Value)
		if !ok {
			panic(fmt.Sprintf("store to %T", fr.get(ins.Addr)))
		}
		if addr == nil {
			g.tpanic("nil", "nil pointer dereference (store)", ins.Pos())
		}
		if vm.race != nil || vm.ledger != nil {
			g.curAddr = ins.Addr
			g.access(addr, true, ins.Pos())
		}
		storeInto(addr, fr.get(ins.Val))
	case *ssa.If:
		c := fr.get(ins.Cond).(BoolV)
		var taken bool
		if c.S == nil {
			taken = c.C
		} else {
			taken = g.branch(c.S, "if")
		}
		succ := 1
		if taken {
			succ = 0
		}
		fr.prev, fr.block = fr.block, fr.block.Succs[succ]
		return kJump
	case *ssa.Jump:
		fr.prev, fr.block = fr.block, fr.block.Succs[0]
		return kJump
	case *ssa.Defer:
		fn, args := g.prepareCall(fr, &ins.Call)
		fr.defers = append(fr.defers, deferred{fn: fn, args: args, pos: ins.Pos()})
	case *ssa.Go:
		fn, args := g.prepareCall(fr, &ins.Call)
		g.schedPoint("go")
		ng := vm.spawn(fn, args, "", ins.Pos())
		if vm.race != nil {
			vm.race.fork(g, ng)
		}
	case *ssa.MakeChan:
		sz := g.toIntNonNeg(fr.get(ins.Size).(IntV), "makechan: size out of range", ins.Pos())
		fr.set(ins, vm.newChan(sz, ins.Type().Underlying().(*types.Chan).Elem()))
	case *ssa.Alloc:
		p := new(Value)
		*p = zero(ins.Type().(*types.Pointer).Elem())
		if ins.Heap {
			fr.set(ins, p)
		} else {
			// local: reuse the cell allocated at entry but re-zero
			addr := fr.env[fr.info.regs[ins]].(*Value)
			*addr = *p
		}
	case *ssa.MakeSlice:
		fr.set(ins, g.makeSlice(ins, fr.get(ins.Len).(IntV), fr.get(ins.Cap).(IntV)))
	case *ssa.MakeMap:
		fr.set(ins, newMap())
	case *ssa.Range:
		x := fr.get(ins.X)
		switch x := x.(type) {
		case *MapV:
			if x == nil {
				x = newMap()
			}
			it := &mapIter{m: x, n0: len(x.keys)}
			if vm.cfg.MapRotate && x.n > 1 && fr.info.isMangos {
				// the starting point of a map iteration is unspecified in Go: a decision
				var liveIdx []int
				for i, l := range x.live {
					if l {
						liveIdx = append(liveIdx, i)
					}
				}
				it.start = liveIdx[vm.choose(len(liveIdx), "map-range-start", 'M')]
			}
			fr.set(ins, it)
		case string:
			fr.set(ins, &strIter{s: x})
		default:
			panic(unsupported(fmt.Sprintf("range over %T", x)))
		}
	case *ssa.Next:
		switch it := fr.get(ins.Iter).(type) {
		case *mapIter:
			fr.set(ins, it.next())
		case *strIter:
			fr.set(ins, it.next())
		}
	case *ssa.FieldAddr:
		p, ok := fr.get(ins.X).(*Value)
		if !ok {
			panic(fmt.Sprintf("FieldAddr on %T", fr.get(ins.X)))
		}
		if p == nil {
			g.tpanic("nil", "nil pointer dereference (field)", ins.Pos())
		}
		st, ok := (*p).(Struct)
		if !ok {
			if po, isP := (*p).(Poison); isP {
				panic(unsupported("field of poisoned struct: " + po.why))
			}
			panic(fmt.Sprintf("FieldAddr: cell holds %T", *p))
		}
		fr.set(ins, &st[ins.Field])
	case *ssa.Field:
		fr.set(ins, copyVal(fr.get(ins.X).(Struct)[ins.Field]))
	case *ssa.IndexAddr:
		idx := g.widenIndex(fr.get(ins.Index).(IntV), ins.Index.Type())
		if idx.S != nil && onlyLoaded(ins) {
			if sp := g.symTableAddr(fr.get(ins.X), idx, ins.Pos()); sp != nil {
				fr.set(ins, sp)
				break
			}
		}
		fr.set(ins, g.indexAddr(fr.get(ins.X), idx, ins.Pos()))
	case *ssa.Index:
		x := fr.get(ins.X)
		idx := g.widenIndex(fr.get(ins.Index).(IntV), ins.Index.Type())
		switch x := x.(type) {
		case Array:
			i := g.checkIndex(idx, len(x), ins.Pos())
			fr.set(ins, copyVal(x[i]))
		case string:
			i := g.checkIndex(idx, len(x), ins.Pos())
			fr.set(ins, mkInt(uint64(x[i])))
		case SymStr:
			i := g.checkIndex(idx, len(x), ins.Pos())
			fr.set(ins, x[i])
		default:
			panic(unsupported(fmt.Sprintf("Index on %T", x)))
		}
	case *ssa.Lookup:
		fr.set(ins, g.lookup(ins, fr.get(ins.X), fr.get(ins.Index)))
	case *ssa.MapUpdate:
		m := fr.get(ins.Map).(*MapV)
		if m == nil {
			g.tpanic("nilmap", "assignment to entry in nil map", ins.Pos())
		}
		if vm.race != nil {
			g.accessObj(m, true, ins.Pos())
		}
		g.mapSet(m, fr.get(ins.Key), fr.get(ins.Value))
	case *ssa.TypeAssert:
		fr.set(ins, g.typeAssert(ins, fr.get(ins.X).(Iface)))
	case *ssa.MakeClosure:
		var env []Value
		for _, b := range ins.Bindings {
			env = append(env, fr.get(b))
		}
		fr.set(ins, &Closure{Fn: ins.Fn.(*ssa.Function), Env: env})
	case *ssa.Select:
		fr.set(ins, g.selectOp(fr, ins))
	case *ssa.SliceToArrayPointer:
		panic(unsupported("SliceToArrayPointer"))
	default:
		panic(unsupported(fmt.Sprintf("instruction %T", ins)))
	}
	return kNext
}

func (g *G) errString(ifc Iface) (s string, ok bool) {
	defer func() {
		if r := recover(); r != nil {
			ok = false
		}
	}()
	if m := g.vm.lookupMethod(ifc.T, "Error"); m != nil {
		r := g.call(m, []Value{ifc.V}, token.NoPos)
		if str, isS := r.(string); isS {
			return str, true
		}
	}
	if str, isS := ifc.V.(string); isS {
		return str, true
	}
	return "", false
}

func (vm *VM) lookupMethod(t types.Type, name string) *ssa.Function {
	ms := vm.prog.MethodSets.MethodSet(t)
	for i := 0; i < ms.Len(); i++ {
		if ms.At(i).Obj().Name() == name {
			return vm.prog.MethodValue(ms.At(i))
		}
	}
	return nil
}

func (g *G) prepareCall(fr *Frame, c *ssa.CallCommon) (Value, []Value) {
	v := fr.get(c.Value)
	var fn Value
	var args []Value
	if c.Method == nil {
		fn = v
	} else {
		recv, ok := v.(Iface)
		if !ok {
			panic(fmt.Sprintf("invoke on %T", v))
		}
		if recv.T == nil {
			g.tpanic("nil", "method "+c.Method.Name()+" invoked on nil interface", c.Pos())
		}
		f := g.vm.prog.LookupMethod(recv.T, c.Method.Pkg(), c.Method.Name())
		if f == nil {
			panic(fmt.Sprintf("no method %s on %v", c.Method.Name(), recv.T))
		}
		fn = f
		args = append(args, recv.V)
	}
	for _, a := range c.Args {
		args = append(args, fr.get(a))
	}
	return fn, args
}

// invoke calls method name on an interface value.
func (g *G) invoke(ifc Iface, name string, args ...Value) Value {
	if ifc.T == nil {
		g.tpanic("nil", "method "+name+" invoked on nil interface", token.NoPos)
	}
	f := g.vm.lookupMethod(ifc.T, name)
	if f == nil {
		panic(fmt.Sprintf("invoke: no method %s on %v", name, ifc.T))
	}
	return g.call(f, append([]Value{ifc.V}, args...), token.NoPos)
}

// ---- loads

func (g *G) unop(fr *Frame, ins *ssa.UnOp) Value {
	x := fr.get(ins.X)
	switch ins.Op {
	case token.MUL: // load
		if sp, isSym := x.(*symTablePtr); isSym {
			return g.symTableLoad(sp, ins.Type())
		}
		p, ok := x.(*Value)
		if !ok {
			panic(fmt.Sprintf("load from %T at %s", x, g.vm.posStr(ins.Pos())))
		}
		if p == nil {
			g.tpanic("nil", "nil pointer dereference", ins.Pos())
		}
		if g.vm.race != nil || g.vm.ledger != nil {
			g.curAddr = ins.X
			g.access(p, false, ins.Pos())
		}
		v := *p
		if po, isP := v.(Poison); isP && g.vm.lenient == 0 {
			panic(unsupported("load of poisoned memory: " + po.why))
		}
		return copyVal(v)
	case token.ARROW:
		ch := x.(*ChanV)
		v, ok := g.chanRecv(ch, ins.Pos())
		if ins.CommaOk {
			return Tuple{v, mkBool(ok)}
		}
		return v
	}
	return g.unopArith(ins.Op, ins.X.Type(), x)
}

// ---- indices, slices

// checkIndex returns a concrete in-range index (exploring the panic path when feasible).
// symTablePtr: the address of element [idx] of an array or slice whose elements are all concrete integers, with a
// symbolic idx that is known to be in range. It exists only where every use of the address is a load (onlyLoaded);
// the load yields ite(idx==0, e0, ite(idx==1, e1, ...)). This keeps look-ups in constant tables (unicode/utf8's
// first[], strconv's tables) symbolic instead of forking once per feasible index value.
type symTablePtr struct {
	elems []Value
	idx   *Term
}

func onlyLoaded(ins *ssa.IndexAddr) bool {
	refs := ins.Referrers()
	if refs == nil || len(*refs) == 0 {
		return false
	}
	for _, r := range *refs {
		u, ok := r.(*ssa.UnOp)
		if !ok || u.Op != token.MUL {
			if _, dbg := r.(*ssa.DebugRef); dbg {
				continue
			}
			return false
		}
	}
	return true
}

func (g *G) symTableAddr(x Value, idx IntV, pos token.Pos) Value {
	if g.vm.intMode || g.vm.race != nil || g.vm.ledger != nil {
		return nil
	}
	var elems []Value
	switch x := x.(type) {
	case []Value:
		elems = x
	case *Value:
		if x == nil {
			return nil
		}
		a, ok := (*x).(Array)
		if !ok {
			return nil
		}
		elems = a
	default:
		return nil
	}
	if len(elems) < 2 || len(elems) > 4096 {
		return nil
	}
	for _, e := range elems {
		iv, ok := e.(IntV)
		if !ok || iv.S != nil {
			return nil
		}
	}
	if _, ok := g.unique(idx); ok {
		return nil
	}
	tb := g.vm.tb
	inr := tb.Cmp(OpULt, idx.S, tb.Const(uint64(len(elems)), idx.S.w))
	if !g.branch(inr, "index-in-range") {
		g.tpanic("index", fmt.Sprintf("index out of range [sym] with length %d", len(elems)), pos)
	}
	return &symTablePtr{elems: elems, idx: idx.S}
}

func (g *G) symTableLoad(sp *symTablePtr, t types.Type) Value {
	w, signed := intInfo(t)
	tb := g.vm.tb
	n := len(sp.elems)
	res := tb.Const(sp.elems[n-1].(IntV).C, w)
	for i := n - 2; i >= 0; i-- {
		res = tb.Ite(tb.Eq(sp.idx, tb.Const(uint64(i), sp.idx.w)), tb.Const(sp.elems[i].(IntV).C, w), res)
	}
	return g.vm.fromTermT(res, w, signed)
}

// widenIndex extends a symbolic index of a narrow integer type (uint8, int16, ...) to 64 bits by its signedness, so
// that the bounds comparison against the length is not made in the narrow width (256 does not fit into 8 bits).
func (g *G) widenIndex(idx IntV, t types.Type) IntV {
	if idx.S == nil || idx.S.w <= 0 || idx.S.w >= 64 {
		return idx
	}
	signed := false
	if b, ok := t.Underlying().(*types.Basic); ok {
		signed = b.Info()&types.IsUnsigned == 0
	}
	if signed {
		return IntV{S: g.vm.tb.SExt(idx.S, 64)}
	}
	return IntV{S: g.vm.tb.ZExt(idx.S, 64)}
}

func (g *G) checkIndex(idx IntV, n int, pos token.Pos) int {
	if idx.S == nil {
		i := int64(idx.C)
		if i < 0 || i >= int64(n) {
			g.tpanic("index", fmt.Sprintf("index out of range [%d] with length %d", i, n), pos)
		}
		return int(i)
	}
	vm := g.vm
	w := idx.S.w
	var inr *Term
	if w > 0 {
		inr = vm.tb.Cmp(OpULt, idx.S, vm.tb.Const(uint64(n), w))
	} else {
		inr = vm.tb.BAnd(vm.tb.Cmp(OpILe, vm.tb.Const(0, w), idx.S), vm.tb.Cmp(OpILt, idx.S, vm.tb.Const(uint64(n), w)))
	}
	if !g.branch(inr, "index-in-range") {
		g.tpanic("index", fmt.Sprintf("index out of range [sym] with length %d", n), pos)
	}
	return int(g.concretize(idx, "index"))
}

func (g *G) indexAddr(x Value, idx IntV, pos token.Pos) Value {
	switch x := x.(type) {
	case []Value:
		i := g.checkIndex(idx, len(x), pos)
		return &x[i]
	case *Value:
		if x == nil {
			g.tpanic("nil", "nil pointer dereference (array index)", pos)
		}
		a := (*x).(Array)
		i := g.checkIndex(idx, len(a), pos)
		return &a[i]
	case *SymSlice:
		s := g.concretizeSlice(x)
		i := g.checkIndex(idx, len(s), pos)
		return &s[i]
	}
	panic(fmt.Sprintf("IndexAddr on %T", x))
}

func (g *G) makeSlice(ins *ssa.MakeSlice, ln, cp IntV) Value {
	vm := g.vm
	et := ins.Type().Underlying().(*types.Slice).Elem()
	if ln.S != nil || cp.S != nil {
		if u, ok := g.unique(cp); ok {
			cp = IntV{C: u}
		}
		if u, ok := g.unique(ln); ok {
			ln = IntV{C: u}
		}
	}
	if ln.S == nil && cp.S == nil {
		l, c := int64(ln.C), int64(cp.C)
		if l < 0 || l > c {
			g.tpanic("makeslice", "makeslice: len out of range", ins.Pos())
		}
		if c < 0 || c > 1<<48 {
			g.tpanic("makeslice", "makeslice: cap out of range", ins.Pos())
		}
		if c > 1<<22 {
			panic(pathAbort{kind: "BUDGET", msg: fmt.Sprintf("concrete make of %d elements", c)})
		}
		s := make([]Value, c)
		for i := range s {
			s[i] = zero(et)
		}
		vm.noteAlloc(IntV{C: uint64(c)}, et)
		return s[:l]
	}
	if !vm.cfg.OpaqueMake {
		// enumerate
		c := int64(g.concretize(cp, "makeslice-cap"))
		l := int64(g.concretize(ln, "makeslice-len"))
		return g.makeSlice(ins, IntV{C: uint64(l)}, IntV{C: uint64(c)})
	}
	// opaque symbolic-size slice
	tb := vm.tb
	lt, ct := vm.intTerm(ln, 64), vm.intTerm(cp, 64)
	ok := tb.BAnd(tb.Cmp(OpSLe, tb.Const(0, 64), lt), tb.Cmp(OpSLe, lt, ct))
	if !g.branch(ok, "makeslice-len") {
		g.tpanic("makeslice", "makeslice: len out of range", ins.Pos())
	}
	capok := tb.Cmp(OpSLe, ct, tb.Const(1<<48, 64))
	if !g.branch(capok, "makeslice-cap") {
		g.tpanic("makeslice", "makeslice: cap out of range", ins.Pos())
	}
	vm.noteAlloc(cp, et)
	return &SymSlice{arr: nil, len: ln, cap: cp, elem: et}
}

func (vm *VM) noteAlloc(n IntV, et types.Type) {
	if b, ok := et.Underlying().(*types.Basic); !ok || b.Kind() != types.Uint8 {
		return
	}
	t := vm.intTerm(n, 64)
	if vm.allocSym == nil {
		vm.allocSym = vm.tb.Const(0, 64)
	}
	vm.allocSym = vm.tb.Arith(OpAdd, vm.allocSym, t)
}

func (g *G) sliceOp(ins *ssa.Slice, x, lo, hi, max Value) Value {
	var base []Value
	var capv int
	isStr := false
	switch x := x.(type) {
	case []Value:
		base = x
		capv = cap(x)
	case string, SymStr:
		base = strBytes(x)
		capv = len(base)
		isStr = true
	case *Value:
		if x == nil {
			g.tpanic("nil", "nil pointer dereference (slice of array)", ins.Pos())
		}
		a := (*x).(Array)
		base = []Value(a)
		capv = len(a)
	case *SymSlice:
		return g.symSliceOp(ins, x, lo, hi, max)
	default:
		panic(fmt.Sprintf("slice of %T", x))
	}
	l := IntV{C: 0}
	if lo != nil {
		l = lo.(IntV)
	}
	h := IntV{C: uint64(len(base))}
	if hi != nil {
		h = hi.(IntV)
	}
	m := IntV{C: uint64(capv)}
	if max != nil {
		m = max.(IntV)
	}
	for _, p := range []*IntV{&l, &h, &m} {
		if p.S != nil {
			if u, ok := g.unique(*p); ok {
				*p = IntV{C: u}
			}
		}
	}
	if l.S != nil || h.S != nil || m.S != nil {
		if isStr {
			panic(unsupported("symbolic bounds slicing a string"))
		}
		ss := &SymSlice{arr: base[:capv], len: IntV{C: uint64(len(base))}, cap: IntV{C: uint64(capv)}}
		if st, ok := ins.Type().Underlying().(*types.Slice); ok {
			ss.elem = st.Elem()
		}
		var lov, hiv, mxv Value
		if lo != nil {
			lov = l
		}
		if hi != nil {
			hiv = h
		}
		if max != nil {
			mxv = m
		}
		return g.symSliceOp(ins, ss, lov, hiv, mxv)
	}
	li, hi2, mi := int64(l.C), int64(h.C), int64(m.C)
	if li < 0 || hi2 < li || mi < hi2 || mi > int64(capv) {
		g.tpanic("slice", fmt.Sprintf("slice bounds out of range [%d:%d:%d] with capacity %d", li, hi2, mi, capv), ins.Pos())
	}
	if isStr {
		return mkStr(base[li:hi2])
	}
	if x, ok := x.([]Value); ok && x == nil && hi2 == 0 {
		return []Value(nil)
	}
	return base[li:hi2:mi]
}

func (g *G) symSliceOp(ins *ssa.Slice, x *SymSlice, lo, hi, max Value) Value {
	vm := g.vm
	tb := vm.tb
	l := tb.Const(0, 64)
	if lo != nil {
		l = vm.intTerm(lo.(IntV), 64)
	}
	h := vm.intTerm(x.len, 64)
	if hi != nil {
		h = vm.intTerm(hi.(IntV), 64)
	}
	c := vm.intTerm(x.cap, 64)
	m := c
	if max != nil {
		m = vm.intTerm(max.(IntV), 64)
	}
	ok := tb.BAnd(tb.BAnd(tb.Cmp(OpSLe, tb.Const(0, 64), l), tb.Cmp(OpSLe, l, h)), tb.BAnd(tb.Cmp(OpSLe, h, m), tb.Cmp(OpSLe, m, c)))
	if !g.branch(ok, "slice-bounds") {
		g.tpanic("slice", "slice bounds out of range (symbolic)", ins.Pos())
	}
	// need a concrete low offset when there is a backing array
	var arr []Value
	if x.arr != nil {
		lv := IntV{S: l}
		if l.IsConst() {
			lv = IntV{C: l.val}
		}
		off := int(g.concretize(lv, "slice-low"))
		arr = x.arr[off:]
		l = tb.Const(uint64(off), 64)
	}
	nl := vm.fromTermT(tb.Arith(OpSub, h, l), 64, true)
	nc := vm.fromTermT(tb.Arith(OpSub, m, l), 64, true)
	if nl.S == nil && nc.S == nil && arr != nil {
		return arr[:nl.C:nc.C]
	}
	return &SymSlice{arr: arr, len: nl, cap: nc, elem: x.elem}
}

// concretizeSlice turns a SymSlice into a concrete slice by enumerating its length.
func (g *G) concretizeSlice(s *SymSlice) []Value {
	if s.arr == nil {
		panic(unsupported("element access to an opaque (length-only) slice"))
	}
	n := int(g.concretize(s.len, "slice-len"))
	if n > len(s.arr) {
		panic("concretizeSlice: length beyond backing array")
	}
	c := len(s.arr)
	if s.cap.S == nil {
		c = int(s.cap.C)
	}
	return s.arr[:n:c]
}

func sliceLen(g *G, x Value) Value {
	switch x := x.(type) {
	case []Value:
		return mkInt(uint64(len(x)))
	case *SymSlice:
		return x.len
	}
	panic(fmt.Sprintf("len of %T", x))
}

// ---- maps

func (g *G) mapFind(m *MapV, k Value) int {
	if m == nil {
		return -1
	}
	if ck, ok := mapKey(k); ok {
		if i, ok := m.idx[ck]; ok {
			return i
		}
		if !m.sym() {
			return -1
		}
	}
	// symbolic scan
	for i := range m.keys {
		if !m.live[i] {
			continue
		}
		_, kc := mapKey(k)
		_, ec := mapKey(m.keys[i])
		if kc && ec {
			continue
		}
		eq := g.equals(nil, k, m.keys[i])
		if eq.S == nil {
			if eq.C {
				return i
			}
			continue
		}
		if g.branch(eq.S, "map-key-eq") {
			return i
		}
	}
	return -1
}

func (m *MapV) sym() bool { return m.nsym > 0 }

func (g *G) mapSet(m *MapV, k, v Value) {
	if i := g.mapFind(m, k); i >= 0 {
		m.vals[i] = v
		return
	}
	if _, ok := mapKey(k); ok {
		m.set(k, v)
		return
	}
	m.keys = append(m.keys, k)
	m.vals = append(m.vals, v)
	m.live = append(m.live, true)
	m.n++
	m.nsym++
}

func (g *G) mapDelete(m *MapV, k Value) {
	if m == nil {
		return
	}
	i := g.mapFind(m, k)
	if i < 0 {
		return
	}
	if ck, ok := mapKey(m.keys[i]); ok {
		delete(m.idx, ck)
	} else {
		m.nsym--
	}
	m.live[i] = false
	m.n--
}

func (g *G) lookup(ins *ssa.Lookup, x, k Value) Value {
	switch x := x.(type) {
	case *MapV:
		if g.vm.race != nil && x != nil {
			g.accessObj(x, false, ins.Pos())
		}
		i := g.mapFind(x, k)
		var v Value
		ok := i >= 0
		if ok {
			v = copyVal(x.vals[i])
		} else {
			v = zero(ins.X.Type().Underlying().(*types.Map).Elem())
		}
		if ins.CommaOk {
			return Tuple{v, mkBool(ok)}
		}
		return v
	case string:
		i := g.checkIndex(k.(IntV), len(x), ins.Pos())
		return mkInt(uint64(x[i]))
	case SymStr:
		i := g.checkIndex(k.(IntV), len(x), ins.Pos())
		return x[i]
	}
	panic(fmt.Sprintf("lookup on %T", x))
}

// ---- type assertions

func (g *G) typeAssert(ins *ssa.TypeAssert, itf Iface) Value {
	var v Value
	var failMsg string
	if idst, ok := ins.AssertedType.Underlying().(*types.Interface); ok {
		if itf.T == nil {
			failMsg = "interface conversion: interface is nil, not " + ins.AssertedType.String()
		} else if meth, _ := types.MissingMethod(itf.T, idst, true); meth != nil {
			failMsg = fmt.Sprintf("interface conversion: %v is not %v: missing method %s", itf.T, ins.AssertedType, meth.Name())
		} else {
			v = itf
		}
	} else {
		if itf.T != nil && types.Identical(itf.T, ins.AssertedType) {
			v = copyVal(itf.V)
		} else {
			failMsg = fmt.Sprintf("interface conversion: interface is %v, not %v", itf.T, ins.AssertedType)
		}
	}
	if failMsg != "" {
		if ins.CommaOk {
			return Tuple{zero(ins.AssertedType), mkBool(false)}
		}
		g.tpanic("typeassert", failMsg, ins.Pos())
	}
	if ins.CommaOk {
		return Tuple{v, mkBool(true)}
	}
	return v
}

// ---- builtins

func (g *G) callBuiltin(b *ssa.Builtin, args []Value, pos token.Pos, call *ssa.Call) Value {
	vm := g.vm
	switch b.Name() {
	case "len":
		switch x := args[0].(type) {
		case string:
			return mkInt(uint64(len(x)))
		case SymStr:
			return mkInt(uint64(len(x)))
		case []Value:
			return mkInt(uint64(len(x)))
		case *SymSlice:
			return x.len
		case Array:
			return mkInt(uint64(len(x)))
		case *Value:
			return mkInt(uint64(len((*x).(Array))))
		case *MapV:
			if x == nil {
				return mkInt(0)
			}
			if vm.race != nil {
				g.accessObj(x, false, pos)
			}
			return mkInt(uint64(x.n))
		case *ChanV:
			if x == nil {
				return mkInt(0)
			}
			// the number of queued elements is shared state that other goroutines change: reading it is a visible
			// operation (another goroutine's send or receive may come first)
			g.schedPoint("chanlen")
			return mkInt(uint64(len(x.buf)))
		}
	case "cap":
		switch x := args[0].(type) {
		case []Value:
			return mkInt(uint64(cap(x)))
		case *SymSlice:
			return x.cap
		case Array:
			return mkInt(uint64(len(x)))
		case *Value:
			return mkInt(uint64(len((*x).(Array))))
		case *ChanV:
			if x == nil {
				return mkInt(0)
			}
			return mkInt(uint64(x.cap))
		}
	case "append":
		var et types.Type
		if call != nil {
			et = call.Type().Underlying().(*types.Slice).Elem()
		}
		return g.appendOp(args[0], args[1], et, pos)
	case "copy":
		return g.copyOp(args[0], args[1], pos)
	case "delete":
		m := args[0].(*MapV)
		if vm.race != nil && m != nil {
			g.accessObj(m, true, pos)
		}
		g.mapDelete(m, args[1])
		return nil
	case "close":
		g.chanClose(args[0].(*ChanV), pos)
		return nil
	case "panic":
		panic(targetPanic{v: valStr(args[0]), kind: "explicit", pos: vm.posStr(pos), fn: g.curFn()})
	case "print", "println":
		return nil
	case "recover":
		return Iface{}
	case "min", "max":
		r := args[0]
		for _, a := range args[1:] {
			lt := g.binop(token.LSS, call.Call.Args[0].Type(), a, r, pos).(BoolV)
			if b.Name() == "max" {
				lt = g.binop(token.GTR, call.Call.Args[0].Type(), a, r, pos).(BoolV)
			}
			var take bool
			if lt.S == nil {
				take = lt.C
			} else {
				take = g.branch(lt.S, "minmax")
			}
			if take {
				r = a
			}
		}
		return r
	case "ssa:wrapnilchk":
		if p, ok := args[0].(*Value); ok && p == nil {
			g.tpanic("nil", "value method called using nil pointer", pos)
		}
		return args[0]
	}
	panic(unsupported(fmt.Sprintf("builtin %s on %T", b.Name(), args[0])))
}

func (g *G) appendOp(dst, src Value, et types.Type, pos token.Pos) Value {
	var d []Value
	switch x := dst.(type) {
	case []Value:
		d = x
	case *SymSlice:
		d = g.concretizeSlice(x)
	}
	var s []Value
	switch x := src.(type) {
	case []Value:
		s = x
	case string, SymStr:
		s = strBytes(x)
	case *SymSlice:
		s = g.concretizeSlice(x)
	case nil:
	}
	if len(s) == 0 {
		return d
	}
	if g.vm.race != nil || g.vm.ledger != nil {
		for i := range s {
			g.access(&s[i], false, pos)
		}
	}
	need := len(d) + len(s)
	if need <= cap(d) {
		r := d[:need]
		for i := range s {
			if g.vm.race != nil || g.vm.ledger != nil {
				g.access(&r[len(d)+i], true, pos)
			}
			r[len(d)+i] = copyVal(s[i])
		}
		return r
	}
	nc := 2 * cap(d)
	if nc < need {
		nc = need
	}
	if nc < 8 {
		nc = 8
	}
	r := make([]Value, nc)
	for i := range d {
		r[i] = d[i]
	}
	for i := range s {
		r[len(d)+i] = copyVal(s[i])
	}
	for i := need; i < nc; i++ {
		if et != nil {
			r[i] = zero(et)
		} else if len(s) > 0 {
			r[i] = zeroLike(s[0])
		}
	}
	return r[:need]
}

func zeroLike(v Value) Value {
	switch v := v.(type) {
	case IntV:
		return IntV{}
	case BoolV:
		return BoolV{}
	case FloatV:
		return FloatV{}
	case string, SymStr:
		return ""
	case *Value:
		return (*Value)(nil)
	case Iface:
		return Iface{}
	case []Value:
		return []Value(nil)
	case Struct:
		r := make(Struct, len(v))
		for i := range v {
			r[i] = zeroLike(v[i])
		}
		return r
	case *MapV:
		return (*MapV)(nil)
	case *ChanV:
		return (*ChanV)(nil)
	}
	return v
}

func (g *G) copyOp(dst, src Value, pos token.Pos) Value {
	var d []Value
	switch x := dst.(type) {
	case []Value:
		d = x
	case *SymSlice:
		d = g.concretizeSlice(x)
	}
	var s []Value
	switch x := src.(type) {
	case []Value:
		s = x
	case string, SymStr:
		s = strBytes(x)
	case *SymSlice:
		s = g.concretizeSlice(x)
	}
	n := len(d)
	if len(s) < n {
		n = len(s)
	}
	tmp := make([]Value, n)
	for i := 0; i < n; i++ {
		if g.vm.race != nil || g.vm.ledger != nil {
			g.access(&s[i], false, pos)
		}
		tmp[i] = copyVal(s[i])
	}
	for i := 0; i < n; i++ {
		if g.vm.race != nil || g.vm.ledger != nil {
			g.access(&d[i], true, pos)
		}
		d[i] = tmp[i]
	}
	return mkInt(uint64(n))
}

func isNilFn(v Value) bool {
	f, ok := v.(*ssa.Function)
	return ok && f == nil
}
