package main

// Environment stubs (os, net, tls, websocket ...) registered here.
func registerEnvIntrinsics(I map[string]Intrinsic) {
}
