package main

// Environment stubs: the kernel network is replaced by the harness network
// (package zzverif/vnet); the VM only routes the std-lib entry points to it.

import (
	"go/token"
	"go/types"
	"strings"

	"golang.org/x/tools/go/ssa"
)

const vnetPkg = "go.nanomsg.org/mangos/v3/zzverif/vnet"

func (g *G) vnetHook(name string) Value {
	p := g.vm.prog.ImportedPackage(vnetPkg)
	if p == nil {
		panic(unsupported("network access without the harness network (zzverif/vnet not loaded)"))
	}
	gl, ok := p.Members[name].(*ssa.Global)
	if !ok {
		panic(unsupported("vnet hook missing: " + name))
	}
	fv := *g.vm.globalAddr(gl)
	if isNilFn(fv) {
		panic(unsupported("network access before vnet.Install()"))
	}
	return fv
}

func registerEnvIntrinsics(I map[string]Intrinsic) {
	I["(*net.ListenConfig).Listen"] = func(g *G, a []Value, pos token.Pos) Value {
		g.vm.ex.stubsUsed["net.ListenConfig.Listen -> vnet"]++
		return g.call(g.vnetHook("ListenHook"), []Value{a[2], a[3]}, pos)
	}
	I["(*net.Dialer).Dial"] = func(g *G, a []Value, pos token.Pos) Value {
		g.vm.ex.stubsUsed["net.Dialer.Dial -> vnet"]++
		return g.call(g.vnetHook("DialHook"), []Value{a[1], a[2]}, pos)
	}
	I["net.DialTimeout"] = func(g *G, a []Value, pos token.Pos) Value {
		g.vm.ex.stubsUsed["net.DialTimeout -> vnet"]++
		return g.call(g.vnetHook("DialHook"), []Value{a[0], a[1]}, pos)
	}
	I["net.ResolveTCPAddr"] = func(g *G, a []Value, pos token.Pos) Value {
		g.vm.ex.stubsUsed["net.ResolveTCPAddr (syntactic)"]++
		addr := argStr(a[1])
		if strings.Contains(addr, "bad") || !strings.Contains(addr, ":") {
			return Tuple{(*Value)(nil), g.mkError("vnet: cannot resolve " + addr)}
		}
		t := g.vm.lookupType("net", "TCPAddr")
		p := new(Value)
		*p = zero(t)
		return Tuple{p, nilErr()}
	}
	I["context.Background"] = func(g *G, a []Value, pos token.Pos) Value {
		t := g.vm.lookupType("context", "backgroundCtx")
		return Iface{T: t, V: zero(t)}
	}
	_ = types.Typ
}
