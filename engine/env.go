package main

// Environment stubs: the kernel network is replaced by the harness network
// (package zzverif/vnet); the VM only routes the std-lib entry points to it.

import (
	"go/token"
	"go/types"
	"strings"

	"golang.org/x/tools/go/ssa"
)

const vnetPkg = "go.nanomsg.org/mangos/v3/zzverif/vnet"

func (g *G) vnetHook(name string) Value {
	p := g.vm.prog.ImportedPackage(vnetPkg)
	if p == nil {
		panic(unsupported("network access without the harness network (zzverif/vnet not loaded)"))
	}
	gl, ok := p.Members[name].(*ssa.Global)
	if !ok {
		panic(unsupported("vnet hook missing: " + name))
	}
	fv := *g.vm.globalAddr(gl)
	if isNilFn(fv) {
		panic(unsupported("network access before vnet.Install()"))
	}
	return fv
}

func registerEnvIntrinsics(I map[string]Intrinsic) {
	I["(*net.ListenConfig).Listen"] = func(g *G, a []Value, pos token.Pos) Value {
		g.vm.ex.stubsUsed["net.ListenConfig.Listen -> vnet"]++
		return g.call(g.vnetHook("ListenHook"), []Value{a[2], a[3]}, pos)
	}
	I["(*net.Dialer).Dial"] = func(g *G, a []Value, pos token.Pos) Value {
		g.vm.ex.stubsUsed["net.Dialer.Dial -> vnet"]++
		return g.call(g.vnetHook("DialHook"), []Value{a[1], a[2]}, pos)
	}
	I["net.DialTimeout"] = func(g *G, a []Value, pos token.Pos) Value {
		g.vm.ex.stubsUsed["net.DialTimeout -> vnet"]++
		return g.call(g.vnetHook("DialHook"), []Value{a[0], a[1]}, pos)
	}
	I["net.ResolveTCPAddr"] = func(g *G, a []Value, pos token.Pos) Value {
		g.vm.ex.stubsUsed["net.ResolveTCPAddr (syntactic)"]++
		addr := argStr(a[1])
		if strings.Contains(addr, "bad") || !strings.Contains(addr, ":") {
			return Tuple{(*Value)(nil), g.mkError("vnet: cannot resolve " + addr)}
		}
		t := g.vm.lookupType("net", "TCPAddr")
		p := new(Value)
		st := zero(t).(Struct)
		// the port is kept (decimal after the last colon); the host part is not resolved
		port := uint64(0)
		if i := strings.LastIndex(addr, ":"); i >= 0 {
			for _, ch := range addr[i+1:] {
				if ch < '0' || ch > '9' {
					return Tuple{(*Value)(nil), g.mkError("vnet: bad port in " + addr)}
				}
				port = port*10 + uint64(ch-'0')
			}
		}
		st[fieldIndex(t, "Port")] = mkInt(port)
		*p = st
		return Tuple{p, nilErr()}
	}
	// os.Stdin/Stdout/Stderr exist as (nil) *os.File values: code may store and compare them; writing through them is
	// not modelled (the harnesses install their own writers)
	I["os.NewFile"] = func(g *G, a []Value, pos token.Pos) Value { return (*Value)(nil) }
	I["os.runtime_args"] = func(g *G, a []Value, pos token.Pos) Value { return []Value{"verif"} } // os.Args = ["verif"]
	I["os.Geteuid"] = func(g *G, a []Value, pos token.Pos) Value { return mkInt(1000) }
	I["os.Getegid"] = func(g *G, a []Value, pos token.Pos) Value { return mkInt(1000) }
	I["os.Getuid"] = func(g *G, a []Value, pos token.Pos) Value { return mkInt(1000) }
	I["os.Getgid"] = func(g *G, a []Value, pos token.Pos) Value { return mkInt(1000) }
	I["net.ResolveUnixAddr"] = func(g *G, a []Value, pos token.Pos) Value {
		g.vm.ex.stubsUsed["net.ResolveUnixAddr (syntactic)"]++
		t := g.vm.lookupType("net", "UnixAddr")
		p := new(Value)
		st := zero(t).(Struct)
		st[fieldIndex(t, "Name")] = a[1]
		st[fieldIndex(t, "Net")] = a[0]
		*p = st
		return Tuple{p, nilErr()}
	}
	I["context.Background"] = func(g *G, a []Value, pos token.Pos) Value {
		t := g.vm.lookupType("context", "backgroundCtx")
		return Iface{T: t, V: zero(t)}
	}
	// unix-domain sockets: concrete std types used as handles, methods redirected to vnet
	vredirect := func(from, to string) {
		I[from] = func(g *G, a []Value, pos token.Pos) Value {
			p := g.vm.prog.ImportedPackage(vnetPkg)
			if p == nil {
				panic(unsupported("network access without the harness network (zzverif/vnet not loaded)"))
			}
			f := p.Func(to)
			if f == nil {
				panic(unsupported("vnet redirect target missing: " + to))
			}
			g.vm.ex.stubsUsed[from+" -> vnet."+to]++
			return g.callSSA(f, a, nil, pos)
		}
	}
	vredirect("net.ListenUnix", "UnixListen")
	vredirect("(*net.UnixListener).AcceptUnix", "UnixAccept")
	vredirect("(*net.UnixListener).Close", "UnixListenerClose")
	vredirect("(*net.UnixListener).Addr", "UnixListenerAddr")
	vredirect("net.DialUnix", "UnixDial")
	vredirect("(*net.UnixConn).Read", "UnixConnRead")
	vredirect("(*net.UnixConn).Write", "UnixConnWrite")
	vredirect("(*net.UnixConn).Close", "UnixConnClose")
	vredirect("(*net.UnixConn).LocalAddr", "UnixConnLocalAddr")
	vredirect("(*net.UnixConn).RemoteAddr", "UnixConnRemoteAddr")
	vredirect("net.ListenTCP", "TCPListen")
	vredirect("(*net.TCPListener).Accept", "TCPAccept")
	vredirect("(*net.TCPListener).Close", "TCPListenerClose")
	vredirect("(*net.TCPListener).Addr", "TCPListenerAddr")
	vredirect("crypto/tls.NewListener", "TLSNewListener")
	vredirect("crypto/tls.DialWithDialer", "TLSDialWithDialer")
	vredirect("(*crypto/tls.Conn).Handshake", "TLSConnHandshake")
	vredirect("(*crypto/tls.Conn).Read", "TLSConnRead")
	vredirect("(*crypto/tls.Conn).Write", "TLSConnWrite")
	vredirect("(*crypto/tls.Conn).Close", "TLSConnClose")
	vredirect("(*crypto/tls.Conn).LocalAddr", "TLSConnLocalAddr")
	vredirect("(*crypto/tls.Conn).RemoteAddr", "TLSConnRemoteAddr")
	vredirect("(*crypto/tls.Conn).ConnectionState", "TLSConnState")
	I["(*net.conn).writeBuffers"] = func(g *G, a []Value, pos token.Pos) Value {
		// net.Buffers.WriteTo on a *net.UnixConn handle: write the buffers one by one through vnet
		q := a[0].(*Value)
		p := g.vm.prog.ImportedPackage(vnetPkg)
		if p == nil {
			panic(unsupported("network access without the harness network"))
		}
		gl, _ := p.Members["UnixConns"].(*ssa.Global)
		m, _ := (*g.vm.globalAddr(gl)).(*MapV)
		var handle *Value
		if m != nil {
			for i, k := range m.keys {
				if !m.live[i] {
					continue
				}
				if hp, ok := k.(*Value); ok && hp != nil {
					if st, ok := (*hp).(Struct); ok && len(st) > 0 && &st[0] == q {
						handle = hp
					}
				}
			}
		}
		if handle == nil {
			panic(unsupported("writeBuffers on a connection that is not a vnet handle"))
		}
		bufs := a[1].(*Value)
		total := uint64(0)
		list, _ := (*bufs).([]Value)
		for _, b := range list {
			r := g.callSSA(p.Func("UnixConnWrite"), []Value{handle, b}, nil, pos).(Tuple)
			total += r[0].(IntV).C
			if e := r[1].(Iface); e.T != nil {
				*bufs = []Value(nil)
				return Tuple{mkInt(total), e}
			}
		}
		*bufs = []Value(nil)
		return Tuple{mkInt(total), nilErr()}
	}
	vredirect("(*net.UnixConn).SyscallConn", "UnixSyscallConn")
	vredirect("syscall.GetsockoptUcred", "GetsockoptUcred")
	I["os.Stat"] = func(g *G, a []Value, pos token.Pos) Value {
		g.vm.ex.stubsUsed["os.Stat (always: not found)"]++
		return Tuple{Iface{}, g.mkError("vnet: no such file")}
	}
	I["os.Remove"] = func(g *G, a []Value, pos token.Pos) Value { return nilErr() }
	I["os.Chown"] = func(g *G, a []Value, pos token.Pos) Value { return nilErr() }
	I["os.Chmod"] = func(g *G, a []Value, pos token.Pos) Value { return nilErr() }
	I["errors.As"] = func(g *G, a []Value, pos token.Pos) Value {
		// limited: succeeds when the error's dynamic type is the target's element type (no unwrapping chains beyond Unwrap)
		err := a[0].(Iface)
		tgt := a[1].(Iface)
		pt, ok := tgt.T.Underlying().(*types.Pointer)
		if !ok {
			panic(unsupported("errors.As target"))
		}
		for i := 0; i < 8 && err.T != nil; i++ {
			if types.Identical(err.T, pt.Elem()) {
				*(tgt.V.(*Value)) = copyVal(err.V)
				return mkBool(true)
			}
			m := g.vm.lookupMethod(err.T, "Unwrap")
			if m == nil || m.Signature.Results().Len() != 1 {
				break
			}
			next, ok := g.call(m, []Value{err.V}, pos).(Iface)
			if !ok {
				break
			}
			err = next
		}
		return mkBool(false)
	}
	// gorilla/websocket and the HTTP upgrade are redirected to the harness package vws
	const vwsPkg = "go.nanomsg.org/mangos/v3/zzverif/vws"
	redirect := func(from, to string) {
		I[from] = func(g *G, a []Value, pos token.Pos) Value {
			p := g.vm.prog.ImportedPackage(vwsPkg)
			if p == nil {
				panic(unsupported("websocket use without the harness package vws"))
			}
			f := p.Func(to)
			if f == nil {
				panic(unsupported("vws redirect target missing: " + to))
			}
			g.vm.ex.stubsUsed[from+" -> vws."+to]++
			return g.callSSA(f, a, nil, pos)
		}
	}
	const gw = "github.com/gorilla/websocket"
	redirect("(*"+gw+".Conn).ReadMessage", "ConnReadMessage")
	redirect("(*"+gw+".Conn).NextReader", "ConnNextReader")
	redirect("(*"+gw+".Conn).WriteMessage", "ConnWriteMessage")
	redirect("(*"+gw+".Conn).WriteControl", "ConnWriteControl")
	redirect("(*"+gw+".Conn).SetReadLimit", "ConnSetReadLimit")
	redirect("(*"+gw+".Conn).Close", "ConnClose")
	redirect("(*"+gw+".Conn).LocalAddr", "ConnLocalAddr")
	redirect("(*"+gw+".Conn).RemoteAddr", "ConnRemoteAddr")
	redirect("(*"+gw+".Conn).UnderlyingConn", "ConnUnderlyingConn")
	redirect("(*"+gw+".Dialer).Dial", "DialerDial")
	redirect("(*"+gw+".Upgrader).Upgrade", "UpgraderUpgrade")
	redirect("net/http.Error", "HTTPError")
	redirect("(*net/http.Server).Serve", "ServerServe")
	// routing inside net/http.ServeMux is outside every claim: registration is a no-op
	I["(*net/http.ServeMux).Handle"] = func(g *G, a []Value, pos token.Pos) Value { return nil }
	I["(*net/http.ServeMux).HandleFunc"] = func(g *G, a []Value, pos token.Pos) Value { return nil }
	I["runtime.Callers"] = func(g *G, a []Value, pos token.Pos) Value { return mkInt(0) }
	_ = types.Typ
}
