package main

import (
	"encoding/json"
	"flag"
	"fmt"
	"math/rand"
	"os"
	"path/filepath"
	"sort"
	"strings"
	"sync"
	"time"

	"go/token"
	"go/types"

	"golang.org/x/tools/go/ssa"
)

type HarnessDef struct {
	Prop     string          `json:"prop"`
	Name     string          `json:"name"`
	Func     string          `json:"func"`
	Base     json.RawMessage `json:"base"`
	Quick    json.RawMessage `json:"quick"`
	Thorough json.RawMessage `json:"thorough"`
	Twin     json.RawMessage `json:"twin"` // overrides for the vacuity twin (must be violated)
	Disabled bool            `json:"disabled"`
	OnlyTier string          `json:"only_tier"` // "thorough": the harness is part of the thorough tier only
	Claims   string          `json:"claims"`
}

type ConfigFile struct {
	Defaults  json.RawMessage `json:"defaults"`
	Harnesses []HarnessDef    `json:"harnesses"`
	PropNotes map[string]struct {
		Assumptions []string `json:"assumptions"`
		Outside     []string `json:"outside_claim"`
		Stubs       []string `json:"stubs"`
	} `json:"prop_notes"`
}

type KnownFile struct {
	Known []struct {
		Property string `json:"property"`
		Harness  string `json:"harness"`
		Label    string `json:"label"` // prefix match
		What     string `json:"what"`
	} `json:"known"`
	Fixed []struct {
		Property string `json:"property"`
		Commit   string `json:"commit"`
		What     string `json:"what"`
	} `json:"fixed"`
}

var (
	verifDir = "/verif"
	repoDir  = "/repo"
)

func main() {
	if len(os.Args) < 2 {
		fmt.Fprintln(os.Stderr, "usage: gosym check|run|replay ...")
		os.Exit(2)
	}
	if d := os.Getenv("VERIF_DIR"); d != "" {
		verifDir = d
	}
	if d := os.Getenv("VERIF_REPO"); d != "" {
		repoDir = d
	}
	os.MkdirAll(filepath.Join(verifDir, "out"), 0o755)
	os.MkdirAll(filepath.Join(verifDir, "evidence"), 0o755)
	switch os.Args[1] {
	case "check":
		os.Exit(cmdCheck(os.Args[2:]))
	case "replay":
		os.Exit(cmdReplay(os.Args[2:]))
	case "cover":
		os.Exit(cmdCover(os.Args[2:]))
	default:
		fmt.Fprintln(os.Stderr, "unknown command")
		os.Exit(2)
	}
}

func loadConfig() (*ConfigFile, error) {
	var cf ConfigFile
	files, _ := filepath.Glob(filepath.Join(verifDir, "harness", "*.json"))
	sort.Strings(files)
	for _, f := range files {
		b, err := os.ReadFile(f)
		if err != nil {
			return nil, err
		}
		var one ConfigFile
		if err := json.Unmarshal(b, &one); err != nil {
			return nil, fmt.Errorf("%s: %v", f, err)
		}
		if one.Defaults != nil {
			cf.Defaults = one.Defaults
		}
		cf.Harnesses = append(cf.Harnesses, one.Harnesses...)
		if cf.PropNotes == nil {
			cf.PropNotes = one.PropNotes
		} else {
			for k, v := range one.PropNotes {
				cf.PropNotes[k] = v
			}
		}
	}
	return &cf, nil
}

func buildCfg(cf *ConfigFile, h *HarnessDef, tier string, twin bool) (*RunCfg, error) {
	cfg := &RunCfg{Mode: "canonical", Unwind: 300, MaxSteps: 3000000, MaxPaths: 200000, MaxDepth: 4000, TimeoutS: 600, ConcMax: 70, QueryMs: 20000, Preempt: 2}
	for _, raw := range []json.RawMessage{cf.Defaults, h.Base} {
		if raw != nil {
			if err := json.Unmarshal(raw, cfg); err != nil {
				return nil, err
			}
		}
	}
	raw := h.Quick
	if tier == "thorough" {
		cfg.CrossSolver = "cvc5"
		raw = h.Thorough
		if raw == nil {
			raw = h.Quick
		}
		if cfg.TimeoutS < 1200 {
			cfg.TimeoutS = 1200
		}
	}
	if raw != nil {
		if err := json.Unmarshal(raw, cfg); err != nil {
			return nil, err
		}
	}
	if twin {
		if err := json.Unmarshal(h.Twin, cfg); err != nil {
			return nil, err
		}
		cfg.Twin = true
	}
	// experiments only (never used by a registered command): override run parameters from the environment
	if ov := os.Getenv("GOSYM_OVERRIDE"); ov != "" {
		if err := json.Unmarshal([]byte(ov), cfg); err != nil {
			return nil, err
		}
	}
	cfg.Name = h.Name
	if twin {
		cfg.Name += "~twin"
	}
	cfg.Func = h.Func
	return cfg, nil
}

func findFunc(P *Program, full string) (*ssa.Function, error) {
	i := strings.LastIndex(full, ".")
	if i < 0 {
		return nil, fmt.Errorf("bad func name %s", full)
	}
	pkg, name := full[:i], full[i+1:]
	sp := P.byPath[pkg]
	if sp == nil {
		return nil, fmt.Errorf("package %s not loaded", pkg)
	}
	f := sp.Func(name)
	if f == nil {
		return nil, fmt.Errorf("function %s not found in %s", name, pkg)
	}
	return f, nil
}

func runHarness(P *Program, cfg *RunCfg, replayTrace []Decision, concModel map[string]uint64) (*Report, error) {
	if cfg.Shards <= 1 || replayTrace != nil {
		return runShard(P, cfg, 0, replayTrace, concModel)
	}
	if cfg.ShardDepth == 0 {
		cfg.ShardDepth = 6
	}
	reps := make([]*Report, cfg.Shards)
	errs := make([]error, cfg.Shards)
	var wg sync.WaitGroup
	for k := 0; k < cfg.Shards; k++ {
		wg.Add(1)
		go func(k int) {
			defer wg.Done()
			reps[k], errs[k] = runShard(P, cfg, k, nil, nil)
		}(k)
	}
	wg.Wait()
	for _, e := range errs {
		if e != nil {
			return nil, e
		}
	}
	return mergeReports(reps), nil
}

func mergeReports(rs []*Report) *Report {
	m := rs[0]
	seen := map[string]bool{}
	for _, v := range m.Violations {
		seen[v.Label] = true
	}
	fs := map[string]bool{}
	for _, f := range m.Funcs {
		fs[f] = true
	}
	for _, r := range rs[1:] {
		m.Paths += r.Paths
		for k, v := range r.PathKinds {
			m.PathKinds[k] += v
		}
		for _, v := range r.Violations {
			if !seen[v.Label] {
				seen[v.Label] = true
				m.Violations = append(m.Violations, v)
			}
		}
		m.Inconclusive = append(m.Inconclusive, r.Inconclusive...)
		for k, v := range r.Reached {
			m.Reached[k] += v
		}
		for k, v := range r.Asserts {
			m.Asserts[k] += v
		}
		m.Obligations += r.Obligations
		m.Discharged += r.Discharged
		m.DecisionPts += r.DecisionPts
		m.Steps += r.Steps
		for _, f := range r.Funcs {
			fs[f] = true
		}
		if len(m.Samples) < 6 {
			m.Samples = append(m.Samples, r.Samples...)
		}
		m.CrossChecked += r.CrossChecked
		m.CrossUnknown += r.CrossUnknown
		m.Queries += r.Queries
		m.Unknowns += r.Unknowns
		m.SolverErrors = append(m.SolverErrors, r.SolverErrors...)
		m.SolverTimeS += r.SolverTimeS
		if r.WallS > m.WallS {
			m.WallS = r.WallS
		}
		m.Complete = m.Complete && r.Complete
		if r.MaxTraceLen > m.MaxTraceLen {
			m.MaxTraceLen = r.MaxTraceLen
		}
		for k, v := range r.Stubs {
			m.Stubs[k] += v
		}
	}
	m.Funcs = nil
	for f := range fs {
		m.Funcs = append(m.Funcs, f)
	}
	sort.Strings(m.Funcs)
	m.MissingReach = nil
	for _, mk := range m.Cfg.Reach {
		if m.Reached[mk] == 0 {
			m.MissingReach = append(m.MissingReach, mk)
		}
	}
	// drop per-shard vacuity notes; recompute verdict
	var inc []string
	for _, x := range m.Inconclusive {
		if !strings.HasPrefix(x, "VACUOUS:") {
			inc = append(inc, x)
		}
	}
	m.Inconclusive = inc
	switch {
	case len(m.Violations) > 0:
		m.Verdict = "VIOLATED"
	case len(m.Inconclusive) > 0 || !m.Complete || m.Unknowns > 0 || len(m.SolverErrors) > 0 || len(m.MissingReach) > 0:
		m.Verdict = "INCONCLUSIVE"
		if len(m.MissingReach) > 0 {
			m.Inconclusive = append(m.Inconclusive, "VACUOUS: markers never reached: "+strings.Join(m.MissingReach, ","))
		}
	default:
		m.Verdict = "HOLDS"
	}
	return m
}

func runShard(P *Program, cfg *RunCfg, shard int, replayTrace []Decision, concModel map[string]uint64) (*Report, error) {
	fn, err := findFunc(P, cfg.Func)
	if err != nil {
		return nil, err
	}
	solver, err := NewSolver("z3", cfg.QueryMs)
	if err != nil {
		return nil, err
	}
	defer solver.Close()
	if p := os.Getenv("GOSYM_SMTLOG"); p != "" {
		f, _ := os.Create(p + "." + cfg.Name + ".smt2")
		defer f.Close()
		solver.log = f
	}
	vm := &VM{prog: P.prog, tb: NewTermBank(), solver: solver, cfg: cfg, intMode: cfg.IntMode, funcsSeen: map[*ssa.Function]bool{}}
	if cfg.CrossSolver != "" && replayTrace == nil {
		if s2, err := NewSolver(cfg.CrossSolver, cfg.QueryMs); err == nil {
			vm.solver2 = s2
			defer s2.Close()
		}
	}
	ex := NewExplorer(vm, cfg)
	ex.shard = shard
	if cfg.DiffOnly && replayTrace == nil {
		// one concrete run on a seeded random input vector; the comparison with the native build happens in diffValidate
		ex.replay = true
		ex.random = rand.New(rand.NewSource(4711))
		ex.concModel = map[string]uint64{}
		ex.trace = nil
	}
	if replayTrace != nil {
		ex.trace = replayTrace
		ex.replay = true
		ex.concModel = concModel
	}
	rep := ex.Run(func() *PathResult { return vm.runPath(fn) })
	return rep, nil
}

type harnessOutcome struct {
	def   *HarnessDef
	rep   *Report
	twin  *Report
	err   error
	files map[string]string // violation label -> replay path
}

func cmdCheck(args []string) int {
	fs := flag.NewFlagSet("check", flag.ExitOnError)
	prop := fs.String("prop", "", "property id")
	tier := fs.String("tier", "quick", "quick|thorough")
	only := fs.String("only", "", "run only harnesses whose name contains this")
	verbose := fs.Bool("v", false, "verbose")
	trace := fs.Bool("trace", false, "instruction trace")
	noTwin := fs.Bool("notwin", false, "skip twins")
	jobs := fs.Int("j", 14, "parallel harnesses")
	noEvidence := fs.Bool("noevidence", false, "do not write evidence")
	noDiff := fs.Bool("nodiff", false, "skip differential validation against the native build")
	fs.Parse(args)
	traceOn = *trace
	if t := os.Getenv("VERIF_TIER"); t != "" && *tier == "" {
		*tier = t
	}
	seed := 0
	fmt.Sscan(os.Getenv("VERIF_SEED"), &seed)
	t0 := time.Now()
	cf, err := loadConfig()
	if err != nil {
		fmt.Println("INCONCLUSIVE config:", err)
		return 2
	}
	P, err := loadProgram(repoDir, filepath.Join(verifDir, "harness"))
	if err != nil {
		fmt.Println("INCONCLUSIVE load:", err)
		return 2
	}
	theProgram = P
	loadS := time.Since(t0).Seconds()
	var defs []*HarnessDef
	for i := range cf.Harnesses {
		h := &cf.Harnesses[i]
		if h.Prop != *prop || h.Disabled || (h.OnlyTier != "" && h.OnlyTier != *tier) {
			continue
		}
		if *only != "" && !strings.Contains(h.Name, *only) {
			continue
		}
		defs = append(defs, h)
	}
	if len(defs) == 0 {
		fmt.Println("INCONCLUSIVE: no harness for property", *prop)
		return 2
	}
	outs := make([]*harnessOutcome, len(defs))
	sem := make(chan struct{}, *jobs)
	var wg sync.WaitGroup
	for i, h := range defs {
		wg.Add(1)
		go func(i int, h *HarnessDef) {
			defer wg.Done()
			sem <- struct{}{}
			defer func() { <-sem }()
			o := &harnessOutcome{def: h}
			outs[i] = o
			cfg, err := buildCfg(cf, h, *tier, false)
			if err != nil {
				o.err = err
				return
			}
			if h.Func == "@lockbalance" {
				o.rep, o.err = runLockBalance(P, cfg)
				return
			}
			o.rep, o.err = runHarness(P, cfg, nil, nil)
			if o.err == nil && h.Twin != nil && !*noTwin {
				tcfg, err := buildCfg(cf, h, *tier, true)
				if err == nil {
					o.twin, _ = runHarness(P, tcfg, nil, nil)
				}
			}
		}(i, h)
	}
	wg.Wait()

	// differential validation of the VM against the native build (sequential harnesses)
	validated := 0
	var mismatches []string
	{
		var seqCfgs []*RunCfg
		for _, o := range outs {
			if o.rep != nil && o.rep.Cfg.Sequential && !o.rep.Cfg.Lazy {
				seqCfgs = append(seqCfgs, o.rep.Cfg)
			}
		}
		if len(seqCfgs) > 0 && !*noDiff {
			n := 6
			if *tier == "thorough" {
				n = 30
			}
			_ = n
			var derr error
			validated, mismatches, derr = diffValidate(P, seqCfgs, n, int64(seed)+1)
			if derr != nil {
				mismatches = append(mismatches, "differential validation failed to run: "+derr.Error())
			}
		}
	}
	var kf KnownFile
	if b, err := os.ReadFile(filepath.Join(verifDir, "known_findings.json")); err == nil {
		json.Unmarshal(b, &kf)
	}
	os.MkdirAll(filepath.Join(verifDir, "out"), 0o755)
	exit := 0
	nviol := 0
	var lines []string
	var knownMatched []string
	inconclusive := false
	for _, o := range outs {
		if o.err != nil {
			lines = append(lines, fmt.Sprintf("INCONCLUSIVE harness=%s error=%v", o.def.Name, o.err))
			inconclusive = true
			continue
		}
		r := o.rep
		lines = append(lines, fmt.Sprintf("harness=%s verdict=%s paths=%d (%v) decisions=%d steps=%d queries=%d solver=%.1fs wall=%.1fs obligations=%d/%d",
			o.def.Name, r.Verdict, r.Paths, r.PathKinds, r.DecisionPts, r.Steps, r.Queries, r.SolverTimeS, r.WallS, r.Discharged, r.Obligations))
		for _, v := range r.Violations {
			known := false
			for _, k := range kf.Known {
				if k.Property == *prop && (k.Harness == "" || k.Harness == o.def.Name) && strings.HasPrefix(v.Label, k.Label) {
					known = true
					knownMatched = append(knownMatched, k.Label)
					lines = append(lines, fmt.Sprintf("KNOWN-FINDING: property=%s %s [%s %s]", *prop, k.What, o.def.Name, v.Label))
					break
				}
			}
			if known {
				continue
			}
			path := filepath.Join(verifDir, "out", fmt.Sprintf("%s_%s_%s.json", *prop, o.def.Name, sanitize(v.Label)))
			writeReplay(path, *prop, *tier, r.Cfg, v)
			if r.Cfg.Sequential && !r.VMOnly[v.Label] {
				// a sequential harness must fail on the real build too, otherwise the engine is wrong
				ok, how := nativeConfirm(P, r.Cfg, path, v.Label)
				if !ok {
					inconclusive = true
					lines = append(lines, fmt.Sprintf("  INCONCLUSIVE harness=%s ENGINE-MISMATCH: %s found in the VM is not reproduced natively (%s); replay=%s", o.def.Name, v.Label, how, path))
					continue
				}
				lines = append(lines, "  "+how)
			}
			nviol++
			exit = 1
			lines = append(lines, fmt.Sprintf("VIOLATION property=%s replay=%s", *prop, path))
			lines = append(lines, fmt.Sprintf("  harness=%s label=%s at %s: %s", o.def.Name, v.Label, v.Pos, v.Msg))
			if *verbose {
				lines = append(lines, fmt.Sprintf("  model=%v", v.Model))
			}
		}
		if len(r.Inconclusive) > 0 || r.Verdict == "INCONCLUSIVE" {
			inconclusive = true
			for _, m := range r.Inconclusive {
				lines = append(lines, fmt.Sprintf("  INCONCLUSIVE harness=%s %s", o.def.Name, m))
			}
		}
		if o.twin != nil {
			ok := len(o.twin.Violations) > 0
			lines = append(lines, fmt.Sprintf("  twin: %d violation(s) (must be >0): %v", len(o.twin.Violations), ok))
			if !ok {
				inconclusive = true
				lines = append(lines, fmt.Sprintf("  INCONCLUSIVE harness=%s VACUOUS: twin run raised no violation", o.def.Name))
			}
		}
	}
	if validated > 0 || len(mismatches) > 0 {
		lines = append(lines, fmt.Sprintf("differential validation: %d random concrete vectors agree between VM and native build, %d mismatches", validated, len(mismatches)))
	}
	for _, mm := range mismatches {
		inconclusive = true
		lines = append(lines, "  INCONCLUSIVE ENGINE-MISMATCH: "+mm)
	}
	for _, l := range lines {
		fmt.Println(l)
	}
	if exit == 0 && inconclusive {
		exit = 2
	}
	if !*noEvidence {
		writeEvidence(cf, *prop, *tier, seed, outs, nviol, knownMatched, time.Since(t0).Seconds(), loadS, exit, validated)
	}
	fmt.Printf("property=%s tier=%s exit=%d wall=%.1fs (load %.1fs)\n", *prop, *tier, exit, time.Since(t0).Seconds(), loadS)
	dumpCover()
	return exit
}

func sanitize(s string) string {
	var sb strings.Builder
	for _, c := range s {
		switch {
		case c >= 'a' && c <= 'z', c >= 'A' && c <= 'Z', c >= '0' && c <= '9', c == '-', c == '_', c == '.':
			sb.WriteRune(c)
		default:
			sb.WriteByte('_')
		}
	}
	r := sb.String()
	if len(r) > 90 {
		r = r[:90]
	}
	return r
}

type ReplayFile struct {
	Property string            `json:"property"`
	Tier     string            `json:"tier"`
	Harness  string            `json:"harness"`
	Cfg      *RunCfg           `json:"cfg"`
	Label    string            `json:"label"`
	Msg      string            `json:"msg"`
	Pos      string            `json:"pos"`
	Trace    []Decision        `json:"trace"`
	Model    map[string]string `json:"model"`
	Choices  map[string]int    `json:"choices"`
	Params   map[string]int    `json:"params"`
	Events   []string          `json:"events"`
	Observes []string          `json:"observes"`
	Stack    string            `json:"stack"`
	Native   string            `json:"native_outcome,omitempty"`
}

func writeReplay(path, prop, tier string, cfg *RunCfg, v *Violation) {
	rf := &ReplayFile{Property: prop, Tier: tier, Harness: cfg.Name, Cfg: cfg, Label: v.Label, Msg: v.Msg, Pos: v.Pos, Trace: v.Trace, Model: v.Model, Events: v.Events, Observes: v.Observes, Stack: v.Stack, Params: cfg.Params}
	rf.Choices = map[string]int{}
	for _, d := range v.Trace {
		if d.Kind == 'H' {
			rf.Choices[d.Label] = d.Choice
		}
	}
	b, _ := json.MarshalIndent(rf, "", " ")
	os.WriteFile(path, b, 0o644)
}

func cmdReplay(args []string) int {
	fs := flag.NewFlagSet("replay", flag.ExitOnError)
	file := fs.String("file", "", "replay file")
	trace := fs.Bool("trace", false, "instruction trace")
	fs.Parse(args)
	traceOn = *trace
	b, err := os.ReadFile(*file)
	if err != nil {
		fmt.Println("cannot read replay file:", err)
		return 2
	}
	var rf ReplayFile
	if err := json.Unmarshal(b, &rf); err != nil {
		fmt.Println("bad replay file:", err)
		return 2
	}
	P, err := loadProgram(repoDir, filepath.Join(verifDir, "harness"))
	if err != nil {
		fmt.Println("INCONCLUSIVE load:", err)
		return 2
	}
	theProgram = P
	// concrete re-execution: inputs pinned to the model, symbolic-branch decisions dropped
	model := map[string]uint64{}
	for k, v := range rf.Model {
		var n uint64
		fmt.Sscan(v, &n)
		model[k] = n
	}
	var tr []Decision
	for _, d := range rf.Trace {
		switch d.Kind {
		case 'B', 'C', 'U':
			continue
		}
		if d.N <= 1 {
			continue
		}
		tr = append(tr, d)
	}
	rep, err := runHarness(P, rf.Cfg, tr, model)
	if err != nil {
		fmt.Println("INCONCLUSIVE:", err)
		return 2
	}
	for _, v := range rep.Violations {
		fmt.Printf("replayed: label=%s at %s: %s\n", v.Label, v.Pos, v.Msg)
		for _, e := range v.Events {
			fmt.Println("   ", e)
		}
		if v.Label == rf.Label {
			fmt.Printf("VIOLATION property=%s replay=%s\n", rf.Property, *file)
			return 1
		}
	}
	fmt.Printf("replay did not reproduce %s (verdict %s, %v)\n", rf.Label, rep.Verdict, rep.Inconclusive)
	return 2
}

func writeEvidence(cf *ConfigFile, prop, tier string, seed int, outs []*harnessOutcome, nviol int, known []string, wall, loadS float64, exit int, validated int) {
	states, trans := 0, int64(0)
	obl, dis := 0, 0
	queries, unknown := 0, 0
	solverS := 0.0
	funcs := map[string]bool{}
	var samples []interface{}
	var hs []map[string]interface{}
	reach := map[string]int{}
	stubs := map[string]int{}
	paths := 0
	for _, o := range outs {
		if o.rep == nil {
			hs = append(hs, map[string]interface{}{"harness": o.def.Name, "error": fmt.Sprint(o.err)})
			continue
		}
		r := o.rep
		paths += r.Paths
		states += r.Paths + r.DecisionPts
		trans += r.Steps
		obl += r.Obligations
		dis += r.Discharged
		queries += r.Queries
		unknown += r.Unknowns
		solverS += r.SolverTimeS
		for _, f := range r.Funcs {
			funcs[f] = true
		}
		for k, v := range r.Reached {
			reach[o.def.Name+":"+k] = v
		}
		for k, v := range r.Stubs {
			stubs[k] += v
		}
		for i, s := range r.Samples {
			if i < 2 {
				s["harness"] = o.def.Name
				samples = append(samples, s)
			}
		}
		h := map[string]interface{}{
			"harness": o.def.Name, "func": o.def.Func, "claims": o.def.Claims, "verdict": r.Verdict, "paths": r.Paths, "path_kinds": r.PathKinds,
			"decision_points": r.DecisionPts, "instructions": r.Steps, "assert_sites": r.Asserts, "obligations": r.Obligations,
			"discharged": r.Discharged, "queries": r.Queries, "solver_time_s": r.SolverTimeS, "wall_s": r.WallS, "complete": r.Complete,
			"bounds": map[string]interface{}{"mode": r.Cfg.Mode, "preemption_bound": r.Cfg.Preempt, "loop_unwind": r.Cfg.Unwind, "max_steps_per_path": r.Cfg.MaxSteps,
				"max_paths": r.Cfg.MaxPaths, "max_depth": r.Cfg.MaxDepth, "params": r.Cfg.Params, "int_mode": r.Cfg.IntMode, "race_detector": r.Cfg.Race, "ledger": r.Cfg.Ledger, "pool_any": r.Cfg.PoolAny},
			"inconclusive": r.Inconclusive, "max_trace_len": r.MaxTraceLen, "assertion_queries_cross_checked_with_cvc5": r.CrossChecked, "cross_check_unknown": r.CrossUnknown,
		}
		var vl []string
		for _, v := range r.Violations {
			vl = append(vl, v.Label)
		}
		h["violation_labels"] = vl
		if o.twin != nil {
			var tl []string
			for _, v := range o.twin.Violations {
				tl = append(tl, v.Label)
			}
			h["twin_violations"] = tl
		}
		hs = append(hs, h)
	}
	var fl []string
	for f := range funcs {
		fl = append(fl, f)
	}
	sort.Strings(fl)
	if len(samples) == 0 {
		samples = append(samples, map[string]interface{}{"note": "no path completed"})
	}
	cov := map[string]interface{}{
		"states": states, "transitions": trans, "traces_validated_against_impl": validated, "samples": samples,
		"paths": paths, "obligations": obl, "discharged": dis, "queries": queries, "solver_unknown": unknown, "solver_time_s": solverS,
		"functions_encoded": fl, "functions_encoded_count": len(fl), "harnesses": hs, "reach_markers": reach, "stubs_used": stubs,
		"known_findings_matched": known, "engine": "gosym (symbolic Go SSA VM, z3 " + z3Version() + ")", "load_s": loadS, "exit_code": exit,
		"exhaustive": false,
	}
	var assumptions []string
	if n, ok := cf.PropNotes[prop]; ok {
		assumptions = append(assumptions, n.Assumptions...)
		cov["outside_claim"] = n.Outside
		cov["stubs"] = n.Stubs
	}
	assumptions = append(assumptions, "gosym VM semantics of Go/sync/time/channels (trusted base), go/ssa v0.29.0, z3", "bounds listed per harness under coverage.harnesses[].bounds; nothing is claimed outside them")
	ev := map[string]interface{}{
		"property_id": prop, "tier": tier, "seed": seed, "level": "model_checking", "coverage": cov,
		"assumptions": assumptions, "wall_s": wall, "violations": nviol,
	}
	b, _ := json.MarshalIndent(ev, "", " ")
	os.MkdirAll(filepath.Join(verifDir, "evidence"), 0o755)
	os.WriteFile(filepath.Join(verifDir, "evidence", prop+".json"), b, 0o644)
}

var z3v string

func z3Version() string {
	if z3v == "" {
		z3v = "4.8.12"
	}
	return z3v
}

// runLockBalance: universal lock-balance check (C12a): every root function
// that can reach a mutex operation, from an arbitrary state.
func runLockBalance(P *Program, cfg *RunCfg) (*Report, error) {
	roots := findLazyRoots(P)
	if only := os.Getenv("GOSYM_LAZY_ONLY"); only != "" {
		var rr []*ssa.Function
		for _, r := range roots {
			if strings.Contains(r.String(), only) {
				rr = append(rr, r)
			}
		}
		roots = rr
	}
	if len(roots) == 0 {
		return nil, fmt.Errorf("no lock-using functions found")
	}
	reps := make([]*Report, len(roots))
	errs := make([]error, len(roots))
	sem := make(chan struct{}, 14)
	var wg sync.WaitGroup
	for i, r := range roots {
		wg.Add(1)
		go func(i int, r *ssa.Function) {
			defer wg.Done()
			sem <- struct{}{}
			defer func() { <-sem }()
			reps[i], errs[i] = runLazyRoot(P, cfg, r)
		}(i, r)
	}
	wg.Wait()
	var unanalysed []string
	var perRoot []map[string]interface{}
	for i, r := range reps {
		if errs[i] != nil {
			return nil, errs[i]
		}
		name := strings.ReplaceAll(roots[i].String(), "go.nanomsg.org/mangos/v3/", "")
		if r.PathKinds["OK"] == 0 {
			unanalysed = append(unanalysed, name)
		}
		perRoot = append(perRoot, map[string]interface{}{"root": name, "paths": r.Paths, "kinds": r.PathKinds, "balance_checks": r.Obligations})
	}
	edges := map[string]LockEdge{}
	for _, r := range reps {
		for k, e := range r.LockEdges {
			if _, ok := edges[k]; !ok {
				edges[k] = e
			}
		}
	}
	m := mergeReports(reps)
	m.Cfg = cfg
	// lock-order inversions: two mutex classes acquired nested in both orders
	var ekeys []string
	for k := range edges {
		ekeys = append(ekeys, k)
	}
	sort.Strings(ekeys)
	for _, k := range ekeys {
		e := edges[k]
		if e.From >= e.To {
			continue
		}
		if r, ok := edges[e.To+"->"+e.From]; ok {
			m.Violations = append(m.Violations, &Violation{Label: "C12/lock/order-inversion/" + e.From + "|" + e.To, Harness: cfg.Name, Count: 1,
				Msg: fmt.Sprintf("%s acquires %s (at %s) while holding %s (locked at %s), and %s acquires %s (at %s) while holding %s (locked at %s): two goroutines doing both deadlock",
					e.Root, e.To, e.PosTo, e.From, e.PosFrom, r.Root, r.To, r.PosTo, r.From, r.PosFrom), Pos: e.PosTo})
		}
	}
	m.Reached["lock-order-edges"] = len(edges)
	// vacuity: the 'returned' marker must have been reached in (nearly) every root
	m.Samples = nil
	for i, pr := range perRoot {
		if i < 400 {
			m.Samples = append(m.Samples, pr)
		}
	}
	m.Reached["roots"] = len(roots)
	m.Reached["roots-with-a-completed-path"] = len(roots) - len(unanalysed)
	if len(unanalysed) > 0 {
		m.Inconclusive = append(m.Inconclusive, fmt.Sprintf("NOTE %d of %d roots had no path reaching a return within the bounds: %s", len(unanalysed), len(roots), strings.Join(unanalysed, ", ")))
	}
	if len(m.Violations) > 0 {
		m.Verdict = "VIOLATED"
	} else if len(m.Inconclusive) > 0 {
		m.Verdict = "INCONCLUSIVE"
	}
	return m, nil
}

// dumpCover writes the executed blocks (function name, block index) of this process to GOSYM_COVER.
func dumpCover() {
	path := os.Getenv("GOSYM_COVER")
	if path == "" {
		return
	}
	var out [][2]interface{}
	coverBlocks.Range(func(k, v interface{}) bool {
		ck := k.(coverKey)
		out = append(out, [2]interface{}{ck.fn.String(), ck.blk})
		return true
	})
	b, _ := json.Marshal(out)
	os.WriteFile(path, b, 0o644)
}

// cmdCover: gosym cover file... : union of the coverage files against all blocks of the non-test, non-harness
// mangos functions; prints per package totals and every function with blocks no harness of any property reached.
func cmdCover(args []string) int {
	P, err := loadProgram(repoDir, filepath.Join(verifDir, "harness"))
	if err != nil {
		fmt.Println("load:", err)
		return 2
	}
	covered := map[string]map[int]bool{}
	for _, f := range args {
		b, err := os.ReadFile(f)
		if err != nil {
			continue
		}
		var rows [][2]interface{}
		json.Unmarshal(b, &rows)
		for _, r := range rows {
			fn, _ := r[0].(string)
			bi, _ := r[1].(float64)
			if covered[fn] == nil {
				covered[fn] = map[int]bool{}
			}
			covered[fn][int(bi)] = true
		}
	}
	type row struct {
		fn          string
		miss, total int
		where       []string
	}
	pkgTot := map[string][2]int{}
	var rows []row
	var visit func(fn *ssa.Function)
	seen := map[*ssa.Function]bool{}
	visit = func(fn *ssa.Function) {
		if fn == nil || seen[fn] || len(fn.Blocks) == 0 {
			return
		}
		seen[fn] = true
		pos := P.prog.Fset.Position(fn.Pos())
		if strings.HasSuffix(pos.Filename, "_test.go") || strings.Contains(pos.Filename, "zz_verif") || strings.Contains(pos.Filename, "/harness/") {
			return
		}
		r := row{fn: fn.String(), total: len(fn.Blocks)}
		for _, b := range fn.Blocks {
			if covered[fn.String()][b.Index] {
				continue
			}
			// blocks that only panic (bounds-check failures etc.) are not library behaviour
			if len(b.Instrs) > 0 {
				if _, ok := b.Instrs[len(b.Instrs)-1].(*ssa.Panic); ok && len(b.Instrs) <= 3 {
					r.total--
					continue
				}
			}
			r.miss++
			for _, in := range b.Instrs {
				if in.Pos() != token.NoPos {
					p := P.prog.Fset.Position(in.Pos())
					r.where = append(r.where, fmt.Sprintf("%s:%d", filepath.Base(p.Filename), p.Line))
					break
				}
			}
		}
		pk := "?"
		if fn.Pkg != nil {
			pk = fn.Pkg.Pkg.Path()
		} else if fn.Parent() != nil && fn.Parent().Pkg != nil {
			pk = fn.Parent().Pkg.Pkg.Path()
		} else {
			return // synthetic wrapper (method value / thunk) without a package
		}
		t := pkgTot[pk]
		t[0] += r.total - r.miss
		t[1] += r.total
		pkgTot[pk] = t
		if r.miss > 0 {
			rows = append(rows, r)
		}
		for _, af := range fn.AnonFuncs {
			visit(af)
		}
	}
	for _, pkg := range P.prog.AllPackages() {
		pp := pkg.Pkg.Path()
		if !strings.HasPrefix(pp, modPath) || strings.Contains(pp, "/zzverif") || strings.Contains(pp, "/internal/test") || strings.HasSuffix(pp, "/test") {
			continue
		}
		for _, m := range pkg.Members {
			switch v := m.(type) {
			case *ssa.Function:
				visit(v)
			case *ssa.Type:
				for _, t := range []types.Type{v.Type(), types.NewPointer(v.Type())} {
					ms := P.prog.MethodSets.MethodSet(t)
					for i := 0; i < ms.Len(); i++ {
						visit(P.prog.MethodValue(ms.At(i)))
					}
				}
			}
		}
	}
	var pk []string
	for k := range pkgTot {
		pk = append(pk, k)
	}
	sort.Strings(pk)
	tc, tt := 0, 0
	for _, k := range pk {
		t := pkgTot[k]
		tc += t[0]
		tt += t[1]
		fmt.Printf("PKG %-55s %4d/%4d blocks\n", strings.TrimPrefix(k, modPath), t[0], t[1])
	}
	fmt.Printf("TOTAL %d/%d blocks of library code executed by some harness\n", tc, tt)
	sort.Slice(rows, func(i, j int) bool { return rows[i].fn < rows[j].fn })
	for _, r := range rows {
		fmt.Printf("MISS %s %d/%d uncovered: %s\n", r.fn, r.miss, r.total, strings.Join(r.where, " "))
	}
	return 0
}
