package main

import (
	"fmt"
	"go/types"
	"strings"
	"unicode/utf8"

	"golang.org/x/tools/go/ssa"
)

// Value is a VM value. Dynamic kinds:
//
//	IntV, BoolV, FloatV       scalars (concrete or SMT term)
//	string / SymStr           strings
//	*Value                    pointers (nil pointer = (*Value)(nil))
//	Struct, Array             aggregates (by value; copied on load/store)
//	[]Value                   slices (nil slice = []Value(nil)); *SymSlice symbolic-length slices
//	*MapV, *ChanV             reference types (nil pointer = nil map/chan)
//	Iface                     interfaces
//	*ssa.Function,*Closure,*ssa.Builtin   functions ((*ssa.Function)(nil) = nil func)
//	Tuple                     multi-results
//	Poison                    value that could not be computed (lenient std-lib init)
type Value interface{}

type IntV struct {
	C uint64
	S *Term
}
type BoolV struct {
	C bool
	S *Term
}
type FloatV struct {
	C float64
	S *Term
}
type SymStr []Value // of IntV (8 bit)
type Struct []Value
type Array []Value
type Tuple []Value
type Iface struct {
	T types.Type
	V Value
}
type Closure struct {
	Fn  *ssa.Function
	Env []Value
}
type Poison struct{ why string }

// SymSlice: slice whose length/capacity are SMT terms. arr may be nil (opaque).
type SymSlice struct {
	arr      []Value // backing elements starting at this slice's offset 0 (may be nil = opaque)
	len, cap IntV
	elem     types.Type
}

type MapV struct {
	keys     []Value
	vals     []Value
	live     []bool
	idx      map[interface{}]int
	n        int
	nsym     int
	lazyElem types.Type
	lazyKey  types.Type
	id       int
}

func newMap() *MapV { return &MapV{idx: map[interface{}]int{}} }

// mapKey canonicalises a concrete key to a comparable Go value; ok=false if symbolic.
func mapKey(v Value) (interface{}, bool) {
	switch v := v.(type) {
	case IntV:
		if v.S != nil {
			return nil, false
		}
		return v.C, true
	case BoolV:
		if v.S != nil {
			return nil, false
		}
		return v.C, true
	case FloatV:
		return v.C, v.S == nil
	case string:
		return v, true
	case SymStr:
		return nil, false // decided per entry by the solver (mapFind)
	case *Value:
		return v, true
	case *ChanV:
		return v, true
	case Iface:
		if v.T == nil {
			return "nil-iface", true
		}
		k, ok := mapKey(v.V)
		if !ok {
			return nil, false
		}
		return [2]interface{}{v.T.String(), k}, true
	case Struct:
		var sb strings.Builder
		for _, f := range v {
			k, ok := mapKey(f)
			if !ok {
				return nil, false
			}
			fmt.Fprintf(&sb, "%T:%v|", k, k)
		}
		return sb.String(), true
	case Array:
		return mapKey(Struct(v))
	}
	panic(unsupported(fmt.Sprintf("map key of kind %T", v)))
}

func (m *MapV) find(k Value) (int, bool) {
	ck, ok := mapKey(k)
	if !ok {
		panic(unsupported("symbolic map key in direct lookup"))
	}
	i, ok := m.idx[ck]
	return i, ok
}

func (m *MapV) set(k, v Value) {
	ck, ok := mapKey(k)
	if !ok {
		panic(unsupported("symbolic map key in insert"))
	}
	if i, ok := m.idx[ck]; ok {
		m.vals[i] = v
		return
	}
	m.idx[ck] = len(m.keys)
	m.keys = append(m.keys, k)
	m.vals = append(m.vals, v)
	m.live = append(m.live, true)
	m.n++
}

func (m *MapV) del(k Value) {
	ck, ok := mapKey(k)
	if !ok {
		panic(unsupported("symbolic map key in delete"))
	}
	if i, ok := m.idx[ck]; ok {
		m.live[i] = false
		delete(m.idx, ck)
		m.n--
	}
}

func (m *MapV) hasSymKeys() bool { return false }

type mapIter struct {
	m     *MapV
	i     int
	start int // rotation: iteration begins at this position and wraps (Go's order is unspecified)
	n0    int // number of slots when the iteration began
}

func (it *mapIter) next() Tuple {
	// first the slots that existed at the start (rotated), then anything appended meanwhile
	for it.i < it.n0 {
		i := (it.start + it.i) % it.n0
		it.i++
		if it.m.live[i] {
			return Tuple{BoolV{C: true}, it.m.keys[i], it.m.vals[i]}
		}
	}
	for it.i < len(it.m.keys) {
		i := it.i
		it.i++
		if it.m.live[i] {
			return Tuple{BoolV{C: true}, it.m.keys[i], it.m.vals[i]}
		}
	}
	return Tuple{BoolV{C: false}, nil, nil}
}

type strIter struct {
	s string
	i int
}

func (it *strIter) next() Tuple {
	if it.i >= len(it.s) {
		return Tuple{BoolV{C: false}, nil, nil}
	}
	r, n := utf8.DecodeRuneInString(it.s[it.i:])
	st := it.i
	it.i += n
	return Tuple{BoolV{C: true}, mkInt(uint64(st)), mkInt(uint64(r))}
}

func mkInt(c uint64) IntV   { return IntV{C: c} }
func mkBool(b bool) BoolV   { return BoolV{C: b} }
func (v IntV) IsSym() bool  { return v.S != nil }
func (v BoolV) IsSym() bool { return v.S != nil }

// intWidth returns bit width and signedness for a basic integer type.
func intInfo(t types.Type) (w int, signed bool) {
	b, ok := t.Underlying().(*types.Basic)
	if !ok {
		panic(fmt.Sprintf("intInfo: not basic: %v", t))
	}
	switch b.Kind() {
	case types.Int8:
		return 8, true
	case types.Int16:
		return 16, true
	case types.Int32, types.UntypedRune:
		return 32, true
	case types.Int, types.Int64, types.UntypedInt:
		return 64, true
	case types.Uint8:
		return 8, false
	case types.Uint16:
		return 16, false
	case types.Uint32:
		return 32, false
	case types.Uint, types.Uint64, types.Uintptr:
		return 64, false
	case types.UnsafePointer:
		return 64, false
	}
	panic(fmt.Sprintf("intInfo: not integer: %v", t))
}

func isInteger(t types.Type) bool {
	b, ok := t.Underlying().(*types.Basic)
	return ok && b.Info()&types.IsInteger != 0
}
func isFloat(t types.Type) bool {
	b, ok := t.Underlying().(*types.Basic)
	return ok && b.Info()&types.IsFloat != 0
}
func isString(t types.Type) bool {
	b, ok := t.Underlying().(*types.Basic)
	return ok && b.Info()&types.IsString != 0
}
func isBoolean(t types.Type) bool {
	b, ok := t.Underlying().(*types.Basic)
	return ok && b.Info()&types.IsBoolean != 0
}

// zero returns the zero value of type t.
func zero(t types.Type) Value {
	switch t := t.(type) {
	case *types.Basic:
		if t.Kind() == types.UntypedNil {
			panic("untyped nil has no zero value")
		}
		switch {
		case t.Info()&types.IsBoolean != 0:
			return BoolV{}
		case t.Info()&types.IsInteger != 0:
			return IntV{}
		case t.Info()&types.IsFloat != 0:
			return FloatV{}
		case t.Info()&types.IsString != 0:
			return ""
		case t.Kind() == types.UnsafePointer:
			return (*Value)(nil)
		}
		panic(unsupported(fmt.Sprintf("zero of basic type %v", t)))
	case *types.Pointer:
		return (*Value)(nil)
	case *types.Array:
		a := make(Array, t.Len())
		for i := range a {
			a[i] = zero(t.Elem())
		}
		return a
	case *types.Named:
		return zero(t.Underlying())
	case *types.Alias:
		return zero(types.Unalias(t))
	case *types.Interface:
		return Iface{}
	case *types.Slice:
		return []Value(nil)
	case *types.Struct:
		s := make(Struct, t.NumFields())
		for i := range s {
			s[i] = zero(t.Field(i).Type())
		}
		return s
	case *types.Tuple:
		if t.Len() == 1 {
			return zero(t.At(0).Type())
		}
		s := make(Tuple, t.Len())
		for i := range s {
			s[i] = zero(t.At(i).Type())
		}
		return s
	case *types.Chan:
		return (*ChanV)(nil)
	case *types.Map:
		return (*MapV)(nil)
	case *types.Signature:
		return (*ssa.Function)(nil)
	}
	panic(unsupported(fmt.Sprintf("zero of type %T %v", t, t)))
}

func copyVal(v Value) Value {
	switch v := v.(type) {
	case Struct:
		c := make(Struct, len(v))
		for i := range v {
			c[i] = copyVal(v[i])
		}
		return c
	case Array:
		c := make(Array, len(v))
		for i := range v {
			c[i] = copyVal(v[i])
		}
		return c
	}
	return v
}

// storeInto stores v into *addr preserving the identity of nested cells.
func storeInto(addr *Value, v Value) {
	switch rhs := v.(type) {
	case Struct:
		lhs, ok := (*addr).(Struct)
		if !ok || len(lhs) != len(rhs) {
			*addr = copyVal(v)
			return
		}
		for i := range lhs {
			storeInto(&lhs[i], rhs[i])
		}
	case Array:
		lhs, ok := (*addr).(Array)
		if !ok || len(lhs) != len(rhs) {
			*addr = copyVal(v)
			return
		}
		for i := range lhs {
			storeInto(&lhs[i], rhs[i])
		}
	default:
		*addr = v
	}
}

func unsupported(msg string) pathAbort { return pathAbort{kind: "UNSUPPORTED", msg: msg} }

type pathAbort struct {
	kind string // UNSUPPORTED, BUDGET, UNWIND, INFEASIBLE (assume false), DONE, KILL
	msg  string
}

type targetPanic struct {
	v    Value
	kind string // "index", "nil", "explicit", ...
	pos  string
	fn   string
}

func valStr(v Value) string {
	switch v := v.(type) {
	case nil:
		return "<nil>"
	case IntV:
		if v.S != nil {
			return v.S.String()
		}
		return fmt.Sprintf("%d", int64(v.C))
	case BoolV:
		if v.S != nil {
			return v.S.String()
		}
		return fmt.Sprintf("%v", v.C)
	case FloatV:
		if v.S != nil {
			return v.S.String()
		}
		return fmt.Sprintf("%v", v.C)
	case string:
		return fmt.Sprintf("%q", v)
	case SymStr:
		var sb strings.Builder
		sb.WriteString("symstr[")
		for i, b := range v {
			if i > 0 {
				sb.WriteString(" ")
			}
			sb.WriteString(valStr(b))
		}
		sb.WriteString("]")
		return sb.String()
	case *Value:
		if v == nil {
			return "nil"
		}
		return fmt.Sprintf("&%p", v)
	case Struct:
		var sb strings.Builder
		sb.WriteString("{")
		for i, f := range v {
			if i > 0 {
				sb.WriteString(" ")
			}
			if i > 8 {
				sb.WriteString("…")
				break
			}
			sb.WriteString(valStr(f))
		}
		sb.WriteString("}")
		return sb.String()
	case Array:
		return "arr" + valStr([]Value(v))
	case []Value:
		if v == nil {
			return "nil[]"
		}
		var sb strings.Builder
		sb.WriteString("[")
		for i, f := range v {
			if i > 0 {
				sb.WriteString(" ")
			}
			if i > 16 {
				sb.WriteString("…")
				break
			}
			sb.WriteString(valStr(f))
		}
		sb.WriteString("]")
		return sb.String()
	case Iface:
		if v.T == nil {
			return "nil-iface"
		}
		return fmt.Sprintf("(%s)%s", v.T, valStr(v.V))
	case Tuple:
		return "tuple" + valStr([]Value(v))
	case *ssa.Function:
		if v == nil {
			return "nil-func"
		}
		return v.String()
	case *Closure:
		return "closure " + v.Fn.String()
	case *MapV:
		if v == nil {
			return "nil-map"
		}
		return fmt.Sprintf("map(%d)", v.n)
	case *ChanV:
		if v == nil {
			return "nil-chan"
		}
		return fmt.Sprintf("chan#%d", v.id)
	case Poison:
		return "poison(" + v.why + ")"
	}
	return fmt.Sprintf("<%T>", v)
}
