package main

import (
	"fmt"
	"go/token"
	"go/types"
	"runtime/debug"
	"strings"

	"golang.org/x/tools/go/ssa"
)

const (
	gRunnable = iota
	gRunning
	gBlocked
	gDone
)

type G struct {
	id       int
	vm       *VM
	name     string
	wake     chan struct{}
	state    int
	ready    func() bool
	waitDesc string
	waitPos  token.Pos
	fr       *Frame
	depth    int
	isMain   bool
	helper   bool // created by the harness through verif.Go
	stalled  bool // explore/stall: preempted and kept off the processor until everything else has come to rest
	result   Value
	startPos token.Pos
	vc       []int // vector clock (race detector)
	fnName   string
	held     []*mutexSt
	curAddr  ssa.Value
}

func (vm *VM) spawn(fn Value, args []Value, name string, pos token.Pos) *G {
	g := &G{id: len(vm.gs), vm: vm, name: name, wake: make(chan struct{}, 1), state: gRunnable, startPos: pos}
	switch f := fn.(type) {
	case *ssa.Function:
		if f != nil {
			g.fnName = f.String()
		}
	case *Closure:
		g.fnName = f.Fn.String()
	}
	if name == "" {
		g.name = g.fnName
	}
	vm.gs = append(vm.gs, g)
	vm.wg.Add(1)
	go g.top(fn, args, pos)
	return g
}

func (g *G) park() {
	<-g.wake
	if g.vm.killing {
		panic(pathAbort{kind: "KILL"})
	}
}

func (g *G) top(fn Value, args []Value, pos token.Pos) {
	vm := g.vm
	defer vm.wg.Done()
	defer func() {
		r := recover()
		if r == nil {
			return
		}
		g.state = gDone
		switch r := r.(type) {
		case pathAbort:
			if r.kind == "KILL" {
				return
			}
			vm.endPath(&PathResult{Kind: r.kind, Msg: r.msg, Pos: g.where(), G: g.name})
		case targetPanic:
			vm.endPath(&PathResult{Kind: "PANIC", Msg: fmt.Sprintf("%s: %v", r.kind, r.v), Pos: r.pos, G: g.name, PanicKind: r.kind, Stack: g.stack(), Fn: r.fn})
		case lenientAbort:
			vm.endPath(&PathResult{Kind: "UNSUPPORTED", Msg: "lenient abort escaped: " + r.why, Pos: g.where()})
		default:
			vm.endPath(&PathResult{Kind: "ENGINE", Msg: fmt.Sprintf("%v\n%s\nvm stack: %s", r, debug.Stack(), g.stack()), Pos: g.where()})
		}
	}()
	g.park()
	g.state = gRunning
	g.result = g.call(fn, args, pos)
	g.state = gDone
	if vm.race != nil {
		vm.race.exit(g)
	}
	if g.isMain {
		vm.endPath(&PathResult{Kind: "OK"})
		return
	}
	// pass the baton on
	g.passOn()
}

func (g *G) where() string {
	if g.fr != nil {
		return g.vm.posStr(g.fr.pos)
	}
	return "?"
}

func (g *G) stack() string {
	s := ""
	n := 0
	for fr := g.fr; fr != nil && n < 12; fr = fr.caller {
		s += fmt.Sprintf("%s@%s < ", fr.fn.String(), g.vm.posStr(fr.pos))
		n++
	}
	return s
}

func (vm *VM) endPath(r *PathResult) {
	vm.pathDone <- r
}

// enabled reports whether g could run now.
func (g *G) enabled() bool {
	switch g.state {
	case gRunnable, gRunning:
		return true
	case gBlocked:
		return g.ready()
	}
	return false
}

// candidates lists enabled goroutines other than 'except' (main last).
func (vm *VM) candidates(except *G) []*G {
	var c []*G
	var mainC *G
	for _, h := range vm.gs {
		if h == except || h.state == gDone || h.stalled {
			continue
		}
		if h.isMain {
			if h.enabled() {
				mainC = h
			}
			continue
		}
		if h.enabled() {
			c = append(c, h)
		}
	}
	if mainC != nil {
		c = append(c, mainC)
	}
	return c
}

func (vm *VM) switchTo(from, to *G) {
	if from == to {
		return
	}
	vm.cur = to
	if to.state == gRunnable {
		// first run or preempted
	}
	to.wake <- struct{}{}
	if from != nil && from.state != gDone {
		from.park()
		vm.cur = from
	}
}

// passOn is called by a finished goroutine: hand the baton to someone else.
func (g *G) passOn() {
	vm := g.vm
	for {
		c := vm.candidates(g)
		if len(c) > 0 {
			var next *G
			if vm.cfg.Mode == "explore" && len(c) > 1 && vm.switches < vm.cfg.SwitchBound {
				k := vm.choose(len(c), "sched-exit", 'S')
				if k > 0 {
					vm.switches++
				}
				next = c[k]
			} else {
				next = c[0]
			}
			vm.cur = next
			next.wake <- struct{}{}
			return
		}
		if vm.releaseStalled() {
			continue
		}
		if vm.fireSomeTimer() {
			continue
		}
		vm.deadlock()
		return
	}
}

// releaseStalled makes every stalled goroutine schedulable again.
func (vm *VM) releaseStalled() bool {
	any := false
	for _, h := range vm.gs {
		if h.stalled {
			h.stalled = false
			any = true
		}
	}
	return any
}

func (vm *VM) anyStalled() bool {
	for _, h := range vm.gs {
		if h.stalled && h.state != gDone {
			return true
		}
	}
	return false
}

func (vm *VM) deadlock() {
	// nothing can run: report what the main goroutine is blocked on
	desc := "?"
	pos := "?"
	label := "deadlock"
	if vm.main != nil {
		desc = vm.main.waitDesc
		pos = vm.posStr(vm.main.waitPos)
		kind := desc
		if i := strings.IndexAny(kind, " ("); i > 0 {
			kind = kind[:i]
		}
		label = "deadlock:" + kind + "@" + vm.main.curFn()
		// who else is stuck inside the library holding things
		for _, h := range vm.gs {
			if h != vm.main && h.state == gBlocked && len(h.held) > 0 {
				label += "<-" + h.curFn()
				break
			}
		}
	}
	panic(pathAbort{kind: "DEADLOCK", msg: label + "\x00no goroutine can run; main blocked on " + desc + " at " + pos + "; " + vm.blockedSummary()})
}

func (vm *VM) blockedSummary() string {
	s := ""
	for _, h := range vm.gs {
		if h.state == gBlocked {
			s += fmt.Sprintf("[g%d %s: %s @%s] ", h.id, h.name, h.waitDesc, vm.posStr(h.waitPos))
		}
	}
	return s
}

// block parks g until ready() holds.
func (g *G) block(desc string, ready func() bool) {
	vm := g.vm
	if vm.lenient > 0 {
		panic(unsupported("blocking operation during package initialisation"))
	}
	g.state = gBlocked
	g.ready = ready
	g.waitDesc = desc
	if g.fr != nil {
		g.waitPos = g.fr.pos
	}
	for !ready() {
		c := vm.candidates(g)
		if len(c) == 0 {
			if vm.releaseStalled() {
				continue
			}
			if vm.fireSomeTimer() {
				continue
			}
			vm.deadlock()
		}
		var next *G
		if vm.cfg.Mode == "explore" && len(c) > 1 && vm.switches < vm.cfg.SwitchBound {
			k := vm.choose(len(c), "sched-block", 'S')
			if k > 0 {
				vm.switches++
			}
			next = c[k]
		} else {
			next = c[0]
		}
		vm.switchTo(g, next)
	}
	g.state = gRunning
	g.ready = nil
}

// schedPoint: possible preemption before a visible operation (explore mode).
func (g *G) schedPoint(kind string) {
	vm := g.vm
	if vm.cfg.Mode != "explore" || vm.lenient > 0 || vm.noPreempt > 0 {
		return
	}
	if vm.preempts >= vm.cfg.Preempt {
		return
	}
	c := vm.candidates(g)
	// main only runs when the others cannot (harness driver), so do not preempt towards it
	var cc []*G
	for _, h := range c {
		if !h.isMain {
			cc = append(cc, h)
		}
	}
	if g.isMain {
		return
	}
	if vm.cfg.Stall {
		// stall: this goroutine stops here, just before the operation, and stays off the processor until every
		// other goroutine has come to rest (and, with a stall span, across further steps of the harness)
		if len(cc) == 0 && (vm.stallSpanUsed >= vm.cfg.StallSpan || !vm.mainKeepOK) {
			return // nobody else to run, and the harness would release us at once
		}
		// ... and which of the others goes first is a choice too
		k := vm.choose(len(cc)+1+b2i(len(cc) == 0), "sched-stall:"+kind, 'S')
		if k == 0 {
			return
		}
		var first *G
		if len(cc) > 0 {
			first = cc[k-1]
		}
		vm.preempts++
		vm.logEvent(fmt.Sprintf("g%d %s stalls before %s at %s", g.id, g.name, kind, g.where()))
		g.stalled = true
		g.state = gBlocked
		g.waitDesc = "stalled"
		g.ready = func() bool { return !g.stalled }
		for g.stalled {
			c := vm.candidates(g)
			if len(c) == 0 {
				vm.releaseStalled()
				break
			}
			next := c[0]
			if first != nil && first.state != gDone && first.enabled() && !first.stalled {
				next = first
			}
			first = nil
			vm.switchTo(g, next)
		}
		g.state = gRunning
		g.ready = nil
		return
	}
	if len(cc) == 0 {
		return
	}
	k := vm.choose(len(cc)+1, "sched-preempt:"+kind, 'S')
	if k == 0 {
		return
	}
	vm.preempts++
	g.state = gRunnable
	vm.switchTo(g, cc[k-1])
	g.state = gRunning
}

// yield lets everything else run until nothing but main is enabled (canonical Quiesce).
func (g *G) quiesce() { g.quiesceK(false) }

// quiesceK: keepOK (verif.QuiesceKeep) lets a stalled goroutine that holds no lock stay stalled across this
// point, so that the harness can take further steps meanwhile (bounded by stall_span).
func (g *G) quiesceK(keepOK bool) {
	vm := g.vm
	if g.isMain {
		vm.mainKeepOK = keepOK
		defer func() { vm.mainKeepOK = false }()
	}
	for {
		g.quiesce1()
		if !vm.anyStalled() {
			return
		}
		if keepOK && g.isMain && vm.stallSpanUsed < vm.cfg.StallSpan && !vm.stalledHoldsLock() && vm.choose(2, "stall-keep", 'S') == 1 {
			vm.stallSpanUsed++
			return
		}
		vm.releaseStalled()
	}
}

func (vm *VM) stalledHoldsLock() bool {
	for _, h := range vm.gs {
		if h.stalled && h.state != gDone && len(h.held) > 0 {
			return true
		}
	}
	return false
}

func (g *G) quiesce1() {
	vm := g.vm
	g.block("quiesce", func() bool {
		for _, h := range vm.gs {
			if h == g || h.state == gDone || h.stalled {
				continue
			}
			if h.state == gBlocked && h.waitDesc == "quiesce" {
				continue // another goroutine waiting for quiescence does not keep things busy
			}
			if h.enabled() {
				return false
			}
		}
		return true
	})
}

// ---------------- channels

type waiter struct {
	g     *G
	val   Value // value to send / received value
	ok    bool
	done  bool
	sel   *selState
	caseI int
	vc    []int
}

type selState struct {
	closed *ChanV // decided by the close of this channel
	fired bool
	caseI int
	val   Value
	ok    bool
}

type ChanV struct {
	id     int
	cap    int
	buf    []Value
	bufVC  [][]int
	closed bool
	sendq  []*waiter
	recvq  []*waiter
	elem   types.Type
	sync   syncObj
}

func (vm *VM) newChan(cap int, elem types.Type) *ChanV {
	vm.nextID++
	return &ChanV{id: vm.nextID, cap: cap, elem: elem}
}

func (c *ChanV) zeroElem() Value {
	if c.elem == nil {
		return nil
	}
	return zero(c.elem)
}

func dequeue(q *[]*waiter) *waiter {
	for len(*q) > 0 {
		w := (*q)[0]
		*q = (*q)[1:]
		if w.sel != nil && w.sel.fired {
			continue
		}
		if w.done {
			continue
		}
		return w
	}
	return nil
}

func hasWaiter(q []*waiter) bool {
	for _, w := range q {
		if w.done || (w.sel != nil && w.sel.fired) {
			continue
		}
		return true
	}
	return false
}

func (c *ChanV) canSend() bool { return c.closed || hasWaiter(c.recvq) || len(c.buf) < c.cap }
func (c *ChanV) canRecv() bool { return len(c.buf) > 0 || hasWaiter(c.sendq) || c.closed }

// trySend performs a send if possible (caller checked canSend). Panics on closed.
func (g *G) doSend(c *ChanV, v Value, pos token.Pos) {
	vm := g.vm
	if c.closed {
		g.tpanic("sendclosed", "send on closed channel", pos)
	}
	if w := dequeue(&c.recvq); w != nil {
		w.val, w.ok, w.done = v, true, true
		if w.sel != nil {
			w.sel.fired, w.sel.caseI, w.sel.val, w.sel.ok = true, w.caseI, v, true
		}
		if vm.race != nil {
			vm.race.handoff(g, w.g)
		}
		return
	}
	if len(c.buf) < c.cap {
		c.buf = append(c.buf, v)
		if vm.race != nil {
			c.bufVC = append(c.bufVC, vm.race.snapshotRelease(g))
		}
		return
	}
	panic("doSend: not ready")
}

func (g *G) doRecv(c *ChanV) (Value, bool) {
	vm := g.vm
	if len(c.buf) > 0 {
		v := c.buf[0]
		c.buf = c.buf[1:]
		if vm.race != nil && len(c.bufVC) > 0 {
			vm.race.acquireVC(g, c.bufVC[0])
			c.bufVC = c.bufVC[1:]
		}
		if w := dequeue(&c.sendq); w != nil {
			c.buf = append(c.buf, w.val)
			if vm.race != nil {
				c.bufVC = append(c.bufVC, w.vc)
			}
			w.done = true
			if w.sel != nil {
				w.sel.fired, w.sel.caseI = true, w.caseI
			}
		}
		return v, true
	}
	if w := dequeue(&c.sendq); w != nil {
		w.done = true
		if w.sel != nil {
			w.sel.fired, w.sel.caseI = true, w.caseI
		}
		if vm.race != nil {
			vm.race.acquireVC(g, w.vc)
			vm.race.handoff(g, w.g)
		}
		return w.val, true
	}
	if c.closed {
		if vm.race != nil {
			vm.race.acquire(g, &c.sync)
		}
		return c.zeroElem(), false
	}
	panic("doRecv: not ready")
}

func (g *G) chanSend(c *ChanV, v Value, pos token.Pos) {
	vm := g.vm
	g.schedPoint("send")
	if c == nil {
		g.block("send on nil channel", func() bool { return false })
	}
	if c.canSend() {
		g.doSend(c, v, pos)
		return
	}
	w := &waiter{g: g, val: v}
	if vm.race != nil {
		w.vc = vm.race.snapshotRelease(g)
	}
	c.sendq = append(c.sendq, w)
	g.block(fmt.Sprintf("chan send (chan#%d)", c.id), func() bool { return w.done || c.closed })
	if !w.done {
		w.done = true
		g.tpanic("sendclosed", "send on closed channel", pos)
	}
}

func (g *G) chanRecv(c *ChanV, pos token.Pos) (Value, bool) {
	g.schedPoint("recv")
	if c == nil {
		g.block("receive from nil channel", func() bool { return false })
	}
	if c.canRecv() {
		return g.doRecv(c)
	}
	w := &waiter{g: g}
	c.recvq = append(c.recvq, w)
	g.block(fmt.Sprintf("chan receive (chan#%d)", c.id), func() bool { return w.done || c.closed })
	if w.done {
		return w.val, w.ok
	}
	w.done = true
	if g.vm.race != nil {
		g.vm.race.acquire(g, &c.sync)
	}
	return c.zeroElem(), false
}

func (g *G) chanClose(c *ChanV, pos token.Pos) {
	g.schedPoint("close")
	if c == nil {
		g.tpanic("closenil", "close of nil channel", pos)
	}
	if c.closed {
		g.tpanic("closeclosed", "close of closed channel", pos)
	}
	c.closed = true
	if g.vm.race != nil {
		g.vm.race.release(g, &c.sync)
	}
	// A select parked on this channel is decided NOW, as in the Go runtime (closechan dequeues every waiter and
	// marks its select done): whatever becomes ready on its other channels before that goroutine runs again can
	// no longer be chosen. (Plain receivers see the closed channel through their ready predicates.)
	for _, w := range c.recvq {
		if w.done || w.sel == nil || w.sel.fired {
			continue
		}
		w.sel.fired, w.sel.caseI, w.sel.val, w.sel.ok = true, w.caseI, c.zeroElem(), false
		w.sel.closed = c
	}
}

func (g *G) selectOp(fr *Frame, ins *ssa.Select) Value {
	vm := g.vm
	g.schedPoint("select")
	type scase struct {
		c    *ChanV
		send bool
		val  Value
	}
	cases := make([]scase, len(ins.States))
	for i, st := range ins.States {
		c, _ := fr.get(st.Chan).(*ChanV)
		cases[i] = scase{c: c, send: st.Dir == types.SendOnly}
		if cases[i].send {
			cases[i].val = fr.get(st.Send)
		}
	}
	readyCases := func() []int {
		var r []int
		for i, sc := range cases {
			if sc.c == nil {
				continue
			}
			if sc.send && sc.c.canSend() {
				r = append(r, i)
			}
			if !sc.send && sc.c.canRecv() {
				r = append(r, i)
			}
		}
		return r
	}
	result := func(chosen int, recvVal Value, recvOk bool) Value {
		r := Tuple{mkInt(uint64(int64(chosen))), mkBool(recvOk)}
		for i, st := range ins.States {
			if st.Dir == types.RecvOnly {
				if i == chosen && recvOk {
					r = append(r, recvVal)
				} else {
					r = append(r, zero(st.Chan.Type().Underlying().(*types.Chan).Elem()))
				}
			}
		}
		return r
	}
	perform := func(i int) Value {
		sc := cases[i]
		if sc.send {
			g.doSend(sc.c, sc.val, ins.Pos())
			return result(i, nil, false)
		}
		v, ok := g.doRecv(sc.c)
		return result(i, v, ok)
	}
	rc := readyCases()
	if len(rc) > 0 {
		k := 0
		if len(rc) > 1 {
			k = vm.choose(len(rc), "select", 'L')
		}
		return perform(rc[k])
	}
	if !ins.Blocking {
		return result(-1, nil, false)
	}
	// park on all channels
	sel := &selState{}
	var ws []*waiter
	for i, sc := range cases {
		if sc.c == nil {
			continue
		}
		w := &waiter{g: g, sel: sel, caseI: i, val: sc.val}
		if sc.send {
			if vm.race != nil {
				w.vc = vm.race.snapshotRelease(g)
			}
			sc.c.sendq = append(sc.c.sendq, w)
		} else {
			sc.c.recvq = append(sc.c.recvq, w)
		}
		ws = append(ws, w)
	}
	closedReady := func() bool {
		for _, sc := range cases {
			if sc.c != nil && sc.c.closed {
				return true
			}
		}
		return false
	}
	g.block("select", func() bool { return sel.fired || closedReady() || len(readyCases()) > 0 })
	if sel.fired {
		for _, w := range ws {
			w.done = true
		}
		if sel.closed != nil && vm.race != nil {
			vm.race.acquire(g, &sel.closed.sync)
		}
		i := sel.caseI
		if cases[i].send {
			return result(i, nil, false)
		}
		return result(i, sel.val, sel.ok)
	}
	// a channel became closed/ready without a partner handing off: retire waiters and retry
	sel.fired = true
	for _, w := range ws {
		w.done = true
	}
	rc = readyCases()
	if len(rc) == 0 {
		panic("select woke with nothing ready")
	}
	k := 0
	if len(rc) > 1 {
		k = vm.choose(len(rc), "select", 'L')
	}
	return perform(rc[k])
}

// ---------------- mutex / cond / once / waitgroup / pool / timers

type syncObj struct {
	vc []int
}

type mutexSt struct {
	locked  bool
	holder  *G
	readers int
	sync    syncObj
	rsync   syncObj
	addr    *Value
	lockPos token.Pos
}

func (vm *VM) mutexOf(p *Value) *mutexSt {
	if m, ok := vm.side[p].(*mutexSt); ok {
		return m
	}
	m := &mutexSt{addr: p}
	vm.side[p] = m
	return m
}

func (g *G) mutexLock(p *Value, pos token.Pos) {
	vm := g.vm
	if p == nil {
		g.tpanic("nil", "nil pointer dereference (Mutex.Lock)", pos)
	}
	m := vm.mutexOf(p)
	g.schedPoint("lock")
	if m.locked && m.holder == g && m.readers == 0 {
		vm.ex.violation(vm, g, "selfdeadlock", fmt.Sprintf("goroutine locks a mutex it already holds (first locked at %s, again at %s)", vm.posStr(m.lockPos), vm.posStr(pos)), pos)
	}
	if m.locked || m.readers > 0 {
		g.block(fmt.Sprintf("Mutex.Lock (held since %s)", vm.posStr(m.lockPos)), func() bool { return !m.locked && m.readers == 0 })
	}
	m.locked = true
	m.holder = g
	m.lockPos = pos
	if g.fr != nil && pos == token.NoPos {
		m.lockPos = g.fr.pos
	}
	g.held = append(g.held, m)
	if vm.race != nil {
		vm.race.acquire(g, &m.sync)
		vm.race.acquire(g, &m.rsync)
	}
}

func (g *G) mutexUnlock(p *Value, pos token.Pos) {
	vm := g.vm
	m := vm.mutexOf(p)
	if !m.locked {
		panic(targetPanic{v: "sync: unlock of unlocked mutex", kind: "fatal-unlock", pos: vm.posStr(pos), fn: g.curFn()})
	}
	if vm.race != nil {
		vm.race.release(g, &m.sync)
	}
	m.locked = false
	if m.holder != nil {
		h := m.holder
		for i := len(h.held) - 1; i >= 0; i-- {
			if h.held[i] == m {
				h.held = append(h.held[:i], h.held[i+1:]...)
				break
			}
		}
	}
	m.holder = nil
	g.schedPoint("unlock")
}

func (g *G) mutexRLock(p *Value, pos token.Pos) {
	vm := g.vm
	m := vm.mutexOf(p)
	g.schedPoint("rlock")
	if m.locked {
		g.block("RWMutex.RLock", func() bool { return !m.locked })
	}
	m.readers++
	if vm.race != nil {
		vm.race.acquire(g, &m.sync)
	}
}

func (g *G) mutexRUnlock(p *Value, pos token.Pos) {
	vm := g.vm
	m := vm.mutexOf(p)
	if m.readers <= 0 {
		panic(targetPanic{v: "sync: RUnlock of unlocked RWMutex", kind: "fatal-unlock", pos: vm.posStr(pos)})
	}
	if vm.race != nil {
		vm.race.release(g, &m.rsync)
	}
	m.readers--
}

type condSt struct {
	waiters []*condWaiter
	sync    syncObj
}
type condWaiter struct {
	g      *G
	woken  bool
	wakeVC []int
}

func (vm *VM) condOf(p *Value) *condSt {
	if c, ok := vm.side[p].(*condSt); ok {
		return c
	}
	c := &condSt{}
	vm.side[p] = c
	return c
}

type onceSt struct {
	done    bool
	running bool
	sync    syncObj
}

type wgSt struct {
	n    int
	sync syncObj
}

type poolSt struct {
	items []Value
	vcs   [][]int
}

type TimerV struct {
	id        int
	deadline  IntV
	fn        Value
	ch        *ChanV
	active    bool
	fired     bool
	vc        []int
	createdAt IntV
	pos       token.Pos
	handle    *Value // address of the time.Timer struct (if any)
}

func (vm *VM) newTimer(d IntV, fn Value, ch *ChanV, g *G, pos token.Pos) *TimerV {
	vm.nextID++
	t := &TimerV{id: vm.nextID, fn: fn, ch: ch, active: true, createdAt: vm.now, pos: pos}
	t.deadline = vm.addDur(vm.now, d)
	if vm.race != nil && g != nil {
		t.vc = vm.race.snapshotRelease(g)
	}
	vm.timers = append(vm.timers, t)
	return t
}

func (vm *VM) addDur(a, d IntV) IntV {
	if a.S == nil && d.S == nil {
		return IntV{C: a.C + d.C}
	}
	return vm.fromTermT(vm.tb.Arith(OpAdd, vm.intTerm(a, 64), vm.intTerm(d, 64)), 64, true)
}

func (vm *VM) pendingTimers() []*TimerV {
	var r []*TimerV
	for _, t := range vm.timers {
		if t.active {
			r = append(r, t)
		}
	}
	return r
}

// fireSomeTimer fires one pending timer (choice among them); false if none.
func (vm *VM) fireSomeTimer() bool {
	p := vm.pendingTimers()
	if len(p) == 0 {
		return false
	}
	k := 0
	if len(p) > 1 {
		// canonical: earliest concrete deadline first; otherwise a decision
		allConc := true
		for _, t := range p {
			if t.deadline.S != nil {
				allConc = false
			}
		}
		if allConc && vm.cfg.Mode != "explore" {
			for i, t := range p {
				if int64(t.deadline.C) < int64(p[k].deadline.C) {
					k = i
				}
			}
		} else {
			k = vm.choose(len(p), "timer", 'T')
		}
	}
	vm.fireTimer(p[k])
	return true
}

func (vm *VM) fireTimer(t *TimerV) {
	t.active = false
	t.fired = true
	// advance the clock to max(now, deadline)
	if vm.now.S == nil && t.deadline.S == nil {
		if int64(t.deadline.C) > int64(vm.now.C) {
			vm.now = t.deadline
		}
	} else {
		tb := vm.tb
		n, d := vm.intTerm(vm.now, 64), vm.intTerm(t.deadline, 64)
		var c *Term
		if vm.intMode {
			c = tb.Cmp(OpILt, n, d)
		} else {
			c = tb.Cmp(OpSLt, n, d)
		}
		vm.now = vm.fromTermT(tb.Ite(c, d, n), 64, true)
	}
	vm.logEvent(fmt.Sprintf("timer#%d fires (armed at %s) now=%s", t.id, vm.posStr(t.pos), valStr(vm.now)))
	if t.ch != nil {
		if len(t.ch.buf) < t.ch.cap || hasWaiter(t.ch.recvq) {
			tv := vm.timeValue(vm.now)
			if w := dequeue(&t.ch.recvq); w != nil {
				w.val, w.ok, w.done = tv, true, true
				if w.sel != nil {
					w.sel.fired, w.sel.caseI, w.sel.val, w.sel.ok = true, w.caseI, tv, true
				}
				if vm.race != nil {
					vm.race.acquireVC(w.g, t.vc)
				}
			} else {
				t.ch.buf = append(t.ch.buf, tv)
				if vm.race != nil {
					t.ch.bufVC = append(t.ch.bufVC, t.vc)
				}
			}
		}
	}
	if t.fn != nil {
		ng := vm.spawn(t.fn, nil, fmt.Sprintf("timer#%d-callback", t.id), t.pos)
		if vm.race != nil {
			vm.race.forkVC(t.vc, ng)
		}
	}
}

func (vm *VM) timeValue(ns IntV) Value {
	// time.Time{wall uint64, ext int64, loc *Location}
	return Struct{IntV{}, ns, (*Value)(nil)}
}

func (vm *VM) logEvent(s string) {
	if len(vm.evlog) < 4000 {
		vm.evlog = append(vm.evlog, s)
	}
}

func b2i(b bool) int {
	if b {
		return 1
	}
	return 0
}
