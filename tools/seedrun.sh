#!/bin/sh
# usage: tools/seedrun.sh <seed-id> <property> [gosym flags...]   runs the quick check of <property> against seeded/<seed-id>/patch.diff
# in a scratch worktree (VERIF_REPO), leaving /repo untouched.
id=$1; prop=$2; shift 2
sc=/tmp/wt/run_${id}_$$
git -C /repo worktree add -q --detach $sc HEAD || exit 1
(cd $sc && git apply /verif/seeded/$id/patch.diff) || { git -C /repo worktree remove --force $sc; exit 1; }
vdir=${SEED_VERIF:-/verif}
(cd $vdir && VERIF_REPO=$sc ./check $prop --tier ${TIER:-quick} -noevidence "$@")
rc=$?
git -C /repo worktree remove --force $sc
exit $rc
