#!/bin/sh
# usage: tools/seedsuite.sh <seed-id> <pkg>...   re-runs packages of the existing suite 3x against a seeded change (scratch worktree)
export GOFLAGS=-mod=mod GOPROXY=off GOSUMDB=off GOTOOLCHAIN=local
id=$1; shift
sc=/tmp/wt/suite_${id}_$$
git -C /repo worktree add -q --detach $sc HEAD || exit 1
(cd $sc && git apply /verif/seeded/$id/patch.diff) || { git -C /repo worktree remove --force $sc; exit 1; }
(cd $sc && go test -vet=off -count=3 -timeout 20m "$@" 2>&1 | grep -v BroadcastIP | tail -5)
git -C /repo worktree remove --force $sc
