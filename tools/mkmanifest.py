#!/usr/bin/env python3
"""Regenerates /verif/MANIFEST.json from tools/manifest_src.json (claimed checks + not-applicable list)."""
import json, os, sys
here = os.path.dirname(os.path.dirname(os.path.abspath(__file__)))
src = json.load(open(os.path.join(here, "tools", "manifest_src.json")))
props = [json.loads(l)["id"] for l in open(os.path.join(here, "properties.jsonl"))]
checks = []
for pid in props:
    c = src["claimed"].get(pid)
    if not c:
        continue
    checks.append({
        "property_id": pid,
        "quick_cmd": f"./check {pid} --tier quick",
        "thorough_cmd": f"./check {pid} --tier thorough",
        "evidence_file": f"/verif/evidence/{pid}.json",
        "replay_cmd_template": f"./check {pid} --replay {{path}}",
        "engine": "gosym",
        "level_claimed": {"category": "model_checking", "text": c["text"], "design_ref": c.get("design_ref", "DESIGN.md section 2")},
        "level_note": c["note"],
        "technique": c.get("technique", "bounded symbolic execution of the real Go SSA (gosym VM) with z3 deciding every branch, assertion and panic obligation"),
    })
na = [{"property_id": pid, "reason": src["not_applicable"].get(pid, "check not built yet: the engine stage this property needs is not finished (see DESIGN.md section 4); not answered with another technique")}
      for pid in props if pid not in src["claimed"]]
m = {
    "version": 1,
    "setup_cmd": "cd /verif/engine && GOFLAGS=-mod=mod GOPROXY=off GOSUMDB=off GOTOOLCHAIN=local go build -o ../bin/gosym .",
    "hooks": {"guard": "verif", "enable": "none needed: harnesses are injected with packages.Config.Overlay / go test -overlay; the VM reads unexported state directly", "baseline_off_cmd": "cd /repo && go test -vet=off -count=1 -timeout 25m ./...", "source_commits": src.get("hook_commits", []), "add_only": True},
    "engines": [{"name": "gosym", "path": "/verif/engine", "serves_properties": [c["property_id"] for c in checks], "kind_free_text": "symbolic virtual machine for Go SSA (x/tools go/ssa v0.29.0) executing the real mangos functions rebuilt from /repo on every run; SMT terms for scalars, z3 -in (push/pop) decides branches, assertions and panic obligations; goroutines, channels, sync, timers and clock modelled in the VM; DFS over decision traces by re-execution"}],
    "checks": checks,
    "notes": src.get("notes", ""),
    "not_applicable": na,
}
json.dump(m, open(os.path.join(here, "MANIFEST.json"), "w"), indent=1)
print("claimed:", [c["property_id"] for c in checks], "n/a:", len(na))
