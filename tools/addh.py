#!/usr/bin/env python3
# usage: tools/addh.py '<json object>'  -- adds or replaces one harness entry (by name) in harness/harnesses.json
import json,sys
p='/verif/harness/harnesses.json'
h=json.load(open(p))
e=json.loads(sys.argv[1])
hs=h['harnesses']
for i,x in enumerate(hs):
    if x['name']==e['name']:
        hs[i]=e; break
else:
    hs.append(e)
json.dump(h,open(p,'w'),indent=1)
print('ok',e['name'],len(hs))
