#!/bin/sh
# usage: tools/mutsweep.sh <name> <sed-substitution> <grep-pattern> <props...>
# For every line of the non-test library code that matches <grep-pattern>, applies <sed-substitution> to THAT line only
# in a scratch worktree, builds, and runs the quick checks of <props> against it. Prints one line per mutant:
# CAUGHT (which property/label), MISSED, or NOBUILD. A gap-finding aid; nothing is stored, /repo is never modified.
export GOFLAGS=-mod=mod GOPROXY=off GOSUMDB=off GOTOOLCHAIN=local
name=$1; subst=$2; pat=$3; shift 3; props="$*"
VDIR=$(cd "$(dirname "$0")/.." && pwd)
out=$VDIR/out/mutsweep_$name.txt; mkdir -p $VDIR/out; : > $out
cd /repo
sites=$(grep -rn --include=*.go -e "$pat" protocol internal/core transport macat/*.go *.go 2>/dev/null | grep -v "_test.go" | cut -d: -f1,2)
for site in $sites; do
  f=${site%%:*}; l=${site##*:}
  sc=/tmp/wt/mut_${name}_$$
  git -C /repo worktree add -q --detach $sc HEAD || continue
  sed -i "${l}${subst}" $sc/$f
  if ! (cd $sc && go build ./... >/dev/null 2>&1); then echo "$site NOBUILD" >> $out; git -C /repo worktree remove --force $sc; continue; fi
  res="MISSED"
  for p in $props; do
    (cd $VDIR && VERIF_REPO=$sc timeout 1500 ./check $p --tier quick -noevidence > /tmp/mut_${name}_$p.log 2>&1); rc=$?
    if [ $rc -eq 1 ]; then lab=$(grep -h "label=" /tmp/mut_${name}_$p.log | sed 's/.*label=\([^ ]*\).*/\1/' | sort -u | head -2 | tr '\n' ' '); res="CAUGHT $p $lab"; break; fi
    if [ $rc -ne 0 ]; then res="INCONCLUSIVE $p rc=$rc"; fi
  done
  echo "$site $(sed -n ${l}p /repo/$f | tr -s ' \t' ' ') => $res" >> $out
  git -C /repo worktree remove --force $sc
done
cat $out
