#!/bin/sh
# usage: tools/mutsweep.sh <name> <sed-substitution> <grep-pattern> <props...>
# For every line of the non-test library code that matches <grep-pattern>, applies <sed-substitution> to THAT line only
# in a scratch worktree, builds, and runs the quick checks of <props> against it. Prints one line per mutant:
# CAUGHT (which property/label), MISSED, or NOBUILD. A gap-finding aid; nothing is stored, /repo is never modified.
export GOFLAGS=-mod=mod GOPROXY=off GOSUMDB=off GOTOOLCHAIN=local
name=$1; subst=$2; pat=$3; shift 3; props="$*"
VDIR=$(cd "$(dirname "$0")/.." && pwd)
out=$VDIR/out/mutsweep_$name.txt; mkdir -p $VDIR/out; : > $out
cd /repo
sites=$(grep -rn --include=*.go -e "$pat" ${MUT_DIRS:-protocol internal/core transport macat/*.go *.go} 2>/dev/null | grep -v "_test.go" | cut -d: -f1,2)
for site in $sites; do
  f=${site%%:*}; l=${site##*:}
  sc=/tmp/wt/mut_${name}_$$
  git -C /repo worktree add -q --detach $sc HEAD || continue
  sed -i "${l}${subst}" $sc/$f
  if ! (cd $sc && go build ./... >/dev/null 2>&1); then echo "$site NOBUILD" >> $out; git -C /repo worktree remove --force $sc; continue; fi
  res="MISSED"
  plist="$props"
  if [ "$props" = "auto" ]; then
    case $f in
      protocol/req/*|protocol/xreq/*) plist="C03 C04 C16 C18 C10";;
      protocol/rep/*|protocol/xrep/*) plist="C05 C09 C16 C18";;
      protocol/respondent/*|protocol/xrespondent/*) plist="C05 C07 C09 C16";;
      protocol/surveyor/*|protocol/xsurveyor/*) plist="C07 C16 C18 C19";;
      protocol/sub/*|protocol/xsub/*|protocol/pub/*|protocol/xpub/*) plist="C06 C16 C19";;
      protocol/pair*|protocol/xpair*) plist="C02 C09 C16 C18";;
      protocol/push/*|protocol/xpush/*|protocol/pull/*|protocol/xpull/*) plist="C02 C16 C18";;
      protocol/bus/*|protocol/xbus/*|protocol/star/*|protocol/xstar/*) plist="C08 C09 C16 C19";;
      internal/core/*) plist="C13 C14 C10 C12 C19";;
      transport/inproc/*) plist="C01 C10 C12 C14";;
      transport/ws/*) plist="C15 C01 C19 C16 C10";;
      transport/*) plist="C01 C15 C16 C13 C10 C12";;
      message.go) plist="C01 C17";;
      device.go) plist="C19 C09";;
      macat/*) plist="C20";;
      *) plist="C19";;
    esac
  fi
  for p in $plist; do
    (cd $VDIR && VERIF_REPO=$sc timeout 1500 ./check $p --tier quick -noevidence > /tmp/mut_${name}_$p.log 2>&1); rc=$?
    if [ $rc -eq 1 ]; then lab=$(grep -h "label=" /tmp/mut_${name}_$p.log | sed 's/.*label=\([^ ]*\).*/\1/' | sort -u | head -2 | tr '\n' ' '); res="CAUGHT $p $lab"; break; fi
    if [ $rc -ne 0 ]; then res="INCONCLUSIVE $p rc=$rc"; fi
  done
  echo "$site $(sed -n ${l}p /repo/$f | tr -s ' \t' ' ') => $res" >> $out
  git -C /repo worktree remove --force $sc
done
cat $out
