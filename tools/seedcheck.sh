#!/bin/sh
# usage: tools/seedcheck.sh <seed-id> <agent-worktree> <property> [more-props...]
# Confirms a seeded change in a FRESH scratch worktree (patch: seed_out/patch.diff, demo: untracked files of
# the agent's worktree, command: meta.json demo_cmd), stores it under /verif/seeded/<seed-id>/ and runs the
# quick checks of the listed properties against the change. The checks run against a scratch worktree that
# carries the change (VERIF_REPO), so /repo itself is never modified and several seeds can be processed at once.
set -u
export GOFLAGS=-mod=mod GOPROXY=off GOSUMDB=off GOTOOLCHAIN=local
id=$1; wt=$2; prop=$3; shift 3
props="$prop $*"
out=/verif/seeded/$id
mkdir -p $out
cp $wt/seed_out/* $out/ 2>/dev/null
sc=/tmp/wt/verify_$id
L=/tmp/seed_$id
mkdir -p $L
git -C /repo worktree add -q --detach $sc HEAD || exit 1
(cd $wt && git status --porcelain | grep '^??' | awk '{print $2}' | grep -v '^seed_out' ) > $L/untracked.txt
for f in $(cat $L/untracked.txt); do mkdir -p $sc/$(dirname $f); cp -r $wt/$f $sc/$f; done
demo=$(python3 -c "import json;print(json.load(open('$out/meta.json'))['demo_cmd'])" | sed "s#$wt#$sc#g")
echo "== demo WITHOUT change (fresh worktree)"; (cd $sc && timeout 600 sh -c "$demo" >$L/demo_without.log 2>&1); without=$?; echo "   exit=$without"
(cd $sc && git apply $out/patch.diff) || { echo "patch does not apply"; exit 1; }
echo "== demo WITH change"; (cd $sc && timeout 600 sh -c "$demo" >$L/demo_with.log 2>&1); with=$?; echo "   exit=$with"
for f in $(cat $L/untracked.txt); do rm -rf $sc/$f; done
echo "== existing suite with change"; (cd $sc && go test -vet=off -count=1 -timeout 20m ./... 2>&1 | grep -E "^(--- FAIL|FAIL|panic)" | grep -v "BroadcastIP" | grep -v "^FAIL$" | grep -v "v3/transport/tcp	\|v3/transport/tlstcp	\|v3/transport/ws	" > $L/suite.log); head -5 $L/suite.log
suite_ok=true; [ -s $L/suite.log ] && suite_ok=false
echo "   suite_ok=$suite_ok"
echo "== checks against the change (scratch worktree $sc)"
res=""
# the checks of a frozen copy of /verif (taken when the round started) if /tmp/seed_verif_dir.txt names one: the
# harnesses keep being edited while a round is processed, "caught at once" must refer to the state at round start
vdir=/verif
[ -f /tmp/seed_verif_dir.txt ] && vdir=$(cat /tmp/seed_verif_dir.txt)
for p in $props; do
  (cd $vdir && VERIF_REPO=$sc timeout 1500 ./check $p --tier quick -noevidence > $L/check_$p.log 2>&1); rc=$?
  lab=$(grep -h "label=" $L/check_$p.log | sed 's/.*label=\([^ ]*\).*/\1/' | sort -u | head -4 | tr '\n' ' ')
  echo "   $p exit=$rc $lab"
  res="$res $p:exit=$rc[$lab]"
done
git -C /repo worktree remove --force $sc
python3 - <<PY
import json
m=json.load(open('$out/meta.json'))
m['confirmed_in_fresh_worktree']={'demo_exit_with_change':$with,'demo_exit_without_change':$without,'suite_passes_with_change':'$suite_ok'=='true'}
m['checks_quick']='''$res'''.strip()
json.dump(m,open('$out/meta.json','w'),indent=1)
PY
