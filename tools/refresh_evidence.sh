#!/bin/sh
# usage: tools/refresh_evidence.sh [props...]   runs the registered quick check of every (or the listed) property in /verif
# against /repo itself, so that each evidence/<id>.json is rewritten by the machinery at the current commit.
cd "$(dirname "$0")/.."
props="$@"
[ -z "$props" ] && props="C01 C02 C03 C04 C05 C06 C07 C08 C09 C10 C11 C12 C13 C14 C15 C16 C17 C18 C19 C20"
rc=0
for p in $props; do
  s=$(date +%s)
  ./check $p --tier quick > out/refresh_$p.log 2>&1; r=$?
  echo "$p exit=$r secs=$(( $(date +%s)-s )) $(grep -c KNOWN-FINDING out/refresh_$p.log) known"
  [ $r -ne 0 ] && rc=1 && grep -h "VIOLATION\|INCONCLUSIVE" out/refresh_$p.log | head -5
done
exit $rc
