#!/bin/sh
# usage: tools/seedsweep.sh [seed-id...]   regression of detection power: every stored seeded change is applied in a
# scratch worktree and the quick checks of the properties named in its meta.json (property + those in detected_by)
# are run against it; reports which are (still) detected. Does not touch /repo. Output: out/seedsweep.txt
export GOFLAGS=-mod=mod GOPROXY=off GOSUMDB=off GOTOOLCHAIN=local
VDIR=$(cd "$(dirname "$0")/.." && pwd)
cd "$VDIR"
ids="$@"
[ -z "$ids" ] && ids=$(ls seeded)
mkdir -p out
: > out/seedsweep.txt
for id in $ids; do
  props=$(python3 - "$id" <<'PY'
import json,re,sys
m=json.load(open('seeded/%s/meta.json'%sys.argv[1]))
d=m.get('detected_by','')
if isinstance(d,list): d=' '.join(map(str,d))
ps=[]
for p in re.findall(r'C\d\d',str(d))+[m['property']]:
    if p not in ps: ps.append(p)
print(' '.join(ps))
PY
)
  sc=/tmp/wt/sweep_$$_$id
  git -C /repo worktree add -q --detach $sc HEAD || { echo "$id worktree-failed" >> out/seedsweep.txt; continue; }
  if ! (cd $sc && git apply "$VDIR/seeded/$id/patch.diff" 2>/dev/null); then
    echo "$id patch-does-not-apply (made on an older tree)" >> out/seedsweep.txt
    git -C /repo worktree remove --force $sc; continue
  fi
  res="MISSED"
  for p in $props; do
    VERIF_REPO=$sc timeout 1500 ./check $p --tier quick -noevidence > /tmp/sweep_$id_$p.log 2>&1
    rc=$?
    if [ $rc -ne 0 ] && [ $rc -ne 1 ]; then res="INCONCLUSIVE (check $p exited $rc)"; fi
    if [ $rc -eq 1 ]; then
      lab=$(grep -h "label=" /tmp/sweep_$id_$p.log | sed 's/.*label=\([^ ]*\).*/\1/' | sort -u | head -2 | tr '\n' ' ')
      res="DETECTED by $p: $lab"; break
    fi
  done
  echo "$id [$props] $res" >> out/seedsweep.txt
  git -C /repo worktree remove --force $sc
done
echo "sweep done" >> out/seedsweep.txt
