package core

import (
	"go.nanomsg.org/mangos/v3/zzverif/verif"
)

// VH13b_alloc: one inductive step of the pipe id allocator from an arbitrary
// state: `next` is any 32-bit value (so the wrap at 0x7fffffff / 0xffffffff / 0
// is inside the query), `used` holds 0..N arbitrary distinct valid ids.
func VH13b_alloc() {
	lab := "C13/alloc"
	N := verif.Param("N", 2)
	a := &pipeIDAllocator{used: map[uint32]struct{}{}}
	n := verif.Choice("used", N+1)
	var ids []uint32
	for i := 0; i < n; i++ {
		u := verif.Uint32("used-id")
		verif.Assume(verif.And(u != 0, u < 0x80000000))
		for _, o := range ids {
			verif.Assume(u != o)
		}
		ids = append(ids, u)
		a.used[u] = struct{}{}
	}
	a.next = verif.Uint32("next")
	id := a.Get()
	verif.Assert(id != 0, lab+"/zero-id")
	verif.Assert(id < 0x80000000, lab+"/id-wider-than-31-bits")
	for _, o := range ids {
		verif.Assert(id != o, lab+"/id-already-in-use-handed-out")
	}
	verif.Assert(len(a.used) == n+1, lab+"/allocation-not-recorded")
	// a second allocation differs from the first
	id2 := a.Get()
	verif.Assert(verif.And(id2 != id, verif.And(id2 != 0, id2 < 0x80000000)), lab+"/second-id-collides")
	for _, o := range ids {
		verif.Assert(id2 != o, lab+"/id-already-in-use-handed-out")
	}
	// freeing makes exactly that id available again and nothing else
	a.Free(id)
	verif.Assert(len(a.used) == n+1, lab+"/free-did-not-release")
	verif.Reach("allocated")
}
