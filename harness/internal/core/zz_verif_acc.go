package core

import "go.nanomsg.org/mangos/v3"

// Accessors for harnesses (overlay only; never written into /repo).

// ZZIDsInUse returns the number of pipe ids currently allocated in the process.
func ZZIDsInUse() int {
	pipeIDs.lock.Lock()
	defer pipeIDs.lock.Unlock()
	return len(pipeIDs.used)
}

// ZZSocketPipes returns the number of pipes the socket still tracks.
func ZZSocketPipes(s mangos.Socket) int {
	so := s.(*socket)
	so.pipes.lock.Lock()
	defer so.pipes.lock.Unlock()
	return len(so.pipes.pipes)
}

// ZZIDInUse reports whether the pipe id is currently reserved in the allocator.
func ZZIDInUse(id uint32) bool {
	pipeIDs.lock.Lock()
	defer pipeIDs.lock.Unlock()
	_, ok := pipeIDs.used[id]
	return ok
}
