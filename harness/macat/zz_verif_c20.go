package macat

import (
	"crypto/tls"
	"strings"
	"time"

	"github.com/gdamore/optopia"

	"go.nanomsg.org/mangos/v3"
	"go.nanomsg.org/mangos/v3/zzverif/verif"
)

type capWriter struct {
	out    []byte
	writes int
}

func (w *capWriter) Write(b []byte) (int, error) {
	w.writes++
	w.out = append(w.out, b...)
	return len(b), nil
}

func mkMsg(body []byte) *mangos.Message {
	m := mangos.NewMessage(len(body))
	m.Body = append(m.Body, body...)
	return m
}

func unhex(c byte) byte {
	return verif.IteByte(c <= '9', c-'0', c-'a'+10)
}

// VH20a_print: raw / ascii / quoted output for every body up to N bytes.
func VH20a_print() {
	N := verif.Param("N", 3)
	formats := []string{"raw", "ascii", "quoted"}
	f := formats[verif.Choice("format", 3)]
	lab := "C20/print/" + f
	n := verif.Choice("len", N+1)
	body := verif.Bytes("body", n)
	w := &capWriter{}
	a := &App{printFormat: f, stdOut: w}
	a.printMsg(mkMsg(body))
	out := w.out
	verif.Observe("print", f, out, w.writes)
	switch f {
	case "raw":
		verif.Assert(verif.BytesEq(out, body), lab+"/raw-bytes-changed")
	case "ascii":
		verif.Assert(len(out) == n+1, lab+"/length")
		if len(out) != n+1 {
			return
		}
		verif.Assert(out[n] == '\n', lab+"/one-record-per-line")
		for i := 0; i < n; i++ {
			b := body[i]
			printable := verif.And(b >= 0x20, b <= 0x7e)
			ctrl := verif.Or(b < 0x20, b == 0x7f)
			ok := verif.And(
				verif.Implies(printable, out[i] == b),
				verif.And(verif.Implies(ctrl, out[i] == '.'),
					verif.Or(out[i] == b, out[i] == '.')))
			verif.Assert(ok, lab+"/byte-rendering")
			verif.Assert(out[i] != '\n', lab+"/raw-newline-inside-record")
		}
	case "quoted":
		m := len(out)
		verif.Assert(m >= 1, lab+"/empty-output")
		if m < 1 {
			return
		}
		verif.Assert(out[m-1] == '\n', lab+"/one-record-per-line")
		// independent decoder
		var dec []byte
		i := 0
		for i < m-1 {
			c := out[i]
			verif.Assert(c != '\n', lab+"/raw-newline-inside-record")
			if c != '\\' {
				dec = append(dec, c)
				i++
				continue
			}
			if i+1 >= m-1 {
				verif.Fail(lab + "/dangling-backslash")
				return
			}
			e := out[i+1]
			switch {
			case e == 'n':
				dec = append(dec, '\n')
				i += 2
			case e == 'r':
				dec = append(dec, '\r')
				i += 2
			case e == '\\':
				dec = append(dec, '\\')
				i += 2
			case e == '"':
				dec = append(dec, '"')
				i += 2
			case e == 'x':
				if i+3 >= m {
					verif.Fail(lab + "/short-hex-escape")
					return
				}
				dec = append(dec, unhex(out[i+2])<<4|unhex(out[i+3]))
				i += 4
			default:
				verif.Fail(lab + "/unknown-escape")
				return
			}
		}
		verif.Assert(verif.BytesEq(dec, body), lab+"/does-not-decode-back-to-the-message")
	}
	verif.Reach("printed")
}

// VH20b_msgpack: bin header across the 255/256 and 65535/65536 boundaries.
func VH20b_msgpack() {
	lens := []int{0, 1, 2, 31, 254, 255, 256, 257, 65534, 65535, 65536, 65537}
	n := lens[verif.Choice("len", len(lens))]
	lab := "C20/print/msgpack"
	body := make([]byte, n)
	if n > 0 {
		body[0] = verif.Byte("first")
		body[n-1] = verif.Byte("last")
	}
	w := &capWriter{}
	a := &App{printFormat: "msgpack", stdOut: w}
	a.printMsg(mkMsg(body))
	out := w.out
	if len(out) >= 6 {
		verif.Observe("msgpack", out[:6], len(out))
	}
	// reference msgpack bin decoder
	verif.Assert(len(out) >= 2, lab+"/short-output")
	if len(out) < 2 {
		return
	}
	hl, ln := 0, 0
	switch out[0] {
	case 0xc4:
		hl, ln = 2, int(out[1])
	case 0xc5:
		hl, ln = 3, int(out[1])<<8|int(out[2])
	case 0xc6:
		hl, ln = 5, int(out[1])<<24|int(out[2])<<16|int(out[3])<<8|int(out[4])
	default:
		verif.Fail(lab + "/not-a-bin-object")
		return
	}
	verif.Assert(ln == n, lab+"/length-field-differs-from-message")
	verif.Assert(len(out) == hl+n, lab+"/payload-length")
	if len(out) == hl+n {
		verif.Assert(verif.BytesEq(out[hl:], body), lab+"/payload-changed")
	}
	// smallest encoding that fits
	verif.Assert((n < 256) == (out[0] == 0xc4) && (n >= 65536) == (out[0] == 0xc6), lab+"/wrong-bin-class")
	verif.Reach("msgpack")
}

// VH20c_duration: bare integers mean seconds.
func VH20c_duration() {
	lab := "C20/duration"
	type tc struct {
		s   string
		ok  bool
		dur time.Duration
	}
	cases := []tc{{"0", true, 0}, {"5", true, 5 * time.Second}, {"-3", true, -3 * time.Second}, {"90", true, 90 * time.Second},
		{"1s", true, time.Second}, {"2m", true, 2 * time.Minute}, {"150ms", true, 150 * time.Millisecond},
		{"abc", false, 0}, {"", false, 0}, {"5x", false, 0}}
	c := cases[verif.Choice("case", len(cases))]
	var d Duration
	err := d.UnmarshalText([]byte(c.s))
	verif.Observe("duration", c.s, err, int64(d))
	verif.Assert((err == nil) == c.ok, lab+"/accept-reject/"+c.s)
	if err == nil && c.ok {
		verif.Assert(time.Duration(d) == c.dur, lab+"/value/"+c.s)
	}
	verif.Reach("duration")
}

// VH20c_duration_sym: the option text is a string of N arbitrary bytes (solver
// variables). Reference: a bare decimal integer (optional sign, digits only)
// means that many seconds; anything else is whatever time.ParseDuration makes
// of it (value or error).
func VH20c_duration_sym() {
	lab := "C20/duration-sym"
	n := verif.Choice("len", verif.Param("N", 3)+1)
	b := verif.Bytes("txt", n)
	for i := 0; i < n; i++ {
		// stated bound: no fractional part (time.ParseDuration goes through float64 for fractions; the
		// fall-back is the same library call on both sides of the comparison anyway)
		verif.Assume(b[i] != '.')
	}
	var d Duration
	err := d.UnmarshalText(append([]byte{}, b...))
	// reference: decimal syntax check written here, independent of strconv
	i := 0
	neg := false
	if n > 0 && (b[0] == '+' || b[0] == '-') {
		neg = b[0] == '-'
		i = 1
	}
	isInt := i < n
	var val int64
	for ; i < n; i++ {
		if b[i] < '0' || b[i] > '9' {
			isInt = false
			break
		}
		val = val*10 + int64(b[i]-'0')
	}
	if isInt {
		verif.Reach("bare-integer")
		if neg {
			val = -val
		}
		verif.Assert(err == nil, lab+"/bare-decimal-integer-rejected")
		if err == nil {
			verif.Assert(time.Duration(d) == time.Duration(val)*time.Second, lab+"/bare-integer-is-not-that-many-seconds")
		}
		return
	}
	d2, e2 := time.ParseDuration(string(b))
	verif.Assert((err == nil) == (e2 == nil), lab+"/accepts-or-rejects-differently-from-ParseDuration")
	if err == nil && e2 == nil {
		verif.Reach("unit-duration")
		verif.Assert(time.Duration(d) == d2, lab+"/value-differs-from-ParseDuration")
	}
}

type stubSock struct {
	inbox0  [][]byte
	inbox   [][]byte // messages RecvMsg hands out before it reports recvEnd (default: receive timeout)
	recvEnd error
	order   []byte // 's' / 'r' per completed SendMsg / successful RecvMsg
	listenOpts, dialOpts []map[string]interface{}
	endpoints            []endpointCall // every ListenOptions / DialOptions call, options as they were at the call
	info   mangos.ProtocolInfo
	sent   [][]byte
	sendErr error
	recvs  int
	listens, dials int
	closed bool
	opts   map[string]interface{}
}

func (s *stubSock) Info() mangos.ProtocolInfo { return s.info }
func (s *stubSock) Close() error              { s.closed = true; return nil }
func (s *stubSock) Send(b []byte) error       { s.sent = append(s.sent, append([]byte{}, b...)); return s.sendErr }
func (s *stubSock) Recv() ([]byte, error)     { s.recvs++; return nil, mangos.ErrRecvTimeout }
func (s *stubSock) SendMsg(m *mangos.Message) error {
	s.order = append(s.order, 's')
	s.sent = append(s.sent, append(append([]byte{}, m.Header...), m.Body...))
	if s.sendErr != nil {
		return s.sendErr
	}
	m.Free()
	return nil
}
func (s *stubSock) RecvMsg() (*mangos.Message, error) {
	s.recvs++
	if len(s.inbox) > 0 {
		b := s.inbox[0]
		s.inbox = s.inbox[1:]
		s.order = append(s.order, 'r')
		return mkMsg(b), nil
	}
	if s.recvEnd != nil {
		return nil, s.recvEnd
	}
	return nil, mangos.ErrRecvTimeout
}
func (s *stubSock) Dial(string) error                  { s.dials++; return nil }
func (s *stubSock) DialOptions(a string, o map[string]interface{}) error {
	s.dials++
	s.dialOpts = append(s.dialOpts, o)
	s.endpoints = append(s.endpoints, snapshotCall("dial", a, o))
	return nil
}
func (s *stubSock) NewDialer(string, map[string]interface{}) (mangos.Dialer, error) {
	return nil, mangos.ErrBadTran
}
func (s *stubSock) Listen(string) error                                { s.listens++; return nil }
func (s *stubSock) ListenOptions(a string, o map[string]interface{}) error {
	s.listens++
	s.listenOpts = append(s.listenOpts, o)
	s.endpoints = append(s.endpoints, snapshotCall("bind", a, o))
	return nil
}
func (s *stubSock) NewListener(string, map[string]interface{}) (mangos.Listener, error) {
	return nil, mangos.ErrBadTran
}
func (s *stubSock) GetOption(string) (interface{}, error) { return nil, mangos.ErrBadOption }
func (s *stubSock) SetOption(n string, v interface{}) error {
	if s.opts == nil {
		s.opts = map[string]interface{}{}
	}
	s.opts[n] = v
	return nil
}
func (s *stubSock) OpenContext() (mangos.Context, error) { return nil, mangos.ErrProtoOp }
func (s *stubSock) SetPipeEventHook(mangos.PipeEventHook) mangos.PipeEventHook { return nil }

// VH20d_sendloop: sends exactly the given bytes, the requested number of times.
func VH20d_sendloop() {
	lab := "C20/send"
	count := verif.Int("count")
	verif.Assume(verif.And(count >= 0, count <= 3))
	data := verif.Bytes("data", verif.Choice("dlen", 3))
	kind := verif.Choice("loop", 2)
	s := &stubSock{}
	a := &App{sock: s, count: count, sendData: data, sendInterval: Duration(-1), recvTimeout: Duration(-1), stdOut: &capWriter{}}
	var err error
	if kind == 0 {
		err = a.sendLoop()
		verif.Assert(err == nil, lab+"/sendloop-error")
		verif.Assert(len(s.sent) == count, lab+"/not-sent-the-requested-number-of-times")
	} else {
		// request/survey style: one send then receive until timeout
		verif.Assume(count >= 1)
		err = a.sendRecvLoop()
		verif.Assert(err == nil, lab+"/sendrecvloop-error")
		verif.Assert(len(s.sent) == 1, lab+"/sendrecv-without-interval-sends-once")
	}
	verif.Observe("sendloop", kind, err, len(s.sent), s.recvs)
	for _, b := range s.sent {
		verif.Assert(verif.BytesEq(b, data), lab+"/sent-bytes-differ-from-data")
	}
	verif.Reach("sent")
}

// VH20e_options: conflicting or missing options are rejected instead of running.
func VH20e_options() {
	lab := "C20/options"
	// App as Initialize() leaves it, minus os.Stdout and the optopia option table (outside the claim)
	a := &App{recvTimeout: Duration(-1), sendTimeout: Duration(-1), sendInterval: Duration(-1), sendDelay: Duration(-1), count: 1,
		options: &optopia.Options{}, stdOut: &capWriter{}}
	switch verif.Choice("case", 9) {
	case 0:
		verif.Assert(a.setFormat("raw") == nil, lab+"/format-once")
		verif.Assert(a.setFormat("ascii") != nil, lab+"/second-format-accepted")
	case 1:
		verif.Assert(a.setFormat("bogus") != nil, lab+"/unknown-format-accepted")
	case 2:
		verif.Assert(a.setSendData("x") == nil, lab+"/data-once")
		verif.Assert(a.setSendData("y") != nil, lab+"/second-data-accepted")
		verif.Assert(a.setSendFile("/nonexistent") != nil, lab+"/file-after-data-accepted")
	case 3:
		verif.Assert(a.setCert("c") == nil && a.setCert("d") != nil, lab+"/second-cert-accepted")
		verif.Assert(a.setKey("k") == nil && a.setKey("l") != nil, lab+"/second-key-accepted")
	case 4:
		verif.Assert(a.addDial("nocolon") != nil && a.addBind("nocolon") != nil, lab+"/address-without-scheme-accepted")
		verif.Assert(a.addDial("tcp://h:1") == nil && a.addBindLocal("5555") == nil, lab+"/good-address-rejected")
	case 5: // no protocol
		s := &stubSock{}
		_ = s
		a.bindAddr = []string{"tcp://127.0.0.1:1"}
		err := a.Run()
		verif.Assert(err != nil, lab+"/run-without-protocol")
	case 6: // no address
		s := &stubSock{info: mangos.ProtocolInfo{Self: mangos.ProtoPush}}
		a.sock = s
		err := a.Run()
		verif.Assert(err != nil, lab+"/run-without-address")
		verif.Assert(s.listens == 0 && s.dials == 0 && len(s.sent) == 0, lab+"/ran-despite-missing-address")
	case 7: // subscription on non-SUB
		s := &stubSock{info: mangos.ProtocolInfo{Self: mangos.ProtoPush}}
		a.sock = s
		a.bindAddr = []string{"tcp://127.0.0.1:1"}
		a.subscriptions = []string{"t"}
		err := a.Run()
		verif.Assert(err != nil, lab+"/subscription-on-non-sub")
		verif.Assert(s.listens == 0 && s.dials == 0, lab+"/ran-despite-bad-subscription")
	case 8: // TLS address without certificate / CA
		s := &stubSock{info: mangos.ProtocolInfo{Self: mangos.ProtoPush}}
		a.sock = s
		if verif.Choice("side", 2) == 0 {
			a.bindAddr = []string{"tls+tcp://127.0.0.1:1"}
		} else {
			a.dialAddr = []string{"wss://127.0.0.1:1/x"}
		}
		err := a.Run()
		verif.Assert(err != nil, lab+"/tls-without-credentials")
		verif.Assert(s.listens == 0 && s.dials == 0, lab+"/connected-without-credentials")
	}
	verif.Reach("options")
}


// VH20f_run: App.Run from a parsed configuration on a stub socket, for each of
// the ten patterns macat knows: the right loop runs, the payload is sent
// exactly as often as asked (solver variable), every message that arrives is
// printed once in arrival order (raw format: the bytes themselves, arbitrary),
// every request gets exactly one reply carrying the payload, deadlines and
// subscriptions are applied, every address is bound / dialled once, and the
// socket is closed at the end.
func VH20f_run() {
	lab := "C20/run"
	protos := []uint16{mangos.ProtoPush, mangos.ProtoPub, mangos.ProtoPull, mangos.ProtoSub, mangos.ProtoPair, mangos.ProtoBus, mangos.ProtoStar,
		mangos.ProtoReq, mangos.ProtoSurveyor, mangos.ProtoRep, mangos.ProtoRespondent}
	names := []string{"push", "pub", "pull", "sub", "pair", "bus", "star", "req", "surveyor", "rep", "respondent"}
	pi := verif.Choice("proto", len(protos))
	lab += "/" + names[pi]
	s := &stubSock{info: mangos.ProtocolInfo{Self: protos[pi]}}
	w := &capWriter{}
	count := verif.Int("count")
	verif.Assume(verif.And(count >= 1, count <= 3))
	withData := verif.Choice("with-data", 2) == 1
	var data []byte
	if withData {
		data = verif.Bytes("data", verif.Choice("dlen", 3))
	}
	in1 := verif.Bytes("in1", 1+verif.Choice("ilen", 2))
	in2 := verif.Bytes("in2", 1)
	// how many messages arrive (0..2) and what ends the receiving: a receive timeout or - as a SURVEYOR reports once
	// its survey is over - a protocol-state error; neither is a reason to stop sending the remaining rounds
	answers := verif.Choice("answers", 3)
	s.inbox = [][]byte{in1, in2}[:answers]
	s.inbox0 = s.inbox
	if verif.Choice("recv-ends-with", 2) == 1 {
		if names[pi] == "rep" || names[pi] == "respondent" {
			verif.Assume(false) // a replying socket never reports a protocol-state error from Recv
		}
		s.recvEnd = mangos.ErrProtoState
	}
	rt := verif.Duration("recv-timeout")
	verif.Assume(verif.And(rt >= 0, rt <= time.Hour))
	// with an interval (solver variable) the payload is sent count times, otherwise once
	interval := time.Duration(-1)
	if verif.Choice("with-interval", 2) == 1 {
		interval = verif.Duration("interval")
		verif.Assume(verif.And(interval >= 0, interval <= time.Hour))
	}
	a := &App{sock: s, recvTimeout: Duration(rt), sendTimeout: Duration(-1), sendInterval: Duration(interval), sendDelay: Duration(-1), count: count,
		sendData: data, printFormat: "raw", options: &optopia.Options{}, stdOut: w,
		bindAddr: []string{"tcp://127.0.0.1:1"}, dialAddr: []string{"ipc:///tmp/x", "inproc://y"}}
	if names[pi] == "sub" {
		a.subscriptions = []string{"t1", "t2"}
	}
	err := a.Run()
	var both []byte
	for _, b := range s.inbox0 {
		both = append(both, b...)
	}
	sends := len(s.sent)
	switch names[pi] {
	case "push", "pub":
		if !withData {
			verif.Assert(err != nil && sends == 0, lab+"/ran-without-data")
			break
		}
		verif.Assert(err == nil, lab+"/run-error")
		verif.Assert(sends == count, lab+"/not-sent-the-requested-number-of-times")
		verif.Assert(len(w.out) == 0 && s.recvs == 0, lab+"/send-only-pattern-received")
	case "pull", "sub":
		verif.Assert(err == nil, lab+"/run-error")
		verif.Assert(sends == 0, lab+"/receive-only-pattern-sent")
		verif.Assert(verif.BytesEq(w.out, both) && len(w.out) == len(both), lab+"/printed-output-is-not-the-messages-in-order")
	case "pair", "bus", "star", "req", "surveyor":
		verif.Assert(err == nil, lab+"/run-error")
		if withData || names[pi] == "req" || names[pi] == "surveyor" {
			if interval < 0 {
				// no interval: one transmission, then everything that arrives is printed
				verif.Assert(sends == 1, lab+"/sendrecv-without-interval-sends-once")
			} else {
				// one transmission per round, count rounds, at most one arrival printed per round
				verif.Assert(sends == count, lab+"/not-sent-the-requested-number-of-times")
				both = both[:0]
				for i, b := range s.inbox0 {
					if i < count {
						both = append(both, b...)
					}
				}
			}
			verif.Assert(len(s.order) > 0 && s.order[0] == 's', lab+"/received-before-sending")
		} else {
			verif.Assert(sends == 0, lab+"/sent-without-data")
		}
		verif.Assert(verif.BytesEq(w.out, both) && len(w.out) == len(both), lab+"/printed-output-is-not-the-messages-in-order")
	case "rep", "respondent":
		verif.Assert(err == nil, lab+"/run-error")
		if withData {
			verif.Assert(sends == answers, lab+"/not-exactly-one-reply-per-request")
			okOrder := len(s.order) == 2*answers
			for i := 0; okOrder && i < len(s.order); i++ {
				okOrder = s.order[i] == "rs"[i%2]
			}
			verif.Assert(okOrder, lab+"/replies-not-interleaved-with-requests")
		} else {
			verif.Assert(sends == 0, lab+"/replied-without-data")
		}
		verif.Assert(verif.BytesEq(w.out, both) && len(w.out) == len(both), lab+"/printed-output-is-not-the-messages-in-order")
	}
	for _, b := range s.sent {
		verif.Assert(len(b) == len(data) && verif.BytesEq(b, data), lab+"/sent-bytes-differ-from-data")
	}
	if err == nil {
		verif.Assert(s.listens == 1 && s.dials == 2, lab+"/addresses-not-bound-and-dialled-once-each")
		d, ok := s.opts[mangos.OptionRecvDeadline].(time.Duration)
		sendrecv := sends > 0 && (names[pi] == "pair" || names[pi] == "bus" || names[pi] == "star" || names[pi] == "req" || names[pi] == "surveyor")
		if interval >= 0 && sendrecv {
			// the wait per round is bounded by the smaller of receive timeout and interval
			verif.Assert(ok && (d == rt || d == interval) && d <= rt, lab+"/receive-timeout-not-applied")
		} else {
			verif.Assert(ok && d == rt, lab+"/receive-timeout-not-applied")
		}
		_, hasSend := s.opts[mangos.OptionSendDeadline]
		verif.Assert(!hasSend, lab+"/send-timeout-applied-although-not-given")
	}
	verif.Assert(s.closed, lab+"/socket-left-open")
	verif.Reach("ran")
}

// zzApply stands for what the option parser does with one option of macat's own table (optopia's documented
// contract: convert the argument into ArgP by its type, then call Handle with the raw text).
func zzApply(a *App, long string, val string) error {
	for _, o := range a.getOptions() {
		if o.Long != long {
			continue
		}
		if o.HasArg && o.ArgP != nil {
			switch v := o.ArgP.(type) {
			case *int:
				n := 0
				for _, ch := range []byte(val) {
					if ch < '0' || ch > '9' {
						return mangos.ErrBadValue
					}
					n = n*10 + int(ch-'0')
				}
				*v = n
			case *Duration:
				if e := v.UnmarshalText([]byte(val)); e != nil {
					return e
				}
			case *string:
				*v = val
			}
		}
		if o.Handle != nil {
			return o.Handle(val)
		}
		return nil
	}
	return mangos.ErrBadOption
}

// VH20h_option_order: macat's own option handlers, applied in every order. The
// repeat count asked for on the command line is the one that is used: an
// explicit --count N (N = 1..3) survives a --send-interval given before or
// after it; an interval without a count means "for ever" (-1); no interval
// means the count is what was given (default 1). Format and data options given
// twice are refused whatever comes between them.
func VH20h_option_order() {
	lab := "C20/option-order"
	// App as Initialize() leaves it, minus os.Stdout and the parser's own table (outside the claim)
	a := &App{recvTimeout: Duration(-1), sendTimeout: Duration(-1), sendInterval: Duration(-1), sendDelay: Duration(-1), count: 1,
		options: &optopia.Options{}, stdOut: &capWriter{}}
	n := 1 + verif.Choice("count", 3)
	cnt := string(rune('0' + n))
	withCount := verif.Choice("with-count", 2) == 1
	withInterval := verif.Choice("with-interval", 2) == 1
	ival := []string{"0", "1", "2s"}[verif.Choice("interval", 3)]
	order := verif.Choice("order", 2)
	steps := [][2]string{}
	if withCount {
		steps = append(steps, [2]string{"count", cnt})
	}
	if withInterval {
		steps = append(steps, [2]string{"send-interval", ival})
	}
	steps = append(steps, [2]string{"data", "x"})
	if order == 1 {
		for i, j := 0, len(steps)-1; i < j; i, j = i+1, j-1 {
			steps[i], steps[j] = steps[j], steps[i]
		}
	}
	for _, s := range steps {
		verif.Assert(zzApply(a, s[0], s[1]) == nil, lab+"/option-refused")
	}
	switch {
	case withCount:
		verif.Assert(a.count == n, lab+"/explicit-count-not-kept")
	case withInterval:
		verif.Assert(a.count == -1, lab+"/interval-without-count-does-not-mean-for-ever")
	default:
		verif.Assert(a.count == 1, lab+"/default-count")
	}
	if withInterval {
		verif.Assert(a.sendInterval >= 0, lab+"/interval-not-recorded")
	} else {
		verif.Assert(a.sendInterval < 0, lab+"/interval-set-without-the-option")
	}
	verif.Assert(zzApply(a, "data", "y") != nil, lab+"/second-data-accepted")
	verif.Reach("option-order")
}

type endpointCall struct {
	kind, addr string
	nopts      int
	hasTLS     bool
}

func snapshotCall(kind, addr string, o map[string]interface{}) endpointCall {
	_, has := o[mangos.OptionTLSConfig]
	return endpointCall{kind: kind, addr: addr, nopts: len(o), hasTLS: has}
}

// VH20i_endpoints: several --bind and --connect addresses in one invocation, TLS and plain ones in every order.
// Each address is bound / dialled exactly once, in the order given, and each gets exactly the options that belong to
// IT: the TLS configuration iff its scheme is tls+tcp or wss, nothing else - whatever was processed before it.
func VH20i_endpoints() {
	lab := "C20/endpoints"
	pool := []string{"tcp://127.0.0.1:1", "tls+tcp://127.0.0.1:2", "ipc:///tmp/x", "wss://127.0.0.1:3/p"}
	pick := func(name string) []string {
		n := verif.Choice(name+"-count", verif.Param("maxaddr", 2)+1) // 0..maxaddr addresses
		var out []string
		for i := 0; i < n; i++ {
			out = append(out, pool[verif.Choice(name, len(pool))])
		}
		return out
	}
	binds, dials := pick("bind"), pick("dial")
	if len(binds)+len(dials) == 0 {
		verif.Assume(false)
	}
	s := &stubSock{info: mangos.ProtocolInfo{Self: mangos.ProtoPull}}
	w := &capWriter{}
	a := &App{sock: s, recvTimeout: Duration(0), sendTimeout: Duration(-1), sendInterval: Duration(-1), sendDelay: Duration(-1), count: 1,
		printFormat: "raw", options: &optopia.Options{}, stdOut: w, bindAddr: binds, dialAddr: dials, noVerifyTLS: true}
	a.tlsCfg.Certificates = []tls.Certificate{{}}
	err := a.Run()
	verif.Assert(err == nil, lab+"/valid-combination-of-endpoints-rejected")
	want := append(append([]string{}, binds...), dials...)
	verif.Assert(len(s.endpoints) == len(want), lab+"/not-every-address-used-exactly-once")
	for i, c := range s.endpoints {
		if i >= len(want) {
			break
		}
		kind := "bind"
		if i >= len(binds) {
			kind = "dial"
		}
		verif.Assert(c.addr == want[i] && c.kind == kind, lab+"/addresses-out-of-order")
		isTLS := strings.HasPrefix(c.addr, "tls") || strings.HasPrefix(c.addr, "wss")
		verif.Assert(c.hasTLS == isTLS, lab+"/tls-configuration-on-the-wrong-endpoint")
		n := 0
		if isTLS {
			n = 1
		}
		verif.Assert(c.nopts == n, lab+"/endpoint-got-options-that-are-not-its-own")
	}
	verif.Assert(s.closed, lab+"/socket-left-open")
	verif.Reach("endpoints-checked")
}
