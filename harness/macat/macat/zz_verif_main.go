package main

import (
	"go.nanomsg.org/mangos/v3/zzverif/verif"
)

type errBuf struct{ n int }

func (b *errBuf) Write(p []byte) (int, error) { b.n += len(p); return len(p), nil }

// VH20j_exit: the command's own main(): a command line that macat must reject - conflicting or missing options, each
// kind once - makes the process report failure: something is written to standard error and the exit function is
// called with a non-zero status. (The option parser, optopia, runs for real here.)
func VH20j_exit() {
	lab := "C20/exit"
	lines := [][]string{
		{"macat", "--pull", "--push", "--bind", "inproc://x"},                      // protocol already selected
		{"macat", "--bind", "inproc://x"},                                            // protocol not specified
		{"macat", "--pull"},                                                          // no address
		{"macat", "--push", "--bind", "inproc://x"},                                  // no data to send
		{"macat", "--pull", "--bind", "inproc://x", "--raw", "--ascii"},              // format already set
		{"macat", "--push", "--bind", "inproc://x", "--data", "a", "--data", "b"},    // data already set
		{"macat", "--pull", "--bind", "inproc://x", "--subscribe", "t"},              // subscription on non-SUB
		{"macat", "--no-such-option"},                                                // usage error
	}
	i := verif.Choice("line", len(lines))
	args = lines[i]
	code := -1
	calls := 0
	exitFunc = func(c int) { code = c; calls++ }
	eb := &errBuf{}
	stdErr = eb
	main()
	verif.Assert(calls == 1 && code != 0, lab+"/rejected-command-line-does-not-exit-with-a-failure-status")
	verif.Assert(eb.n > 0, lab+"/rejected-command-line-prints-nothing-to-standard-error")
	verif.Reach("exit-checked")
}
