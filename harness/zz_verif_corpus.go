// Translator validation (file lives in the root package because the native run needs a real directory). Small Go programs covering the
// language features the mangos code uses (integer arithmetic at every width,
// shifts, conversions, slices and append aliasing, maps, strings, structs,
// arrays, interfaces, closures, defer, channels, select, panics of the VM's
// own obligations). Every run of a check executes them in the VM and in the
// native build on the same random concrete inputs and compares the observation
// logs (differential validation of the SSA interpreter against the real
// compiler and runtime).
package mangos

import (
	"encoding/binary"
	"errors"
	"sync"

	"go.nanomsg.org/mangos/v3/zzverif/verif"
)

type pt struct {
	x, y int32
	tag  byte
	buf  [4]byte
}

type shape interface{ area() int64 }
type sq struct{ s int64 }
type rc struct{ w, h int64 }

func (a sq) area() int64  { return a.s * a.s }
func (a *rc) area() int64 { return a.w * a.h }

var errOdd = errors.New("odd")

func half(n int64) (int64, error) {
	if n%2 != 0 {
		return 0, errOdd
	}
	return n / 2, nil
}

func collatz(n uint32, lim int) int {
	k := 0
	for n != 1 && n != 0 && k < lim {
		if n%2 == 0 {
			n /= 2
		} else {
			n = 3*n + 1
		}
		k++
	}
	return k
}

func deferOrder(a, b int64) (r int64) {
	defer func() { r = r*10 + 1 }()
	defer func() { r = r*10 + 2 }()
	r = a - b
	return r % 7
}

func safeIndex(bs []byte, i int) (v int, recovered bool) {
	// the library has no recover; the corpus only indexes in range
	if i >= 0 && i < len(bs) {
		return int(bs[i]), false
	}
	return -1, true
}

// VHcorpus is sequential: inputs are drawn once, everything else is computed.
func VHcorpus() {
	a := verif.Int64("a")
	b := verif.Int64("b")
	u := verif.Uint32("u")
	w := verif.Uint16("w")
	x := verif.Byte("x")
	y := verif.Byte("y")
	bs := verif.Bytes("bs", 8)
	n := int(x % 9)

	// integer arithmetic, wrap-around, signedness, shifts, conversions
	verif.Observe("arith", a+b, a-b, a*3, a&b, a|b, a^b, a&^b)
	if b != 0 && !(a == -1<<63 && b == -1) {
		verif.Observe("div", a/b, a%b)
	}
	verif.Observe("shift", a<<(x%70), a>>(y%70), int64(uint64(a)>>(y%70)), u<<(x%40), u>>(y%40), int64(int32(u)>>(y%40)))
	verif.Observe("conv", int64(int8(a)), int64(uint8(a)), int64(int16(a)), int64(uint16(a)), int64(int32(a)), int64(uint32(a)), int64(u), int64(int32(u)), int64(w), int64(int16(w)))
	verif.Observe("cmp", a < b, a <= b, uint64(a) < uint64(b), int8(x) < int8(y), x < y, u > 1<<31, int32(u) > 0)
	verif.Observe("neg", -a, ^a, -int64(int32(u)), int64(^u), int64(-w))
	verif.Observe("mix", int64(x)*int64(y)+int64(w), (u*2654435761)>>7, uint32(a)*uint32(b))

	// byte order helpers as the transports use them
	verif.Observe("be", int64(binary.BigEndian.Uint32(bs)), int64(binary.BigEndian.Uint64(bs)), int64(binary.BigEndian.Uint16(bs[3:])), int64(binary.LittleEndian.Uint32(bs[4:])))
	var out [8]byte
	binary.BigEndian.PutUint64(out[:], uint64(a))
	binary.BigEndian.PutUint16(out[2:], w)
	verif.Observe("put", out[:])

	// slices: append in place vs growth, aliasing, copy, 3-index slices
	s := make([]byte, 0, 4)
	s = append(s, bs[:2]...)
	t := append(s, 9) // in place: shares s's array
	s2 := append(s, 7)
	verif.Observe("alias", t, s2, len(s), cap(s), len(t))
	g := append(bs[:8:8], x) // must grow: fresh array
	g[0] = 99
	verif.Observe("grow", bs, g[:3], len(g))
	c := make([]byte, n)
	k := copy(c, bs)
	verif.Observe("copy", k, c, len(bs[n:]), bs[n:])
	sub := bs[2:5:6]
	sub = append(sub, 1)
	sub = append(sub, 2) // exceeds cap 4: reallocates
	verif.Observe("sub", sub, bs)
	var nilS []byte
	nilS = append(nilS, bs[1])
	verif.Observe("nil-append", nilS, len(nilS))
	hdr := bs[:4]
	rest := bs[4:]
	hdr = append(hdr, rest[:2]...) // overlapping append inside one array
	verif.Observe("overlap", hdr, bs)

	// arrays and structs are values
	p := pt{x: int32(a), y: int32(b), tag: x}
	copy(p.buf[:], bs)
	q := p
	q.buf[1] = 200
	q.x++
	pp := &p
	pp.y -= 5
	verif.Observe("struct", int64(p.x), int64(p.y), int64(q.x), p.buf[:], q.buf[:], p == q, p.tag == q.tag)
	arr := [3]int64{a, b, int64(u)}
	arr2 := arr
	arr2[1] = 5
	verif.Observe("array", arr[1], arr2[1], arr == arr2)

	// maps
	m := map[uint32]int{}
	for i := 0; i < n; i++ {
		m[uint32(bs[i%8])%5]++
	}
	delete(m, 2)
	v3, ok3 := m[3]
	verif.Observe("map", len(m), v3, ok3, m[4], m[100])
	cnt, sum := 0, 0
	for k, v := range m {
		cnt++
		sum += int(k) * v
	}
	verif.Observe("map-range", cnt, sum)
	ms := map[string][]byte{"a": bs[:1], "bb": bs[:2]}
	ms["a"] = append(ms["a"], 5)
	verif.Observe("map-str", ms["a"], ms["bb"], len(ms["zz"]))

	// strings
	str := string(bs[:n%5])
	str2 := str + "-" + string(rune('a'+x%26))
	verif.Observe("str", str2, len(str2), str2 > "m", str == "", []byte(str2), str2[len(str2)-1])
	switch str2[len(str2)-1] {
	case 'a', 'b':
		verif.Observe("sw", 1)
	case 'z':
		verif.Observe("sw", 2)
	default:
		verif.Observe("sw", 3)
	}

	// interfaces, type switch, method values, errors
	var shapes []shape
	shapes = append(shapes, sq{int64(x)}, &rc{int64(x), int64(y)})
	tot := int64(0)
	for _, sh := range shapes {
		switch v := sh.(type) {
		case sq:
			tot += v.area() * 2
		case *rc:
			tot += v.area()
			v.w++
		}
	}
	f := shapes[1].area
	verif.Observe("iface", tot, f(), shapes[0] == shape(sq{int64(x)}))
	h, err := half(a)
	verif.Observe("err", h, err == errOdd, err == nil)
	var e2 error
	verif.Observe("nil-err", e2 == nil, e2)

	// closures, defer, loops
	acc := int64(0)
	add := func(d int64) func() { return func() { acc += d } }
	fs := []func(){add(1), add(a % 100), add(int64(y))}
	for _, fn := range fs {
		fn()
	}
	verif.Observe("closure", acc, deferOrder(a, b), collatz(u%1000, 60))
	vv, rec := safeIndex(bs, int(x)%12)
	verif.Observe("index", vv, rec)

	// channels, select, sync (single goroutine: no scheduling freedom)
	ch := make(chan int, 3)
	ch <- int(x)
	ch <- int(y)
	sel := 0
	select {
	case ch <- 7:
		sel = 1
	default:
		sel = 2
	}
	v1 := <-ch
	close(ch)
	v2, okc := <-ch
	_, _ = <-ch
	v4, ok4 := <-ch
	verif.Observe("chan", sel, v1, v2, okc, v4, ok4, len(ch), cap(ch))
	var nilc chan int
	select {
	case <-nilc:
		sel = 5
	case z, ok := <-ch:
		sel = 6 + z
		if ok {
			sel = 9
		}
	}
	var mu sync.Mutex
	var once sync.Once
	mu.Lock()
	once.Do(func() { sel += 10 })
	once.Do(func() { sel += 100 })
	mu.Unlock()
	var wg sync.WaitGroup
	wg.Add(1)
	wg.Done()
	wg.Wait()
	verif.Observe("sync", sel)
	verif.Reach("corpus")
}
