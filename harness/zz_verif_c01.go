package mangos

import (
	"go.nanomsg.org/mangos/v3/zzverif/verif"
)

// VH01a_pool: the message pool. The requested size is a solver variable, so
// every size adjacent to a pool class (63/64/65 ... 65535/65536/65537) is
// inside one query. One inductive step: any message previously obtained with
// an arbitrary size and freed may sit in the pools when the next one is made.
func VH01a_pool() {
	lab := "C01/pool"
	sz := verif.Int("sz")
	verif.Assume(verif.And(sz >= 0, sz <= 1<<30))
	if verif.Choice("prefill", 2) == 1 {
		prev := verif.Int("prev-size")
		verif.Assume(verif.And(prev >= 0, prev <= 1<<30))
		m0 := NewMessage(prev)
		verif.Assert(cap(m0.Body) >= prev, lab+"/capacity-below-requested-size")
		stale := verif.Bytes("stale", 2)
		if prev < 60000 && cap(m0.Body) >= 2 {
			m0.Body = append(m0.Body, stale...)
		}
		m0.Header = append(m0.Header, 1, 2, 3, 4)
		m0.Free()
		verif.Reach("prefilled")
	}
	m := NewMessage(sz)
	verif.Assert(m != nil, lab+"/nil-message")
	verif.Assert(len(m.Body) == 0, lab+"/new-message-body-not-empty")
	verif.Assert(len(m.Header) == 0, lab+"/new-message-header-not-empty")
	verif.Assert(cap(m.Body) >= sz, lab+"/capacity-below-requested-size")
	verif.Assert(m.refcnt == 1, lab+"/refcount-not-one")
	verif.Assert(m.Pipe == nil || true, lab+"/pipe")
	// what the stream transports do next must be in bounds
	if sz <= 70000 {
		verif.Reach("small")
	}
	verif.Reach("made")
}

// VH01a_dup: Dup / MakeUnique give an equal, independent message.
func VH01a_dup() {
	lab := "C01/dup"
	n := verif.Choice("len", 4)
	h := verif.Choice("hlen", 3)
	m := NewMessage(n)
	body := verif.Bytes("body", n)
	hdr := verif.Bytes("hdr", h)
	m.Body = append(m.Body, body...)
	m.Header = append(m.Header, hdr...)
	shared := verif.Choice("shared", 2) == 1
	if shared {
		m.Clone()
	}
	u := m.MakeUnique()
	verif.Assert(verif.BytesEq(u.Body, body) && verif.BytesEq(u.Header, hdr), lab+"/unique-copy-differs")
	verif.Assert(u.refcnt == 1, lab+"/unique-copy-refcount")
	if shared {
		verif.Assert(u != m, lab+"/shared-message-not-copied")
		verif.Assert(verif.BytesEq(m.Body, body), lab+"/original-changed")
		if n > 0 {
			u.Body[0] ^= 0xff
			verif.Assert(m.Body[0] == body[0], lab+"/copy-aliases-original")
		}
	} else {
		verif.Assert(u == m, lab+"/unshared-message-copied")
	}
	verif.Reach("dup")
}

// VH01h_disjoint: the header and the body of a message never share memory,
// whatever their lengths: a header grown past its initial 32-byte buffer (a
// long route), built before or after the body, leaves the body intact and
// vice versa - for fresh, recycled, duplicated and made-unique messages.
func VH01h_disjoint() {
	lab := "C01/disjoint"
	bl := verif.Choice("blen", 4)          // 0..3
	hl := []int{0, 4, 31, 32, 33, 40, 72}[verif.Choice("hlen", 7)]
	body := verif.Bytes("body", bl)
	hdr := verif.Bytes("hdr", hl)
	if verif.Choice("recycled", 2) == 1 {
		m0 := NewMessage(bl)
		m0.Body = append(m0.Body, 0xee)
		m0.Header = append(m0.Header, 0xdd, 0xdd)
		m0.Free()
	}
	m := NewMessage(bl)
	if verif.Choice("header-first", 2) == 1 {
		m.Header = append(m.Header, hdr...)
		m.Body = append(m.Body, body...)
	} else {
		m.Body = append(m.Body, body...)
		m.Header = append(m.Header, hdr...)
	}
	verif.Assert(len(m.Body) == bl && verif.BytesEq(m.Body, body), lab+"/body-overwritten-by-the-header")
	verif.Assert(len(m.Header) == hl && verif.BytesEq(m.Header, hdr), lab+"/header-overwritten-by-the-body")
	var d *Message
	switch verif.Choice("copy", 3) {
	case 0:
		d = m.Dup()
	case 1:
		m.Clone()
		d = m.MakeUnique()
	case 2:
		d = m
	}
	// growing either part of the copy further touches neither the other part nor the original
	d.Header = append(d.Header, 0xa5)
	d.Body = append(d.Body, 0x5a)
	verif.Assert(verif.BytesEq(d.Body[:bl], body) && d.Body[bl] == 0x5a, lab+"/body-overwritten-by-the-header")
	verif.Assert(verif.BytesEq(d.Header[:hl], hdr) && d.Header[hl] == 0xa5, lab+"/header-overwritten-by-the-body")
	if d != m {
		verif.Assert(len(m.Body) == bl && verif.BytesEq(m.Body, body) && len(m.Header) == hl && verif.BytesEq(m.Header, hdr), lab+"/copy-aliases-original")
	}
	verif.Reach("disjoint")
}
