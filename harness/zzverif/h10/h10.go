// Package h10: Close unblocks everything and releases all resources (C10).
package h10

import (
	"go.nanomsg.org/mangos/v3"
	"go.nanomsg.org/mangos/v3/internal/core"
	"go.nanomsg.org/mangos/v3/zzverif/verif"
	"go.nanomsg.org/mangos/v3/zzverif/vp"
	"go.nanomsg.org/mangos/v3/zzverif/vt"
)

func newMsg(proto string) *mangos.Message {
	m := mangos.NewMessage(2)
	m.Body = append(m.Body, 'h', 'i')
	switch proto {
	case "xpair1", "xstar":
		m.Header = append(m.Header, 0, 0, 0, 0)
	case "xreq", "xsurveyor":
		m.Header = append(m.Header, 0x80, 0, 0, 1)
	}
	return m
}

func closedErr(err error) bool {
	return err == mangos.ErrClosed || err == mangos.ErrProtoOp
}

type call struct {
	name string
	g    *verif.G
	err  error
	msg  *mangos.Message
}

// VH10a_close: goroutines parked in the blocking calls of one pattern, 0-1
// attached connections, then Close. Afterwards everything must have returned,
// later calls fail without blocking, and nothing belonging to the socket is left.
func VH10a_close() {
	pi := verif.Param("proto", 0)
	proto := vp.Names[pi]
	lab := "C10/" + proto
	sock := vp.New(proto)
	vt.Install()
	npipes := verif.Choice("pipes", 2)
	var side *vt.Side
	var tps []*vt.Pipe
	if npipes > 0 {
		side = vt.Listen(sock, "a")
		p := side.Peer("p1")
		p.SendMode = vt.SendBlock // the peer does not drain: senders can park
		tps = append(tps, p)
	}
	ctx, cerr := sock.OpenContext()
	var calls []*call
	park := func(name string, f func() (*mangos.Message, error)) {
		c := &call{name: name}
		c.g = verif.Go(name, func() { c.msg, c.err = f() })
		calls = append(calls, c)
	}
	what := verif.Choice("parked", 4)
	if what == 0 || what == 2 {
		park("recv", func() (*mangos.Message, error) { return sock.RecvMsg() })
	}
	if what == 1 || what == 2 {
		for i := 0; i < 3; i++ { // enough to fill the hand-off slots so that one parks
			park("send", func() (*mangos.Message, error) { return nil, sock.SendMsg(newMsg(proto)) })
		}
	}
	if what == 3 && cerr == nil {
		park("ctx-recv", func() (*mangos.Message, error) { return ctx.RecvMsg() })
	}
	verif.Quiesce()
	// Close
	var clErr error
	cg := verif.Go("close", func() { clErr = sock.Close() })
	verif.Quiesce()
	verif.Assert(cg.Done(), lab+"/close-does-not-return")
	if !cg.Done() {
		return
	}
	verif.Assert(clErr == nil, lab+"/close-error")
	for i := 0; i < 4; i++ { // let deadline / retry / linger timers run out
		verif.FireTimer()
	}
	for _, c := range calls {
		verif.Assert(c.g.Done(), lab+"/"+c.name+"-still-blocked-after-close")
		if c.g.Done() && c.err != nil {
			ok := closedErr(c.err) || c.err == mangos.ErrProtoState || c.err == mangos.ErrNoPeers || c.err == mangos.ErrCanceled
			verif.Assert(ok, lab+"/"+c.name+"-unexpected-error-after-close")
		}
	}
	verif.Reach("closed")
	// second round: every call fails promptly
	var late []*call
	parkLate := func(name string, f func() (*mangos.Message, error)) {
		c := &call{name: name}
		c.g = verif.Go(name, func() { c.msg, c.err = f() })
		late = append(late, c)
	}
	parkLate("late-recv", func() (*mangos.Message, error) { return sock.RecvMsg() })
	parkLate("late-send", func() (*mangos.Message, error) { return nil, sock.SendMsg(newMsg(proto)) })
	parkLate("late-close", func() (*mangos.Message, error) { return nil, sock.Close() })
	parkLate("late-open-context", func() (*mangos.Message, error) { _, e := sock.OpenContext(); return nil, e })
	if cerr == nil {
		parkLate("late-ctx-recv", func() (*mangos.Message, error) { return ctx.RecvMsg() })
		parkLate("late-ctx-send", func() (*mangos.Message, error) { return nil, ctx.SendMsg(newMsg(proto)) })
	}
	parkLate("late-listen", func() (*mangos.Message, error) { return nil, sock.Listen("vt://late") })
	parkLate("late-dial", func() (*mangos.Message, error) { return nil, sock.Dial("vt://late") })
	verif.Quiesce()
	for _, c := range late {
		verif.Assert(c.g.Done(), lab+"/"+c.name+"-blocks-after-close")
		if c.g.Done() {
			ok := closedErr(c.err) || (c.err == nil && c.msg != nil) || c.err == mangos.ErrProtoState
			verif.Assert(ok, lab+"/"+c.name+"-does-not-fail-with-a-closed-error")
		}
	}
	for i := 0; i < 4; i++ {
		verif.FireTimer()
	}
	verif.Quiesce()
	// census
	verif.Assert(verif.LiveGoroutines() == 0, lab+"/goroutines-left-after-close")
	verif.Assert(verif.PendingTimers() == 0, lab+"/timers-left-after-close")
	for _, p := range tps {
		verif.Assert(p.Closed, lab+"/connection-left-open-after-close")
	}
	verif.Assert(len(vt.T.Listeners) == 0, lab+"/listening-address-left-after-close")
	verif.Assert(core.ZZIDsInUse() == 0, lab+"/pipe-ids-left-after-close")
	verif.Assert(core.ZZSocketPipes(sock) == 0, lab+"/socket-still-tracks-pipes")
	verif.Reach("census")
}
