// Package h10: Close unblocks everything and releases all resources (C10).
package h10

import (
	"time"

	"go.nanomsg.org/mangos/v3"
	"go.nanomsg.org/mangos/v3/internal/core"
	"go.nanomsg.org/mangos/v3/protocol"
	"go.nanomsg.org/mangos/v3/zzverif/verif"
	"go.nanomsg.org/mangos/v3/zzverif/vp"
	"go.nanomsg.org/mangos/v3/zzverif/vt"
)

func newMsg(proto string) *mangos.Message {
	m := mangos.NewMessage(2)
	m.Body = append(m.Body, 'h', 'i')
	switch proto {
	case "xpair1", "xstar":
		m.Header = append(m.Header, 0, 0, 0, 0)
	case "xreq", "xsurveyor":
		m.Header = append(m.Header, 0x80, 0, 0, 1)
	}
	return m
}

func closedErr(err error) bool {
	return err == mangos.ErrClosed || err == mangos.ErrProtoOp
}

type call struct {
	name string
	g    *verif.G
	err  error
	msg  *mangos.Message
}

// VH10a_close: goroutines parked in the blocking calls of one pattern, 0-1
// attached connections, then Close. Afterwards everything must have returned,
// later calls fail without blocking, and nothing belonging to the socket is left.
func VH10a_close() {
	pi := verif.Param("proto", 0)
	proto := vp.Names[pi]
	lab := "C10/" + proto
	sock := vp.New(proto)
	vt.Install()
	npipes := verif.Choice("pipes", 2)
	var side *vt.Side
	var tps []*vt.Pipe
	if npipes > 0 {
		side = vt.Listen(sock, "a")
		p := side.Peer("p1")
		p.SendMode = vt.SendBlock // the peer does not drain: senders can park
		tps = append(tps, p)
	}
	// queue lengths left at their defaults, or set to 1 on the socket before anything else exists (contexts inherit)
	small := verif.Choice("small-queues", 2) == 1
	if small {
		sock.SetOption(mangos.OptionReadQLen, 1)
		sock.SetOption(mangos.OptionWriteQLen, 1)
	}
	ctx, cerr := sock.OpenContext()
	if proto == "sub" || proto == "xsub" {
		// two subscriptions, so that arrivals are kept and one subscription can be cancelled later
		sock.SetOption(mangos.OptionSubscribe, []byte{})
		sock.SetOption(mangos.OptionSubscribe, []byte("zz"))
		if cerr == nil {
			ctx.SetOption(mangos.OptionSubscribe, []byte{})
			ctx.SetOption(mangos.OptionSubscribe, []byte("zz"))
		}
	}
	// what is in progress when Close comes: nothing / deadlines armed (solver variables) / a request, survey or
	// pending reply outstanding (retry and survey timers armed) / a dialer waiting to redial an absent peer
	prep := verif.Choice("prep", 4)
	switch prep {
	case 1:
		d1 := verif.Duration("recv-deadline")
		d2 := verif.Duration("send-deadline")
		verif.Assume(verif.And(verif.And(d1 >= 1, d1 <= time.Hour), verif.And(d2 >= 1, d2 <= time.Hour)))
		sock.SetOption(mangos.OptionRecvDeadline, d1)
		sock.SetOption(mangos.OptionSendDeadline, d2)
		if cerr == nil {
			ctx.SetOption(mangos.OptionRecvDeadline, d1)
			ctx.SetOption(mangos.OptionSendDeadline, d2)
		}
	case 2:
		if len(tps) == 0 {
			verif.Assume(false)
		}
		switch proto {
		case "req", "surveyor":
			tps[0].SendMode = vt.SendOK
			verif.Assert(sock.Send([]byte{'q'}) == nil, lab+"/prep-request")
			if cerr == nil {
				verif.Assert(ctx.Send([]byte{'c'}) == nil, lab+"/prep-context-request")
			}
			if verif.Choice("superseded", 2) == 1 {
				// ... and a newer one has replaced it (the older one's timers must go with it)
				verif.Quiesce()
				verif.Assert(sock.Send([]byte{'Q'}) == nil, lab+"/prep-second-request")
				if cerr == nil {
					verif.Assert(ctx.Send([]byte{'C'}) == nil, lab+"/prep-second-context-request")
				}
			}
			verif.Quiesce()
			tps[0].SendMode = vt.SendBlock
		case "rep", "respondent", "xrep", "xrespondent":
			tps[0].Deliver([]byte{0x80, 0, 0, 1, 'q'})
			verif.Quiesce()
			_, e := sock.RecvMsg()
			verif.Assert(e == nil, lab+"/prep-request-received")
		default:
			// a message waiting in the receive queue (more than fit when the queues are short)
			tps[0].Deliver([]byte{0, 0, 0, 0, 'w'})
			verif.Quiesce()
			if small {
				tps[0].Deliver([]byte{0, 0, 0, 0, 'x'})
				verif.Quiesce()
				tps[0].Deliver([]byte{0, 0, 0, 0, 'y'})
				verif.Quiesce()
			}
		}
		verif.Reach("prep-outstanding")
	case 3:
		verif.Assert(sock.SetOption(mangos.OptionDialAsynch, true) == nil, lab+"/asynch")
		verif.Assert(sock.Dial("vt://nobody-there") == nil, lab+"/asynch-dial")
		verif.Quiesce()
		verif.Assert(verif.PendingTimers() >= 1, lab+"/no-redial-pending-while-open")
		verif.Reach("prep-redial")
	}
	var calls []*call
	park := func(name string, f func() (*mangos.Message, error)) {
		c := &call{name: name}
		c.g = verif.Go(name, func() { c.msg, c.err = f() })
		calls = append(calls, c)
	}
	what := verif.Choice("parked", 7)
	if what == 6 {
		// a sender parked first and then a receiver on the SAME object (a REQ Send waiting for a peer and a Recv
		// waiting for that request's reply; several waiters of one object must all be woken by Close)
		park("send-first", func() (*mangos.Message, error) { return nil, sock.SendMsg(newMsg(proto)) })
		verif.Quiesce()
		park("recv-second", func() (*mangos.Message, error) { return sock.RecvMsg() })
		if cerr == nil {
			park("ctx-send-first", func() (*mangos.Message, error) { return nil, ctx.SendMsg(newMsg(proto)) })
			verif.Quiesce()
			park("ctx-recv-second", func() (*mangos.Message, error) { return ctx.RecvMsg() })
		}
		verif.Reach("sender-then-receiver")
	}
	var optCalls []*call
	if what == 5 {
		// option calls in flight (they normally return at once): a queue resize and a cancelled subscription
		opt := func(name string, f func() error) {
			c := &call{name: name}
			c.g = verif.Go(name, func() { c.err = f() })
			optCalls = append(optCalls, c)
		}
		if verif.Choice("option", 2) == 0 {
			opt("resize", func() error { return sock.SetOption(mangos.OptionReadQLen, 2) })
			if cerr == nil {
				opt("ctx-resize", func() error { return ctx.SetOption(mangos.OptionReadQLen, 2) })
			}
		} else {
			opt("unsubscribe", func() error { return sock.SetOption(mangos.OptionUnsubscribe, []byte("zz")) })
			if cerr == nil {
				opt("ctx-unsubscribe", func() error { return ctx.SetOption(mangos.OptionUnsubscribe, []byte("zz")) })
			}
		}
		verif.Quiesce()
		for _, c := range optCalls {
			verif.Assert(c.g.Done(), lab+"/"+c.name+"-option-call-blocks")
		}
		verif.Reach("option-calls")
	}
	if what == 0 || what == 2 {
		park("recv", func() (*mangos.Message, error) { return sock.RecvMsg() })
	}
	if what == 1 || what == 2 {
		for i := 0; i < 3; i++ { // enough to fill the hand-off slots so that one parks
			park("send", func() (*mangos.Message, error) { return nil, sock.SendMsg(newMsg(proto)) })
		}
	}
	if what == 3 && cerr == nil {
		park("ctx-recv", func() (*mangos.Message, error) { return ctx.RecvMsg() })
	}
	if what == 4 && cerr == nil {
		// both API levels at once, and senders on the context
		park("recv", func() (*mangos.Message, error) { return sock.RecvMsg() })
		park("ctx-recv", func() (*mangos.Message, error) { return ctx.RecvMsg() })
		for i := 0; i < 2; i++ {
			park("ctx-send", func() (*mangos.Message, error) { return nil, ctx.SendMsg(newMsg(proto)) })
		}
	}
	verif.Quiesce()
	// Close
	var clErr error
	cg := verif.Go("close", func() { clErr = sock.Close() })
	verif.Quiesce()
	verif.Assert(cg.Done(), lab+"/close-does-not-return")
	if !cg.Done() {
		return
	}
	verif.Assert(clErr == nil, lab+"/close-error")
	// every timer the library armed with a callback (retry, survey expiry, deadlines of REQ, redial) has an owner
	// that can stop it: none may still be pending once Close has returned
	verif.Assert(verif.PendingCallbackTimers() == 0, lab+"/stoppable-timer-still-armed-after-close")
	for i := 0; i < 4; i++ { // let deadline / retry / linger timers run out
		verif.FireTimer()
	}
	for _, c := range calls {
		verif.Assert(c.g.Done(), lab+"/"+c.name+"-still-blocked-after-close")
		if c.g.Done() && c.err != nil {
			ok := closedErr(c.err) || c.err == mangos.ErrProtoState || c.err == mangos.ErrNoPeers || c.err == mangos.ErrCanceled
			verif.Assert(ok, lab+"/"+c.name+"-unexpected-error-after-close")
		}
	}
	dials := 0
	for _, d := range vt.T.Dialers {
		dials += len(d.Dials)
	}
	verif.Reach("closed")
	// second round: every call fails promptly
	var late []*call
	parkLate := func(name string, f func() (*mangos.Message, error)) {
		c := &call{name: name}
		c.g = verif.Go(name, func() { c.msg, c.err = f() })
		late = append(late, c)
	}
	parkLate("late-recv", func() (*mangos.Message, error) { return sock.RecvMsg() })
	parkLate("late-send", func() (*mangos.Message, error) { return nil, sock.SendMsg(newMsg(proto)) })
	parkLate("late-close", func() (*mangos.Message, error) { return nil, sock.Close() })
	parkLate("late-open-context", func() (*mangos.Message, error) { _, e := sock.OpenContext(); return nil, e })
	if cerr == nil {
		parkLate("late-ctx-recv", func() (*mangos.Message, error) { return ctx.RecvMsg() })
		parkLate("late-ctx-send", func() (*mangos.Message, error) { return nil, ctx.SendMsg(newMsg(proto)) })
	}
	parkLate("late-listen", func() (*mangos.Message, error) { return nil, sock.Listen("vt://late") })
	parkLate("late-dial", func() (*mangos.Message, error) { return nil, sock.Dial("vt://late") })
	verif.Quiesce()
	for _, c := range late {
		verif.Assert(c.g.Done(), lab+"/"+c.name+"-blocks-after-close")
		if c.g.Done() {
			ok := closedErr(c.err) || (c.err == nil && c.msg != nil) || c.err == mangos.ErrProtoState
			verif.Assert(ok, lab+"/"+c.name+"-does-not-fail-with-a-closed-error")
		}
	}
	for i := 0; i < 4; i++ {
		verif.FireTimer()
	}
	verif.Quiesce()
	// census
	after := 0
	for _, d := range vt.T.Dialers {
		after += len(d.Dials)
	}
	verif.Assert(after == dials, lab+"/connection-attempt-started-after-close")
	verif.Assert(verif.LiveGoroutines() == 0, lab+"/goroutines-left-after-close")
	verif.Assert(verif.PendingTimers() == 0, lab+"/timers-left-after-close")
	for _, p := range tps {
		verif.Assert(p.Closed, lab+"/connection-left-open-after-close")
	}
	verif.Assert(len(vt.T.Listeners) == 0, lab+"/listening-address-left-after-close")
	verif.Assert(core.ZZIDsInUse() == 0, lab+"/pipe-ids-left-after-close")
	verif.Assert(core.ZZSocketPipes(sock) == 0, lab+"/socket-still-tracks-pipes")
	verif.Reach("census")
}

// VH10b_scoped: closing a context, a dialer, a listener or a pipe affects only
// that object: calls parked on it return a closed error, calls parked on the
// socket and on a sibling context stay parked, the socket's other endpoints
// and connections keep working (a message still flows), and closing the same
// object twice does not block or disturb anything.
func VH10b_scoped() {
	pi := verif.Param("proto", 0)
	proto := vp.Names[pi]
	lab := "C10/scoped/" + proto
	sock := vp.New(proto)
	vt.Install()
	var pipes []mangos.Pipe
	var addrs []string // what each connection reported as its address when it attached
	detached := 0
	sock.SetPipeEventHook(func(ev mangos.PipeEvent, p mangos.Pipe) {
		switch ev {
		case mangos.PipeEventAttached:
			pipes = append(pipes, p)
			addrs = append(addrs, p.Address())
		case mangos.PipeEventDetached:
			detached++
		}
	})
	l1, e1 := sock.NewListener("vt://la:0", nil) // bound to a port of the system's choosing
	l2, e2 := sock.NewListener("vt://lb", nil)
	verif.Assert(e1 == nil && e2 == nil && l1.Listen() == nil && l2.Listen() == nil, lab+"/listen")
	d1, e3 := sock.NewDialer("vt://peer-x", nil)
	verif.Assert(e3 == nil && d1.Dial() == nil, lab+"/dial")
	verif.Quiesce()
	pa := vt.T.Listeners["la:0"].Connect("pa")
	verif.Quiesce()
	pb := vt.T.Listeners["lb"].Connect("pb")
	verif.Quiesce()
	if len(pipes) != 3 && !(len(pipes) == 1 && (proto == "pair" || proto == "xpair" || proto == "pair1" || proto == "xpair1")) {
		verif.Fail(lab + "/connections-not-attached")
		return
	}
	single := len(pipes) == 1
	c1, cerr := sock.OpenContext()
	var c2 mangos.Context
	if cerr == nil {
		c2, _ = sock.OpenContext()
	}
	type parked struct {
		name string
		g    *verif.G
		err  error
	}
	var ps []*parked
	park := func(name string, f func() error) *parked {
		k := &parked{name: name}
		k.g = verif.Go(name, func() { k.err = f() })
		ps = append(ps, k)
		return k
	}
	sockRecv := park("sock-recv", func() error { _, e := sock.RecvMsg(); return e })
	var c1Recv, c2Recv *parked
	if cerr == nil {
		c1Recv = park("ctx1-recv", func() error { _, e := c1.RecvMsg(); return e })
		c2Recv = park("ctx2-recv", func() error { _, e := c2.RecvMsg(); return e })
	}
	verif.Quiesce()
	stillParked := func(k *parked, why string) {
		if k != nil {
			// a call that had already failed before (ErrProtoOp / ErrProtoState) is not "parked"
			if k.g.Done() && (k.err == mangos.ErrProtoOp || k.err == mangos.ErrProtoState) {
				return
			}
			verif.Assert(!k.g.Done(), lab+"/"+k.name+"-ended-by-"+why)
		}
	}
	what := verif.Choice("close", 4)
	switch what {
	case 0: // a context
		if cerr != nil {
			verif.Assume(false)
		}
		verif.Assert(c1.Close() == nil, lab+"/context-close")
		verif.Quiesce()
		verif.Assert(c1Recv.g.Done(), lab+"/recv-on-closed-context-still-blocked")
		if c1Recv.g.Done() {
			verif.Assert(closedErr(c1Recv.err) || c1Recv.err == mangos.ErrProtoState, lab+"/recv-on-closed-context-error-kind")
		}
		stillParked(c2Recv, "closing-another-context")
		stillParked(sockRecv, "closing-a-context")
		g := verif.Go("again", func() { c1.Close(); c1.RecvMsg(); c1.SendMsg(newMsg(proto)) })
		verif.Quiesce()
		verif.Assert(g.Done(), lab+"/calls-on-a-closed-context-block")
		verif.Reach("context-closed")
	case 1: // a dialer
		verif.Assert(d1.Close() == nil, lab+"/dialer-close")
		verif.Quiesce()
		for i := 0; i < 3; i++ {
			verif.FireTimer()
		}
		stillParked(sockRecv, "closing-a-dialer")
		stillParked(c2Recv, "closing-a-dialer")
		verif.Assert(!pa.Closed || single, lab+"/listener-connection-closed-by-dialer-close")
		verif.Assert(len(vt.T.Listeners) == 2, lab+"/listener-stopped-by-dialer-close")
		g := verif.Go("again", func() { d1.Close(); d1.GetOption(mangos.OptionReconnectTime) })
		verif.Quiesce()
		verif.Assert(g.Done(), lab+"/calls-on-a-closed-dialer-block")
		verif.Reach("dialer-closed")
	case 2: // a listener
		verif.Assert(l1.Close() == nil, lab+"/listener-close")
		verif.Quiesce()
		stillParked(sockRecv, "closing-a-listener")
		stillParked(c2Recv, "closing-a-listener")
		_, la := vt.T.Listeners["la:0"]
		_, lb := vt.T.Listeners["lb"]
		// what a connection reports about itself does not change because the endpoint that made it was closed
		for i, p := range pipes {
			verif.Assert(p.Address() == addrs[i], lab+"/address-of-a-live-connection-changed-when-its-listener-was-closed")
		}
		verif.Assert(!la, lab+"/closed-listener-still-listening")
		verif.Assert(lb, lab+"/other-listener-stopped-by-listener-close")
		if !single {
			verif.Assert(!pb.Closed, lab+"/other-listeners-connection-closed")
		}
		if lb && !single {
			pc := vt.T.Listeners["lb"].Connect("pc")
			verif.Quiesce()
			verif.Assert(len(pipes) == 4 && !pc.Closed, lab+"/other-listener-no-longer-accepts")
		}
		g := verif.Go("again", func() { l1.Close(); l1.GetOption(mangos.OptionMaxRecvSize) })
		verif.Quiesce()
		verif.Assert(g.Done(), lab+"/calls-on-a-closed-listener-block")
		verif.Reach("listener-closed")
	case 3: // a pipe
		victim := pipes[0]
		closedConns := func() int {
			n := 0
			for _, tp := range []*vt.Pipe{pa, pb} {
				if tp.Closed {
					n++
				}
			}
			for _, tp := range vt.T.Dialers[0].Pipes {
				if tp.Closed {
					n++
				}
			}
			return n
		}
		n0 := closedConns() // PAIR has refused (closed) the connections beyond its single peer already
		verif.Assert(victim.Close() == nil, lab+"/pipe-close")
		verif.Quiesce()
		verif.Assert(detached == 1, lab+"/detached-events-after-closing-one-pipe")
		stillParked(sockRecv, "closing-a-pipe")
		stillParked(c2Recv, "closing-a-pipe")
		verif.Assert(closedConns() == n0+1, lab+"/closing-one-pipe-closed-another-connection")
		g := verif.Go("again", func() { victim.Close(); victim.GetOption(mangos.OptionMaxRecvSize) })
		verif.Quiesce()
		verif.Assert(g.Done(), lab+"/calls-on-a-closed-pipe-block")
		verif.Reach("pipe-closed")
	}
	// the socket itself still closes cleanly
	cg := verif.Go("close", func() { sock.Close() })
	verif.Quiesce()
	verif.Assert(cg.Done(), lab+"/close-does-not-return")
	for i := 0; i < 4; i++ {
		verif.FireTimer()
	}
	verif.Quiesce()
	for _, k := range ps {
		verif.Assert(k.g.Done(), lab+"/"+k.name+"-still-blocked-after-close")
	}
	verif.Assert(verif.LiveGoroutines() == 0, lab+"/goroutines-left-after-close")
	verif.Assert(core.ZZIDsInUse() == 0, lab+"/pipe-ids-left-after-close")
}

// slowClose wraps a real protocol: Close announces itself and then waits for
// the harness before it lets the real Close run. That opens, deterministically,
// every window inside core socket.Close in which a connection attempt that
// was in flight can complete.
type slowClose struct {
	protocol.Protocol
	atGate chan struct{}
	gate   chan struct{}
}

func (s *slowClose) Close() error {
	close(s.atGate)
	<-s.gate
	return s.Protocol.Close()
}

// VH10c_close_window: a dial (or an accept) is in flight when Close starts and
// completes while Close is somewhere in the middle (the protocol's Close is
// slow): the late connection is either refused or attached-and-then-closed,
// never left behind: after Close returned every connection is closed, every
// pipe id released, no goroutine remains.
func VH10c_close_window() {
	proto := vp.Names[verif.Param("proto", vp.Index("xbus"))]
	lab := "C10/close-window/" + proto
	vt.Install()
	sc := &slowClose{Protocol: vp.NewProtocol(proto), atGate: make(chan struct{}), gate: make(chan struct{})}
	// the in-flight connection completes while Close waits inside the protocol's Close, or only after Close has
	// returned altogether (a transport-level connect that takes its time): then the closed protocol refuses it
	afterClose := verif.Choice("completes-after-close-returned", 2) == 1
	sock := protocol.MakeSocket(sc)
	attached, detached := 0, 0
	sock.SetPipeEventHook(func(ev mangos.PipeEvent, p mangos.Pipe) {
		switch ev {
		case mangos.PipeEventAttached:
			attached++
		case mangos.PipeEventDetached:
			detached++
		}
	})
	side := verif.Choice("side", 2)
	var late *vt.Pipe
	hold := make(chan struct{})
	var l *vt.Listener
	if side == 0 {
		// a dial whose transport-level connect is still in progress
		verif.Assert(sock.SetOption(mangos.OptionDialAsynch, true) == nil, lab+"/asynch")
		d, err := sock.NewDialer("vt://slow-peer", nil)
		verif.Assert(err == nil, lab+"/new-dialer")
		vd := vt.T.Dialers[len(vt.T.Dialers)-1]
		vd.Outcome = func(n int) (*vt.Pipe, error) {
			if n > 0 {
				return nil, mangos.ErrConnRefused
			}
			<-hold
			late = vt.NewPipe(vt.T, "late")
			return late, nil
		}
		verif.Assert(d.Dial() == nil, lab+"/dial")
	} else {
		verif.Assert(sock.Listen("vt://lw") == nil, lab+"/listen")
		l = vt.T.Listeners["lw"]
	}
	verif.Quiesce()
	established := vt.NewPipe(vt.T, "unused")
	_ = established
	cg := verif.Go("close", func() { sock.Close() })
	verif.Quiesce()
	select {
	case <-sc.atGate:
		verif.Reach("close-waiting-in-protocol")
	default:
		// the protocol is closed last or not reached yet: nothing to hold, go on
	}
	if afterClose {
		if side != 0 {
			verif.Assume(false) // a closed listener accepts nothing; only a connect in progress can finish this late
		}
		close(sc.gate)
		verif.Quiesce()
		verif.Assert(cg.Done(), lab+"/close-does-not-return")
		verif.Reach("connect-finished-after-close")
	}
	// the in-flight connection completes now
	if side == 0 {
		close(hold)
	} else if !l.Closed {
		late = l.Connect("late")
	}
	verif.Quiesce()
	if !afterClose {
		close(sc.gate)
	}
	verif.Quiesce()
	for i := 0; i < 4; i++ {
		verif.FireTimer()
	}
	verif.Assert(cg.Done(), lab+"/close-does-not-return")
	if late != nil {
		verif.Assert(late.Closed, lab+"/connection-completed-during-close-left-open")
		verif.Reach("late-connection")
	}
	verif.Assert(attached == detached, lab+"/attached-pipe-never-detached")
	verif.Assert(core.ZZIDsInUse() == 0, lab+"/pipe-ids-left-after-close")
	verif.Assert(core.ZZSocketPipes(sock) == 0, lab+"/socket-still-tracks-pipes")
	verif.Assert(verif.LiveGoroutines() == 0, lab+"/goroutines-left-after-close")
}

// VH10d_close_race: Close happens at the same moment as one or two of {Listen
// on a new address; Dial (asynchronous) to an absent peer; Dial to a present
// peer; a peer connecting to an existing listener; OpenContext}, under every
// schedule in which one goroutine stalls at one synchronisation point until the
// others are at rest. Each call returns success or a closed error -- and
// whatever it returned, once Close has returned and things are at rest nothing
// of the socket is left: no listening address, no dialer still trying, no
// goroutine, no timer, no open connection, no pipe id.
func VH10d_close_race() {
	protos := []string{"pair", "req", "pub", "xbus", "rep", "respondent", "sub", "surveyor"}
	proto := protos[verif.Choice("proto", len(protos))]
	lab := "C10/" + proto + "/close-race"
	var raced mangos.Context // a context that OpenContext handed out while Close was under way
	sock := vp.New(proto)
	vt.Install()
	verif.Assert(sock.SetOption(mangos.OptionDialAsynch, true) == nil, lab+"/asynch")
	side := vt.Listen(sock, "a")
	K := verif.Param("K", 1)
	var calls []*call
	park := func(name string, f func() error) {
		c := &call{name: name}
		c.g = verif.Go(name, func() { c.err = f() })
		calls = append(calls, c)
	}
	var tps []*vt.Pipe
	last := -1
	// Close may be issued before or after the other calls (all of them are under way together either way): with
	// Close first, one stall in the middle of Close lets a call run against the half-closed socket
	var clErr error
	var cg *verif.G
	if verif.Choice("close-issued-first", 2) == 1 {
		cg = verif.Go("close", func() { clErr = sock.Close() })
	}
	for k := 0; k < K; k++ {
		ev := verif.Choice("ev", 5)
		verif.Assume(ev > last)
		last = ev
		switch ev {
		case 0:
			park("listen", func() error { return sock.Listen("vt://b") })
		case 1:
			park("dial-absent", func() error { return sock.Dial("vt://nobody") })
		case 2:
			park("dial-present", func() error { return sock.Dial("vt://peerB") })
		case 3:
			tps = append(tps, side.L.Connect("p1"))
		case 4:
			park("open-context", func() error {
				c, e := sock.OpenContext()
				if e == nil {
					raced = c
				}
				return e
			})
		}
	}
	if cg == nil {
		cg = verif.Go("close", func() { clErr = sock.Close() })
	}
	verif.Quiesce()
	verif.Assert(cg.Done() && clErr == nil, lab+"/close-does-not-return")
	if !cg.Done() {
		return
	}
	for _, c := range calls {
		verif.Assert(c.g.Done(), lab+"/"+c.name+"-still-blocked-after-close")
		if c.g.Done() {
			verif.Assert(c.err == nil || closedErr(c.err), lab+"/"+c.name+"-unexpected-error")
		}
	}
	if raced != nil {
		// the context was handed out while the socket was closing: it belongs to a closed socket - a call on it
		// fails with a closed error (or the unsupported-operation / no-request error) instead of blocking
		var rerr error
		rg := verif.Go("recv-on-raced-context", func() { _, rerr = raced.RecvMsg() })
		verif.Quiesce()
		verif.Assert(rg.Done(), lab+"/recv-blocks-on-a-context-opened-while-the-socket-was-closing")
		if rg.Done() {
			verif.Assert(rerr != nil, lab+"/recv-on-a-context-of-a-closed-socket-delivers")
		}
		verif.Reach("close-race-context")
	}
	verif.Assert(verif.PendingCallbackTimers() == 0, lab+"/stoppable-timer-still-armed-after-close")
	dials := 0
	for _, d := range vt.T.Dialers {
		dials += len(d.Dials)
	}
	for i := 0; i < 4; i++ {
		verif.FireTimer()
	}
	verif.Quiesce()
	after := 0
	for _, d := range vt.T.Dialers {
		after += len(d.Dials)
		for _, p := range d.Pipes {
			verif.Assert(p.Closed, lab+"/dialed-connection-left-open-after-close")
		}
	}
	verif.Assert(after == dials, lab+"/connection-attempt-started-after-close")
	verif.Assert(verif.LiveGoroutines() == 0, lab+"/goroutines-left-after-close")
	verif.Assert(verif.PendingTimers() == 0, lab+"/timers-left-after-close")
	for _, p := range tps {
		verif.Assert(p.Closed, lab+"/connection-left-open-after-close")
	}
	verif.Assert(len(vt.T.Listeners) == 0, lab+"/listening-address-left-after-close")
	verif.Assert(core.ZZIDsInUse() == 0, lab+"/pipe-ids-left-after-close")
	verif.Assert(core.ZZSocketPipes(sock) == 0, lab+"/socket-still-tracks-pipes")
	verif.Reach("close-race-census")
}

// VH10e_churn: R rounds of creating and closing the parts of one socket before
// the socket itself is closed: in every round a context is opened, a Recv is
// parked on it and the context closed (patterns with contexts); a further
// listener is started, takes a connection and is closed; a further dialer is
// started against a present peer and closed; a connection is dropped by its
// peer. Whatever the round, closing a part releases what belongs to it at once
// (the parked call returns a closed error, the listening address is free, the
// closed dialer makes no further attempt), and after the final Close nothing is
// left -- the sixth round leaves as little behind as the first.
func VH10e_churn() {
	R := verif.Param("R", 6)
	protos := []string{"req", "rep", "sub", "surveyor", "respondent", "pair", "bus", "pub"}
	proto := protos[verif.Choice("proto", len(protos))]
	lab := "C10/" + proto + "/churn"
	sock := vp.New(proto)
	vt.Install()
	verif.Assert(sock.SetOption(mangos.OptionDialAsynch, true) == nil, lab+"/asynch")
	side := vt.Listen(sock, "a")
	var tps []*vt.Pipe
	for i := 0; i < R; i++ {
		sfx := string(rune('0' + i))
		// a context with a parked Recv
		if c, err := sock.OpenContext(); err == nil {
			var rerr error
			g := verif.Go("ctx-recv", func() { _, rerr = c.RecvMsg() })
			verif.Quiesce()
			verif.Assert(c.Close() == nil, lab+"/context-close")
			verif.Quiesce()
			verif.Assert(g.Done(), lab+"/recv-still-parked-on-a-closed-context")
			if g.Done() {
				verif.Assert(rerr != nil, lab+"/recv-on-a-closed-context-succeeds")
			}
			verif.Assert(c.Close() != nil, lab+"/second-context-close-succeeds")
		}
		// a further listener
		l, err := sock.NewListener("vt://l"+sfx, nil)
		verif.Assert(err == nil && l.Listen() == nil, lab+"/listen")
		if err != nil {
			return
		}
		tl := vt.T.Listeners["l"+sfx]
		verif.Assert(tl != nil, lab+"/listener-not-listening")
		if tl == nil {
			return
		}
		tps = append(tps, tl.Connect("lc"+sfx))
		verif.Quiesce()
		verif.Assert(l.Close() == nil, lab+"/listener-close")
		verif.Quiesce()
		verif.Assert(vt.T.Listeners["l"+sfx] == nil, lab+"/listening-address-left-after-listener-close")
		// a further dialer against a present peer
		d, err := sock.NewDialer("vt://peer"+sfx, nil)
		verif.Assert(err == nil && d.Dial() == nil, lab+"/dial")
		verif.Quiesce()
		td := vt.T.Dialers[len(vt.T.Dialers)-1]
		verif.Assert(d.Close() == nil, lab+"/dialer-close")
		if len(td.Pipes) > 0 && i%2 == 1 {
			td.Pipes[len(td.Pipes)-1].Drop() // its connection goes too: the closed dialer must not come back
		}
		n := len(td.Dials)
		for k := 0; k < 2; k++ {
			verif.FireTimer()
		}
		verif.Assert(len(td.Dials) == n, lab+"/connection-attempt-by-a-closed-dialer")
		// a connection of the first listener comes and goes
		p := side.Peer("c" + sfx)
		if i%2 == 0 {
			p.CloseErr = vt.ErrReset // closing this one reports an error; it is closed all the same
		}
		if i%3 != 2 {
			p.Drop()
			verif.Quiesce()
		} else {
			tps = append(tps, p)
		}
	}
	verif.Reach("churned")
	verif.Assert(sock.Close() == nil, lab+"/close")
	verif.Quiesce()
	verif.Assert(verif.PendingCallbackTimers() == 0, lab+"/stoppable-timer-still-armed-after-close")
	for i := 0; i < 4; i++ {
		verif.FireTimer()
	}
	verif.Quiesce()
	verif.Assert(verif.LiveGoroutines() == 0, lab+"/goroutines-left-after-close")
	verif.Assert(verif.PendingTimers() == 0, lab+"/timers-left-after-close")
	for _, p := range tps {
		verif.Assert(p.Closed, lab+"/connection-left-open-after-close")
	}
	for _, d := range vt.T.Dialers {
		for _, p := range d.Pipes {
			verif.Assert(p.Closed, lab+"/dialed-connection-left-open-after-close")
		}
	}
	verif.Assert(len(vt.T.Listeners) == 0, lab+"/listening-address-left-after-close")
	verif.Assert(core.ZZIDsInUse() == 0, lab+"/pipe-ids-left-after-close")
	verif.Assert(core.ZZSocketPipes(sock) == 0, lab+"/socket-still-tracks-pipes")
	verif.Reach("churn-census")
}

// VH10f_many_endpoints: one socket with D (4) dialers -- some to present, some
// to absent peers, so that connections and redial timers both exist -- and L
// (3) listeners with a connection each. One dialer and/or one listener at any
// position is closed first (every combination a path), then the socket. The
// closed endpoint stops at once; after the socket's Close none of the others is
// forgotten: no dialer tries again, no listening address stays bound, no
// connection, goroutine, timer or pipe id is left.
func VH10f_many_endpoints() {
	D := verif.Param("D", 4)
	L := verif.Param("L", 3)
	protos := []string{"bus", "pair", "req"}
	proto := protos[verif.Choice("proto", len(protos))]
	lab := "C10/" + proto + "/many-endpoints"
	sock := vp.New(proto)
	vt.Install()
	verif.Assert(sock.SetOption(mangos.OptionDialAsynch, true) == nil, lab+"/asynch")
	verif.Assert(sock.SetOption(mangos.OptionReconnectTime, 100*time.Millisecond) == nil, lab+"/reconnect")
	var ds []mangos.Dialer
	for i := 0; i < D; i++ {
		addr := "vt://peer" + string(rune('0'+i))
		if i%2 == 1 {
			addr = "vt://nobody" + string(rune('0'+i)) // absent: this dialer lives on its redial timer
		}
		d, err := sock.NewDialer(addr, nil)
		verif.Assert(err == nil && d.Dial() == nil, lab+"/dial")
		if err != nil {
			return
		}
		ds = append(ds, d)
	}
	var ls []mangos.Listener
	var tps []*vt.Pipe
	for i := 0; i < L; i++ {
		l, err := sock.NewListener("vt://l"+string(rune('0'+i)), nil)
		verif.Assert(err == nil && l.Listen() == nil, lab+"/listen")
		if err != nil {
			return
		}
		ls = append(ls, l)
		tps = append(tps, vt.T.Listeners["l"+string(rune('0'+i))].Connect("c"+string(rune('0'+i))))
	}
	verif.Quiesce()
	cd := verif.Choice("close-dialer", D+1) - 1
	cl := verif.Choice("close-listener", L+1) - 1
	if cd >= 0 {
		verif.Assert(ds[cd].Close() == nil, lab+"/dialer-close")
		td := vt.T.Dialers[cd]
		n := len(td.Dials)
		verif.FireTimer()
		verif.Assert(len(td.Dials) == n, lab+"/connection-attempt-by-a-closed-dialer")
	}
	if cl >= 0 {
		verif.Assert(ls[cl].Close() == nil, lab+"/listener-close")
		verif.Assert(vt.T.Listeners["l"+string(rune('0'+cl))] == nil, lab+"/listening-address-left-after-listener-close")
	}
	verif.Assert(sock.Close() == nil, lab+"/close")
	verif.Quiesce()
	verif.Assert(verif.PendingCallbackTimers() == 0, lab+"/stoppable-timer-still-armed-after-close")
	dials := 0
	for _, d := range vt.T.Dialers {
		dials += len(d.Dials)
	}
	for i := 0; i < 4; i++ {
		verif.FireTimer()
	}
	verif.Quiesce()
	after := 0
	for _, d := range vt.T.Dialers {
		after += len(d.Dials)
		for _, p := range d.Pipes {
			verif.Assert(p.Closed, lab+"/dialed-connection-left-open-after-close")
		}
	}
	verif.Assert(after == dials, lab+"/connection-attempt-started-after-close")
	verif.Assert(verif.LiveGoroutines() == 0, lab+"/goroutines-left-after-close")
	verif.Assert(verif.PendingTimers() == 0, lab+"/timers-left-after-close")
	for _, p := range tps {
		verif.Assert(p.Closed, lab+"/connection-left-open-after-close")
	}
	verif.Assert(len(vt.T.Listeners) == 0, lab+"/listening-address-left-after-close")
	verif.Assert(core.ZZIDsInUse() == 0, lab+"/pipe-ids-left-after-close")
	verif.Assert(core.ZZSocketPipes(sock) == 0, lab+"/socket-still-tracks-pipes")
	verif.Reach("many-endpoints-census")
}
