package h10

import (
	"time"

	"go.nanomsg.org/mangos/v3"
	"go.nanomsg.org/mangos/v3/zzverif/verif"
	"go.nanomsg.org/mangos/v3/zzverif/vp"
	"go.nanomsg.org/mangos/v3/zzverif/vt"
)

// VH10g_after_exchange: nothing is in progress at Close - the exchanges have completed, but every timer option was
// set (send and receive deadline, retry time, survey time: solver variables) and the calls that completed had armed
// their timers: a Recv that was WAITING under its deadline when the reply / response arrived, a Send that completed
// under its deadline, a request whose retry timer ran. R such exchanges on a socket or context of REQ / SURVEYOR,
// the last one optionally left half-way (sent, not answered; answered, not received). Then Close: it returns, no
// stoppable timer is still armed, and after the unstoppable ones ran out nothing is left.
func VH10g_after_exchange() {
	proto := []string{"req", "surveyor"}[verif.Choice("proto", 2)]
	R := verif.Param("R", 2)
	lab := "C10/" + proto + "/after-exchange"
	sock := vp.New(proto)
	type ep interface {
		SendMsg(*mangos.Message) error
		RecvMsg() (*mangos.Message, error)
		SetOption(string, interface{}) error
	}
	var e ep = sock
	if verif.Choice("api", 2) == 1 {
		c, err := sock.OpenContext()
		verif.Assert(err == nil, lab+"/open-context")
		e = c
	}
	dur := func(name string) time.Duration {
		d := verif.Duration(name)
		verif.Assume(verif.And(d >= time.Millisecond, d <= time.Hour))
		return d
	}
	verif.Assert(e.SetOption(mangos.OptionRecvDeadline, dur("recv-deadline")) == nil, lab+"/set-recv-deadline")
	if proto == "req" {
		verif.Assert(e.SetOption(mangos.OptionSendDeadline, dur("send-deadline")) == nil, lab+"/set-send-deadline")
		verif.Assert(e.SetOption(mangos.OptionRetryTime, dur("retry")) == nil, lab+"/set-retry")
	} else {
		verif.Assert(e.SetOption(mangos.OptionSurveyTime, dur("survey-time")) == nil, lab+"/set-survey-time")
	}
	side := vt.Listen(sock, "a")
	p := side.Peer("p")
	rounds := 1 + verif.Choice("rounds", R)
	for i := 0; i < rounds; i++ {
		last := i == rounds-1
		stop := 0 // how far the last exchange gets: 0 complete, 1 sent only, 2 answered but not received
		if last {
			stop = verif.Choice("last-exchange", 3)
		}
		m := mangos.NewMessage(1)
		m.Body = append(m.Body, byte('a'+i))
		verif.Assert(e.SendMsg(m) == nil, lab+"/send")
		verif.Quiesce()
		n := len(p.Sent)
		verif.Assert(n == i+1 && len(p.Sent[n-1].H) == 4, lab+"/request-on-the-wire")
		if n != i+1 || len(p.Sent[n-1].H) != 4 {
			return
		}
		if stop == 1 {
			break
		}
		h := p.Sent[n-1].H
		waiting := verif.Choice("recv-waits-for-the-answer", 2) == 1
		var g *verif.G
		var rerr error
		if waiting && stop == 0 {
			g = verif.Go("recv", func() { _, rerr = e.RecvMsg() })
			verif.Quiesce()
			verif.Assert(!g.Done(), lab+"/recv-returns-before-the-answer")
		}
		p.Deliver([]byte{h[0], h[1], h[2], h[3], 'R'})
		verif.Quiesce()
		if stop == 2 {
			break
		}
		if g == nil {
			g = verif.Go("recv", func() { _, rerr = e.RecvMsg() })
			verif.Quiesce()
		}
		verif.Assert(g.Done() && rerr == nil, lab+"/answer-not-received")
		verif.Reach("h10g-exchange")
	}
	vp.CloseCensus(sock, lab)
	verif.Reach("h10g-census")
}
