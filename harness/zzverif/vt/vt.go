// Package vt is the harness transport ("vt://name"): an in-memory
// transport.Pipe/Dialer/Listener registered through the real
// transport.RegisterTransport, so the real core listener.serve, dialer.dial,
// socket.addPipe and pipe code run. The harness plays the remote peer.
package vt

import (
	"errors"
	"strings"
	"time"

	"go.nanomsg.org/mangos/v3"
	"go.nanomsg.org/mangos/v3/transport"
	"go.nanomsg.org/mangos/v3/zzverif/verif"
)

// ErrReset: what closing (or using) a connection reports after the peer reset it.
var ErrReset = errors.New("vt: connection reset by peer")

type Rec struct {
	H, B []byte
	At   time.Duration
}

func (r Rec) Bytes() []byte { return append(append([]byte{}, r.H...), r.B...) }

const (
	SendOK = iota
	SendBlock
	SendFail
	// SendHold: the write is accepted but takes until Release to return, and it returns success even if
	// the connection was lost meanwhile (the kernel took the bytes before the reset was noticed)
	SendHold
)

type Pipe struct {
	Name       string
	rq         chan *mangos.Message
	closeq     chan struct{}
	release    chan struct{}
	failq      chan struct{}
	Closed     bool
	CloseCalls int
	Sent       []Rec
	SendMode   int
	// InFlight / MaxInFlight: Send calls on this connection that have not returned yet (a protocol hands a
	// connection one message at a time)
	InFlight, MaxInFlight int
	SendCalls  int
	RecvCalls  int
	Opts       map[string]interface{}
	T          *Tran
	Peer       *Pipe // linked pipe of another socket: what is sent here arrives there
	CloseErr   error // what Close reports (the connection is closed regardless)
}

func NewPipe(t *Tran, name string) *Pipe {
	return &Pipe{Name: name, T: t, rq: make(chan *mangos.Message, 64), closeq: make(chan struct{}), release: make(chan struct{}, 64), failq: make(chan struct{}, 64),
		Opts: map[string]interface{}{mangos.OptionLocalAddr: "vt-local:" + name, mangos.OptionRemoteAddr: "vt-remote:" + name}}
}

// RawErrors: a write on a connection that has gone reports the operating system's error (ErrReset) instead of
// mangos.ErrClosed - what the stream transports really do. Chosen per path by ChooseErrors.
var RawErrors bool

// ChooseErrors makes the kind of error reported for writes on lost connections a decision of the path.
func ChooseErrors() { RawErrors = verif.Choice("lost-connection-error-kind", 2) == 1 }

func (p *Pipe) goneErr() error {
	if RawErrors {
		return ErrReset
	}
	return mangos.ErrClosed
}

func (p *Pipe) Send(m *mangos.Message) error {
	p.SendCalls++
	p.InFlight++
	if p.InFlight > p.MaxInFlight {
		p.MaxInFlight = p.InFlight
	}
	defer func() { p.InFlight-- }()
	// stream transports write a frame without any lock of their own: the protocol above must never have two
	// sends outstanding on one connection
	verif.Assert(p.InFlight <= 1, "vt/connection-handed-a-second-message-before-the-first-write-returned")
	if p.Closed {
		return p.goneErr()
	}
	switch p.SendMode {
	case SendBlock:
		select {
		case <-p.release:
		case <-p.failq:
			return p.goneErr() // the stalled write fails; the connection is not otherwise affected
		case <-p.closeq:
			return p.goneErr()
		}
	case SendFail:
		return p.goneErr()
	case SendHold:
		<-p.release
		if p.Closed {
			m.Free() // lost in flight
			return nil
		}
	}
	p.Sent = append(p.Sent, Rec{H: append([]byte{}, m.Header...), B: append([]byte{}, m.Body...), At: verif.Now()})
	if p.Peer != nil && !p.Peer.Closed {
		p.Peer.Deliver(append(append([]byte{}, m.Header...), m.Body...))
	}
	if p.T != nil {
		p.T.Log = append(p.T.Log, Ev{Pipe: p, Kind: "send", N: len(p.Sent) - 1})
	}
	m.Free()
	return nil
}

func (p *Pipe) Recv() (*mangos.Message, error) {
	p.RecvCalls++
	select {
	case m := <-p.rq:
		return m, nil
	case <-p.closeq:
		return nil, mangos.ErrClosed
	}
}

func (p *Pipe) Close() error {
	p.CloseCalls++
	if !p.Closed {
		p.Closed = true
		close(p.closeq)
		if p.T != nil {
			p.T.Log = append(p.T.Log, Ev{Pipe: p, Kind: "close"})
		}
	}
	// CloseErr: closing a connection that the peer has reset reports an error (as tls.Conn.Close does when it
	// cannot send its close-notify) - the connection is closed all the same
	return p.CloseErr
}

func (p *Pipe) GetOption(n string) (interface{}, error) {
	if v, ok := p.Opts[n]; ok {
		return v, nil
	}
	return nil, mangos.ErrBadProperty
}

// ---- harness (peer) side

// Deliver hands wire bytes (everything in Body, empty Header, as the stream
// transports do) to the socket. It never blocks.
func (p *Pipe) Deliver(b []byte) *mangos.Message {
	m := mangos.NewMessage(len(b))
	m.Body = append(m.Body, b...)
	p.rq <- m
	return m
}

// Drop simulates the peer going away: pending and future Recv/Send fail.
func (p *Pipe) Drop() {
	if !p.Closed {
		p.Closed = true
		close(p.closeq)
		if p.T != nil {
			p.T.Log = append(p.T.Log, Ev{Pipe: p, Kind: "drop"})
		}
	}
}

// FailBlocked makes one blocked Send (SendMode == SendBlock) fail, the connection staying open otherwise.
func (p *Pipe) FailBlocked() { p.failq <- struct{}{} }

// Release lets one blocked Send (SendMode == SendBlock) complete.
func (p *Pipe) Release() { p.release <- struct{}{} }

type Ev struct {
	Pipe *Pipe
	Kind string
	N    int
}

// ---- transport

type Tran struct {
	Listeners map[string]*Listener
	Dialers   []*Dialer
	Log       []Ev
	ListenErr error
	BadAddr   string
	NPipes    int
}

var T *Tran

// Install registers a fresh harness transport (per path).
func Install() *Tran {
	RawErrors = false
	T = &Tran{Listeners: map[string]*Listener{}}
	transport.RegisterTransport(T)
	return T
}

func (t *Tran) Scheme() string { return "vt" }

func (t *Tran) NewDialer(addr string, sock mangos.Socket) (transport.Dialer, error) {
	a, err := transport.StripScheme(t, addr)
	if err != nil {
		return nil, err
	}
	if strings.HasPrefix(a, "bad") {
		return nil, mangos.ErrBadAddr
	}
	d := &Dialer{T: t, Addr: a, Sock: sock, Opts: map[string]interface{}{}, Proto: sock.Info()}
	t.Dialers = append(t.Dialers, d)
	return d, nil
}

func (t *Tran) NewListener(addr string, sock mangos.Socket) (transport.Listener, error) {
	a, err := transport.StripScheme(t, addr)
	if err != nil {
		return nil, err
	}
	if strings.HasPrefix(a, "bad") {
		return nil, mangos.ErrBadAddr
	}
	l := &Listener{T: t, Addr: a, Sock: sock, Opts: map[string]interface{}{}, acceptq: make(chan acc, 16), closeq: make(chan struct{}), Proto: sock.Info()}
	return l, nil
}

type acc struct {
	p   *Pipe
	err error
}

type Listener struct {
	T          *Tran
	Addr       string
	Sock       mangos.Socket
	Proto      mangos.ProtocolInfo
	Opts       map[string]interface{}
	acceptq    chan acc
	closeq     chan struct{}
	Listening  bool
	Closed     bool
	Accepts    int
	ListenCalls int // how often the core asked this transport listener to start listening
	ListenErr  error
}

func (l *Listener) Listen() error {
	l.ListenCalls++
	if l.Closed {
		return mangos.ErrClosed
	}
	if l.ListenErr != nil {
		return l.ListenErr
	}
	if _, ok := l.T.Listeners[l.Addr]; ok {
		return mangos.ErrAddrInUse
	}
	l.T.Listeners[l.Addr] = l
	l.Listening = true
	return nil
}

func (l *Listener) Accept() (transport.Pipe, error) {
	if !l.Listening {
		return nil, mangos.ErrClosed
	}
	l.Accepts++
	select {
	case a := <-l.acceptq:
		if a.err != nil {
			return nil, a.err
		}
		return a.p, nil
	case <-l.closeq:
		return nil, mangos.ErrClosed
	}
}

func (l *Listener) Close() error {
	if l.Closed {
		return mangos.ErrClosed
	}
	l.Closed = true
	if l.Listening {
		delete(l.T.Listeners, l.Addr)
		l.Listening = false
	}
	close(l.closeq)
	// connections still waiting in the backlog are reset when the listening socket goes, as the kernel does
	for {
		select {
		case a := <-l.acceptq:
			if a.p != nil && !a.p.Closed {
				a.p.Closed = true
				close(a.p.closeq)
			}
			continue
		default:
		}
		break
	}
	return nil
}

func (l *Listener) SetOption(n string, v interface{}) error {
	switch n {
	case mangos.OptionMaxRecvSize:
		if _, ok := v.(int); !ok {
			return mangos.ErrBadValue
		}
		l.Opts[n] = v
		return nil
	}
	return mangos.ErrBadOption
}

func (l *Listener) GetOption(n string) (interface{}, error) {
	if v, ok := l.Opts[n]; ok {
		return v, nil
	}
	return nil, mangos.ErrBadOption
}

// Address: the bound address. An address given with port 0 is bound to a port the "system" picks, as with tcp.
func (l *Listener) Address() string {
	if strings.HasSuffix(l.Addr, ":0") {
		return "vt://" + strings.TrimSuffix(l.Addr, ":0") + ":4242"
	}
	return "vt://" + l.Addr
}

// Connect makes a new inbound connection appear on the listener.
func (l *Listener) Connect(name string) *Pipe {
	p := NewPipe(l.T, name)
	l.T.NPipes++
	l.acceptq <- acc{p: p}
	return p
}

// ConnectDropped: a connection that the peer has already abandoned when it is accepted.
func (l *Listener) ConnectDropped(name string) *Pipe {
	p := NewPipe(l.T, name)
	l.T.NPipes++
	p.Closed = true
	close(p.closeq)
	l.acceptq <- acc{p: p}
	return p
}

// FailAccept makes the next Accept return err (e.g. a failed handshake).
func (l *Listener) FailAccept(err error) { l.acceptq <- acc{err: err} }

type Dialer struct {
	T       *Tran
	Addr    string
	Sock    mangos.Socket
	Proto   mangos.ProtocolInfo
	Opts    map[string]interface{}
	Dials   []time.Duration // clock at each Dial() call
	Pipes   []*Pipe
	// Outcome decides each attempt: nil pipe + error, or a pipe.
	Outcome func(attempt int) (*Pipe, error)
}

func (d *Dialer) Dial() (transport.Pipe, error) {
	n := len(d.Dials)
	d.Dials = append(d.Dials, verif.Now())
	if d.Outcome != nil {
		p, err := d.Outcome(n)
		if err != nil {
			return nil, err
		}
		d.Pipes = append(d.Pipes, p)
		return p, nil
	}
	if _, ok := d.T.Listeners[d.Addr]; !ok && !strings.HasPrefix(d.Addr, "peer") {
		return nil, mangos.ErrConnRefused
	}
	p := NewPipe(d.T, d.Addr)
	d.T.NPipes++
	d.Pipes = append(d.Pipes, p)
	return p, nil
}

func (d *Dialer) SetOption(n string, v interface{}) error {
	switch n {
	case mangos.OptionMaxRecvSize:
		if _, ok := v.(int); !ok {
			return mangos.ErrBadValue
		}
		d.Opts[n] = v
		return nil
	}
	return mangos.ErrBadOption
}

func (d *Dialer) GetOption(n string) (interface{}, error) {
	if v, ok := d.Opts[n]; ok {
		return v, nil
	}
	return nil, mangos.ErrBadOption
}

// ---- convenience for protocol harnesses

// Peer attaches a new fake peer connection to sock (listening on vt://<lname>
// the first time) and returns it once the core has attached it.
type Side struct {
	Sock mangos.Socket
	L    *Listener
}

func Listen(sock mangos.Socket, name string) *Side {
	if T == nil {
		Install()
	}
	err := sock.Listen("vt://" + name)
	verif.Assert(err == nil, "harness/vt/listen")
	return &Side{Sock: sock, L: T.Listeners[name]}
}

func (s *Side) Peer(name string) *Pipe {
	p := s.L.Connect(name)
	verif.Quiesce()
	return p
}


// Link connects two sockets (each already listening through Listen) by a pair
// of cross-wired pipes and returns them.
func Link(a, b *Side, name string) (*Pipe, *Pipe) {
	pa := NewPipe(a.L.T, name+":a")
	pb := NewPipe(b.L.T, name+":b")
	pa.Peer, pb.Peer = pb, pa
	a.L.acceptq <- acc{p: pa}
	b.L.acceptq <- acc{p: pb}
	verif.Quiesce()
	return pa, pb
}
