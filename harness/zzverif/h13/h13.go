// Package h13: pipe lifecycle and ids through the real core (C13), also used by C10/C12.
package h13

import (
	"go.nanomsg.org/mangos/v3"
	"go.nanomsg.org/mangos/v3/internal/core"
	"go.nanomsg.org/mangos/v3/protocol"
	"go.nanomsg.org/mangos/v3/zzverif/verif"
	"go.nanomsg.org/mangos/v3/zzverif/vt"
)

// recProto is a recording protocol: AddPipe accepts or refuses by decision.
type recProto struct {
	adds, removes []uint32
	// the same, by object: ids may legitimately be reused once a pipe is gone
	addP, remP []mangos.ProtocolPipe
	refuse        func(n int) bool
	onRefuse      func(p mangos.ProtocolPipe)
	live          map[uint32]mangos.ProtocolPipe
	nAdd          int
	closed        bool
}

func (r *recProto) Info() mangos.ProtocolInfo {
	return mangos.ProtocolInfo{Self: 0x10, Peer: 0x10, SelfName: "pair", PeerName: "pair"}
}
func (r *recProto) AddPipe(p mangos.ProtocolPipe) error {
	n := r.nAdd
	r.nAdd++
	if r.closed {
		// as every protocol of the library does once it has been closed
		if r.onRefuse != nil {
			r.onRefuse(p)
		}
		return mangos.ErrClosed
	}
	if r.refuse != nil && r.refuse(n) {
		verif.Observe("proto refuses pipe")
		if r.onRefuse != nil {
			r.onRefuse(p)
		}
		return mangos.ErrProtoState
	}
	r.adds = append(r.adds, p.ID())
	r.addP = append(r.addP, p)
	r.live[p.ID()] = p
	go func() { // like every real protocol: a receiver that notices the connection going away
		for p.RecvMsg() != nil {
		}
	}()
	return nil
}
func (r *recProto) RemovePipe(p mangos.ProtocolPipe) {
	r.removes = append(r.removes, p.ID())
	r.remP = append(r.remP, p)
	delete(r.live, p.ID())
}
func (r *recProto) OpenContext() (mangos.ProtocolContext, error) { return nil, mangos.ErrProtoOp }
func (r *recProto) Close() error                                  { r.closed = true; return nil }
func (r *recProto) SendMsg(m *mangos.Message) error               { return mangos.ErrProtoOp }
func (r *recProto) RecvMsg() (*mangos.Message, error)             { return nil, mangos.ErrProtoOp }
func (r *recProto) GetOption(string) (interface{}, error)         { return nil, mangos.ErrBadOption }
func (r *recProto) SetOption(string, interface{}) error           { return mangos.ErrBadOption }

type evrec struct {
	ev int
	id uint32
	p  mangos.Pipe
}

type pipeLife struct {
	id                              uint32
	attaching, attached, detached   int
	firstEv                         int
	closedInAttaching, closedInAttached bool
	refused                             bool // the protocol refused it: it gets no further events and its id is free again
	p                               mangos.Pipe
}

// countP: how often the protocol was told about this very pipe object
func countP(ps []mangos.ProtocolPipe, p mangos.Pipe) int {
	n := 0
	for _, x := range ps {
		if y, ok := x.(mangos.Pipe); ok && y == p {
			n++
		}
	}
	return n
}

func count(ids []uint32, id uint32) int {
	n := 0
	for _, x := range ids {
		if x == id {
			n++
		}
	}
	return n
}

// VH13a_listener: 1..C inbound connections on a listener; per connection the
// hook may close the pipe during Attaching or during Attached, the protocol
// may refuse it, the peer may drop it, or it lives until the socket closes.
func VH13a_listener() {
	C := verif.Param("C", 2)
	lab := "C13/listener"
	rp := &recProto{live: map[uint32]mangos.ProtocolPipe{}}
	sock := protocol.MakeSocket(rp)
	var evs []evrec
	lives := map[mangos.Pipe]*pipeLife{} // by pipe object, not by id: an id may be reused once its pipe is gone
	var order []*pipeLife
	fate := make([]int, C) // 6 peer already gone when accepted; 0 live, 1 hook closes in Attaching, 2 hook closes in Attached, 3 proto refuses, 4 peer drops later, 5 app closes later
	if verif.Param("deep", 0) == 1 {
		// deep runs: many connections whose fates follow one of a few periodic patterns
		patterns := [][]int{{4}, {0}, {1}, {2}, {3}, {5}, {6}, {4, 0}, {3, 4}, {1, 4, 0}, {4, 4, 5}, {6, 2, 4}, {0, 0, 4, 3}}
		pat := patterns[verif.Choice("pattern", len(patterns))]
		for i := range fate {
			fate[i] = pat[i%len(pat)]
		}
	} else {
		for i := range fate {
			fate[i] = verif.Choice("fate", 7)
		}
	}
	cur := 0
	rp.refuse = func(n int) bool { return false }
	rp.onRefuse = func(pp mangos.ProtocolPipe) {
		if q, ok := pp.(mangos.Pipe); ok && lives[q] != nil {
			lives[q].refused = true
		}
	}
	sock.SetPipeEventHook(func(ev mangos.PipeEvent, p mangos.Pipe) {
		evs = append(evs, evrec{int(ev), p.ID(), p})
		l := lives[p]
		if l == nil {
			l = &pipeLife{id: p.ID(), firstEv: int(ev), p: p}
			lives[p] = l
			order = append(order, l)
		}
		verif.Assert(l.id == p.ID(), lab+"/pipe-id-changed-during-its-life")
		// while its Attaching or Detached callback runs the pipe's id is still reserved: nobody else can be given it
		// before the application has been told that this pipe is gone
		// (an Attached callback may be overtaken by the pipe's own Detached when the peer is gone already; the property
		// speaks of pipes whose Detached has not returned, so only Attaching and Detached are judged)
		if ev != mangos.PipeEventAttached {
			verif.Assert(core.ZZIDInUse(p.ID()), lab+"/pipe-id-released-before-the-detached-callback-returned")
		}
		switch ev {
		case mangos.PipeEventAttaching:
			l.attaching++
			// ids of pipes that are attached and not yet detached must differ
			for _, o := range order {
				if o != l && o.attaching > 0 && o.detached == 0 && !o.closedInAttaching && !o.refused {
					verif.Assert(o.id != l.id, lab+"/id-shared-by-two-live-pipes")
				}
			}
			if fate[cur] == 1 {
				l.closedInAttaching = true
				p.Close()
			}
		case mangos.PipeEventAttached:
			l.attached++
			if fate[cur] == 2 {
				l.closedInAttached = true
				p.Close()
			}
		case mangos.PipeEventDetached:
			l.detached++
		}
	})
	side := vt.Listen(sock, "a")
	var tps []*vt.Pipe
	// closing a connection may report an error (a reset TLS connection does): it is closed all the same and
	// its life cycle must complete exactly as otherwise
	closeFails := verif.Choice("close-reports-an-error", 2) == 1
	for i := 0; i < C; i++ {
		cur = i
		f := fate[i]
		rp.refuse = func(n int) bool { return f == 3 }
		var tp *vt.Pipe
		if f == 6 {
			tp = side.L.ConnectDropped("c")
		} else {
			tp = side.L.Connect("c")
		}
		if closeFails {
			tp.CloseErr = vt.ErrReset
		}
		verif.Quiesce()
		tps = append(tps, tp)
		verif.Quiesce()
		if len(order) <= i {
			verif.Fail(lab + "/connection-never-reported-Attaching")
			return
		}
		l := order[i]
		switch f {
		case 4:
			tp.Drop()
			verif.Quiesce()
		case 5:
			l.p.Close()
			verif.Quiesce()
		}
		// addresses and endpoints describe the actual connection
		verif.Assert(l.p.Listener() != nil && l.p.Dialer() == nil, lab+"/pipe-endpoint")
		verif.Assert(l.p.Address() == "vt://a", lab+"/pipe-address")
		if v, err := l.p.GetOption(mangos.OptionRemoteAddr); err == nil {
			verif.Assert(v.(string) == "vt-remote:c", lab+"/remote-addr-option")
		} else {
			verif.Fail(lab + "/remote-addr-option-missing")
		}
	}
	sock.Close()
	verif.Quiesce()
	verif.Reach("closed")
	for i, l := range order {
		f := fate[i]
		verif.Assert(l.firstEv == mangos.PipeEventAttaching && l.attaching == 1, lab+"/Attaching-not-exactly-once-and-first")
		verif.Assert(l.attached <= 1, lab+"/Attached-more-than-once")
		verif.Assert(l.id != 0 && l.id < 0x80000000, lab+"/id-not-a-nonzero-31-bit-value")
		switch f {
		case 1, 3:
			verif.Assert(l.attached == 0 && l.detached == 0, lab+"/closed-or-refused-pipe-got-Attached-or-Detached")
		default:
			verif.Assert(l.attached == 1, lab+"/accepted-pipe-not-Attached")
			verif.Assert(l.detached == 1, lab+"/Detached-not-exactly-once-after-Attached")
		}
		added := countP(rp.addP, l.p)
		removed := countP(rp.remP, l.p)
		if f == 1 || f == 3 {
			verif.Assert(added == 0 && removed == 0, lab+"/protocol-told-about-refused-pipe")
		} else {
			verif.Assert(added == 1 && removed == 1, lab+"/protocol-add-remove-not-exactly-once")
		}
		verif.Assert(tps[i].Closed, lab+"/transport-connection-left-open")
	}
	verif.Assert(len(order) == C, lab+"/listener-stopped-accepting")
	verif.Assert(len(rp.live) == 0, lab+"/protocol-still-holds-pipes-after-close")
	verif.Assert(core.ZZIDsInUse() == 0, lab+"/pipe-ids-still-allocated-after-everything-closed")
	verif.Assert(core.ZZSocketPipes(sock) == 0, lab+"/socket-still-tracks-pipes-after-close")
}

// VH13g_hook_swap: the application changes the socket's pipe event hook while
// connections are in the middle of their life: from within the Attaching
// callback it clears the hook, installs another one, or leaves it; after the
// connection is attached the original hook is installed again (if it was
// changed); then the peer leaves. Whatever hooks were in force when, the events
// seen for that connection by all hooks together are Attaching, Attached,
// Detached - each once, in this order: clearing or replacing the hook between
// two callbacks of one connection loses none of them and invents none.
func VH13g_hook_swap() {
	lab := "C13/hook-swap"
	rp := &recProto{live: map[uint32]mangos.ProtocolPipe{}}
	sock := protocol.MakeSocket(rp)
	var log []int
	what := verif.Choice("in-attaching", 3) // 0: leave the hook, 1: clear it, 2: replace it by a second hook
	dialSide := verif.Choice("dial-side", 2) == 1
	var h1, h2 mangos.PipeEventHook
	h2 = func(ev mangos.PipeEvent, p mangos.Pipe) { log = append(log, int(ev)) }
	h1 = func(ev mangos.PipeEvent, p mangos.Pipe) {
		log = append(log, int(ev))
		if ev == mangos.PipeEventAttaching {
			switch what {
			case 1:
				sock.SetPipeEventHook(nil)
			case 2:
				sock.SetPipeEventHook(h2)
			}
		}
	}
	sock.SetPipeEventHook(h1)
	var tp *vt.Pipe
	if dialSide {
		vt.Install()
		verif.Assert(sock.Dial("vt://peerX") == nil, lab+"/dial")
		verif.Quiesce()
		if len(vt.T.Dialers) == 1 && len(vt.T.Dialers[0].Pipes) == 1 {
			tp = vt.T.Dialers[0].Pipes[0]
		}
	} else {
		side := vt.Listen(sock, "a")
		tp = side.Peer("c")
	}
	verif.Assert(tp != nil && !tp.Closed, lab+"/connection-not-established")
	if tp == nil {
		return
	}
	if what != 0 {
		sock.SetPipeEventHook(h1)
	}
	what = 0 // from now on the hook stays
	tp.Drop()
	verif.Quiesce()
	want := []int{int(mangos.PipeEventAttaching), int(mangos.PipeEventAttached), int(mangos.PipeEventDetached)}
	// (a redial by the dialer may add a second connection's events after these three)
	verif.Assert(len(log) >= 3, lab+"/an-event-of-the-connection-was-lost-when-the-hook-was-changed")
	for i := 0; i < 3 && i < len(log); i++ {
		verif.Assert(log[i] == want[i], lab+"/events-of-the-connection-not-Attaching-Attached-Detached")
	}
	verif.Reach("hook-swapped")
	sock.Close()
	verif.Quiesce()
}
