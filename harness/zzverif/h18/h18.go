// Package h18: deadlines, best effort, fail-no-peers (C18).
package h18

import (
	"time"

	"go.nanomsg.org/mangos/v3"
	"go.nanomsg.org/mangos/v3/zzverif/verif"
	"go.nanomsg.org/mangos/v3/zzverif/vp"
	"go.nanomsg.org/mangos/v3/zzverif/vt"
)

type endpoint interface {
	SendMsg(*mangos.Message) error
	RecvMsg() (*mangos.Message, error)
	SetOption(string, interface{}) error
}

// route: routing header for raw REP / RESPONDENT replies (set per path by learnRoute)
var route []byte

// learnRoute lets a request arrive on p and takes its routing header for the raw replies to come.
func learnRoute(proto string, sock mangos.Socket, p *vt.Pipe) {
	route = nil
	if p == nil || (proto != "xrep" && proto != "xrespondent") {
		return
	}
	p.Deliver([]byte{0x80, 0, 0, 1, 'q'})
	verif.Quiesce()
	if rm, err := sock.RecvMsg(); err == nil {
		route = append([]byte{}, rm.Header...)
		rm.Free()
	}
}

func newMsg(proto string) *mangos.Message {
	m := mangos.NewMessage(2)
	m.Body = append(m.Body, 'h', 'i')
	switch proto {
	case "xpair1", "xstar":
		m.Header = append(m.Header, 0, 0, 0, 0)
	case "xrep", "xrespondent":
		if route != nil {
			m.Header = append(m.Header, route...) // the routing header of a request that really arrived
		} else {
			m.Header = append(m.Header, 0, 0, 0, 1, 0x80, 0, 0, 1) // unknown pipe id: dropped, must not block
		}
	case "xreq", "xsurveyor":
		m.Header = append(m.Header, 0x80, 0, 0, 1)
	}
	return m
}

func VH18a_modes() {
	pi := verif.Param("proto", 0)
	proto := vp.Names[pi]
	lab := "C18/" + proto
	sock := vp.New(proto)
	var ep endpoint = sock
	where := "socket"
	if verif.Choice("obj", 2) == 1 {
		c, err := sock.OpenContext()
		if err != nil {
			verif.Assume(false)
		}
		ep = c
		where = "context"
	}
	lab += "/" + where
	peers := verif.Choice("peers", 2) // 0: no peer, 1: one connected peer
	var side *vt.Side
	var p1 *vt.Pipe
	if peers == 1 {
		side = vt.Listen(sock, "a")
		p1 = side.Peer("p1")
	}
	switch verif.Choice("mode", 9) {
	case 8: // ... and neither is a send deadline
		const d = time.Second
		if peers != 0 {
			verif.Assume(false)
		}
		if ep.SetOption(mangos.OptionSendDeadline, d) != nil {
			verif.Assume(false)
		}
		sock.SetOption(mangos.OptionWriteQLen, 1)
		side = vt.Listen(sock, "a")
		p1 = side.Peer("p1")
		learnRoute(proto, sock, p1)
		p1.SendMode = vt.SendBlock
		answering := proto == "rep" || proto == "respondent"
		for i := 0; i < 6; i++ {
			if answering {
				p1.Deliver([]byte{0x80, 0, 0, byte(i + 1), 'q'})
				verif.Quiesce()
				if _, rerr := ep.RecvMsg(); rerr != nil {
					break
				}
			}
			var err error
			t1 := verif.Now()
			g := verif.Go("send", func() { err = ep.SendMsg(newMsg(proto)) })
			verif.Quiesce()
			if g.Done() {
				if err != nil {
					break
				}
				continue
			}
			poke := verif.Choice("poke", 3)
			verif.Go("poker", func() {
				time.Sleep(400 * time.Millisecond)
				switch poke {
				case 0:
					ep.SetOption(mangos.OptionWriteQLen, 1)
				case 1:
					ep.SetOption(mangos.OptionReadQLen, 3)
				case 2:
					ep.SetOption(mangos.OptionTTL, 4)
				}
			})
			verif.Quiesce()
			verif.RunClockTo(t1 + d)
			verif.Assert(verif.Now() >= t1+d, lab+"/clock-did-not-reach-the-deadline")
			verif.Assert(g.Done(), lab+"/send-deadline-extended-by-a-concurrent-option-change")
			verif.Reach("send-deadline-not-extended")
			break
		}
	case 7: // a receive deadline is not extended by what other goroutines do to the socket while the call waits
		const d = time.Second
		if ep.SetOption(mangos.OptionRecvDeadline, d) != nil {
			verif.Assume(false)
		}
		if proto == "sub" {
			ep.SetOption(mangos.OptionSubscribe, []byte{'t'})
		}
		if proto == "req" || proto == "surveyor" {
			if p1 == nil || ep.SendMsg(newMsg(proto)) != nil {
				verif.Assume(false)
			}
			verif.Quiesce()
		}
		t0 := verif.Now()
		var err error
		g := verif.Go("recv", func() { _, err = ep.RecvMsg() })
		verif.Quiesce()
		if g.Done() {
			break
		}
		poke := verif.Choice("poke", 4)
		verif.Go("poker", func() {
			time.Sleep(400 * time.Millisecond)
			switch poke {
			case 0:
				ep.SetOption(mangos.OptionReadQLen, 3)
			case 1:
				ep.SetOption(mangos.OptionWriteQLen, 3)
			case 2:
				ep.SetOption(mangos.OptionUnsubscribe, []byte{'t'})
			case 3:
				ep.SetOption(mangos.OptionTTL, 4)
			}
		})
		verif.Quiesce()
		// the clock runs to 0.4 s (the poke), then to 1 s (the deadline): everything due by then fires, nothing later
		verif.RunClockTo(t0 + d)
		verif.Assert(verif.Now() >= t0+d, lab+"/clock-did-not-reach-the-deadline")
		verif.Assert(g.Done(), lab+"/recv-deadline-extended-by-a-concurrent-option-change")
		if g.Done() {
			verif.Assert(err == mangos.ErrRecvTimeout || err == mangos.ErrProtoState, lab+"/recv-deadline-error-kind")
		}
		verif.Reach("deadline-not-extended")
	case 0: // receive deadline
		d := verif.Duration("recv-deadline")
		verif.Assume(verif.And(d >= 1, d <= time.Hour))
		if ep.SetOption(mangos.OptionRecvDeadline, d) != nil {
			verif.Assume(false)
		}
		t0 := verif.Now()
		var err error
		var m *mangos.Message
		g := verif.Go("recv", func() { m, err = ep.RecvMsg() })
		verif.Quiesce()
		if g.Done() {
			// returned at once: must not be a timeout (the deadline has not elapsed)
			verif.Assert(err != mangos.ErrRecvTimeout, lab+"/recv-timeout-before-deadline")
			verif.Reach("recv-immediate")
			break
		}
		if verif.Choice("exact-clock", 2) == 1 {
			// the clock is run to one tick before the deadline, then to the deadline itself (solver-decided which
			// timers are due): not timed out before, returned at the deadline - "never hanging beyond it"
			verif.RunClockTo(t0 + d - 1)
			verif.Assert(!(g.Done() && err == mangos.ErrRecvTimeout), lab+"/recv-timed-out-early")
			verif.RunClockTo(t0 + d)
			verif.Assert(g.Done(), lab+"/recv-hangs-beyond-deadline")
			verif.Reach("recv-timeout-exact")
			break
		}
		fired := verif.FireTimer()
		verif.Assert(fired, lab+"/recv-deadline-set-but-no-timer-pending")
		verif.Assert(g.Done(), lab+"/recv-hangs-beyond-deadline")
		if g.Done() {
			verif.Assert(err == mangos.ErrRecvTimeout || err == mangos.ErrProtoState, lab+"/recv-deadline-error-kind")
			verif.Assert(verif.Now() >= t0+d, lab+"/recv-timed-out-early")
			verif.Reach("recv-timeout")
		}
		_ = m
	case 1: // send deadline
		d := verif.Duration("send-deadline")
		verif.Assume(verif.And(d >= 1, d <= time.Hour))
		if ep.SetOption(mangos.OptionSendDeadline, d) != nil {
			verif.Assume(false)
		}
		if peers == 0 && verif.Choice("stalled-peer", 2) == 1 {
			// a short per-connection queue, so that a stalled peer makes a send wait within a few messages
			sock.SetOption(mangos.OptionWriteQLen, 1)
			side = vt.Listen(sock, "a")
			p1 = side.Peer("p1")
		}
		learnRoute(proto, sock, p1)
		if p1 != nil {
			p1.SendMode = vt.SendBlock
		}
		answering := proto == "rep" || proto == "respondent"
		// keep sending until one blocks (queues fill up) or 6 were accepted
		for i := 0; i < 6; i++ {
			if answering && p1 != nil {
				p1.Deliver([]byte{0x80, 0, 0, byte(i + 1), 'q'})
				verif.Quiesce()
				if _, rerr := ep.RecvMsg(); rerr != nil {
					break
				}
			}
			var err error
			msg := newMsg(proto)
			hdr0 := append([]byte{}, msg.Header...)
			t1 := verif.Now()
			g := verif.Go("send", func() { err = ep.SendMsg(msg) })
			verif.Quiesce()
			if g.Done() {
				verif.Assert(err != mangos.ErrSendTimeout, lab+"/send-timeout-before-deadline")
				if err != nil {
					break
				}
				continue
			}
			if verif.Choice("exact-clock", 2) == 1 {
				verif.RunClockTo(t1 + d - 1)
				verif.Assert(!(g.Done() && err == mangos.ErrSendTimeout), lab+"/send-timed-out-early")
				verif.RunClockTo(t1 + d)
				verif.Assert(g.Done(), lab+"/send-hangs-beyond-deadline")
				verif.Reach("send-timeout-exact")
				break
			}
			// blocked: the deadline timers of earlier, completed calls may still be pending and fire first
			fired := false
			for k := 0; k < 8 && !g.Done(); k++ {
				if verif.FireTimer() {
					fired = true
				}
			}
			verif.Assert(fired, lab+"/send-deadline-set-but-no-timer-pending")
			verif.Assert(g.Done(), lab+"/send-hangs-beyond-deadline")
			if g.Done() {
				verif.Assert(err == mangos.ErrSendTimeout, lab+"/send-deadline-error-kind")
				verif.Assert(verif.Now() >= t1+d, lab+"/send-timed-out-early")
				verif.Assert(len(msg.Body) == 2 && msg.Body[0] == 'h', lab+"/failed-send-changed-the-message")
				if proto[0] == 'x' {
					verif.Assert(verif.BytesEq(msg.Header, hdr0) && len(msg.Header) == len(hdr0), lab+"/failed-send-changed-the-header")
				}
				verif.Reach("send-timeout")
			}
			break
		}
	case 2: // best effort never blocks - with or without a send deadline set as well, with a short queue and a stalled peer
		if ep.SetOption(mangos.OptionBestEffort, true) != nil {
			verif.Assume(false)
		}
		withDeadline := verif.Choice("with-send-deadline", 2) == 1
		if withDeadline {
			d := verif.Duration("send-deadline")
			verif.Assume(verif.And(d >= 1, d <= time.Hour))
			if ep.SetOption(mangos.OptionSendDeadline, d) != nil {
				verif.Assume(false)
			}
		}
		if peers == 0 && verif.Choice("stalled-peer", 2) == 1 {
			sock.SetOption(mangos.OptionWriteQLen, 1)
			side = vt.Listen(sock, "a")
			p1 = side.Peer("p1")
		}
		learnRoute(proto, sock, p1)
		if p1 != nil {
			p1.SendMode = vt.SendBlock
		}
		answering := proto == "rep" || proto == "respondent"
		t0 := verif.Now()
		for i := 0; i < 4; i++ {
			if answering && p1 != nil {
				// a cooked REP / RESPONDENT only sends in answer to a request it has received
				p1.Deliver([]byte{0x80, 0, 0, byte(i + 1), 'q'})
				verif.Quiesce()
				if _, rerr := ep.RecvMsg(); rerr != nil {
					break
				}
			}
			var err error
			g := verif.Go("send", func() { err = ep.SendMsg(newMsg(proto)) })
			verif.Quiesce()
			verif.Assert(g.Done(), lab+"/best-effort-send-blocks")
			if !g.Done() {
				break
			}
			verif.Assert(err == nil || err == mangos.ErrProtoState, lab+"/best-effort-send-error")
			if err == nil {
				verif.Reach("best-effort-sent")
			}
		}
		verif.Assert(verif.Now() == t0, lab+"/best-effort-send-waited-for-the-clock")
		if !withDeadline {
			verif.Assert(verif.PendingTimers() == 0 || proto == "req" || proto == "surveyor", lab+"/best-effort-left-timers")
		}
		verif.Reach("best-effort")
	case 3: // fail-no-peers
		if ep.SetOption(mangos.OptionFailNoPeers, true) != nil {
			verif.Assume(false)
		}
		if peers == 0 {
			var serr, rerr error
			gs := verif.Go("send", func() { serr = ep.SendMsg(newMsg(proto)) })
			gr := verif.Go("recv", func() { _, rerr = ep.RecvMsg() })
			verif.Quiesce()
			verif.Assert(gs.Done(), lab+"/send-blocks-with-no-peers")
			verif.Assert(gr.Done(), lab+"/recv-blocks-with-no-peers")
			if gs.Done() {
				verif.Assert(serr == mangos.ErrNoPeers || serr == mangos.ErrProtoOp || serr == mangos.ErrProtoState, lab+"/send-no-peers-error-kind")
			}
			if gr.Done() {
				verif.Assert(rerr == mangos.ErrNoPeers || rerr == mangos.ErrProtoOp || rerr == mangos.ErrProtoState, lab+"/recv-no-peers-error-kind")
			}
			verif.Reach("no-peers-immediate")
		} else {
			// blocked receiver, then the last peer leaves
			if proto == "req" {
				// REQ only receives for an outstanding request
				if ep.SendMsg(newMsg(proto)) != nil {
					break
				}
				verif.Quiesce()
			}
			var rerr error
			gr := verif.Go("recv", func() { _, rerr = ep.RecvMsg() })
			verif.Quiesce()
			if gr.Done() {
				break
			}
			p1.Drop()
			verif.Quiesce()
			verif.Assert(gr.Done(), lab+"/recv-still-blocked-after-last-peer-left")
			if gr.Done() {
				verif.Assert(rerr == mangos.ErrNoPeers, lab+"/recv-peer-left-error-kind")
			}
			verif.Reach("no-peers-after-leave")
		}
	case 6: // fail-no-peers: a sender blocked behind a stalled peer, then that last peer leaves
		if peers != 0 {
			verif.Assume(false)
		}
		if ep.SetOption(mangos.OptionFailNoPeers, true) != nil {
			verif.Assume(false)
		}
		sock.SetOption(mangos.OptionWriteQLen, 1)
		side = vt.Listen(sock, "a")
		p1 = side.Peer("p1")
		p1.SendMode = vt.SendBlock
		// a second peer, stalled too: when the first one leaves the sender is still not without peers
		var p2 *vt.Pipe
		if verif.Choice("second-stalled-peer", 2) == 1 {
			p2 = side.Peer("p2")
			p2.SendMode = vt.SendBlock
		}
		var blocked *verif.G
		var berr error
		for i := 0; i < 6 && blocked == nil; i++ {
			var e error
			pe := &e
			g := verif.Go("send", func() { *pe = ep.SendMsg(newMsg(proto)) })
			verif.Quiesce()
			if !g.Done() {
				blocked = g
				berrp := pe
				p1.Drop()
				verif.Quiesce()
				if p2 != nil && !p2.Closed {
					// one of two peers left: the call keeps waiting for the one that is still connected
					if g.Done() {
						verif.Assert(*berrp != mangos.ErrNoPeers, lab+"/no-peers-error-although-a-peer-is-still-connected")
					}
					verif.Reach("one-of-two-peers-left")
					if g.Done() {
						break
					}
					p2.Drop()
					verif.Quiesce()
				}
				verif.Assert(g.Done(), lab+"/send-still-blocked-after-last-peer-left")
				if g.Done() {
					berr = *berrp
					verif.Assert(berr == mangos.ErrNoPeers, lab+"/send-peer-left-error-kind")
				}
				verif.Reach("no-peers-blocked-sender")
			}
		}
	case 5: // a Send that completed at once is not failed later by its deadline
		d := verif.Duration("send-deadline")
		verif.Assume(verif.And(d >= 1, d <= time.Hour))
		if ep.SetOption(mangos.OptionSendDeadline, d) != nil || p1 == nil {
			verif.Assume(false)
		}
		if proto == "req" {
			ep.SetOption(mangos.OptionRetryTime, time.Duration(0))
		}
		var serr error
		g := verif.Go("send", func() { serr = ep.SendMsg(newMsg(proto)) })
		verif.Quiesce()
		if !g.Done() || serr != nil {
			break
		}
		var rerr error
		var rm *mangos.Message
		rg := verif.Go("recv", func() { rm, rerr = ep.RecvMsg() })
		verif.Quiesce()
		for i := 0; i < 2; i++ {
			verif.FireTimer() // the send deadline passes
		}
		if proto == "req" || proto == "surveyor" {
			if rg.Done() {
				// SURVEYOR: the survey time may have run out meanwhile (ErrProtoState); REQ has no reason to give up
				verif.Assert(proto == "surveyor" && rerr == mangos.ErrProtoState, lab+"/recv-failed-by-the-send-deadline-of-a-completed-send")
				break
			}
			if len(p1.Sent) == 0 {
				break
			}
			h := p1.Sent[len(p1.Sent)-1].H
			if len(h) != 4 {
				break
			}
			p1.Deliver(append(append([]byte{}, h...), 'r'))
			verif.Quiesce()
			verif.Assert(rg.Done() && rerr == nil, lab+"/reply-lost-after-send-deadline-passed")
			verif.Reach("completed-send-survives-deadline")
		}
		_ = rm
	case 4: // no deadline: waits
		var err error
		g := verif.Go("recv", func() { _, err = ep.RecvMsg() })
		verif.Quiesce()
		if g.Done() {
			verif.Assert(err == mangos.ErrProtoOp || err == mangos.ErrProtoState, lab+"/recv-without-deadline-returned")
			break
		}
		for i := 0; i < 3; i++ {
			verif.FireTimer()
		}
		verif.Assert(!g.Done() || err == mangos.ErrProtoState, lab+"/recv-without-deadline-gave-up")
		verif.Reach("waits")
	}
	vp.CloseCensus(sock, "C10/after-deadlines")
}

// inbound: wire bytes of one inbound message with body b for the given pattern (receiving side)
func inbound(proto string, b []byte) []byte {
	switch proto {
	case "pair1", "xpair1", "star", "xstar":
		return append([]byte{0, 0, 0, 0}, b...)
	case "rep", "xrep", "respondent", "xrespondent":
		return append([]byte{0x80, 0, 0, 1}, b...)
	}
	return b
}

// VH18c_repeat: the same deadline several times in a row. A socket with a
// receive deadline and nothing to receive: R (4) consecutive Recv calls each
// return the timeout error exactly when their own deadline has run (the clock
// is moved to just before it: still waiting; to it: returned), none earlier,
// none hanging -- the third and fourth like the first. Then a message arrives
// and the next Recv returns it at once; no timer is left over. Patterns: every
// one with a plain receive path.
func VH18c_repeat() {
	protos := []string{"pair", "xpair", "pair1", "pull", "xpull", "sub", "xsub", "bus", "xbus", "star", "xstar", "rep", "xrep", "respondent", "xrespondent"}
	proto := protos[verif.Choice("proto", len(protos))]
	R := verif.Param("R", 4)
	lab := "C18/" + proto + "/repeat"
	sock := vp.New(proto)
	if proto == "sub" {
		verif.Assert(sock.SetOption(mangos.OptionSubscribe, []byte{}) == nil, lab+"/subscribe")
	}
	D := time.Second
	type rcv interface {
		RecvMsg() (*mangos.Message, error)
		SetOption(string, interface{}) error
	}
	var ep rcv = sock
	if verif.Choice("api", 2) == 1 {
		// the same on an opened context (patterns that have them)
		c, cerr := sock.OpenContext()
		if cerr != nil {
			verif.Assume(false)
		}
		ep = c
		lab += "/context"
		if proto == "sub" {
			verif.Assert(c.SetOption(mangos.OptionSubscribe, []byte{}) == nil, lab+"/subscribe")
		}
	}
	verif.Assert(ep.SetOption(mangos.OptionRecvDeadline, D) == nil, lab+"/set-deadline")
	side := vt.Listen(sock, "a")
	peer := side.Peer("p")
	for i := 0; i < R; i++ {
		t0 := verif.Now()
		var err error
		g := verif.Go("recv", func() { _, err = ep.RecvMsg() })
		verif.Quiesce()
		verif.Assert(!g.Done(), lab+"/recv-returns-before-its-deadline")
		verif.RunClockTo(t0 + D - 1)
		verif.Assert(!g.Done(), lab+"/recv-returns-before-its-deadline")
		verif.RunClockTo(t0 + D)
		verif.Quiesce()
		verif.Assert(g.Done(), lab+"/recv-hangs-beyond-its-deadline")
		if !g.Done() {
			return
		}
		verif.Assert(err == mangos.ErrRecvTimeout, lab+"/recv-deadline-error")
		// some time passes between the calls
		verif.RunClockTo(verif.Now() + time.Duration(i)*300*time.Millisecond)
	}
	peer.Deliver(inbound(proto, []byte{'m'}))
	verif.Quiesce()
	var m *mangos.Message
	var err error
	g := verif.Go("recv-msg", func() { m, err = ep.RecvMsg() })
	verif.Quiesce()
	verif.Assert(g.Done() && err == nil, lab+"/message-not-delivered-after-repeated-timeouts")
	if g.Done() && err == nil {
		verif.Assert(len(m.Body) == 1 && m.Body[0] == 'm', lab+"/message-changed")
	}
	verif.Assert(!peer.Closed, lab+"/peer-disconnected-by-timeouts")
	verif.Reach("repeat-checked")
	vp.CloseCensus(sock, "C10/after-deadlines")
}

// VH18g_lattice: every subset of {best effort, fail-no-peers, send deadline} set together on a socket or context,
// against three situations: no peer; a stalled peer with short queues; a peer that reads. The rules of the three
// options combine without surprises: with best effort a Send never waits and never reports a timeout; with
// fail-no-peers and no peer it fails at once with the no-peers error (or, with best effort as well, may report
// success - it never waits); a timeout is reported only if a deadline is set, not before it has run, and exactly at
// it; with none of the three a Send that cannot complete keeps waiting; with a reading peer every Send succeeds.
func VH18g_lattice() {
	protos := []string{"pair", "xpair", "pair1", "xpair1", "push", "xpush", "req", "xreq", "rep", "xrep", "respondent", "xrespondent", "pub", "bus", "star", "surveyor"}
	proto := protos[verif.Choice("proto", len(protos))]
	lab := "C18/" + proto + "/lattice"
	sock := vp.New(proto)
	var ep endpoint = sock
	if verif.Choice("api", 2) == 1 {
		c, cerr := sock.OpenContext()
		if cerr != nil {
			verif.Assume(false)
		}
		ep = c
		lab += "/context"
	}
	be := verif.Choice("best-effort", 2) == 1
	fnp := verif.Choice("fail-no-peers", 2) == 1
	dl := verif.Choice("deadline", 2) == 1
	D := time.Second
	if be && ep.SetOption(mangos.OptionBestEffort, true) != nil {
		verif.Assume(false)
	}
	if fnp && ep.SetOption(mangos.OptionFailNoPeers, true) != nil {
		verif.Assume(false)
	}
	if dl && ep.SetOption(mangos.OptionSendDeadline, D) != nil {
		verif.Assume(false)
	}
	sock.SetOption(mangos.OptionWriteQLen, 1)
	situation := verif.Choice("situation", 3) // 0 no peer, 1 stalled peer, 2 reading peer
	var peer *vt.Pipe
	if situation > 0 {
		side := vt.Listen(sock, "a")
		peer = side.Peer("p")
		learnRoute(proto, sock, peer)
		if situation == 1 {
			peer.SendMode = vt.SendBlock
		}
	}
	answering := proto == "rep" || proto == "respondent"
	if answering && peer == nil {
		verif.Assume(false) // nothing to answer without a peer
	}
	waited := false
	accepted := 0
	for i := 0; i < 6; i++ {
		if answering {
			peer.Deliver([]byte{0x80, 0, 0, byte(i + 1), 'q'})
			verif.Quiesce()
			if _, rerr := ep.RecvMsg(); rerr != nil {
				break
			}
		}
		m := newMsg(proto)
		t0 := verif.Now()
		var err error
		g := verif.Go("send", func() { err = ep.SendMsg(m) })
		verif.Quiesce()
		if !g.Done() {
			waited = true
			verif.Assert(!be, lab+"/best-effort-send-waits")
			verif.Assert(!(fnp && situation == 0), lab+"/send-waits-without-peers-although-fail-no-peers-is-set")
			if dl {
				verif.RunClockTo(t0 + D - 1)
				verif.Assert(!(g.Done() && err == mangos.ErrSendTimeout), lab+"/send-timed-out-early")
				verif.RunClockTo(t0 + D)
				verif.Assert(g.Done(), lab+"/send-hangs-beyond-its-deadline")
			} else {
				for k := 0; k < 3; k++ {
					verif.FireTimer()
				}
				verif.Assert(!g.Done() || err != mangos.ErrSendTimeout, lab+"/send-timed-out-without-a-deadline")
				verif.Reach("lattice-waits")
				break
			}
		}
		if !g.Done() {
			break
		}
		switch err {
		case nil:
			accepted++
		case mangos.ErrSendTimeout:
			verif.Assert(dl && !be, lab+"/timeout-reported-without-a-deadline-or-with-best-effort")
			verif.Assert(verif.Now() >= t0+D, lab+"/send-timed-out-early")
		case mangos.ErrNoPeers:
			verif.Assert(fnp && situation == 0, lab+"/no-peers-error-although-a-peer-is-connected-or-the-option-is-off")
		default:
			verif.Assert(err == mangos.ErrProtoState && (proto == "rep" || proto == "respondent"), lab+"/unexpected-send-error")
		}
		if situation == 2 {
			verif.Assert(err == nil, lab+"/send-fails-although-the-peer-reads")
		}
		if err != nil {
			break
		}
	}
	if situation == 2 {
		verif.Assert(!waited, lab+"/send-waits-although-the-peer-reads")
	}
	if (proto == "req" || proto == "surveyor") && accepted > 0 {
		// a Send that returned success is over: its deadline has nothing more to say. The request it queued or
		// transmitted stays outstanding - a Recv on it is not cancelled when the send deadline passes
		var rerr error
		rg := verif.Go("recv-after", func() { _, rerr = ep.RecvMsg() })
		verif.Quiesce()
		verif.RunClockTo(verif.Now() + D)
		verif.Assert(!(rg.Done() && rerr == mangos.ErrCanceled), lab+"/recv-cancelled-by-the-send-deadline-of-a-send-that-had-returned")
		verif.Reach("lattice-recv-after")
	}
	verif.Reach("lattice-checked")
	vp.CloseCensus(sock, "C10/after-deadlines")
}

// VH18f_deadline_vs_arrival: the awaited message arrives at the very moment the receive deadline expires (both are
// ready when the receiver wakes up: it may take either), R times in a row on the same socket or context. Whatever
// each call returned - the message or the timeout - nothing is lost (a message not returned is still there for the
// next Recv) and the NEXT Recv is not failed by anything left over from the previous one: with nothing queued it is
// still waiting one tick before its own deadline and returns the timeout exactly at it.
func VH18f_deadline_vs_arrival() {
	protos := []string{"pair", "xpair", "pair1", "xpair1", "pull", "xpull", "sub", "xsub", "bus", "xbus", "star", "xstar", "rep", "xrep", "respondent", "xrespondent"}
	proto := protos[verif.Choice("proto", len(protos))]
	R := verif.Param("R", 2)
	lab := "C18/" + proto + "/deadline-vs-arrival"
	sock := vp.New(proto)
	type rcv interface {
		RecvMsg() (*mangos.Message, error)
		SetOption(string, interface{}) error
	}
	var ep rcv = sock
	if verif.Choice("api", 2) == 1 {
		c, cerr := sock.OpenContext()
		if cerr != nil {
			verif.Assume(false)
		}
		ep = c
		lab += "/context"
	}
	if proto == "sub" {
		verif.Assert(ep.SetOption(mangos.OptionSubscribe, []byte{}) == nil, lab+"/subscribe")
	}
	D := time.Second
	verif.Assert(ep.SetOption(mangos.OptionRecvDeadline, D) == nil, lab+"/set-deadline")
	side := vt.Listen(sock, "a")
	peer := side.Peer("p")
	delivered, returned := 0, 0
	for i := 0; i < R; i++ {
		var m *mangos.Message
		var err error
		g := verif.Go("recv", func() { m, err = ep.RecvMsg() })
		verif.Quiesce()
		if !g.Done() {
			// the arrival and the expiry of the deadline at the same moment
			// (a receiver that was woken by the message and is stalled before it has dealt with its timer stays
			// stalled across the expiry: QuiesceKeep)
			peer.Deliver(inbound(proto, []byte{byte('0' + i)}))
			delivered++
			verif.QuiesceKeep()
			verif.FireTimerNow()
			verif.Quiesce()
		}
		verif.Assert(g.Done(), lab+"/recv-still-blocked-although-both-the-message-and-the-deadline-came")
		if !g.Done() {
			return
		}
		if err == nil {
			returned++
			verif.Assert(len(m.Body) == 1, lab+"/message-changed")
		} else {
			verif.Assert(err == mangos.ErrRecvTimeout, lab+"/error-kind")
		}
	}
	// drain what was delivered but not yet returned: each must still be there
	for returned < delivered {
		var err error
		g := verif.Go("recv-pending", func() { _, err = ep.RecvMsg() })
		verif.Quiesce()
		verif.Assert(g.Done() && err == nil, lab+"/message-lost-when-it-arrived-together-with-the-deadline")
		if !g.Done() || err != nil {
			return
		}
		returned++
	}
	// a fresh Recv with nothing queued: its own full deadline, not a left-over of the earlier calls
	t0 := verif.Now()
	var err error
	g := verif.Go("recv-fresh", func() { _, err = ep.RecvMsg() })
	verif.Quiesce()
	verif.Assert(!g.Done(), lab+"/recv-returns-at-once-with-nothing-queued")
	verif.RunClockTo(t0 + D - 1)
	verif.Assert(!g.Done(), lab+"/recv-failed-before-its-own-deadline-by-a-left-over-of-an-earlier-call")
	verif.RunClockTo(t0 + D)
	verif.Assert(g.Done() && err == mangos.ErrRecvTimeout, lab+"/recv-hangs-beyond-its-deadline")
	verif.Reach("deadline-vs-arrival-checked")
	vp.CloseCensus(sock, "C10/after-deadlines")
}

// VH18e_send_repeat: R send deadlines in a row expire against a stalled peer (WRITEQ-LEN 1), each at its own instant
// and none before; then the peer reads again: a Send completes, what the peer gets are messages that were sent (each
// at most once), nothing of a timed-out message arrives later, the connection was never dropped, and a normal
// exchange still works (REQ gets its reply, REP answers the next request).
func VH18e_send_repeat() {
	protos := []string{"pair", "xpair", "pair1", "xpair1", "push", "xpush", "req", "xreq", "rep", "xrep", "respondent", "xrespondent"}
	proto := protos[verif.Choice("proto", len(protos))]
	R := verif.Param("R", 3)
	lab := "C18/" + proto + "/send-repeat"
	sock := vp.New(proto)
	var ep endpoint = sock
	if verif.Choice("api", 2) == 1 {
		c, cerr := sock.OpenContext()
		if cerr != nil {
			verif.Assume(false)
		}
		ep = c
		lab += "/context"
	}
	D := time.Second
	verif.Assert(ep.SetOption(mangos.OptionSendDeadline, D) == nil, lab+"/set-deadline")
	sock.SetOption(mangos.OptionWriteQLen, 1)
	side := vt.Listen(sock, "a")
	peer := side.Peer("p")
	learnRoute(proto, sock, peer)
	answering := proto == "rep" || proto == "respondent"
	peer.SendMode = vt.SendBlock
	mk := func(tag byte) *mangos.Message {
		m := newMsg(proto)
		m.Body[1] = tag
		return m
	}
	ask := func(n byte) bool {
		if !answering {
			return true
		}
		peer.Deliver([]byte{0x80, 0, 0, n, 'q'})
		verif.Quiesce()
		_, rerr := ep.RecvMsg()
		return rerr == nil
	}
	timeouts := 0
	var timedOut []byte
	for i := 0; i < 8 && timeouts < R; i++ {
		if !ask(byte(i + 1)) {
			verif.Fail(lab + "/request-not-received")
			return
		}
		tag := byte('a' + i)
		m := mk(tag)
		t0 := verif.Now()
		var err error
		g := verif.Go("send", func() { err = ep.SendMsg(m) })
		verif.Quiesce()
		if g.Done() {
			verif.Assert(err == nil, lab+"/send-error-before-the-queues-are-full")
			continue
		}
		verif.RunClockTo(t0 + D - 1)
		verif.Assert(!g.Done(), lab+"/send-returns-before-its-deadline")
		verif.RunClockTo(t0 + D)
		verif.Assert(g.Done(), lab+"/send-hangs-beyond-its-deadline")
		if !g.Done() {
			return
		}
		verif.Assert(err == mangos.ErrSendTimeout, lab+"/send-deadline-error")
		verif.Assert(len(m.Body) == 2 && m.Body[1] == tag, lab+"/timed-out-message-changed")
		timedOut = append(timedOut, tag)
		timeouts++
		verif.RunClockTo(verif.Now() + time.Duration(timeouts)*300*time.Millisecond)
	}
	if timeouts < R {
		verif.Assume(false) // this pattern never blocks a sender (covered elsewhere)
	}
	verif.Reach("send-timeouts-in-a-row")
	// the peer reads again
	peer.SendMode = vt.SendOK
	for i := 0; i < 8; i++ {
		peer.Release()
	}
	verif.Quiesce()
	verif.Assert(!peer.Closed, lab+"/peer-disconnected-by-timeouts")
	if !ask(200) {
		verif.Fail(lab + "/request-not-received-after-timeouts")
		return
	}
	last := mk('Z')
	var lerr error
	lg := verif.Go("send-after", func() { lerr = ep.SendMsg(last) })
	verif.Quiesce()
	verif.Assert(lg.Done() && lerr == nil, lab+"/send-fails-although-the-peer-reads-again")
	seen := map[byte]int{}
	for _, r := range peer.Sent {
		if len(r.B) == 2 && r.B[0] == 'h' {
			seen[r.B[1]]++
		}
	}
	for tag, n := range seen {
		verif.Assert(n == 1, lab+"/message-on-the-wire-twice")
		for _, t := range timedOut {
			// a message whose Send reported a timeout stays with the caller: it must not arrive later
			verif.Assert(tag != t, lab+"/timed-out-message-arrived-later")
		}
	}
	verif.Assert(seen['Z'] == 1, lab+"/message-sent-after-the-timeouts-did-not-arrive")
	verif.Reach("send-repeat-checked")
	vp.CloseCensus(sock, "C10/after-deadlines")
}

// VH12g_write_fault: on a socket of any pattern that can send, the connection a
// message is written to fails that write (raw reset error or ErrClosed) while
// its read side stays healthy. The library gives that connection up -- closes
// it, once -- keeps working, accepts a new connection and sends later messages
// there; the send call itself returns (success or an error, never a hang).
func VH12g_write_fault() {
	protos := []string{"pair", "xpair", "pair1", "xpair1", "push", "xpush", "pub", "xpub", "bus", "xbus", "star", "xstar",
		"surveyor", "xsurveyor", "req", "xreq", "rep", "xrep", "respondent", "xrespondent"}
	proto := protos[verif.Choice("proto", len(protos))]
	lab := "C12/" + proto + "/write-fault"
	sock := vp.New(proto)
	side := vt.Listen(sock, "a")
	vt.ChooseErrors()
	bad := side.Peer("bad")
	bad.SendMode = vt.SendFail
	prep := func(p *vt.Pipe) {
		route = nil
		switch proto {
		case "rep", "respondent":
			p.Deliver([]byte{0x80, 0, 0, 1, 'q'})
			verif.Quiesce()
			_, err := sock.RecvMsg()
			verif.Assert(err == nil, lab+"/request")
		case "xrep", "xrespondent":
			learnRoute(proto, sock, p)
		}
	}
	prep(bad)
	var serr error
	g := verif.Go("send", func() { serr = sock.SendMsg(newMsg(proto)) })
	verif.Quiesce()
	if proto != "req" {
		verif.Assert(g.Done(), lab+"/send-hangs-on-a-connection-whose-write-fails")
	}
	_ = serr
	verif.Assert(bad.SendCalls >= 1, lab+"/message-never-handed-to-the-connection")
	verif.Assert(bad.Closed, lab+"/connection-whose-write-failed-not-given-up")
	verif.Assert(bad.SendCalls == 1, lab+"/dead-connection-offered-traffic-again")
	good := side.Peer("good")
	verif.Assert(!good.Closed, lab+"/new-connection-refused-after-a-write-fault")
	if proto == "req" {
		verif.Assert(g.Done(), lab+"/send-still-blocked-although-a-healthy-peer-connected")
		verif.Assert(len(good.Sent) == 1, lab+"/request-not-re-sent-to-the-healthy-peer")
	} else {
		prep(good)
		n := len(good.Sent)
		var e2 error
		g2 := verif.Go("send-2", func() { e2 = sock.SendMsg(newMsg(proto)) })
		verif.Quiesce()
		verif.Assert(g2.Done() && e2 == nil, lab+"/send-after-the-fault")
		verif.Assert(len(good.Sent) == n+1, lab+"/later-message-not-sent-on-the-new-connection")
	}
	verif.Assert(bad.SendCalls == 1, lab+"/dead-connection-offered-traffic-again")
	verif.Reach("write-fault-checked")
	vp.CloseCensus(sock, "C10/after-deadlines")
}

// VH18d_toggle: fail-no-peers is switched on and off while peers come and go:
// every history of E events from {option on; option off; a peer connects; the
// connected peer leaves; a Send}. At each Send the option's current value
// decides: with no peer and the option on it fails at once with the no-peers
// error; with a peer connected it is accepted whatever the option was earlier;
// with no peer and the option off it waits (and is then completed by the next
// peer or ended by switching the option on). No option call or departure panics.
func VH18d_toggle() {
	E := verif.Param("E", 5)
	protos := []string{"push", "xpush", "req", "xreq", "pair", "xpair", "pair1", "xpair1"}
	proto := protos[verif.Choice("proto", len(protos))]
	lab := "C18/" + proto + "/toggle"
	sock := vp.New(proto)
	if sock.SetOption(mangos.OptionFailNoPeers, false) != nil {
		verif.Assume(false) // the pattern does not have the option
	}
	if proto == "req" || proto == "xreq" {
		sock.SetOption(mangos.OptionRetryTime, time.Duration(0))
	}
	side := vt.Listen(sock, "a")
	var peer *vt.Pipe
	on := false
	var waiting *verif.G
	var werr error
	n := 0
	for e := 0; e < E; e++ {
		ev := verif.Choice("ev", 5)
		switch ev {
		case 0:
			verif.Assume(!on)
			verif.Assert(sock.SetOption(mangos.OptionFailNoPeers, true) == nil, lab+"/set-on")
			on = true
		case 1:
			verif.Assume(on)
			verif.Assert(sock.SetOption(mangos.OptionFailNoPeers, false) == nil, lab+"/set-off")
			on = false
		case 2:
			verif.Assume(peer == nil && n < 3)
			n++
			peer = side.Peer("p" + string(rune('0'+n)))
		case 3:
			verif.Assume(peer != nil)
			peer.Drop()
			peer = nil
		case 4:
			verif.Assume(waiting == nil)
			var err error
			g := verif.Go("send", func() { err = sock.SendMsg(newMsg(proto)) })
			verif.Quiesce()
			switch {
			case peer != nil:
				verif.Assert(g.Done(), lab+"/send-blocks-although-a-peer-takes-messages")
				if g.Done() {
					verif.Assert(err != mangos.ErrNoPeers, lab+"/no-peers-error-although-a-peer-is-connected")
					verif.Assert(err == nil, lab+"/send-error-with-a-peer-connected")
				}
			case on:
				verif.Assert(g.Done() && err == mangos.ErrNoPeers, lab+"/no-immediate-no-peers-error-with-the-option-on-and-nobody-connected")
			default:
				// nobody connected, option off: the message is queued (patterns with a send queue) or the call waits
				if g.Done() {
					verif.Assert(err == nil, lab+"/send-fails-with-the-option-off")
				} else {
					waiting = g
				}
			}
			if g.Done() {
				werr = err
			}
		}
		verif.Quiesce()
		if waiting != nil && waiting.Done() {
			// it was ended by the option being switched on (no-peers error) or completed by a peer arriving
			verif.Assert(on || peer != nil, lab+"/waiting-send-ended-without-cause")
			waiting = nil
		}
		if waiting != nil {
			// (whether switching the option on ends a Send that is already waiting is not said by the property)
			verif.Assert(peer == nil, lab+"/waiting-send-not-completed-by-the-peer-that-connected")
		}
	}
	_ = werr
	verif.Reach("toggled")
	vp.CloseCensus(sock, "C10/after-deadlines")
}
