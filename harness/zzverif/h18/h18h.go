package h18

import (
	"time"

	"go.nanomsg.org/mangos/v3"
	"go.nanomsg.org/mangos/v3/zzverif/verif"
	"go.nanomsg.org/mangos/v3/zzverif/vp"
	"go.nanomsg.org/mangos/v3/zzverif/vt"
)

// VH18h_stalled_peer_leaves: a Send waits under a positive send deadline behind a stalled peer that earlier sends
// of the same socket/context went to; that peer then leaves while the Send waits (for REQ with the default retry
// time or with retries disabled). What the departure does to the EARLIER messages must not reach the waiting call:
// with no other peer it returns the timeout exactly at its deadline (never sooner, never hanging beyond it, and
// nothing else stops its timer); with a reading replacement peer it completes successfully at once. Afterwards a
// fresh Send to a reading peer completes at once.
func VH18h_stalled_peer_leaves() {
	protos := []string{"pair", "xpair", "pair1", "xpair1", "push", "xpush", "req", "xreq"}
	proto := protos[verif.Choice("proto", len(protos))]
	lab := "C18/" + proto + "/stalled-peer-leaves"
	sock := vp.New(proto)
	var ep endpoint = sock
	if proto == "req" && verif.Choice("api", 2) == 1 {
		c, cerr := sock.OpenContext()
		if cerr != nil {
			verif.Assume(false)
		}
		ep = c
		lab += "/context"
	}
	D := time.Second
	verif.Assert(ep.SetOption(mangos.OptionSendDeadline, D) == nil, lab+"/set-deadline")
	if proto == "req" && verif.Choice("no-retry", 2) == 1 {
		verif.Assert(ep.SetOption(mangos.OptionRetryTime, time.Duration(0)) == nil, lab+"/set-retry-0")
		lab += "/no-retry"
	}
	sock.SetOption(mangos.OptionWriteQLen, 1)
	side := vt.Listen(sock, "a")
	pa := side.Peer("A")
	pa.SendMode = vt.SendBlock
	var g *verif.G
	var errp *error
	var t0 time.Duration
	for i := 0; i < 6; i++ {
		var e error
		pe := &e
		m := newMsg(proto)
		t0 = verif.Now()
		gi := verif.Go("send", func() { *pe = ep.SendMsg(m) })
		verif.Quiesce()
		if !gi.Done() {
			g, errp = gi, pe
			break
		}
		verif.Assert(e == nil, lab+"/send-error-before-the-queue-is-full")
	}
	verif.Assert(g != nil, lab+"/send-never-waits-behind-a-stalled-peer")
	if g == nil {
		return
	}
	// the stalled peer leaves while the call waits
	pa.Drop()
	verif.Quiesce()
	replacement := verif.Choice("replacement", 2) == 1
	if replacement {
		side.Peer("B")
		verif.Quiesce()
		verif.Assert(g.Done(), lab+"/send-still-waiting-although-a-reading-peer-attached")
		if g.Done() {
			verif.Assert(*errp == nil, lab+"/send-failed-although-a-reading-peer-attached-before-its-deadline")
		}
		verif.Reach("h18h-replacement")
	} else {
		verif.RunClockTo(t0 + D - 1)
		verif.Assert(!(g.Done() && *errp == mangos.ErrSendTimeout), lab+"/send-timed-out-early")
		verif.RunClockTo(t0 + D)
		verif.Assert(g.Done(), lab+"/send-hangs-beyond-its-deadline")
		if g.Done() {
			verif.Assert(*errp == nil || *errp == mangos.ErrSendTimeout, lab+"/unexpected-send-error")
		}
		verif.Reach("h18h-timeout")
		side.Peer("C")
		verif.Quiesce()
	}
	if !g.Done() {
		return
	}
	// a fresh Send with a reading peer connected
	var e2 error
	g2 := verif.Go("send-fresh", func() { e2 = ep.SendMsg(newMsg(proto)) })
	verif.Quiesce()
	verif.Assert(g2.Done() && e2 == nil, lab+"/fresh-send-to-a-reading-peer-does-not-complete")
	verif.Reach("h18h-checked")
	vp.CloseCensus(sock, "C10/after-deadlines")
}
