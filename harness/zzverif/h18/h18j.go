package h18

import (
	"time"

	"go.nanomsg.org/mangos/v3"
	"go.nanomsg.org/mangos/v3/zzverif/verif"
	"go.nanomsg.org/mangos/v3/zzverif/vp"
	"go.nanomsg.org/mangos/v3/zzverif/vt"
)

// VH18j_lost_during_attached_hook: the application's pipe-event hook is slow, and the connection is lost while its
// Attached (or Attaching) callback is still running; then the callback returns. The protocol was told of the
// arrival, so it is told of the departure: with fail-no-peers a Send (and for REQ a Recv) on the now peerless
// socket fails at once with the no-peers error (C18); a REQ request that had been handed to that connection is
// transmitted again as soon as another peer is there (C04); Detached is reported exactly if Attached was (C13).
func VH18j_lost_during_attached_hook() {
	protos := []string{"push", "xpush", "req", "pair", "xreq"}
	proto := protos[verif.Choice("proto", len(protos))]
	lab := "C18/" + proto + "/lost-during-hook"
	sock := vp.New(proto)
	target := []mangos.PipeEvent{mangos.PipeEventAttached, mangos.PipeEventAttaching}[verif.Choice("hook-event", 2)]
	gate := make(chan struct{})
	held, attachedEv, detachedEv := 0, 0, 0
	sock.SetPipeEventHook(func(ev mangos.PipeEvent, p mangos.Pipe) {
		switch ev {
		case mangos.PipeEventAttached:
			attachedEv++
		case mangos.PipeEventDetached:
			detachedEv++
		}
		if ev == target && held == 0 {
			held++
			<-gate
		}
	})
	fnp := sock.SetOption(mangos.OptionFailNoPeers, true) == nil
	if proto == "req" || proto == "xreq" {
		sock.SetOption(mangos.OptionRetryTime, time.Hour)
	}
	side := vt.Listen(sock, "a")
	// REQ: a request is waiting for its first peer
	var sg *verif.G
	if proto == "req" {
		sock.SetOption(mangos.OptionFailNoPeers, false)
		sg = verif.Go("request", func() { sock.Send([]byte{'q', '1'}) })
		verif.Quiesce()
	}
	pa := side.L.Connect("A")
	verif.Quiesce()
	verif.Assert(held == 1, lab+"/hook-not-reached")
	if held != 1 {
		return
	}
	if proto == "req" && target == mangos.PipeEventAttached {
		verif.Assert(sg.Done() && len(pa.Sent) == 1, lab+"/request-not-handed-to-the-new-peer")
	}
	// the connection is lost while the callback runs
	pa.Drop()
	verif.Quiesce()
	close(gate)
	verif.Quiesce()
	verif.Assert(attachedEv == detachedEv, "C13/lost-during-hook/Detached-not-reported-exactly-if-Attached-was")
	if proto == "req" {
		// the request is outstanding and its carrier is gone: the next peer gets it at once
		pb := side.Peer("B")
		if len(pa.Sent) == 1 {
			verif.Assert(len(pb.Sent) == 1, "C04/lost-during-hook/request-not-transmitted-again-when-its-connection-was-lost-during-the-attached-callback")
		} else {
			verif.Assert(len(pb.Sent) == 1, "C04/lost-during-hook/queued-request-not-transmitted-to-the-next-peer")
		}
		verif.Reach("h18j-req")
		pb.Drop()
		verif.Quiesce()
		sock.SetOption(mangos.OptionFailNoPeers, true)
	}
	if fnp {
		var err error
		g := verif.Go("send", func() { err = sock.SendMsg(newMsg(proto)) })
		verif.Quiesce()
		verif.Assert(g.Done(), lab+"/send-waits-without-peers-although-fail-no-peers-is-set")
		if g.Done() {
			verif.Assert(err == mangos.ErrNoPeers, lab+"/no-no-peers-error-after-the-only-peer-was-lost-during-its-attached-callback")
		}
		verif.Reach("h18j-no-peers")
	}
	verif.Reach("h18j-checked")
	vp.CloseCensus(sock, "C10/lost-during-hook")
}
