package h18

import (
	"go.nanomsg.org/mangos/v3"
	"go.nanomsg.org/mangos/v3/zzverif/verif"
	"go.nanomsg.org/mangos/v3/zzverif/vp"
	"go.nanomsg.org/mangos/v3/zzverif/vt"
)

// VH18i_peer_joins_during_wait: fail-no-peers with several Sends waiting behind a stalled peer (short queue). While
// they wait a second peer attaches - stalled too, so that at least one Send keeps waiting - and then every peer
// leaves, one after the other. A Send that was already waiting when the second peer came is told about the
// departure of the LAST peer like any other: it returns at once with the no-peers error (or has completed before);
// it neither hangs nor reports no-peers while a peer is still connected.
func VH18i_peer_joins_during_wait() {
	protos := []string{"push", "xpush", "req", "xreq", "pair", "xpair", "pair1", "xpair1"}
	proto := protos[verif.Choice("proto", len(protos))]
	lab := "C18/" + proto + "/peer-joins-during-wait"
	sock := vp.New(proto)
	if sock.SetOption(mangos.OptionFailNoPeers, true) != nil {
		verif.Assume(false)
	}
	sock.SetOption(mangos.OptionWriteQLen, verif.Choice("writeqlen", 2))
	side := vt.Listen(sock, "a")
	p1 := side.Peer("p1")
	p1.SendMode = vt.SendBlock
	type snd struct {
		g   *verif.G
		err error
	}
	var waiting []*snd
	for i := 0; i < 7 && len(waiting) < 2; i++ {
		s := &snd{}
		s.g = verif.Go("send", func() { s.err = sock.SendMsg(newMsg(proto)) })
		verif.Quiesce()
		if !s.g.Done() {
			waiting = append(waiting, s)
		} else if proto != "req" {
			verif.Assert(s.err == nil, lab+"/send-error-with-a-peer-connected")
		}
	}
	if len(waiting) < 2 {
		verif.Assume(false) // (REQ: a newer Send supersedes the waiting one)
	}
	p2 := side.L.Connect("p2")
	p2.SendMode = vt.SendBlock
	verif.Quiesce()
	still := 0
	for _, s := range waiting {
		if !s.g.Done() {
			still++
		} else {
			verif.Assert(s.err != mangos.ErrNoPeers, lab+"/no-peers-error-although-peers-are-connected")
		}
	}
	p1.Drop()
	verif.Quiesce()
	for _, s := range waiting {
		if s.g.Done() {
			verif.Assert(s.err != mangos.ErrNoPeers, lab+"/no-peers-error-although-a-peer-is-still-connected")
		}
	}
	p2.Drop()
	verif.Quiesce()
	for _, s := range waiting {
		verif.Assert(s.g.Done(), lab+"/send-still-blocked-after-the-last-peer-left")
		if s.g.Done() && s.err != nil {
			verif.Assert(s.err == mangos.ErrNoPeers || (proto == "req" && s.err == mangos.ErrCanceled), lab+"/send-peer-left-error-kind")
		}
	}
	if still > 0 {
		verif.Reach("h18i-waited-across-the-join")
	}
	// and with nobody connected a fresh Send fails at once
	var e2 error
	g2 := verif.Go("send-fresh", func() { e2 = sock.SendMsg(newMsg(proto)) })
	verif.Quiesce()
	verif.Assert(g2.Done() && e2 == mangos.ErrNoPeers, lab+"/fresh-send-without-peers-does-not-fail-at-once")
	verif.Reach("h18i-checked")
	vp.CloseCensus(sock, "C10/after-deadlines")
}
