// Package h06: SUB filtering and PUB fan-out (C06).
package h06

import (
	"go.nanomsg.org/mangos/v3"
	"go.nanomsg.org/mangos/v3/zzverif/verif"
	"go.nanomsg.org/mangos/v3/zzverif/vp"
	"go.nanomsg.org/mangos/v3/zzverif/vt"
)

type optObj interface {
	SetOption(string, interface{}) error
	GetOption(string) (interface{}, error)
}

type subref struct {
	name  string
	c     mangos.Context
	sock  mangos.Socket
	subs  [][]byte
	queue [][]byte
	qlen  int
	rg    *verif.G
	rmsg  *mangos.Message
	rerr  error
	want  []byte // what the pending Recv must return once it completes
	has   bool
}

func (r *subref) opt() optObj {
	if r.c != nil {
		return r.c
	}
	return r.sock
}
func (r *subref) recvMsg() (*mangos.Message, error) {
	if r.c != nil {
		return r.c.RecvMsg()
	}
	return r.sock.RecvMsg()
}

// hasPrefix is the reference matcher: one formula, no forking.
func hasPrefix(b, t []byte) bool {
	if len(t) > len(b) {
		return false
	}
	return verif.BytesEq(b[:len(t)], t)
}

func (r *subref) matches(b []byte) bool {
	m := false
	for _, t := range r.subs {
		m = verif.Or(m, hasPrefix(b, t))
	}
	return m
}

func (r *subref) publish(b []byte) {
	if !r.matches(b) { // forks on the reference predicate
		return
	}
	if r.rg != nil && !r.has {
		r.want, r.has = b, true
		return
	}
	if r.qlen == 0 {
		return // no queue: only a waiting receiver can take it
	}
	if len(r.queue) >= r.qlen {
		r.queue = r.queue[1:] // drop oldest
	}
	r.queue = append(r.queue, b)
}

func check(rs []*subref, lab string) {
	for _, r := range rs {
		if r.rg == nil {
			continue
		}
		if !r.rg.Done() {
			verif.Assert(!r.has, lab+"/matching-message-not-delivered")
			continue
		}
		r.rg = nil
		verif.Assert(r.rerr == nil, lab+"/recv-error")
		verif.Assert(r.has, lab+"/delivered-although-nothing-matches")
		if r.rerr == nil && r.has {
			verif.Reach("delivered")
			verif.Assert(verif.BytesEq(r.rmsg.Body, r.want), lab+"/delivered-bytes-differ-from-reference")
			verif.Assert(len(r.rmsg.Header) == 0, lab+"/header-not-empty")
		}
		r.has = false
	}
}

func VH06a_sub() {
	E := verif.Param("E", 4)
	TL := verif.Param("T", 2)
	BL := verif.Param("B", 2)
	qlen := verif.Param("qlen", 128)
	lab := "C06/sub"
	sock := vp.New("sub")
	if qlen != 128 {
		verif.Assert(sock.SetOption(mangos.OptionReadQLen, qlen) == nil, lab+"/set-qlen")
	}
	side := vt.Listen(sock, "a")
	pub := side.Peer("pub")
	c1, err := sock.OpenContext()
	verif.Assert(err == nil, lab+"/open-context")
	if qlen != 128 {
		verif.Assert(c1.SetOption(mangos.OptionReadQLen, qlen) == nil, lab+"/set-qlen-ctx")
	}
	rs := []*subref{{name: "sock", sock: sock, qlen: qlen}, {name: "ctx", c: c1, qlen: qlen}}
	// directed family (parameter "script"): two subscriptions with arbitrary topics (overlapping, equal,
	// empty, prefix of each other - all solver variables), two publications queue up, one topic
	// (arbitrary again) is unsubscribed, then everything is received: deeper than the free-form history
	// bound reaches.
	var script []int
	fixed := -1
	if verif.Param("script", 0) == 1 {
		script = []int{0, 0, 2, 2, 1, 3, 3, 3}
		E = len(script)
		fixed = verif.Choice("on", 2)
	}
	pick := func() *subref {
		if fixed >= 0 {
			return rs[fixed]
		}
		return rs[verif.Choice("ctx", len(rs))]
	}
	for e := 0; e < E; e++ {
		var ev int
		if script != nil {
			ev = script[e]
		} else {
			ev = verif.Choice("ev", 5)
		}
		switch ev {
		case 4: // a further context is opened in the middle of things: no subscriptions, empty queue of the inherited length
			if len(rs) >= 3 {
				verif.Assume(false)
			}
			cn, oerr := sock.OpenContext()
			verif.Assert(oerr == nil, lab+"/open-context-later")
			if oerr != nil {
				return
			}
			rs = append(rs, &subref{name: "late-ctx", c: cn, qlen: qlen})
			verif.Reach("late-context")
		case 0: // subscribe
			r := pick()
			t := verif.Bytes("topic", verif.Choice("tlen", TL+1))
			{
				// the caller's buffer is the caller's: it is overwritten as soon as the call has returned
				buf := append([]byte{}, t...)
				verif.Assert(r.opt().SetOption(mangos.OptionSubscribe, buf) == nil, lab+"/subscribe-ok")
				for i := range buf {
					buf[i] ^= 0xA5
				}
			}
			dup := false
			for _, s := range r.subs {
				if len(s) == len(t) && verif.BytesEq(s, t) { // forks
					dup = true
				}
			}
			if !dup {
				r.subs = append(r.subs, t)
			}
		case 1: // unsubscribe
			r := pick()
			t := verif.Bytes("untopic", verif.Choice("tlen", TL+1))
			uerr := r.opt().SetOption(mangos.OptionUnsubscribe, t)
			idx := -1
			for i, s := range r.subs {
				if idx < 0 && len(s) == len(t) && verif.BytesEq(s, t) { // forks
					idx = i
				}
			}
			if idx < 0 {
				verif.Assert(uerr == mangos.ErrBadValue, lab+"/unsubscribe-unknown-topic-error")
			} else {
				verif.Reach("unsubscribed")
				verif.Assert(uerr == nil, lab+"/unsubscribe-ok")
				r.subs = append(append([][]byte{}, r.subs[:idx]...), r.subs[idx+1:]...)
				var q [][]byte
				for _, b := range r.queue {
					if r.matches(b) { // forks
						q = append(q, b)
					}
				}
				r.queue = q
			}
		case 2: // a publication arrives
			b := verif.Bytes("body", verif.Choice("blen", BL+1))
			pub.Deliver(b)
			for _, r := range rs {
				r.publish(b)
			}
		case 3: // Recv
			r := pick()
			if r.rg != nil {
				verif.Assume(false)
			}
			if len(r.queue) > 0 {
				r.want, r.has = r.queue[0], true
				r.queue = r.queue[1:]
			}
			rr := r
			r.rg = verif.Go("recv", func() { rr.rmsg, rr.rerr = rr.recvMsg() })
		}
		verif.Quiesce()
		check(rs, lab)
	}
	verif.Reach("done")
	vp.CloseCensus(sock, "C10/pubsub/after-history")
}

var pubs = []string{"pub", "xpub"}

// VH06b_pub: PUB/XPUB fan-out to 3 subscribers, one of which may be stalled.
func VH06b_pub() {
	N := verif.Param("N", 3)
	proto := pubs[verif.Choice("proto", 2)]
	lab := "C06/" + proto
	sock := vp.New(proto)
	ql := verif.Choice("wqlen", 3) // 0,1,2
	verif.Assert(sock.SetOption(mangos.OptionWriteQLen, ql) == nil, lab+"/set-wqlen")
	side := vt.Listen(sock, "a")
	pipes := []*vt.Pipe{side.Peer("s0"), side.Peer("s1"), side.Peer("s2")}
	stalled := verif.Choice("stalled", 2) == 1
	if stalled {
		pipes[1].SendMode = vt.SendBlock
	}
	// the option may change after the subscribers connected (documented: affects later connections only):
	// idle subscribers must not notice
	if nq := verif.Choice("wqlen-later", 4); nq < 3 {
		verif.Assert(sock.SetOption(mangos.OptionWriteQLen, nq) == nil, lab+"/set-wqlen-later")
	}
	var bodies [][]byte
	for i := 0; i < N; i++ {
		b := verif.Bytes("body", 1+verif.Choice("blen", 2))
		bodies = append(bodies, b)
		var serr error
		g := verif.Go("send", func() { serr = sock.Send(b) })
		verif.Quiesce()
		verif.Assert(g.Done(), lab+"/send-never-blocks")
		if !g.Done() {
			return
		}
		verif.Assert(serr == nil, lab+"/send-ok")
	}
	if stalled {
		for i := 0; i < N; i++ {
			pipes[1].Release()
		}
		verif.Quiesce()
	}
	for pi, p := range pipes {
		// received log is an in-order subsequence of what was published, no duplicates, unchanged bytes
		j := 0
		for _, rec := range p.Sent {
			found := false
			for j < N && !found {
				if len(rec.Bytes()) == len(bodies[j]) && verif.BytesEq(rec.Bytes(), bodies[j]) && sameIdx(rec.Bytes(), bodies[j]) {
					found = true
				}
				j++
			}
			verif.Assert(found, lab+"/subscriber-got-something-not-published-or-out-of-order")
		}
		full := !(stalled && pi == 1)
		if full {
			// also with WRITEQ-LEN 0: an idle subscriber's sender is waiting for the hand-off, nothing is lost
			verif.Assert(len(p.Sent) == N, lab+"/subscriber-with-room-missed-a-message")
		}
		if full {
			verif.Reach("full-delivery-checked")
		}
		verif.Assert(len(p.Sent) <= N, lab+"/duplicate-delivery")
	}
	vp.CloseCensus(sock, "C10/pubsub/after-history")
}

// sameIdx: identity of the byte terms (distinguishes equal-valued distinct publications only by position; kept permissive)
func sameIdx(a, b []byte) bool { return true }

// VH06c_unsub_qlen: the configured receive queue length survives an unsubscribe.
func VH06c_unsub_qlen() {
	lab := "C06/unsub-qlen"
	q := 1 + verif.Choice("qlen", 2) // 1 or 2
	sock := vp.New("sub")
	side := vt.Listen(sock, "a")
	pub := side.Peer("pub")
	var o optObj = sock
	// the queue length is set on the object itself, or on the socket before the context is opened (inherited)
	inherited := false
	switch verif.Choice("ctx", 3) {
	case 1:
		c, err := sock.OpenContext()
		verif.Assert(err == nil, lab+"/context")
		o = c
	case 2:
		verif.Assert(sock.SetOption(mangos.OptionReadQLen, q) == nil, lab+"/set-qlen-on-socket")
		c, err := sock.OpenContext()
		verif.Assert(err == nil, lab+"/context")
		o = c
		inherited = true
	}
	type rcv interface {
		RecvMsg() (*mangos.Message, error)
	}
	if !inherited {
		verif.Assert(o.SetOption(mangos.OptionReadQLen, q) == nil, lab+"/set-qlen")
	}
	verif.Assert(o.SetOption(mangos.OptionSubscribe, []byte{}) == nil, lab+"/subscribe-all")
	t := verif.Bytes("topic", 1)
	verif.Assert(o.SetOption(mangos.OptionSubscribe, t) == nil, lab+"/subscribe-topic")
	// the unsubscribe (which rebuilds the queue) comes before the publications, never, or after them: the configured
	// length must hold from the moment the object exists, not only once something has rebuilt the queue
	when := verif.Choice("unsubscribe-when", 3)
	if when == 0 {
		verif.Assert(o.SetOption(mangos.OptionUnsubscribe, t) == nil, lab+"/unsubscribe-topic")
	}
	// overfill: q+2 publications, only the last q may remain
	n := q + 2
	var bodies [][]byte
	for i := 0; i < n; i++ {
		b := []byte{byte('a' + i), verif.Byte("b")}
		bodies = append(bodies, b)
		pub.Deliver(b)
		verif.Quiesce()
	}
	if when == 2 {
		var uerr error
		ug := verif.Go("unsubscribe", func() { uerr = o.SetOption(mangos.OptionUnsubscribe, t) })
		verif.Quiesce()
		verif.Assert(ug.Done(), lab+"/unsubscribe-blocks-with-a-full-queue")
		if !ug.Done() {
			return
		}
		verif.Assert(uerr == nil, lab+"/unsubscribe-topic")
		verif.Reach("unsubscribed-with-full-queue")
	}
	got, ok := o.GetOption(mangos.OptionReadQLen)
	verif.Assert(ok == nil && got.(int) == q, lab+"/get-qlen")
	for i := 0; i < q; i++ {
		var m *mangos.Message
		var err error
		g := verif.Go("recv", func() { m, err = o.(rcv).RecvMsg() })
		verif.Quiesce()
		verif.Assert(g.Done() && err == nil, lab+"/recv")
		if g.Done() && err == nil {
			verif.Assert(verif.BytesEq(m.Body, bodies[n-q+i]), lab+"/queue-longer-than-configured-after-unsubscribe")
		}
	}
	g := verif.Go("recv-extra", func() { o.(rcv).RecvMsg() })
	verif.Quiesce()
	verif.Assert(!g.Done(), lab+"/more-messages-queued-than-READQ-LEN")
	verif.Reach("qlen-kept")
	vp.CloseCensus(sock, "C10/pubsub/after-history")
}

// VH06e_burst: a SUB socket or context subscribed to "a" and "b", with 0..1
// matching message already queued. K of {a Recv; Unsubscribe "b"; the receive
// queue is resized; a message "a.." arrives; a message "b.." arrives} happen at
// the same moment, under every schedule in which one goroutine stalls at one
// synchronisation point until the others are at rest. Whatever the order: what
// Recv returns was published and matched a subscription in force at some point,
// nothing comes twice -- and afterwards a waiting Recv is completed by the next
// matching publication, "b.." is no longer delivered once its Unsubscribe
// returned, "a.." still is.
func VH06e_burst() {
	K := verif.Param("K", 2)
	lab := "C06/burst"
	sock := vp.New("sub")
	side := vt.Listen(sock, "a")
	p0 := side.Peer("p0")
	r := &subref{name: "sock", sock: sock}
	if verif.Choice("api", 2) == 1 {
		c, err := sock.OpenContext()
		verif.Assert(err == nil, lab+"/open-context")
		r = &subref{name: "ctx", c: c}
	}
	verif.Assert(r.opt().SetOption(mangos.OptionSubscribe, []byte("a")) == nil, lab+"/subscribe-a")
	verif.Assert(r.opt().SetOption(mangos.OptionSubscribe, []byte("b")) == nil, lab+"/subscribe-b")
	published := map[byte]bool{} // second byte identifies the publication
	pub := func(topic byte, n byte) {
		published[n] = true
		p0.Deliver([]byte{topic, n})
	}
	if verif.Choice("queued", 2) == 1 {
		pub('a', 1)
		verif.Quiesce()
	}
	type rrec struct {
		g   *verif.G
		m   *mangos.Message
		err error
	}
	var recvs []*rrec
	doRecv := func(name string) *rrec {
		x := &rrec{}
		recvs = append(recvs, x)
		x.g = verif.Go(name, func() { x.m, x.err = r.recvMsg() })
		return x
	}
	var ug, qg *verif.G
	var uerr, qerr error
	last := -1
	for k := 0; k < K; k++ {
		ev := verif.Choice("ev", 5)
		verif.Assume(ev > last)
		last = ev
		switch ev {
		case 0:
			doRecv("recv")
		case 1:
			ug = verif.Go("unsubscribe", func() { uerr = r.opt().SetOption(mangos.OptionUnsubscribe, []byte("b")) })
		case 2:
			qg = verif.Go("resize", func() { qerr = r.opt().SetOption(mangos.OptionReadQLen, 4) })
		case 3:
			pub('a', 2)
		case 4:
			pub('b', 3)
		}
	}
	verif.Quiesce()
	if ug != nil {
		verif.Assert(ug.Done() && uerr == nil, lab+"/unsubscribe")
	}
	if qg != nil {
		verif.Assert(qg.Done() && qerr == nil, lab+"/resize")
	}
	seen := map[byte]bool{}
	judge := func(x *rrec, afterUnsub bool) {
		verif.Assert(x.err == nil, lab+"/recv-error")
		if x.err != nil {
			return
		}
		bd := x.m.Body
		ok := len(bd) == 2 && published[bd[1]] && (bd[0] == 'a' || bd[0] == 'b')
		verif.Assert(ok, lab+"/delivered-message-was-never-published-or-matches-no-subscription")
		if ok {
			verif.Assert(!seen[bd[1]], lab+"/message-delivered-twice")
			seen[bd[1]] = true
			if afterUnsub {
				verif.Assert(bd[0] == 'a', lab+"/message-for-an-unsubscribed-topic-delivered")
			}
		}
	}
	var waiting *rrec
	for _, x := range recvs {
		if x.g.Done() {
			judge(x, false)
		} else {
			waiting = x
		}
	}
	verif.Reach("burst-done")
	// epilogue
	if ug == nil {
		verif.Assert(r.opt().SetOption(mangos.OptionUnsubscribe, []byte("b")) == nil, lab+"/unsubscribe-later")
	}
	if waiting == nil {
		// drain what the burst left behind (at most two publications)
		for i := 0; i < 3; i++ {
			x := doRecv("drain")
			verif.Quiesce()
			if !x.g.Done() {
				waiting = x
				break
			}
			judge(x, true)
		}
		verif.Assert(waiting != nil, lab+"/more-deliveries-than-publications")
		if waiting == nil {
			return
		}
	}
	pub('b', 8)
	verif.Quiesce()
	verif.Assert(!waiting.g.Done(), lab+"/message-for-an-unsubscribed-topic-delivered")
	if waiting.g.Done() {
		return
	}
	pub('a', 9)
	verif.Quiesce()
	verif.Assert(waiting.g.Done(), lab+"/matching-publication-does-not-complete-the-waiting-recv")
	if !waiting.g.Done() {
		return
	}
	judge(waiting, true)
	if waiting.err == nil && len(waiting.m.Body) == 2 {
		verif.Assert(waiting.m.Body[1] == 9, lab+"/waiting-recv-got-something-else-than-the-new-publication")
	}
	x := doRecv("extra")
	verif.Quiesce()
	verif.Assert(!x.g.Done(), lab+"/invented-or-duplicated-message")
	verif.Reach("burst-epilogue")
	vp.CloseCensus(sock, "C10/pubsub/after-history")
}

// VH06f_many_subscriptions: a SUB socket or context holds N (5) subscriptions
// (distinct one-byte topics, subscribed in order, one of them twice). Two of
// them are cancelled (any two positions, every combination a path; a third
// Unsubscribe repeats the first). Afterwards a publication for every topic:
// exactly those still subscribed are delivered, once each, in order; cancelling
// a subscription that is held succeeds, cancelling one that is not fails.
func VH06f_many_subscriptions() {
	N := verif.Param("N", 5)
	lab := "C06/many-subscriptions"
	sock := vp.New("sub")
	side := vt.Listen(sock, "a")
	p0 := side.Peer("p0")
	r := &subref{name: "sock", sock: sock}
	if verif.Choice("api", 2) == 1 {
		c, err := sock.OpenContext()
		verif.Assert(err == nil, lab+"/open-context")
		r = &subref{name: "ctx", c: c}
	}
	held := make([]bool, N)
	scratch := make([]byte, 1) // one buffer re-used for every topic, as a caller building topics in place does
	for i := 0; i < N; i++ {
		scratch[0] = byte('a' + i)
		verif.Assert(r.opt().SetOption(mangos.OptionSubscribe, scratch) == nil, lab+"/subscribe")
		held[i] = true
	}
	scratch[0] = 0xFF
	verif.Assert(r.opt().SetOption(mangos.OptionSubscribe, []byte{'b'}) == nil, lab+"/subscribe-again")
	x := verif.Choice("first", N)
	y := verif.Choice("second", N)
	verif.Assume(x != y)
	for k, i := range []int{x, y, x} {
		err := r.opt().SetOption(mangos.OptionUnsubscribe, []byte{byte('a' + i)})
		if k < 2 {
			verif.Assert(err == nil, lab+"/unsubscribe-of-a-held-subscription-fails")
			held[i] = false
		} else {
			verif.Assert(err != nil, lab+"/unsubscribe-of-a-cancelled-subscription-succeeds")
		}
	}
	for i := 0; i < N; i++ {
		p0.Deliver([]byte{byte('a' + i), byte(i)})
		verif.Quiesce()
	}
	for i := 0; i < N; i++ {
		if !held[i] {
			continue
		}
		var m *mangos.Message
		var err error
		g := verif.Go("recv", func() { m, err = r.recvMsg() })
		verif.Quiesce()
		verif.Assert(g.Done() && err == nil, lab+"/publication-for-a-held-subscription-not-delivered")
		if !g.Done() || err != nil {
			return
		}
		verif.Assert(len(m.Body) == 2 && m.Body[0] == byte('a'+i) && m.Body[1] == byte(i), lab+"/wrong-publication-delivered")
	}
	g := verif.Go("recv-extra", func() { r.recvMsg() })
	verif.Quiesce()
	verif.Assert(!g.Done(), lab+"/publication-for-a-cancelled-subscription-delivered")
	// the remaining ones can all be cancelled, after which nothing is delivered
	for i := 0; i < N; i++ {
		if held[i] {
			verif.Assert(r.opt().SetOption(mangos.OptionUnsubscribe, []byte{byte('a' + i)}) == nil, lab+"/unsubscribe-of-a-held-subscription-fails")
		}
	}
	for i := 0; i < N; i++ {
		p0.Deliver([]byte{byte('a' + i), 9})
	}
	verif.Quiesce()
	verif.Assert(!g.Done(), lab+"/publication-delivered-without-any-subscription")
	verif.Reach("many-subscriptions-checked")
	vp.CloseCensus(sock, "C10/pubsub/after-history")
}

// VH06g_many_contexts: M (5) contexts of one SUB socket, context i subscribed
// to topic i and to a topic shared by all; one context (any position, or none)
// is closed. A publication for every private topic and one for the shared
// topic arrive: every open context receives exactly its own and the shared one,
// in arrival order, the closed one nothing, nobody anything else.
func VH06g_many_contexts() {
	M := verif.Param("M", 5)
	lab := "C06/many-contexts"
	sock := vp.New("sub")
	side := vt.Listen(sock, "a")
	p0 := side.Peer("p0")
	var cs []mangos.Context
	for i := 0; i < M; i++ {
		c, err := sock.OpenContext()
		verif.Assert(err == nil, lab+"/open-context")
		if err != nil {
			return
		}
		verif.Assert(c.SetOption(mangos.OptionSubscribe, []byte{byte('a' + i)}) == nil, lab+"/subscribe")
		verif.Assert(c.SetOption(mangos.OptionSubscribe, []byte{'*'}) == nil, lab+"/subscribe-shared")
		cs = append(cs, c)
	}
	closeAt := verif.Choice("close", M+1) - 1
	if closeAt >= 0 {
		verif.Assert(cs[closeAt].Close() == nil, lab+"/context-close")
	}
	// one context (any position, or none) has READQ-LEN 0 and nobody receiving: it cannot take anything; its
	// siblings are not affected by what it misses
	zeroAt := verif.Choice("zero-queue", M+1) - 1
	if zeroAt >= 0 && zeroAt != closeAt {
		verif.Assert(cs[zeroAt].SetOption(mangos.OptionReadQLen, 0) == nil, lab+"/set-qlen-0")
	}
	for i := 0; i < M; i++ {
		p0.Deliver([]byte{byte('a' + i), byte(i)})
		verif.Quiesce()
	}
	p0.Deliver([]byte{'*', 77})
	verif.Quiesce()
	for i, c := range cs {
		if i == closeAt {
			_, err := c.RecvMsg()
			verif.Assert(err != nil, lab+"/closed-context-delivers")
			continue
		}
		if i == zeroAt {
			c := c
			g := verif.Go("recv-zero", func() { c.RecvMsg() })
			verif.Quiesce()
			verif.Assert(!g.Done(), lab+"/context-without-queue-delivers-a-message-it-could-not-have-kept")
			continue
		}
		for k := 0; k < 2; k++ {
			var m *mangos.Message
			var err error
			c := c
			g := verif.Go("recv", func() { m, err = c.RecvMsg() })
			verif.Quiesce()
			verif.Assert(g.Done() && err == nil, lab+"/context-did-not-get-its-publication")
			if !g.Done() || err != nil {
				return
			}
			if k == 0 {
				verif.Assert(len(m.Body) == 2 && m.Body[0] == byte('a'+i) && m.Body[1] == byte(i), lab+"/context-got-another-contexts-publication")
			} else {
				verif.Assert(len(m.Body) == 2 && m.Body[0] == '*' && m.Body[1] == 77, lab+"/shared-publication-not-delivered-to-every-context")
			}
		}
		c := c
		g := verif.Go("recv-extra", func() { c.RecvMsg() })
		verif.Quiesce()
		verif.Assert(!g.Done(), lab+"/context-got-a-publication-it-did-not-subscribe-to")
	}
	verif.Reach("many-contexts-delivered")
	vp.CloseCensus(sock, "C10/pubsub/after-history")
}
