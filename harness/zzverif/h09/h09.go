// Package h09: hop limit (C09).
package h09

import (
	"go.nanomsg.org/mangos/v3"
	"go.nanomsg.org/mangos/v3/zzverif/verif"
	"go.nanomsg.org/mangos/v3/zzverif/vp"
	"go.nanomsg.org/mangos/v3/zzverif/vt"
)

var protos = []string{"rep", "xrep", "respondent", "xrespondent", "xpair1", "pair1", "xstar", "star"}

// wire builds a message that has crossed k connections for the given receiver.
func wire(proto string, k int, tag byte) []byte {
	var b []byte
	switch proto {
	case "rep", "xrep", "respondent", "xrespondent":
		for i := 0; i < k-1; i++ {
			if verif.Param("big", 0) == 1 {
				b = append(b, 0, 0, byte(i>>8), byte(i)) // long routes: concrete routing words, the count is what matters
				continue
			}
			w := verif.Bytes("hop", 4)
			verif.Assume(w[0]&0x80 == 0)
			b = append(b, w...)
		}
		id := verif.Bytes("id", 4)
		verif.Assume(id[0]&0x80 != 0)
		b = append(b, id...)
	default: // pair1 / star: 4-byte header whose last byte counts hops so far
		b = append(b, 0, 0, 0, byte(k-1))
	}
	return append(b, 'P', tag)
}

func VH09a_ttl() {
	K := verif.Param("K", 10)
	proto := protos[verif.Choice("proto", len(protos))]
	if only := verif.Param("only", -1); only >= 0 {
		proto = protos[only]
	}
	sock := vp.New(proto)
	// default and accepted range
	dv, derr := sock.GetOption(mangos.OptionTTL)
	verif.Assert(derr == nil, "C09/ttl/"+proto+"/get-default")
	if derr == nil {
		verif.Assert(dv.(int) == 8, "C09/ttl/"+proto+"/default-8")
	}
	t := verif.Int("ttl")
	if verif.Param("big", 0) == 1 {
		// the upper end of the range: concrete limits 254 and 255 against routes of 253..257 connections
		if proto == "xpair1" || proto == "pair1" || proto == "xstar" || proto == "star" {
			verif.Assume(false) // their hop word is fully symbolic in the main harness
		}
		t = 254 + verif.Choice("ttl-top", 2)
	}
	var pipeIDs []uint32
	sock.SetPipeEventHook(func(ev mangos.PipeEvent, p mangos.Pipe) {
		if ev == mangos.PipeEventAttached {
			pipeIDs = append(pipeIDs, p.ID())
		}
	})
	// the limit is set before anybody is connected, or on a socket whose peer is already attached (the limit in
	// force is the one set last, not the one a connection saw when it was made)
	var side *vt.Side
	var peer *vt.Pipe
	late := verif.Choice("ttl-set-after-connect", 2) == 1
	if late {
		side = vt.Listen(sock, "a")
		peer = side.Peer("p1")
		verif.Quiesce()
		verif.Reach("ttl-set-late")
	}
	err := sock.SetOption(mangos.OptionTTL, t)
	verif.Assert(verif.Iff(err == nil, verif.And(t >= 1, t <= 255)), "C09/ttl/"+proto+"/accepted-range-1..255")
	if err != nil {
		verif.Reach("ttl-rejected")
		return
	}
	if !late {
		side = vt.Listen(sock, "a")
		peer = side.Peer("p1")
	}
	hopWord := proto == "xpair1" || proto == "pair1" || proto == "xstar" || proto == "star"
	if hopWord {
		hopcount(proto, sock, peer, t)
		return
	}
	k := 1 + verif.Choice("k", K) // connections crossed: 1..K
	if verif.Param("big", 0) == 1 {
		k += 252 // 253..252+K: around the largest TTL
	}
	sentT := wire(proto, k, 'T')
	peer.Deliver(sentT)
	peer.Deliver(wire(proto, 1, 'S')) // in-limit sentinel
	var got *mangos.Message
	var rerr error
	g := verif.Go("recv", func() { got, rerr = sock.RecvMsg() })
	verif.Quiesce()
	verif.Assert(g.Done(), "C09/ttl/"+proto+"/recv-returns")
	if !g.Done() {
		return
	}
	verif.Assert(rerr == nil, "C09/ttl/"+proto+"/recv-ok")
	if rerr != nil {
		return
	}
	n := len(got.Body)
	verif.Assert(n >= 2, "C09/ttl/"+proto+"/payload-present")
	if n < 2 {
		return
	}
	delivered := got.Body[n-1] == 'T'
	limit := t
	if proto == "xpair1" || proto == "pair1" {
		limit = t + 1
	}
	if delivered {
		verif.Reach("delivered")
		verif.Assert(k <= limit, "C09/ttl/"+proto+"/delivered-beyond-limit")
		if (proto == "xrep" || proto == "xrespondent") && len(pipeIDs) == 1 {
			// raw mode hands the route on: the id of the arrival pipe, then every routing word as received - for a
			// route of any length (a device needs exactly this to send the reply back)
			h := got.Header
			id := pipeIDs[0]
			verif.Assert(len(h) == 4*(k+1), "C09/ttl/"+proto+"/raw-header-length")
			if len(h) == 4*(k+1) {
				verif.Assert(h[0] == byte(id>>24) && h[1] == byte(id>>16) && h[2] == byte(id>>8) && h[3] == byte(id), "C09/ttl/"+proto+"/raw-header-does-not-start-with-the-arrival-pipe-id")
				verif.Assert(verif.BytesEq(h[4:], sentT[:4*k]), "C09/ttl/"+proto+"/raw-header-routing-words-changed")
			}
		}
	} else {
		verif.Reach("dropped")
		verif.Assert(got.Body[n-1] == 'S', "C09/ttl/"+proto+"/sentinel-disturbed")
		verif.Assert(k > limit, "C09/ttl/"+proto+"/dropped-within-limit")
	}
	sock.Close()
}

// hopcount: PAIR1 and STAR keep the number of hops so far in a 32-bit header
// word, so the whole word is a solver variable: every hop count 0..2^32-1
// against every TTL 1..255 in one query (no enumeration of k). Delivered iff
// the word is at most TTL (PAIR1: one forwarder more than STAR, i.e. word <=
// ttl; STAR: word < ttl) and small enough to be incremented in its byte (a
// count of 255 is dropped whatever the TTL, otherwise the counter would wrap
// to 0 and a forwarding loop would never die out); the hop count handed on
// (raw mode) is the received one plus one.
func hopcount(proto string, sock mangos.Socket, peer *vt.Pipe, t int) {
	lab := "C09/ttl/" + proto
	w := verif.Bytes("hopword", 4)
	peer.Deliver([]byte{w[0], w[1], w[2], w[3], 'P', 'T'})
	peer.Deliver([]byte{0, 0, 0, 0, 'P', 'S'}) // in-limit sentinel
	var got *mangos.Message
	var rerr error
	g := verif.Go("recv", func() { got, rerr = sock.RecvMsg() })
	verif.Quiesce()
	verif.Assert(g.Done(), lab+"/recv-returns")
	if !g.Done() {
		return
	}
	verif.Assert(rerr == nil, lab+"/recv-ok")
	if rerr != nil {
		return
	}
	n := len(got.Body)
	verif.Assert(n >= 2, lab+"/payload-present")
	if n < 2 {
		return
	}
	hops := int(w[0])<<24 | int(w[1])<<16 | int(w[2])<<8 | int(w[3])
	var within bool
	if proto == "xpair1" || proto == "pair1" {
		within = verif.And(hops <= t, hops < 255)
	} else {
		within = hops < t
	}
	if got.Body[n-1] == 'T' {
		verif.Reach("delivered")
		verif.Assert(within, lab+"/delivered-beyond-limit")
		if proto == "xpair1" || proto == "xstar" {
			verif.Assert(len(got.Header) == 4 && got.Header[0] == 0 && got.Header[1] == 0 && got.Header[2] == 0 && int(got.Header[3]) == hops+1, lab+"/hop-count-not-incremented-by-one")
		}
	} else {
		verif.Reach("dropped")
		verif.Assert(got.Body[n-1] == 'S', lab+"/sentinel-disturbed")
		verif.Assert(!within, lab+"/dropped-within-limit")
	}
	sock.Close()
}
