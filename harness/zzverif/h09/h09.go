// Package h09: hop limit (C09).
package h09

import (
	"go.nanomsg.org/mangos/v3"
	"go.nanomsg.org/mangos/v3/zzverif/verif"
	"go.nanomsg.org/mangos/v3/zzverif/vp"
	"go.nanomsg.org/mangos/v3/zzverif/vt"
)

var protos = []string{"rep", "xrep", "respondent", "xrespondent", "xpair1", "pair1", "xstar", "star"}

// wire builds a message that has crossed k connections for the given receiver.
func wire(proto string, k int, tag byte) []byte {
	var b []byte
	switch proto {
	case "rep", "xrep", "respondent", "xrespondent":
		for i := 0; i < k-1; i++ {
			w := verif.Bytes("hop", 4)
			verif.Assume(w[0]&0x80 == 0)
			b = append(b, w...)
		}
		id := verif.Bytes("id", 4)
		verif.Assume(id[0]&0x80 != 0)
		b = append(b, id...)
	default: // pair1 / star: 4-byte header whose last byte counts hops so far
		b = append(b, 0, 0, 0, byte(k-1))
	}
	return append(b, 'P', tag)
}

func VH09a_ttl() {
	K := verif.Param("K", 10)
	proto := protos[verif.Choice("proto", len(protos))]
	if only := verif.Param("only", -1); only >= 0 {
		proto = protos[only]
	}
	sock := vp.New(proto)
	// default and accepted range
	dv, derr := sock.GetOption(mangos.OptionTTL)
	verif.Assert(derr == nil, "C09/ttl/"+proto+"/get-default")
	if derr == nil {
		verif.Assert(dv.(int) == 8, "C09/ttl/"+proto+"/default-8")
	}
	t := verif.Int("ttl")
	err := sock.SetOption(mangos.OptionTTL, t)
	verif.Assert(verif.Iff(err == nil, verif.And(t >= 1, t <= 255)), "C09/ttl/"+proto+"/accepted-range-1..255")
	if err != nil {
		verif.Reach("ttl-rejected")
		return
	}
	side := vt.Listen(sock, "a")
	peer := side.Peer("p1")
	k := 1 + verif.Choice("k", K) // connections crossed: 1..K
	peer.Deliver(wire(proto, k, 'T'))
	peer.Deliver(wire(proto, 1, 'S')) // in-limit sentinel
	var got *mangos.Message
	var rerr error
	g := verif.Go("recv", func() { got, rerr = sock.RecvMsg() })
	verif.Quiesce()
	verif.Assert(g.Done(), "C09/ttl/"+proto+"/recv-returns")
	if !g.Done() {
		return
	}
	verif.Assert(rerr == nil, "C09/ttl/"+proto+"/recv-ok")
	if rerr != nil {
		return
	}
	n := len(got.Body)
	verif.Assert(n >= 2, "C09/ttl/"+proto+"/payload-present")
	if n < 2 {
		return
	}
	delivered := got.Body[n-1] == 'T'
	limit := t
	if proto == "xpair1" || proto == "pair1" {
		limit = t + 1
	}
	if delivered {
		verif.Reach("delivered")
		verif.Assert(k <= limit, "C09/ttl/"+proto+"/delivered-beyond-limit")
	} else {
		verif.Reach("dropped")
		verif.Assert(got.Body[n-1] == 'S', "C09/ttl/"+proto+"/sentinel-disturbed")
		verif.Assert(k > limit, "C09/ttl/"+proto+"/dropped-within-limit")
	}
	sock.Close()
}
