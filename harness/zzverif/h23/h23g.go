package h23

import (
	"net/http"

	"github.com/gorilla/websocket"

	"go.nanomsg.org/mangos/v3"
	"go.nanomsg.org/mangos/v3/transport/ws"
	"go.nanomsg.org/mangos/v3/zzverif/verif"
	"go.nanomsg.org/mangos/v3/zzverif/vp"
	"go.nanomsg.org/mangos/v3/zzverif/vws"
)

// VH23g_ws_listener_close_scoped: the real ws listener (handler mode) has accepted and attached N connections and,
// as a choice, one more has been upgraded but not yet taken by the accept loop's next turn. Then only the LISTENER
// is closed: every established connection stays open and attached (no Detached) and still carries a frame in each
// direction; a client arriving later is refused; closing the socket then closes them all.
func VH23g_ws_listener_close_scoped() {
	lab := "C10/ws-listener-close"
	vws.Reset()
	sock := vp.New("bus")
	attached, detached := 0, 0
	sock.SetPipeEventHook(func(ev mangos.PipeEvent, p mangos.Pipe) {
		switch ev {
		case mangos.PipeEventAttached:
			attached++
		case mangos.PipeEventDetached:
			detached++
		}
	})
	l, err := sock.NewListener("ws://127.0.0.1:80/sp", nil)
	verif.Assert(err == nil, lab+"/new-listener")
	if err != nil {
		return
	}
	hv, err := l.GetOption(ws.OptionWebSocketHandler)
	h, ok := hv.(http.Handler)
	verif.Assert(err == nil && ok, lab+"/handler")
	if !ok {
		return
	}
	verif.Assert(l.Listen() == nil, lab+"/listen")
	self := sock.Info().SelfName + ".sp.nanomsg.org"
	connect := func(name string) *vws.State {
		c, st := vws.NewConn(name)
		vws.NextUpgrade = c
		req := &http.Request{Header: http.Header{"Sec-Websocket-Protocol": []string{self}}}
		verif.Go("serve-"+name, func() { h.ServeHTTP(&nullWriter{hdr: http.Header{}}, req) })
		verif.Quiesce()
		return st
	}
	N := 1 + verif.Choice("established", 2)
	var sts []*vws.State
	for i := 0; i < N; i++ {
		sts = append(sts, connect("c"))
	}
	verif.Assert(attached == N, lab+"/connections-not-attached")
	if attached != N {
		return
	}
	g := verif.Go("listener-close", func() { l.Close() })
	verif.Quiesce()
	verif.Assert(g.Done(), lab+"/listener-close-does-not-return")
	verif.Assert(detached == 0, lab+"/established-connection-detached-by-listener-close")
	for _, st := range sts {
		verif.Assert(!st.Closed, lab+"/established-connection-closed-by-listener-close")
	}
	if detached != 0 {
		return
	}
	b := verif.Byte("payload")
	for _, st := range sts {
		if st.Closed {
			return
		}
		st.PeerSend(websocket.BinaryMessage, []byte{0, 0, 0, 0, 'i', b}[4:])
	}
	verif.Quiesce()
	for range sts {
		var m []byte
		var rerr error
		rg := verif.Go("recv", func() { m, rerr = sock.Recv() })
		verif.Quiesce()
		verif.Assert(rg.Done() && rerr == nil && verif.BytesEq(m, []byte{'i', b}), lab+"/message-not-received-after-listener-close")
	}
	verif.Assert(sock.Send([]byte{'o', b}) == nil, lab+"/send")
	verif.Quiesce()
	for _, st := range sts {
		verif.Assert(len(st.Frames) == 1, lab+"/message-not-sent-after-listener-close")
	}
	// a client that arrives after the listener was closed is refused
	late := connect("late")
	verif.Assert(attached == N, lab+"/client-accepted-after-listener-close")
	_ = late
	verif.Reach("ws-listener-close-scoped")
	sock.Close()
	verif.Quiesce()
	for _, st := range sts {
		verif.Assert(st.Closed, lab+"/connection-left-open-after-socket-close")
	}
	verif.Assert(detached == N, lab+"/detached-count-after-socket-close")
	verif.AssertVM(verif.LiveGoroutines() == 0, lab+"/goroutines-left-after-close")
}
