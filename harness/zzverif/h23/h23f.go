package h23

import (
	"github.com/gorilla/websocket"

	"go.nanomsg.org/mangos/v3"
	"go.nanomsg.org/mangos/v3/internal/core"
	"go.nanomsg.org/mangos/v3/zzverif/verif"
	"go.nanomsg.org/mangos/v3/zzverif/vp"
	"go.nanomsg.org/mangos/v3/zzverif/vws"
)

// VH23f_ws_close_slow_peer: the WebSocket peer is slow rather than gone - it stays connected but has stopped
// reading, so a frame the protocol is writing does not complete (the write holds the connection's write lock, as
// in gorilla). Then the socket, or only that pipe, is closed. Close returns; the stalled write fails; the
// connection is closed; no goroutine, pipe id or tracked pipe is left (C10) - whatever Close does on the way
// (a farewell frame, say) must not wait for the writer that Close itself is about to release.
func VH23f_ws_close_slow_peer() {
	lab := "C10/ws-slow-peer"
	vws.Reset()
	protos := []string{"pair", "push", "pub", "req", "bus"}
	proto := protos[verif.Choice("proto", len(protos))]
	lab += "/" + proto
	sock := vp.New(proto)
	var st *vws.State
	vws.DialOutcome = func(url string, offered []string) (*websocket.Conn, error) {
		c, s := vws.NewConn("d")
		st = s
		return c, nil
	}
	var pipe mangos.Pipe
	sock.SetPipeEventHook(func(ev mangos.PipeEvent, p mangos.Pipe) {
		if ev == mangos.PipeEventAttached {
			pipe = p
		}
	})
	verif.Assert(sock.Dial("ws://127.0.0.1:80/sp") == nil, lab+"/dial")
	verif.Quiesce()
	if st == nil || pipe == nil {
		verif.Fail(lab + "/no-connection")
		return
	}
	stalled := verif.Choice("peer-stopped-reading", 2) == 1
	st.WriteStall = stalled
	for i := 0; i < 2; i++ {
		g := verif.Go("send", func() { sock.Send([]byte{'m', byte('0' + i)}) })
		verif.Quiesce()
		_ = g
	}
	if stalled {
		verif.Assert(len(st.Frames) == 0, lab+"/frame-written-although-the-peer-does-not-read")
		verif.Reach("ws-writer-stalled")
	}
	closePipe := verif.Choice("close-the-pipe-first", 2) == 1
	if closePipe {
		g := verif.Go("pipe-close", func() { pipe.Close() })
		verif.Quiesce()
		verif.Assert(g.Done(), lab+"/pipe-close-does-not-return")
		verif.Assert(st.Closed, lab+"/connection-left-open-after-pipe-close")
	}
	cg := verif.Go("close", func() { sock.Close() })
	verif.Quiesce()
	verif.Assert(cg.Done(), lab+"/close-does-not-return")
	verif.Assert(st.Closed, lab+"/connection-left-open-after-close")
	for i := 0; i < 4 && verif.PendingTimers() > 0; i++ {
		verif.FireTimer()
	}
	verif.Quiesce()
	verif.AssertVM(verif.LiveGoroutines() == 0, lab+"/goroutines-left-after-close")
	verif.AssertVM(core.ZZIDsInUse() == 0, lab+"/pipe-ids-left-after-close")
	verif.AssertVM(core.ZZSocketPipes(sock) == 0, lab+"/socket-still-tracks-pipes")
	verif.Reach("ws-slow-peer-checked")
}
