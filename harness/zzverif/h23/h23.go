// Package h23: the WebSocket transport (transport/ws) on top of the vws stub:
// subprotocol negotiation and one binary frame per message (C15), frames
// byte-identical (C01), read limit applied on both sides (C16), option contract
// of the ws dialer/listener (C19).
package h23

import (
	"strings"
	"crypto/tls"
	"net/http"

	"github.com/gorilla/websocket"

	"go.nanomsg.org/mangos/v3"
	"go.nanomsg.org/mangos/v3/transport/ws"
	_ "go.nanomsg.org/mangos/v3/transport/wss"
	"go.nanomsg.org/mangos/v3/zzverif/verif"
	"go.nanomsg.org/mangos/v3/zzverif/vnet"
	"go.nanomsg.org/mangos/v3/zzverif/vp"
	"go.nanomsg.org/mangos/v3/zzverif/vws"
)

type nullWriter struct{ hdr http.Header }

func (w *nullWriter) Header() http.Header         { return w.hdr }
func (w *nullWriter) Write(b []byte) (int, error) { return len(b), nil }
func (w *nullWriter) WriteHeader(int)             {}

// VH23a_dialer: mangos dials: offers '<peer-name>.sp.nanomsg.org', applies the
// receive limit, sends each message as one binary frame = header||body, and
// delivers a received frame unchanged.
func VH23a_dialer() {
	lab := "C15/ws-dialer"
	vws.Reset()
	protos := []string{"pair", "req", "sub", "bus", "xpair"}
	proto := protos[verif.Choice("proto", len(protos))]
	sock := vp.New(proto)
	if proto == "sub" {
		sock.SetOption(mangos.OptionSubscribe, []byte{})
	}
	maxrx := verif.Int("maxrx")
	verif.Assume(verif.And(maxrx >= 0, maxrx <= 1<<20))
	verif.Assert(sock.SetOption(mangos.OptionMaxRecvSize, maxrx) == nil, lab+"/set-maxrx")
	var st *vws.State
	var offers [][]string // what every connection attempt of this dialer offered
	refuse := false
	vws.DialOutcome = func(url string, offered []string) (*websocket.Conn, error) {
		offers = append(offers, append([]string{}, offered...))
		if refuse {
			refuse = false
			return nil, vws.ErrClosed
		}
		c, s := vws.NewConn("d")
		st = s
		return c, nil
	}
	verif.Assert(sock.Dial("ws://127.0.0.1:80/sp") == nil, lab+"/dial")
	verif.Quiesce()
	if st == nil {
		verif.Fail(lab + "/no-connection-attempt")
		return
	}
	want := sock.Info().PeerName + ".sp.nanomsg.org"
	verif.Assert(len(st.Offered) == 1 && st.Offered[0] == want, lab+"/subprotocol-offered")
	verif.Assert(st.LimitSet && st.ReadLimit == int64(maxrx), "C16/ws-dialer/read-limit-not-applied")
	// outbound, raw socket: the protocol header is the application's, of any length incl. 0, and so is the body
	if proto == "xpair" {
		hdr := verif.Bytes("hdr", verif.Choice("hlen", 3))
		body := verif.Bytes("rawbody", verif.Choice("blen", 3))
		m := mangos.NewMessage(0)
		m.Header = append(m.Header, hdr...)
		m.Body = append(m.Body, body...)
		verif.Assert(sock.SendMsg(m) == nil, lab+"/send-raw")
		verif.Quiesce()
		verif.Assert(len(st.Frames) == 1, lab+"/not-exactly-one-frame-per-message")
		if len(st.Frames) == 1 {
			f := st.Frames[0]
			verif.Assert(f.Type == websocket.BinaryMessage, lab+"/frame-not-binary")
			want := append(append([]byte{}, hdr...), body...)
			verif.Assert(verif.BytesEq(f.Data, want), "C15/ws/frame-is-not-header-then-body")
		}
		verif.Reach("sent-raw")
	} else if proto == "req" {
		// cooked REQ: 4-byte request id (top bit set) then the body, also when the body is empty
		body := verif.Bytes("body", verif.Choice("blen", 3))
		verif.Assert(sock.Send(body) == nil, lab+"/send")
		verif.Quiesce()
		verif.Assert(len(st.Frames) == 1, lab+"/not-exactly-one-frame-per-message")
		if len(st.Frames) == 1 {
			f := st.Frames[0]
			verif.Assert(len(f.Data) == 4+len(body) && f.Data[0]&0x80 != 0 && verif.BytesEq(f.Data[4:], body), "C15/ws/frame-is-not-header-then-body")
		}
		verif.Reach("sent")
	} else if proto != "sub" {
		body := verif.Bytes("body", verif.Choice("blen", 3))
		verif.Assert(sock.Send(body) == nil, lab+"/send")
		verif.Quiesce()
		verif.Assert(len(st.Frames) == 1, lab+"/not-exactly-one-frame-per-message")
		if len(st.Frames) == 1 {
			f := st.Frames[0]
			verif.Assert(f.Type == websocket.BinaryMessage, lab+"/frame-not-binary")
			n := len(f.Data)
			verif.Assert(n >= len(body) && verif.BytesEq(f.Data[n-len(body):], body), "C01/ws/frame-does-not-end-with-the-body")
			if proto == "pair" || proto == "bus" {
				hl := n - len(body)
				verif.Assert(hl == 0 || hl == 4, "C01/ws/unexpected-header-length")
			}
		}
		verif.Reach("sent")
	}
	// inbound
	if proto == "pair" || proto == "sub" || proto == "bus" || proto == "xpair" {
		in := verif.Bytes("in", verif.Choice("ilen", 3)) // 0, 1 or 2 bytes: an empty frame is a message too
		wire := in
		st.PeerSend(websocket.BinaryMessage, wire)
		var got []byte
		var err error
		g := verif.Go("recv", func() { got, err = sock.Recv() })
		verif.Quiesce()
		inLimit := maxrx == 0 || len(wire) <= maxrx
		if inLimit {
			verif.Assert(g.Done() && err == nil, "C01/ws/in-limit-frame-not-delivered")
			if g.Done() && err == nil {
				verif.Assert(verif.BytesEq(got, in) || (proto == "bus" && verif.BytesEq(got, in)), "C01/ws/frame-changed")
			}
			verif.Reach("received")
		} else {
			verif.Assert(!g.Done(), "C16/ws/over-limit-frame-delivered")
			verif.Assert(st.Closed, "C16/ws/connection-not-dropped-for-over-limit-frame")
			verif.Reach("over-limit")
		}
	}
	// the dialer is used again: the peer goes away, one attempt is refused (or not), the next one connects - every
	// attempt makes the same offer as the first
	first := st
	refuse = verif.Choice("redial-refused-once", 2) == 1
	first.PeerClose()
	verif.Quiesce()
	for i := 0; i < 4 && (st == first || refuse); i++ {
		verif.FireTimer()
		verif.Quiesce()
	}
	verif.Assert(st != first, "C14/ws/no-reconnect-after-the-peer-went-away")
	for _, o := range offers {
		verif.Assert(len(o) == 1 && o[0] == want, lab+"/subprotocol-offered-on-a-later-attempt")
	}
	if st != first {
		verif.Assert(st.LimitSet && st.ReadLimit == int64(maxrx), "C16/ws-dialer/read-limit-not-applied-on-reconnect")
		verif.Reach("reconnected")
	}
	sock.Close()
	verif.Quiesce()
	verif.Assert(st.Closed, "C10/ws/connection-left-open-after-close")
}

// VH23b_listener: mangos listens (embedded-handler mode, no network): the
// HTTP upgrade is accepted iff the client offers '<self-name>.sp.nanomsg.org'.
func VH23b_listener() {
	lab := "C15/ws-listener"
	vws.Reset()
	// a symmetric pattern and two asymmetric ones (own name and peer name differ)
	sock := vp.New([]string{"pair", "rep", "pub"}[verif.Choice("proto", 3)])
	maxrx := verif.Int("maxrx")
	verif.Assume(verif.And(maxrx >= 0, maxrx <= 1<<20))
	l, err := sock.NewListener("ws://127.0.0.1:80/sp", map[string]interface{}{mangos.OptionMaxRecvSize: maxrx})
	verif.Assert(err == nil, lab+"/new-listener")
	if err != nil {
		return
	}
	hv, err := l.GetOption(ws.OptionWebSocketHandler)
	verif.Assert(err == nil, lab+"/handler-option")
	h, ok := hv.(http.Handler)
	verif.Assert(ok, lab+"/handler-type")
	if !ok {
		return
	}
	// the origin check may be configured on the listener, before or after it starts, to either value
	// 0: untouched, 1: false before Listen, 2: true before Listen, 3: false after Listen, 4: false then true
	// before Listen, 5: false before and true after Listen
	co := verif.Choice("check-origin", 6)
	checks := true // the default: foreign origins are refused
	setCO := func(v bool) {
		verif.Assert(l.SetOption(ws.OptionWebSocketCheckOrigin, v) == nil, "C19/ws-listener/set-check-origin")
		checks = v
	}
	switch co {
	case 1, 5:
		setCO(false)
	case 2:
		setCO(true)
	case 4:
		setCO(false)
		setCO(true)
	}
	// the client may get through the application's HTTP server before Listen is called on the mangos listener
	// (the handler is mounted already): its connection waits and is accepted once Listen has been called
	early := (co == 0 || co == 1 || co == 2 || co == 4) && verif.Choice("upgrade-before-listen", 2) == 1
	if early {
		verif.Reach("upgraded-before-listen")
	}
	listenNow := func() {
		verif.Assert(l.Listen() == nil, lab+"/listen")
	}
	if !early {
		listenNow()
	}
	switch co {
	case 3:
		setCO(false)
	case 5:
		setCO(true)
	}
	if gv, gerr := l.GetOption(ws.OptionWebSocketCheckOrigin); gerr == nil {
		verif.Assert(gv == interface{}(checks), "C19/ws-listener/get-check-origin-returns-set-value")
	}
	self := sock.Info().SelfName + ".sp.nanomsg.org"
	offers := [][]string{{self}, {"other.sp.nanomsg.org"}, {}, {"x", self}, {sock.Info().SelfName + ".sp.nanomsg.orgx"}, {"rep.sp.nanomsg.org"},
		// names that only share a prefix / suffix with the listener's own (pair vs pair1): not a match
		{sock.Info().SelfName + "1.sp.nanomsg.org"}, {"x" + self}}
	oi := verif.Choice("offer", len(offers))
	offer := offers[oi]
	hdr := http.Header{}
	if len(offer) > 0 {
		line := offer[0]
		for _, o := range offer[1:] {
			line += ", " + o
		}
		hdr["Sec-Websocket-Protocol"] = []string{line}
	}
	c, st := vws.NewConn("a")
	vws.NextUpgrade = c
	// the application's own HTTP server may well be an HTTPS server although the listener's address says ws://:
	// what the accepted pipe reports about TLS follows the request that carried the connection
	overTLS := verif.Choice("request-came-over-tls", 2) == 1
	req := &http.Request{Header: hdr}
	if overTLS {
		req.TLS = &tls.ConnectionState{}
	}
	var attached mangos.Pipe
	sock.SetPipeEventHook(func(ev mangos.PipeEvent, p mangos.Pipe) {
		if ev == mangos.PipeEventAttached {
			attached = p
		}
	})
	verif.Go("serve", func() { h.ServeHTTP(&nullWriter{hdr: http.Header{}}, req) })
	verif.Quiesce()
	if early {
		listenNow()
		verif.Quiesce()
	}
	offered := false
	for _, o := range offer {
		if o == self {
			offered = true
		}
	}
	if offered {
		verif.Assert(vws.Upgrades == 1, lab+"/matching-subprotocol-refused")
		// the server's answer must name the SP subprotocol: an independent client checks what was negotiated
		named := false
		for _, sp := range vws.UpgradeSubprotocols {
			if sp == self {
				named = true
			}
		}
		verif.Assert(named, lab+"/handshake-answer-does-not-name-the-sp-subprotocol")
		// the origin check in force is the one last set
		verif.Assert(vws.UpgradeAllowsForeignOrigin == !checks, "C19/ws-listener/origin-check-setting-not-in-force")
		verif.Assert(st.LimitSet && st.ReadLimit == int64(maxrx), "C16/ws-listener/read-limit-not-applied")
		verif.Reach("accepted")
		verif.Assert(attached != nil, lab+"/accepted-connection-never-attached")
		if attached != nil {
			_, terr := attached.GetOption(mangos.OptionTLSConnState)
			verif.Assert((terr == nil) == overTLS, "C13/ws-listener/pipe-tls-state-does-not-follow-the-request")
			_, aerr := attached.GetOption(mangos.OptionRemoteAddr)
			verif.Assert(aerr == nil, "C13/ws-listener/pipe-has-no-remote-address")
		}
		// traffic: one binary frame per message
		if sock.Info().SelfName == "pair" {
			body := verif.Bytes("body", 2)
			verif.Assert(sock.Send(body) == nil, lab+"/send")
			verif.Quiesce()
			verif.Assert(len(st.Frames) == 1 && st.Frames[0].Type == websocket.BinaryMessage && verif.BytesEq(st.Frames[0].Data, body), lab+"/frame")
		}
	} else {
		verif.Assert(vws.Upgrades == 0, lab+"/connection-without-the-sp-subprotocol-accepted")
		verif.Assert(len(vws.HTTPErrors) == 1 && vws.HTTPErrors[0].Code == http.StatusBadRequest, lab+"/no-bad-request-answer")
		verif.Reach("refused")
	}
	sock.Close()
	verif.Quiesce()
	// a listener mounted in the application's own HTTP server (handler mode) is closed like any other: its accept
	// loop ends, the connection it accepted is closed
	verif.Assert(verif.LiveGoroutines() == 0, "C10/ws-listener/goroutines-left-after-close")
	if offered {
		verif.Assert(st.Closed, "C10/ws-listener/connection-left-open-after-close")
	}
}

// VH23c_options: option contract of the ws dialer and listener.
func VH23c_options() {
	lab := "C19/ws"
	vws.Reset()
	sock := vp.New("pair")
	type obj interface {
		SetOption(string, interface{}) error
		GetOption(string) (interface{}, error)
	}
	var o obj
	where := "dialer"
	if verif.Choice("obj", 2) == 0 {
		d, err := sock.NewDialer("ws://127.0.0.1:80/x", nil)
		verif.Assert(err == nil, lab+"/new-dialer")
		o = d
	} else {
		l, err := sock.NewListener("ws://127.0.0.1:80/x", nil)
		verif.Assert(err == nil, lab+"/new-listener")
		o = l
		where = "listener"
	}
	lab += "/" + where
	names := []string{mangos.OptionMaxRecvSize, mangos.OptionNoDelay, ws.OptionWebSocketCheckOrigin, mangos.OptionTLSConfig, "NO-SUCH-OPTION", mangos.OptionReadQLen}
	name := names[verif.Choice("opt", len(names))]
	var val interface{}
	vt := verif.Choice("vtype", 4)
	switch vt {
	case 0:
		val = verif.Int("v")
	case 1:
		val = verif.Bool("b")
	case 2:
		val = "str"
	case 3:
		val = nil
	}
	err := o.SetOption(name, val)
	l2 := lab + "/" + name
	verif.Assert(err == nil || err == mangos.ErrBadOption || err == mangos.ErrBadValue, l2+"/set-error-kind")
	switch name {
	case "NO-SUCH-OPTION", mangos.OptionReadQLen:
		verif.Assert(err == mangos.ErrBadOption, l2+"/unknown-option-accepted")
	case mangos.OptionMaxRecvSize:
		if vt == 0 {
			verif.Assert(err == nil || err == mangos.ErrBadValue, l2+"/int-rejected-as-bad-option")
			if err == nil {
				g, gerr := o.GetOption(name)
				verif.Assert(gerr == nil && g.(int) == val.(int), l2+"/get-returns-set-value")
			}
		} else {
			verif.Assert(err == mangos.ErrBadValue, l2+"/wrong-type-accepted")
		}
	case mangos.OptionNoDelay, ws.OptionWebSocketCheckOrigin:
		if vt == 1 {
			verif.Assert(err == nil, l2+"/bool-rejected")
		} else {
			verif.Assert(err == mangos.ErrBadValue, l2+"/wrong-type-accepted")
		}
	case mangos.OptionTLSConfig:
		verif.Assert(err == mangos.ErrBadValue, l2+"/wrong-type-accepted")
	}
	verif.Reach("ws-options")
	sock.Close()
}

// VH23d_netlisten: the ws / wss listener in network mode (net.ListenTCP and,
// for wss, tls.NewListener on the harness network; the HTTP server's accept
// loop is a stub): configuration errors are reported with the designated
// error, bind nothing and leave the listener usable; Listen succeeds after
// the correction; an address in use is refused and accepted once free; Close
// releases the address and leaves no goroutine (C12, C10, C19).
func VH23d_netlisten() {
	lab := "C12/ws-listen"
	vws.Reset()
	vnet.Install()
	wss := verif.Param("wss", 0) == 1
	url := "ws://127.0.0.1:8080/sp"
	if wss {
		url = "wss://127.0.0.1:8080/sp"
	}
	sock := vp.New("pair")
	scenario := verif.Choice("scenario", 4)
	// port 0 ("any free port"): what the listener reports as its address afterwards is the port it was given
	want := url
	if scenario == 0 && verif.Choice("port-0", 2) == 1 {
		want = strings.Replace(url, ":8080", ":49152", 1)
		url = strings.Replace(url, ":8080", ":0", 1)
		verif.Reach("ws-port-0")
	}
	l, err := sock.NewListener(url, nil)
	verif.Assert(err == nil, lab+"/new-listener")
	if err != nil {
		return
	}
	good := &tls.Config{Certificates: []tls.Certificate{{}}}
	if !wss && (scenario == 1 || scenario == 2) {
		verif.Assume(false)
	}
	var blocker mangos.Socket
	switch scenario {
	case 0: // nothing wrong
		if wss {
			verif.Assert(l.SetOption(mangos.OptionTLSConfig, good) == nil, lab+"/set-config")
		}
	case 1: // wss without configuration
		e := l.Listen()
		verif.Assert(e == mangos.ErrTLSNoConfig, lab+"/listen-without-config-error-kind")
	case 2: // wss with a configuration that has no certificate
		verif.Assert(l.SetOption(mangos.OptionTLSConfig, &tls.Config{}) == nil, lab+"/set-empty-config")
		e := l.Listen()
		verif.Assert(e == mangos.ErrTLSNoCert, lab+"/listen-without-certificate-error-kind")
	case 3: // address in use
		if wss {
			verif.Assert(l.SetOption(mangos.OptionTLSConfig, good) == nil, lab+"/set-config")
		}
		blocker = vp.New("pair")
		opts := map[string]interface{}{}
		if wss {
			opts[mangos.OptionTLSConfig] = good
		}
		verif.Assert(blocker.ListenOptions(url, opts) == nil, lab+"/blocker")
		e := l.Listen()
		verif.Assert(e != nil, lab+"/listen-on-busy-address-succeeded")
	}
	if scenario != 0 {
		verif.Assert(len(vnet.N.Listeners) == func() int {
			if blocker != nil {
				return 1
			}
			return 0
		}(), lab+"/listening-although-listen-failed")
		g := verif.Go("poke", func() {
			l.GetOption(mangos.OptionMaxRecvSize)
			l.SetOption(mangos.OptionMaxRecvSize, 100)
			l.GetOption(mangos.OptionTLSConfig)
			l.Address()
		})
		verif.Quiesce()
		verif.Assert(g.Done(), lab+"/listener-wedged-after-failed-listen")
		if blocker != nil {
			verif.Assert(blocker.Close() == nil, lab+"/blocker-close")
			verif.Quiesce()
			verif.Assert(len(vnet.N.Listeners) == 0, "C10/ws/listening-address-left-after-close")
		}
		if wss {
			verif.Assert(l.SetOption(mangos.OptionTLSConfig, good) == nil, lab+"/set-config-after-failed-listen")
		}
	}
	e2 := l.Listen()
	verif.Assert(e2 == nil, lab+"/listen-refused-although-nothing-is-wrong")
	verif.Quiesce()
	if e2 == nil {
		verif.Assert(len(vnet.N.Listeners) == 1, lab+"/not-listening-after-listen")
		verif.Assert(l.Address() == want, "C13/ws/listener-address")
		verif.Reach("listening")
	}
	verif.Assert(sock.Close() == nil, "C10/ws/close")
	verif.Quiesce()
	verif.Assert(len(vnet.N.Listeners) == 0, "C10/ws/listening-address-left-after-close")
	verif.Assert(verif.LiveGoroutines() == 0, "C10/ws/goroutines-left-after-close")
	verif.Reach("closed")
}

// VH23e_fanout: one message goes out to two WebSocket peers at once (the patterns that broadcast hand every
// connection's sender goroutine a reference to the same message), while the caller keeps a reference of its own.
// Under the happens-before race detector: the two concurrent wsPipe.Send calls do not write to anything they share;
// each peer gets exactly one binary frame = header || body; what the caller's reference shows - header, body and the
// spare capacity behind them - is unchanged afterwards.
func VH23e_fanout() {
	lab := "C11/ws-fanout"
	vws.Reset()
	protos := []string{"xsurveyor", "xstar", "xbus", "xpub", "surveyor", "star", "bus", "pub"}
	proto := protos[verif.Choice("proto", len(protos))]
	lab += "/" + proto
	sock := vp.New(proto)
	var sts []*vws.State
	vws.DialOutcome = func(url string, offered []string) (*websocket.Conn, error) {
		c, s := vws.NewConn("d")
		sts = append(sts, s)
		return c, nil
	}
	verif.Assert(sock.Dial("ws://127.0.0.1:80/a") == nil, lab+"/dial-a")
	verif.Assert(sock.Dial("ws://127.0.0.1:81/b") == nil, lab+"/dial-b")
	verif.Quiesce()
	if len(sts) != 2 {
		verif.Fail(lab + "/two-connections")
		return
	}
	bl := verif.Choice("blen", 3) // 0, 1, 2 body bytes: header + body fit into the message's inline header buffer
	body := verif.Bytes("body", bl)
	m := mangos.NewMessage(0)
	m.Body = append(m.Body, body...)
	switch proto {
	case "xsurveyor":
		m.Header = append(m.Header, 0x80, 0, 0, 1)
	case "xstar", "xbus":
		m.Header = append(m.Header, 0, 0, 0, 0)
	}
	m.Clone() // the caller's own reference
	held := m
	hcap := append([]byte{}, m.Header[:cap(m.Header)]...)
	bcopy := append([]byte{}, m.Body...)
	hlen := len(m.Header)
	verif.Assert(sock.SendMsg(m) == nil, lab+"/send")
	verif.Quiesce()
	for i, st := range sts {
		verif.Assert(len(st.Frames) == 1, lab+"/not-exactly-one-frame-per-peer")
		if len(st.Frames) == 1 {
			f := st.Frames[0].Data
			verif.Assert(len(f) >= bl && verif.BytesEq(f[len(f)-bl:], body), lab+"/frame-does-not-end-with-the-body")
			if proto == "xbus" {
				// raw BUS uses the header only to name the connection to skip; nothing of it goes on the wire
				verif.Assert(len(f) == bl, lab+"/raw-frame-length")
			} else if proto[0] == 'x' {
				verif.Assert(len(f) == hlen+bl, lab+"/raw-frame-length")
			}
		}
		_ = i
	}
	// the reference the caller kept
	verif.Assert(len(held.Body) == bl && verif.BytesEq(held.Body, bcopy), lab+"/held-body-changed")
	if proto[0] == 'x' {
		verif.Assert(len(held.Header) == hlen, lab+"/held-header-length-changed")
		verif.Assert(verif.BytesEq(held.Header[:cap(held.Header)][:len(hcap)], hcap), lab+"/bytes-behind-the-held-header-changed")
	}
	held.Free()
	verif.Reach("fanout-checked")
	sock.Close()
	verif.Quiesce()
}
