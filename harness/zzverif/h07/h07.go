// Package h07: SURVEYOR (C07).
package h07

import (
	"time"

	"go.nanomsg.org/mangos/v3"
	"go.nanomsg.org/mangos/v3/protocol"
	"go.nanomsg.org/mangos/v3/protocol/req"
	"go.nanomsg.org/mangos/v3/protocol/surveyor"
	"go.nanomsg.org/mangos/v3/zzverif/verif"
	"go.nanomsg.org/mangos/v3/zzverif/vp"
	"go.nanomsg.org/mangos/v3/zzverif/vt"
)

type sv struct {
	name    string
	c       mangos.Context
	sock    mangos.Socket
	cur     uint32
	active  bool // a survey is in progress (not expired, not replaced, not closed)
	ever    bool
	start   time.Duration
	seq     int // start order
	queue   []byte // tags of responses accepted for the current survey, FIFO
	stale   []uint32
	closed  bool
	rg      *verif.G
	rmsg    *mangos.Message
	rerr    error
	rActive bool
	rSeq    int
}

func (s *sv) send(b []byte) error {
	if s.c != nil {
		return s.c.Send(b)
	}
	return s.sock.Send(b)
}
func (s *sv) recvMsg() (*mangos.Message, error) {
	if s.c != nil {
		return s.c.RecvMsg()
	}
	return s.sock.RecvMsg()
}

func be32(b []byte) uint32 {
	return uint32(b[0])<<24 | uint32(b[1])<<16 | uint32(b[2])<<8 | uint32(b[3])
}

func VH07a_history() {
	E := verif.Param("E", 4)
	lab := "C07/surveyor"
	sock := vp.New("surveyor")
	T := verif.Duration("survey-time")
	verif.Assume(verif.And(T >= 1, T <= time.Hour))
	verif.Assert(sock.SetOption(mangos.OptionSurveyTime, T) == nil, lab+"/set-survey-time")
	side := vt.Listen(sock, "a")
	pipes := []*vt.Pipe{side.Peer("r0"), side.Peer("r1")}
	c1, err := sock.OpenContext()
	verif.Assert(err == nil, lab+"/open-context")
	verif.Assert(c1.SetOption(mangos.OptionSurveyTime, T) == nil, lab+"/set-survey-time-ctx")
	cs := []*sv{{name: "sock", sock: sock}, {name: "ctx", c: c1}}
	tag := byte(0)
	rtag := byte(100)
	seq := 0
	for e := 0; e < E; e++ {
		ev := verif.Choice("ev", 6)
		if e == 0 {
			verif.Assume(ev == 0)
		}
		switch ev {
		case 0: // start a survey
			s := cs[verif.Choice("ctx", len(cs))]
			if s.closed {
				verif.Assume(false)
			}
			tag++
			n0, n1 := len(pipes[0].Sent), len(pipes[1].Sent)
			serr := s.send([]byte{tag})
			verif.Quiesce()
			verif.Assert(serr == nil, lab+"/survey-send-ok")
			if s.active {
				s.stale = append(s.stale, s.cur)
			}
			// every attached respondent got it exactly once
			verif.Assert(len(pipes[0].Sent) == n0+1 && len(pipes[1].Sent) == n1+1, lab+"/survey-not-sent-once-to-every-respondent")
			if len(pipes[0].Sent) != n0+1 || len(pipes[1].Sent) != n1+1 {
				return
			}
			r0, r1 := pipes[0].Sent[n0], pipes[1].Sent[n1]
			verif.Assert(len(r0.H) == 4 && verif.BytesEq(r0.Bytes(), r1.Bytes()), lab+"/survey-bytes-differ-between-respondents")
			verif.Assert(len(r0.B) == 1 && r0.B[0] == tag, lab+"/survey-body-changed")
			id := be32(r0.H)
			verif.Assert(id&0x80000000 != 0, lab+"/survey-id-top-bit")
			for _, o := range cs {
				verif.Assert(!(o != s && o.active && o.cur == id), lab+"/survey-ids-distinct")
			}
			seq++
			s.cur, s.active, s.ever, s.start, s.seq, s.queue = id, true, true, verif.Now(), seq, nil
			verif.Reach("surveyed")
		case 1: // Recv
			s := cs[verif.Choice("ctx", len(cs))]
			if s.rg != nil {
				verif.Assume(false)
			}
			s.rActive, s.rSeq = s.active, s.seq
			ss := s
			s.rg = verif.Go("recv", func() { ss.rmsg, ss.rerr = ss.recvMsg() })
		case 2: // a response arrives
			p := pipes[verif.Choice("pipe", 2)]
			rtag++
			var id uint32
			switch verif.Choice("idkind", 5) {
			case 0:
				verif.Assume(cs[0].ever)
				id = cs[0].cur
			case 1:
				verif.Assume(cs[1].ever)
				id = cs[1].cur
			case 2:
				s := cs[verif.Choice("stale-of", 2)]
				verif.Assume(len(s.stale) > 0)
				id = s.stale[len(s.stale)-1]
			case 3:
				id = verif.Uint32("resp-id")
			case 4:
				p.Deliver(verif.Bytes("short", verif.Choice("shortlen", 4)))
				id = 0
			}
			if id != 0 {
				p.Deliver([]byte{byte(id >> 24), byte(id >> 16), byte(id >> 8), byte(id), rtag})
				for _, s := range cs {
					if s.active && !s.closed && s.cur == id { // forks on a symbolic id
						s.queue = append(s.queue, rtag)
					}
				}
			}
		case 3: // the survey of a context expires
			s := cs[verif.Choice("ctx", len(cs))]
			if !s.active {
				verif.Assume(false)
			}
			idx := 0
			for _, o := range cs {
				if o != s && o.active && o.seq < s.seq {
					idx++
				}
			}
			ok := verif.FireTimerN(idx)
			verif.Assert(ok, lab+"/no-expiry-timer-pending-for-active-survey")
			verif.Assert(verif.Now() >= s.start+T, lab+"/survey-expired-early")
			s.active = false
			s.queue = nil
			verif.Reach("expired")
		case 5: // a further context is opened in the middle of things: no survey of its own yet
			if len(cs) >= 3 {
				verif.Assume(false)
			}
			cn, oerr := sock.OpenContext()
			verif.Assert(oerr == nil, lab+"/open-context-later")
			if oerr != nil {
				return
			}
			verif.Assert(cn.SetOption(mangos.OptionSurveyTime, T) == nil, lab+"/set-survey-time-late-ctx")
			cs = append(cs, &sv{name: "late-ctx", c: cn})
			verif.Reach("late-context")
		case 4: // close the extra context
			s := cs[1]
			if s.closed {
				verif.Assume(false)
			}
			s.c.Close()
			s.closed, s.active, s.queue = true, false, nil
		}
		verif.Quiesce()
		for _, s := range cs {
			if s.rg == nil {
				continue
			}
			if !s.rg.Done() {
				// blocked: only legitimate while its survey is live and nothing is queued
				verif.Assert(s.active && s.seq == s.rSeq, lab+"/recv-blocks-without-live-survey")
				verif.Assert(len(s.queue) == 0, lab+"/response-available-but-recv-blocked")
				continue
			}
			s.rg = nil
			switch {
			case s.rerr == nil:
				verif.Reach("response-delivered")
				ok := s.active && s.seq == s.rSeq && len(s.queue) > 0
				verif.Assert(ok, lab+"/response-delivered-without-current-unexpired-survey")
				if ok {
					b := s.rmsg.Body
					verif.Assert(len(b) == 1 && b[0] == s.queue[0], lab+"/delivered-response-is-not-the-next-current-one")
					s.queue = s.queue[1:]
				}
			case s.rerr == mangos.ErrProtoState:
				verif.Reach("proto-state")
				verif.Assert(!(s.rActive && s.active && s.seq == s.rSeq), lab+"/ErrProtoState-during-live-survey")
			case s.rerr == mangos.ErrCanceled:
				verif.Assert(s.seq != s.rSeq || !s.active, lab+"/ErrCanceled-without-new-survey")
			case s.rerr == mangos.ErrClosed:
				verif.Assert(s.closed, lab+"/ErrClosed-on-open-context")
			default:
				verif.Fail(lab + "/unexpected-recv-error")
			}
		}
	}
	verif.Reach("done")
	vp.CloseCensus(sock, "C10/surveyor/after-history")
}

// VH07b_fanout: every connected respondent is sent each survey, queue space
// permitting: a stalled respondent (full send queue) loses surveys alone.
func VH07b_fanout() {
	lab := "C07/fanout"
	proto := []string{"surveyor", "xsurveyor"}[verif.Choice("proto", 2)]
	lab += "/" + proto
	sock := vp.New(proto)
	verif.Assert(sock.SetOption(mangos.OptionWriteQLen, 1) == nil, lab+"/set-wqlen")
	side := vt.Listen(sock, "a")
	rs := []*vt.Pipe{side.Peer("r0"), side.Peer("r1"), side.Peer("r2")}
	stalled := verif.Choice("stalled", 4) // 3 = nobody
	if stalled < 3 {
		rs[stalled].SendMode = vt.SendBlock
	}
	K := verif.Param("K", 3)
	for k := 0; k < K; k++ {
		m := mangos.NewMessage(2)
		m.Body = append(m.Body, byte('a'+k), verif.Byte("payload"))
		if proto == "xsurveyor" {
			m.Header = append(m.Header, 0x80, 0, 0, byte(k+1))
		}
		verif.Assert(sock.SendMsg(m) == nil, lab+"/survey-send")
		verif.Quiesce()
		for i, r := range rs {
			if i == stalled {
				continue
			}
			verif.Assert(len(r.Sent) == k+1, lab+"/respondent-with-queue-space-missed-a-survey")
			if len(r.Sent) == k+1 {
				b := r.Sent[k].B
				verif.Assert(len(b) == 2 && b[0] == byte('a'+k), lab+"/survey-body-changed")
			}
		}
	}
	if stalled < 3 {
		verif.Assert(len(rs[stalled].Sent) == 0, lab+"/stalled-respondent-log")
	}
	verif.Reach("fanout-checked")
	vp.CloseCensus(sock, "C10/surveyor/after-history")
}

// VH07c_idseed: the id counter of REQ / SURVEYOR starts at an arbitrary 32-bit
// value (solver variable - the library seeds it from the clock, so every value
// including the ones just before the 2^32 wrap is a reachable state). K
// requests / surveys in a row, on the socket and on an opened context: every
// id on the wire carries the request bit (otherwise REP / RESPONDENT peers and
// devices take it for a routing word and drop the message), consecutive ids
// differ, and the answer carrying that id is delivered.
func VH07c_idseed() {
	which := verif.Param("req", 0)
	lab := "C07/idseed"
	var p protocol.Protocol
	seed := verif.Uint32("seed")
	if which == 1 {
		lab = "C03/idseed"
		p = req.NewProtocol()
		req.ZZSetNextID(p, seed)
	} else {
		p = surveyor.NewProtocol()
		surveyor.ZZSetNextID(p, seed)
	}
	sock := protocol.MakeSocket(p)
	side := vt.Listen(sock, "a")
	p1 := side.Peer("p1")
	c, err := sock.OpenContext()
	verif.Assert(err == nil, lab+"/open-context")
	K := verif.Param("K", 3)
	var ids [][]byte   // wire ids of the requests so far
	var dist []uint32  // counter distance of each of them to the current request
	for i := 0; i < K; i++ {
		// any number of requests (surveys) may have been issued meanwhile on other contexts of this socket
		gap := verif.Uint32("ids-used-meanwhile")
		verif.Assume(gap < 1<<28) // all requests of one run lie within one window of 2^31 allocations
		if which == 1 {
			req.ZZAddNextID(p, gap)
		} else {
			surveyor.ZZAddNextID(p, gap)
		}
		for j := range dist {
			dist[j] += gap + 1
		}
		onCtx := verif.Choice("on-context", 2) == 1
		tag := byte('a' + i)
		if onCtx {
			verif.Assert(c.Send([]byte{tag}) == nil, lab+"/send")
		} else {
			verif.Assert(sock.Send([]byte{tag}) == nil, lab+"/send")
		}
		verif.Quiesce()
		if len(p1.Sent) != i+1 {
			verif.Fail(lab + "/not-exactly-one-transmission-per-send")
			return
		}
		r := p1.Sent[i]
		verif.Assert(len(r.H) == 4 && len(r.B) == 1 && r.B[0] == tag, lab+"/wire-shape")
		if len(r.H) != 4 {
			return
		}
		verif.Assert(r.H[0]&0x80 != 0, lab+"/id-on-the-wire-without-the-request-bit")
		// ids are unique within any window of 2^31 allocations
		for j := range ids {
			verif.Assert(verif.Not(verif.BytesEq(ids[j], r.H)), lab+"/two-requests-less-than-2^31-allocations-apart-share-an-id")
		}
		ids = append(ids, r.H)
		dist = append(dist, 0)
		// the answer
		p1.Deliver([]byte{r.H[0], r.H[1], r.H[2], r.H[3], 'r', tag})
		verif.Quiesce()
		var b []byte
		var rerr error
		g := verif.Go("recv", func() {
			if onCtx {
				b, rerr = c.Recv()
			} else {
				b, rerr = sock.Recv()
			}
		})
		verif.Quiesce()
		verif.Assert(g.Done() && rerr == nil, lab+"/answer-not-delivered")
		if g.Done() && rerr == nil {
			verif.Assert(len(b) == 2 && b[0] == 'r' && b[1] == tag, lab+"/answer-changed")
		}
	}
	verif.Reach("idseed-done")
	vp.CloseCensus(sock, "C10/surveyor/after-history")
}

// VH07d_late_response: directed family "survey A ended in way W, then a
// response to it arrives while survey B is in progress". W: the survey time
// (solver variable) expired / B superseded it / it had been answered and the
// answer received. Neither the late response nor a response with an arbitrary
// id other than B's (solver variable) is delivered; B's responses from both
// respondents are, in arrival order; after B expired Recv fails with
// ErrProtoState at once and a late response to B is not delivered either.
func VH07d_late_response() {
	lab := "C07/late-response"
	ways := []string{"expired", "superseded", "answered"}
	w := ways[verif.Choice("way", len(ways))]
	lab += "/" + w
	sock := vp.New("surveyor")
	T := verif.Duration("survey-time")
	verif.Assume(verif.And(T >= 1, T <= time.Hour))
	side := vt.Listen(sock, "a")
	pipes := []*vt.Pipe{side.Peer("r0"), side.Peer("r1")}
	type endpoint interface {
		Send([]byte) error
		RecvMsg() (*mangos.Message, error)
		SetOption(string, interface{}) error
	}
	var ep endpoint = sock
	if verif.Choice("ctx", 2) == 1 {
		c, err := sock.OpenContext()
		verif.Assert(err == nil, lab+"/open-context")
		ep = c
	}
	verif.Assert(ep.SetOption(mangos.OptionSurveyTime, T) == nil, lab+"/set-survey-time")
	frame := func(id uint32, b byte) []byte { return []byte{byte(id >> 24), byte(id >> 16), byte(id >> 8), byte(id), b} }
	lastID := func(tag byte) (uint32, bool) {
		r := pipes[0].Sent
		if len(r) == 0 || len(r[len(r)-1].H) != 4 || len(r[len(r)-1].B) != 1 || r[len(r)-1].B[0] != tag {
			return 0, false
		}
		return be32(r[len(r)-1].H), true
	}
	verif.Assert(ep.Send([]byte{'A'}) == nil, lab+"/survey-A")
	verif.Quiesce()
	idA, okA := lastID('A')
	verif.Assert(okA, lab+"/A-not-sent")
	if !okA {
		return
	}
	switch w {
	case "expired":
		t0 := verif.Now()
		if verif.Choice("exact-clock", 2) == 1 {
			// one tick before the survey time is up a response is still delivered; at the survey time itself the
			// survey is over (the solver decides which timers are due at either instant)
			verif.RunClockTo(t0 + T - 1)
			pipes[0].Deliver(frame(idA, 'p'))
			verif.Quiesce()
			var mp *mangos.Message
			var ep1 error
			gp := verif.Go("recv-in-time", func() { mp, ep1 = ep.RecvMsg() })
			verif.Quiesce()
			verif.Assert(gp.Done() && ep1 == nil && len(mp.Body) == 1 && mp.Body[0] == 'p', lab+"/response-within-the-survey-time-not-delivered")
			verif.RunClockTo(t0 + T)
			var ee error
			ge := verif.Go("recv-at-expiry", func() { _, ee = ep.RecvMsg() })
			verif.Quiesce()
			verif.Assert(ge.Done() && ee == mangos.ErrProtoState, lab+"/survey-still-open-after-its-time")
			verif.Reach("expiry-exact")
			break
		}
		verif.Assert(verif.FireTimer(), lab+"/no-expiry-timer")
		verif.Assert(verif.Now() >= t0+T, lab+"/survey-expired-early")
		_, e := ep.RecvMsg()
		verif.Assert(e == mangos.ErrProtoState, lab+"/recv-after-expiry-must-be-ErrProtoState")
	case "superseded":
	case "answered":
		pipes[0].Deliver(frame(idA, 'a'))
		verif.Quiesce()
		m, e := ep.RecvMsg()
		verif.Assert(e == nil && len(m.Body) == 1 && m.Body[0] == 'a', lab+"/first-response")
	}
	verif.Assert(ep.Send([]byte{'B'}) == nil, lab+"/survey-B")
	verif.Quiesce()
	idB, okB := lastID('B')
	verif.Assert(okB, lab+"/B-not-sent-to-every-respondent")
	if !okB {
		return
	}
	verif.Assert(len(pipes[1].Sent) == len(pipes[0].Sent), lab+"/survey-not-sent-once-to-every-respondent")
	verif.Assert(idB != idA && idB&0x80000000 != 0, lab+"/survey-ids")
	var m *mangos.Message
	var rerr error
	rg := verif.Go("recv-B", func() { m, rerr = ep.RecvMsg() })
	verif.Quiesce()
	pipes[1].Deliver(frame(idA, 'l'))
	verif.Quiesce()
	verif.Assert(!rg.Done(), lab+"/late-response-to-the-previous-survey-delivered")
	x := verif.Uint32("foreign-id")
	verif.Assume(x != idB)
	pipes[0].Deliver(frame(x, 'x'))
	verif.Quiesce()
	verif.Assert(!rg.Done(), lab+"/response-with-foreign-id-delivered")
	if rg.Done() {
		return
	}
	pipes[0].Deliver(frame(idB, 'b'))
	pipes[1].Deliver(frame(idB, 'c'))
	verif.Quiesce()
	verif.Assert(rg.Done() && rerr == nil && len(m.Body) == 1 && m.Body[0] == 'b', lab+"/first-response-to-the-current-survey-not-delivered")
	m2, e2 := ep.RecvMsg()
	verif.Assert(e2 == nil && len(m2.Body) == 1 && m2.Body[0] == 'c', lab+"/second-respondents-response-not-delivered")
	// B expires: Recv fails at once, and B's stragglers are dropped
	for i := 0; i < 3 && verif.PendingTimers() > 0; i++ {
		verif.FireTimer()
	}
	var e3 error
	g3 := verif.Go("recv-after", func() { _, e3 = ep.RecvMsg() })
	verif.Quiesce()
	verif.Assert(g3.Done() && e3 == mangos.ErrProtoState, lab+"/recv-after-expiry-must-be-ErrProtoState")
	pipes[0].Deliver(frame(idB, 'z'))
	verif.Quiesce()
	var e4 error
	g4 := verif.Go("recv-straggler", func() { _, e4 = ep.RecvMsg() })
	verif.Quiesce()
	verif.Assert(g4.Done() && e4 == mangos.ErrProtoState, lab+"/response-after-expiry-delivered")
	verif.Reach("late-response-checked")
	vp.CloseCensus(sock, "C10/surveyor/after-history")
}

type brec struct {
	g          *verif.G
	m          *mangos.Message
	err        error
	afterClose bool
}

// VH07e_burst: with a survey in progress (and possibly a response already
// queued), two of {the context is closed and the same goroutine at once calls
// Recv; a Recv; a response to the survey arrives; the survey timer expires; a
// new survey is sent} happen at the same moment, under every schedule in which
// one goroutine stalls at one synchronisation point until the others have come
// to rest. What each Recv returns must be explainable by SOME order of the
// events, and afterwards a fresh survey behaves as if nothing had happened:
// only its own response is delivered, stale ones never are.
func VH07e_burst() {
	lab := "C07/burst"
	sock := vp.New("surveyor")
	T := time.Second
	verif.Assert(sock.SetOption(mangos.OptionSurveyTime, T) == nil, lab+"/set-survey-time")
	side := vt.Listen(sock, "a")
	pipes := []*vt.Pipe{side.Peer("r0"), side.Peer("r1")}
	s := &sv{name: "sock", sock: sock}
	useCtx := verif.Choice("api", 2) == 1
	if useCtx {
		c1, err := sock.OpenContext()
		verif.Assert(err == nil, lab+"/open-context")
		verif.Assert(c1.SetOption(mangos.OptionSurveyTime, T) == nil, lab+"/set-survey-time-ctx")
		s = &sv{name: "ctx", c: c1}
	}
	verif.Assert(s.send([]byte{1}) == nil, lab+"/survey-1")
	verif.Quiesce()
	verif.Assert(len(pipes[0].Sent) == 1 && len(pipes[0].Sent[0].H) == 4, lab+"/survey-1-on-the-wire")
	if len(pipes[0].Sent) != 1 || len(pipes[0].Sent[0].H) != 4 {
		return
	}
	id1 := be32(pipes[0].Sent[0].H)
	resp := func(p *vt.Pipe, id uint32, tag byte) {
		p.Deliver([]byte{byte(id >> 24), byte(id >> 16), byte(id >> 8), byte(id), tag})
	}
	queued := verif.Choice("queued", 2) == 1
	if queued {
		resp(pipes[0], id1, 101)
		verif.Quiesce()
	}
	a := verif.Choice("ev-a", 5)
	b := verif.Choice("ev-b", 5)
	verif.Assume(a < b)
	var recs []*brec
	closed, sent2, expired, arrived := false, false, false, false
	var serr2 error
	var g2 *verif.G
	issue := func(ev int) {
		switch ev {
		case 0:
			verif.Assume(useCtx)
			closed = true
			r := &brec{afterClose: true}
			recs = append(recs, r)
			r.g = verif.Go("close-then-recv", func() {
				s.c.Close()
				r.m, r.err = s.recvMsg()
			})
		case 1:
			r := &brec{}
			recs = append(recs, r)
			r.g = verif.Go("recv", func() { r.m, r.err = s.recvMsg() })
		case 2:
			arrived = true
			resp(pipes[1], id1, 102)
		case 3:
			expired = verif.FireTimerNow()
			verif.Assert(expired, lab+"/no-expiry-timer-pending-for-active-survey")
		case 4:
			sent2 = true
			g2 = verif.Go("survey-2", func() { serr2 = s.send([]byte{2}) })
		}
	}
	issue(a)
	issue(b)
	verif.Quiesce()
	got101, got102 := 0, 0
	for _, r := range recs {
		if !r.g.Done() {
			// still waiting: only legitimate while a survey is live and nothing is queued for it
			live1 := !closed && !expired && !sent2
			verif.Assert(live1 || (sent2 && !closed), lab+"/recv-blocks-without-live-survey")
			if live1 {
				verif.Assert(!queued && !arrived, lab+"/response-available-but-recv-blocked")
			}
			continue
		}
		switch {
		case r.err == nil:
			verif.Assert(!r.afterClose, lab+"/response-delivered-by-a-recv-issued-after-the-context-was-closed")
			bd := r.m.Body
			ok := len(bd) == 1 && ((bd[0] == 101 && queued) || (bd[0] == 102 && arrived))
			verif.Assert(ok, lab+"/delivered-message-is-not-a-response-to-the-survey")
			if ok && bd[0] == 101 {
				got101++
			}
			if ok && bd[0] == 102 {
				got102++
			}
		case r.err == mangos.ErrProtoState:
			verif.Assert(closed || expired, lab+"/ErrProtoState-during-live-survey")
		case r.err == mangos.ErrCanceled:
			verif.Assert(sent2, lab+"/ErrCanceled-without-new-survey")
		case r.err == mangos.ErrClosed:
			verif.Assert(closed, lab+"/ErrClosed-on-open-context")
		default:
			verif.Fail(lab + "/unexpected-recv-error")
		}
	}
	verif.Assert(got101 <= 1 && got102 <= 1, lab+"/response-delivered-twice")
	if g2 != nil {
		verif.Assert(g2.Done(), lab+"/survey-send-blocked")
		if closed {
			verif.Assert(serr2 == nil || serr2 == mangos.ErrClosed, lab+"/survey-2-result")
		} else {
			verif.Assert(serr2 == nil, lab+"/survey-2-result")
		}
	}
	verif.Reach("burst-done")
	// epilogue: a fresh survey on the same context
	if closed {
		verif.Assert(s.send([]byte{3}) == mangos.ErrClosed, lab+"/survey-on-closed-context")
		_, rerr := s.recvMsg()
		verif.Assert(rerr != nil, lab+"/recv-on-closed-context-delivers")
		sock.Close()
		return
	}
	var id2 uint32
	if sent2 && serr2 == nil {
		n := len(pipes[0].Sent)
		verif.Assert(n == 2, lab+"/survey-2-not-sent-once")
		if n != 2 {
			return
		}
		id2 = be32(pipes[0].Sent[1].H)
		verif.Assert(id2 != id1, lab+"/survey-ids-distinct")
	}
	// the second survey is the context's current one whatever happened to the first at the same moment (its expiry
	// timer, its cancellation): a response to it is delivered, Recv does not report "no survey"
	probed := false
	if id2 != 0 && verif.Choice("probe-survey-2", 2) == 1 {
		idle := true
		for _, r := range recs {
			idle = idle && r.g.Done()
		}
		if idle {
			probed = true
			resp(pipes[1], id2, 112)
			verif.Quiesce()
			m2, rerr2 := s.recvMsg()
			verif.Assert(rerr2 == nil, lab+"/response-to-the-current-survey-not-delivered")
			if rerr2 == nil {
				verif.Assert(len(m2.Body) == 1 && m2.Body[0] == 112, lab+"/delivered-message-is-not-the-response-to-the-current-survey")
			}
			verif.Reach("burst-probe-2")
		}
	}
	n0 := len(pipes[0].Sent)
	verif.Assert(s.send([]byte{3}) == nil, lab+"/survey-3")
	verif.Quiesce()
	verif.Assert(len(pipes[0].Sent) == n0+1 && len(pipes[1].Sent) == n0+1, lab+"/survey-not-sent-once-to-every-respondent")
	if len(pipes[0].Sent) != n0+1 {
		return
	}
	id3 := be32(pipes[0].Sent[n0].H)
	verif.Assert(id3 != id1 && id3 != id2, lab+"/survey-ids-distinct")
	for _, r := range recs {
		verif.Assert(r.g.Done(), lab+"/recv-of-a-replaced-survey-still-blocked")
	}
	resp(pipes[0], id1, 111)
	if id2 != 0 && !probed {
		resp(pipes[1], id2, 112)
	}
	verif.Quiesce()
	resp(pipes[1], id3, 113)
	verif.Quiesce()
	m, rerr := s.recvMsg()
	verif.Assert(rerr == nil, lab+"/fresh-survey-response-not-delivered")
	if rerr == nil {
		verif.Assert(len(m.Body) == 1 && m.Body[0] == 113, lab+"/stale-response-delivered-for-fresh-survey")
	}
	gx := verif.Go("recv-extra", func() { s.recvMsg() })
	verif.Quiesce()
	verif.Assert(!gx.Done(), lab+"/invented-or-stale-response-delivered")
	verif.Reach("burst-epilogue")
	vp.CloseCensus(sock, "C10/surveyor/after-history")
}

// VH07f_chain: R surveys in a row on one socket or context (R = 1..6, every
// length a path), each superseding the previous one before it expired, each
// possibly answered and the answer received or not. Then the survey time
// passes. The LAST survey expires like any other: Recv fails with
// ErrProtoState at once, a late response to it (or to any earlier survey of the
// chain) is not delivered, and no expiry timer is left behind -- for the third,
// fourth, ... survey of a chain exactly as for the first.
func VH07f_chain() {
	Rmax := verif.Param("R", 6)
	lab := "C07/chain"
	sock := vp.New("surveyor")
	T := 700 * time.Millisecond // not the default: a context that merely inherits it must still expire at it
	verif.Assert(sock.SetOption(mangos.OptionSurveyTime, T) == nil, lab+"/set-survey-time")
	side := vt.Listen(sock, "a")
	p0 := side.Peer("r0")
	s := &sv{name: "sock", sock: sock}
	if verif.Choice("api", 2) == 1 {
		c1, err := sock.OpenContext()
		verif.Assert(err == nil, lab+"/open-context")
		if verif.Choice("context-sets-its-own-survey-time", 2) == 1 {
			verif.Assert(c1.SetOption(mangos.OptionSurveyTime, T) == nil, lab+"/set-survey-time-ctx")
		} else {
			verif.Reach("chain-context-inherits-survey-time")
		}
		s = &sv{name: "ctx", c: c1}
	}
	R := 1 + verif.Choice("surveys", Rmax)
	answered := verif.Choice("answered", 3) // none / every survey answered and received / answered but never received
	var ids []uint32
	var t0 time.Duration
	for i := 0; i < R; i++ {
		t0 = verif.Now()
		verif.Assert(s.send([]byte{byte(i)}) == nil, lab+"/survey-send")
		verif.Quiesce()
		verif.Assert(len(p0.Sent) == i+1 && len(p0.Sent[i].H) == 4, lab+"/survey-not-sent-once")
		if len(p0.Sent) != i+1 || len(p0.Sent[i].H) != 4 {
			return
		}
		id := be32(p0.Sent[i].H)
		for _, o := range ids {
			verif.Assert(o != id, lab+"/survey-ids-distinct")
		}
		ids = append(ids, id)
		if answered > 0 {
			p0.Deliver([]byte{byte(id >> 24), byte(id >> 16), byte(id >> 8), byte(id), byte(100 + i)})
			verif.Quiesce()
			if answered == 1 {
				m, err := s.recvMsg()
				verif.Assert(err == nil && len(m.Body) == 1 && m.Body[0] == byte(100+i), lab+"/response-to-the-current-survey-not-delivered")
			}
		}
	}
	// the survey time passes
	verif.RunClockTo(t0 + T)
	verif.Quiesce()
	var rerr error
	var rm *mangos.Message
	g := verif.Go("recv", func() { rm, rerr = s.recvMsg() })
	verif.Quiesce()
	verif.Assert(g.Done(), lab+"/recv-blocks-after-the-survey-expired")
	if g.Done() {
		if answered == 2 && rerr == nil {
			// a response queued before the expiry may not be delivered afterwards either
			verif.Fail(lab + "/response-delivered-after-the-survey-expired")
		}
		verif.Assert(rerr == mangos.ErrProtoState, lab+"/recv-after-expiry-must-be-ErrProtoState")
	}
	_ = rm
	for _, id := range ids {
		p0.Deliver([]byte{byte(id >> 24), byte(id >> 16), byte(id >> 8), byte(id), 'z'})
	}
	verif.Quiesce()
	var e2 error
	g2 := verif.Go("recv-late", func() { _, e2 = s.recvMsg() })
	verif.Quiesce()
	verif.Assert(g2.Done() && e2 == mangos.ErrProtoState, lab+"/late-response-delivered-after-the-survey-expired")
	verif.Assert(verif.PendingCallbackTimers() == 0, lab+"/expiry-timer-left-behind")
	verif.Reach("chain-expired")
	vp.CloseCensus(sock, "C10/surveyor/after-history")
}

// VH07g_many_contexts: M (5) contexts of one SURVEYOR socket each with a survey
// in progress; one of them (any position, or none) ends early -- closed,
// superseded by a new survey, or expired (its survey time is shorter). A
// response for every survey id arrives from either respondent, in reverse
// order: every context with a live survey receives exactly the response to its
// own survey; the ended one receives nothing for the old survey; nobody gets
// another context's response.
func VH07g_many_contexts() {
	M := verif.Param("M", 5)
	lab := "C07/many-contexts"
	sock := vp.New("surveyor")
	verif.Assert(sock.SetOption(mangos.OptionSurveyTime, time.Minute) == nil, lab+"/set-survey-time")
	side := vt.Listen(sock, "a")
	pipes := []*vt.Pipe{side.Peer("r0"), side.Peer("r1")}
	endAt := verif.Choice("ends", M+1) - 1
	way := 0
	if endAt >= 0 {
		way = verif.Choice("way", 3)
	}
	var cs []mangos.Context
	var ids []uint32
	for i := 0; i < M; i++ {
		c, err := sock.OpenContext()
		verif.Assert(err == nil, lab+"/open-context")
		if err != nil {
			return
		}
		T := time.Minute
		if i == endAt && way == 2 {
			T = time.Second
		}
		verif.Assert(c.SetOption(mangos.OptionSurveyTime, T) == nil, lab+"/set-survey-time-ctx")
		cs = append(cs, c)
		verif.Assert(c.Send([]byte{byte(i)}) == nil, lab+"/survey")
		verif.Quiesce()
		n := len(pipes[0].Sent)
		verif.Assert(n == i+1 && len(pipes[0].Sent[n-1].H) == 4, lab+"/survey-not-sent-once")
		if n != i+1 || len(pipes[0].Sent[n-1].H) != 4 {
			return
		}
		id := be32(pipes[0].Sent[n-1].H)
		for _, o := range ids {
			verif.Assert(o != id, lab+"/survey-ids-distinct")
		}
		ids = append(ids, id)
	}
	var newID uint32
	if endAt >= 0 {
		switch way {
		case 0:
			verif.Assert(cs[endAt].Close() == nil, lab+"/context-close")
		case 1:
			verif.Assert(cs[endAt].Send([]byte{99}) == nil, lab+"/new-survey")
			verif.Quiesce()
			n := len(pipes[0].Sent)
			newID = be32(pipes[0].Sent[n-1].H)
		case 2:
			verif.Assert(verif.FireTimer(), lab+"/no-expiry-timer")
		}
		verif.Quiesce()
	}
	for i := M - 1; i >= 0; i-- {
		id := ids[i]
		pipes[i%2].Deliver([]byte{byte(id >> 24), byte(id >> 16), byte(id >> 8), byte(id), byte(100 + i)})
		verif.Quiesce()
	}
	for i, c := range cs {
		c := c
		var m *mangos.Message
		var err error
		g := verif.Go("recv", func() { m, err = c.RecvMsg() })
		verif.Quiesce()
		if i == endAt {
			if way == 1 {
				verif.Assert(!g.Done(), lab+"/response-to-the-superseded-survey-delivered")
				pipes[0].Deliver([]byte{byte(newID >> 24), byte(newID >> 16), byte(newID >> 8), byte(newID), 199})
				verif.Quiesce()
				verif.Assert(g.Done() && err == nil && len(m.Body) == 1 && m.Body[0] == 199, lab+"/response-to-the-new-survey-not-delivered")
			} else {
				verif.Assert(g.Done() && err != nil, lab+"/ended-survey-delivers-a-response")
			}
			continue
		}
		verif.Assert(g.Done() && err == nil, lab+"/context-did-not-get-the-response-to-its-survey")
		if g.Done() && err == nil {
			verif.Assert(len(m.Body) == 1 && m.Body[0] == byte(100+i), lab+"/context-got-another-contexts-response")
		}
		g2 := verif.Go("recv-extra", func() { c.RecvMsg() })
		verif.Quiesce()
		verif.Assert(!g2.Done(), lab+"/context-got-a-second-response")
	}
	verif.Reach("many-contexts-surveyed")
	vp.CloseCensus(sock, "C10/surveyor/after-history")
}

// VH07h_endless: SURVEY-TIME 0 - the survey never expires - combined with what
// still has to work. (a) A receive deadline: a Recv with nothing to receive
// returns the timeout error exactly at its deadline (not before, not never).
// (b) A new survey supersedes the endless one while a Recv is waiting on it:
// that Recv ends with ErrCanceled, a late response to the old survey is not
// delivered, the response to the new one is. (c) The context is closed: the
// waiting Recv ends. (d) A response arrives: delivered, and the survey stays
// open for the next one. No expiry timer exists at any time.
func VH07h_endless() {
	lab := "C07/endless"
	verif.RunClockTo(verif.Now() + time.Hour) // not at the very first instant of the clock (the zero time is special)
	sock := vp.New("surveyor")
	side := vt.Listen(sock, "a")
	p0 := side.Peer("r0")
	s := &sv{name: "sock", sock: sock}
	var setopt func(string, interface{}) error = sock.SetOption
	useCtx := verif.Choice("api", 2) == 1
	if useCtx {
		c1, err := sock.OpenContext()
		verif.Assert(err == nil, lab+"/open-context")
		s = &sv{name: "ctx", c: c1}
		setopt = c1.SetOption
	}
	verif.Assert(setopt(mangos.OptionSurveyTime, time.Duration(0)) == nil, lab+"/set-survey-time-0")
	D := 2 * time.Second
	what := verif.Choice("what", 4)
	if what == 0 {
		verif.Assert(setopt(mangos.OptionRecvDeadline, D) == nil, lab+"/set-recv-deadline")
	}
	verif.Assert(s.send([]byte{1}) == nil, lab+"/survey")
	verif.Quiesce()
	verif.Assert(len(p0.Sent) == 1 && len(p0.Sent[0].H) == 4, lab+"/survey-not-sent")
	if len(p0.Sent) != 1 {
		return
	}
	id1 := be32(p0.Sent[0].H)
	verif.Assert(verif.PendingCallbackTimers() == 0, lab+"/expiry-timer-armed-for-an-endless-survey")
	resp := func(id uint32, tag byte) {
		p0.Deliver([]byte{byte(id >> 24), byte(id >> 16), byte(id >> 8), byte(id), tag})
	}
	t0 := verif.Now()
	var m *mangos.Message
	var rerr error
	g := verif.Go("recv", func() { m, rerr = s.recvMsg() })
	verif.Quiesce()
	verif.Assert(!g.Done(), lab+"/recv-returned-without-a-response")
	switch what {
	case 0:
		verif.RunClockTo(t0 + D - 1)
		verif.Assert(!g.Done(), lab+"/recv-returns-before-its-deadline")
		verif.RunClockTo(t0 + D)
		verif.Quiesce()
		verif.Assert(g.Done() && rerr == mangos.ErrRecvTimeout, lab+"/recv-hangs-beyond-its-deadline-on-an-endless-survey")
		// the survey is still open
		resp(id1, 'a')
		verif.Quiesce()
		m2, e2 := s.recvMsg()
		verif.Assert(e2 == nil && len(m2.Body) == 1 && m2.Body[0] == 'a', lab+"/endless-survey-closed-by-a-receive-timeout")
	case 1:
		verif.Assert(s.send([]byte{2}) == nil, lab+"/survey-2")
		verif.Quiesce()
		verif.Assert(g.Done() && rerr == mangos.ErrCanceled, lab+"/recv-on-a-superseded-endless-survey-not-cancelled")
		id2 := be32(p0.Sent[len(p0.Sent)-1].H)
		g2 := verif.Go("recv-2", func() { m, rerr = s.recvMsg() })
		verif.Quiesce()
		resp(id1, 'x')
		verif.Quiesce()
		verif.Assert(!g2.Done(), lab+"/late-response-to-the-superseded-endless-survey-delivered")
		resp(id2, 'b')
		verif.Quiesce()
		verif.Assert(g2.Done() && rerr == nil && len(m.Body) == 1 && m.Body[0] == 'b', lab+"/response-to-the-new-survey-not-delivered")
	case 2:
		if !useCtx {
			verif.Assume(false)
		}
		verif.Assert(s.c.Close() == nil, lab+"/context-close")
		verif.Quiesce()
		verif.Assert(g.Done() && rerr != nil, lab+"/recv-on-a-closed-context-still-waiting")
		resp(id1, 'z')
		verif.Quiesce()
	case 3:
		resp(id1, 'c')
		verif.Quiesce()
		verif.Assert(g.Done() && rerr == nil && len(m.Body) == 1 && m.Body[0] == 'c', lab+"/response-not-delivered")
		verif.RunClockTo(verif.Now() + time.Hour)
		resp(id1, 'd')
		verif.Quiesce()
		m2, e2 := s.recvMsg()
		verif.Assert(e2 == nil && len(m2.Body) == 1 && m2.Body[0] == 'd', lab+"/endless-survey-ended")
	}
	verif.Assert(verif.PendingCallbackTimers() == 0, lab+"/expiry-timer-left-behind")
	verif.Reach("endless-checked")
	vp.CloseCensus(sock, "C10/surveyor/after-history")
}
