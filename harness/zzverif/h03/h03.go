// Package h03: REQ histories (C03, C04 basics).
package h03

import (
	"time"

	"go.nanomsg.org/mangos/v3"
	"go.nanomsg.org/mangos/v3/zzverif/verif"
	"go.nanomsg.org/mangos/v3/zzverif/vp"
	"go.nanomsg.org/mangos/v3/zzverif/vt"
)

type rctx struct {
	name     string
	c        mangos.Context
	sock     mangos.Socket
	closed   bool
	cur      uint32 // id of the outstanding request (0: none / unknown)
	hasReq   bool   // a request is outstanding (sent, not yet received/cancelled)
	reqTag   byte
	answered bool // a matching reply was delivered since the current request was sent
	wantTag  byte // body tag of that reply
	wantLen  int  // ... and its payload length (0: a reply with an empty payload)
	stale    []uint32
	// pending Recv
	rg       *verif.G
	rmsg     *mangos.Message
	rerr     error
	rReqAtStart bool
	rSends   int // number of Sends on this context when the Recv started
	sends    int
	// pending Send (blocked because no peer is connected)
	sg   *verif.G
	serr error
	stag byte
}

func (r *rctx) send(b []byte) error {
	if r.c != nil {
		return r.c.Send(b)
	}
	return r.sock.Send(b)
}
func (r *rctx) recvMsg() (*mangos.Message, error) {
	if r.c != nil {
		return r.c.RecvMsg()
	}
	return r.sock.RecvMsg()
}

func be32(b []byte) uint32 {
	return uint32(b[0])<<24 | uint32(b[1])<<16 | uint32(b[2])<<8 | uint32(b[3])
}

func findID(pipes []*vt.Pipe, tag byte) (uint32, bool) {
	for _, p := range pipes {
		for i := len(p.Sent) - 1; i >= 0; i-- {
			r := p.Sent[i]
			if len(r.B) == 1 && r.B[0] == tag && len(r.H) == 4 {
				return be32(r.H), true
			}
		}
	}
	return 0, false
}

// checkRecvs validates every finished Recv against the reference model.
func checkRecvs(cs []*rctx, lab string) {
	for _, r := range cs {
		if r.rg == nil {
			continue
		}
		if !r.rg.Done() {
			// a deliverable reply must complete the pending Recv
			verif.Assert(!(r.answered && r.hasReq && r.sends == r.rSends), lab+"/reply-available-but-recv-still-blocked")
			verif.Assert(r.rReqAtStart || r.closed, lab+"/recv-without-request-blocks")
			continue
		}
		r.rg = nil
		switch {
		case r.rerr == nil:
			verif.Reach("reply-returned")
			verif.Assert(r.hasReq && r.answered, lab+"/reply-returned-without-matching-delivery")
			if r.hasReq && r.answered {
				ok := len(r.rmsg.Body) == r.wantLen && (r.wantLen == 0 || r.rmsg.Body[0] == r.wantTag)
				verif.Assert(ok, lab+"/returned-reply-is-not-the-current-requests-reply")
			}
			verif.Assert(r.sends == r.rSends, lab+"/reply-returned-to-recv-started-before-newer-send")
			r.hasReq, r.answered, r.cur = false, false, 0
		case r.rerr == mangos.ErrProtoState:
			verif.Reach("proto-state")
			verif.Assert(!r.rReqAtStart, lab+"/ErrProtoState-with-request-outstanding")
		case r.rerr == mangos.ErrCanceled:
			verif.Reach("canceled")
			verif.Assert(r.sends > r.rSends || !r.hasReq, lab+"/ErrCanceled-without-new-send")
		case r.rerr == mangos.ErrClosed:
			verif.Assert(r.closed, lab+"/ErrClosed-on-open-context")
		default:
			verif.Fail(lab + "/unexpected-recv-error")
		}
	}
}

func VH03a_history() {
	E := verif.Param("E", 4)
	NP := verif.Param("pipes", 1)
	retry := verif.Param("retry_ms", 60000)
	sock := vp.New("req")
	sock.SetOption(mangos.OptionRetryTime, time.Duration(retry)*time.Millisecond)
	side := vt.Listen(sock, "a")
	var pipes []*vt.Pipe
	for i := 0; i < NP; i++ {
		pipes = append(pipes, side.Peer("p"))
	}
	c1, err := sock.OpenContext()
	verif.Assert(err == nil, "C03/open-context")
	c1.SetOption(mangos.OptionRetryTime, time.Duration(retry)*time.Millisecond)
	cs := []*rctx{{name: "sock", sock: sock}, {name: "ctx", c: c1}}
	lab := "C03/history"
	tag := byte(0)
	rtag := byte(100)
	for e := 0; e < E; e++ {
		ev := verif.Choice("ev", 8)
		if e == 0 {
			verif.Assume(ev == 0) // histories start with a request; the other starts are in VH03b
		}
		switch ev {
		case 7: // a further context is opened in the middle of things: it has no request outstanding
			if len(cs) >= 3 {
				verif.Assume(false)
			}
			cn, oerr := sock.OpenContext()
			verif.Assert(oerr == nil, lab+"/open-context-later")
			if oerr != nil {
				return
			}
			cn.SetOption(mangos.OptionRetryTime, time.Duration(retry)*time.Millisecond)
			cs = append(cs, &rctx{name: "late-ctx", c: cn})
			verif.Reach("late-context")
		case 0: // Send on a context
			r := cs[verif.Choice("ctx", len(cs))]
			if r.closed || r.sg != nil {
				verif.Assume(false)
			}
			tag++
			t := tag
			rr := r
			r.stag = t
			r.sg = verif.Go("send", func() { rr.serr = rr.send([]byte{t}) })
			// the new Send abandons the previous request at once
			if r.hasReq && r.cur != 0 {
				r.stale = append(r.stale, r.cur)
			}
			r.sends++
			r.hasReq, r.answered, r.reqTag, r.cur = true, false, t, 0
		case 1: // start Recv
			r := cs[verif.Choice("ctx", len(cs))]
			if r.rg != nil {
				verif.Assume(false)
			}
			r.rReqAtStart = r.hasReq
			r.rSends = r.sends
			rr := r
			r.rg = verif.Go("recv", func() { rr.rmsg, rr.rerr = rr.recvMsg() })
		case 2: // a reply arrives
			p := pipes[verif.Choice("pipe", NP)]
			if p.Closed {
				verif.Assume(false)
			}
			kind := verif.Choice("idkind", 5)
			rtag++
			var id uint32
			short := false
			switch kind {
			case 0:
				id = cs[0].cur
				verif.Assume(cs[0].hasReq && id != 0)
			case 1:
				id = cs[1].cur
				verif.Assume(cs[1].hasReq && id != 0)
			case 2:
				r := cs[verif.Choice("stale-of", 2)]
				verif.Assume(len(r.stale) > 0)
				id = r.stale[len(r.stale)-1]
			case 3:
				id = verif.Uint32("reply-id") // any 32-bit id: foreign, stale, without the top bit ...
			case 4:
				short = true
			}
			if short {
				p.Deliver(verif.Bytes("short", verif.Choice("shortlen", 4)))
			} else {
				// the reply's payload may be empty: the frame is then exactly the four id bytes
				plen := 1
				if kind <= 1 && verif.Choice("empty-payload", 2) == 1 {
					plen = 0
					verif.Reach("empty-reply")
				}
				p.Deliver([]byte{byte(id >> 24), byte(id >> 16), byte(id >> 8), byte(id), rtag}[:4+plen])
				for _, r := range cs {
					if r.hasReq && !r.answered && !r.closed && r.cur == id {
						r.answered = true
						r.wantTag = rtag
						r.wantLen = plen
					}
				}
			}
		case 3: // connection lost
			p := pipes[verif.Choice("pipe", NP)]
			if p.Closed {
				verif.Assume(false)
			}
			p.Drop()
		case 4: // close the extra context
			r := cs[1]
			if r.closed {
				verif.Assume(false)
			}
			r.c.Close()
			r.closed = true
			r.hasReq = false
		case 5:
			if !verif.FireTimer() {
				verif.Assume(false)
			}
		case 6: // a new peer connects
			if len(pipes) >= 3 {
				verif.Assume(false)
			}
			pipes = append(pipes, side.Peer("pn"))
		}
		verif.Quiesce()
		live := false
		for _, p := range pipes {
			if !p.Closed {
				live = true
			}
		}
		for _, r := range cs {
			if r.sg == nil {
				continue
			}
			if !r.sg.Done() {
				// a blocking Send may only wait while no peer is connected (or the context was closed under it)
				verif.Assert(!live, lab+"/send-blocks-with-ready-peer")
				verif.Reach("send-blocks-without-peer")
				continue
			}
			r.sg = nil
			if r.closed {
				continue
			}
			verif.Assert(r.serr == nil, lab+"/send-ok")
			if r.serr != nil {
				r.hasReq = false
				continue
			}
			id, ok := findID(pipes, r.stag)
			verif.Assert(ok, lab+"/request-transmitted")
			if ok {
				verif.Assert(id&0x80000000 != 0, lab+"/request-id-has-top-bit")
				for _, o := range cs {
					if o != r {
						verif.Assert(!(o.hasReq && o.cur == id), lab+"/request-ids-distinct")
					}
				}
				if r.reqTag == r.stag {
					r.cur = id
				}
			}
		}
		checkRecvs(cs, lab)
	}
	verif.Reach("history-done")
	vp.CloseCensus(sock, "C10/req/after-history")
}

// ---------------- C04: re-send until answered

type txrec struct {
	pipe *vt.Pipe
	idx  int
	at   time.Duration
	h, b []byte
}

// countTag: frames on the wire (all connections) whose body starts with tag
func countTag(pipes []*vt.Pipe, tag byte) int {
	n := 0
	for _, p := range pipes {
		for _, r := range p.Sent {
			if len(r.B) >= 1 && r.B[0] == tag {
				n++
			}
		}
	}
	return n
}

func transmissions(pipes []*vt.Pipe, tag byte) []txrec {
	var out []txrec
	for _, p := range pipes {
		for i, r := range p.Sent {
			if len(r.B) == 2 && r.B[0] == tag {
				out = append(out, txrec{p, i, r.At, r.H, r.B})
			}
		}
	}
	return out
}

func VH04a_resend() {
	E := verif.Param("E", 4)
	retryMs := verif.Param("retry_ms", 1000)
	retry := time.Duration(retryMs) * time.Millisecond
	if retryMs < 0 {
		// the retry interval is a solver variable: every value from 1 ns to 1 h at once
		retry = verif.Duration("retry")
		verif.Assume(verif.And(retry >= 1, retry <= time.Hour))
		retryMs = 1
	}
	lab := "C04/resend"
	sock := vp.New("req")
	verif.Assert(sock.SetOption(mangos.OptionRetryTime, retry) == nil, lab+"/set-retry")
	// with or without fail-no-peers: the option only matters when the LAST peer leaves (the waiting Recv then fails
	// with the no-peers error and the request is over); while another peer is connected everything is as without it
	fnp := verif.Param("fnp", 0) == 1 && verif.Choice("fail-no-peers", 2) == 1
	if fnp {
		verif.Assert(sock.SetOption(mangos.OptionFailNoPeers, true) == nil, lab+"/set-fail-no-peers")
	}
	side := vt.Listen(sock, "a")
	vt.ChooseErrors() // lost connections report ErrClosed or the raw reset error
	pipes := []*vt.Pipe{side.Peer("p0")}
	if verif.Param("pipes", 1) > 1 {
		pipes = append(pipes, side.Peer("p1"))
	}
	// one request
	tag := byte(1)
	var serr error
	payload := verif.Byte("payload")
	g := verif.Go("send", func() { serr = sock.Send([]byte{tag, payload}) })
	verif.Quiesce()
	verif.Assert(g.Done() && serr == nil, lab+"/send-completes")
	tx := transmissions(pipes, tag)
	verif.Assert(len(tx) == 1, lab+"/first-transmission-exactly-once")
	if len(tx) != 1 {
		return
	}
	first := tx[0]
	id := be32(first.h)
	var rmsg *mangos.Message
	var rerr error
	rg := verif.Go("recv", func() { rmsg, rerr = sock.RecvMsg() })
	verif.Quiesce()
	ntx := 1
	finished := false // answered / cancelled
	carrier := first.pipe
	latestAt := first.at // when the request was last handed to a connection
	elapsedOnce := false
	for e := 0; e < E; e++ {
		ev := verif.Choice("ev", 4+verif.Param("elapsed", 0))
		dropCaused := false
		timerFired := false
		intervalElapsed := false
		switch ev {
		case 0: // the carrying connection (or another one) is lost
			p := pipes[verif.Choice("pipe", len(pipes))]
			if p.Closed {
				verif.Assume(false)
			}
			p.Drop()
			dropCaused = p == carrier
		case 1: // a new peer connects
			if len(pipes) >= 4 {
				verif.Assume(false)
			}
			pipes = append(pipes, side.Peer("pn"))
		case 2: // a timer fires (retry)
			if !verif.FireTimer() {
				verif.Assume(false)
			}
			timerFired = true
		case 4: // the clock reaches exactly one retry interval after the latest transmission (solver-decided which timers are due)
			if finished || retryMs == 0 || elapsedOnce {
				verif.Assume(false)
			}
			elapsedOnce = true
			verif.RunClockTo(latestAt + retry)
			timerFired = true
			intervalElapsed = true
		case 3: // the reply arrives on some live connection
			p := pipes[verif.Choice("pipe", len(pipes))]
			if p.Closed || finished {
				verif.Assume(false)
			}
			plen := verif.Choice("reply-payload-len", 2) // an empty payload is a reply too
			p.Deliver([]byte{byte(id >> 24), byte(id >> 16), byte(id >> 8), byte(id), 'R'}[:4+plen])
			verif.Quiesce()
			verif.Assert(rg.Done(), lab+"/reply-completes-recv")
			if rg.Done() {
				verif.Assert(rerr == nil, lab+"/reply-delivered")
				if rerr == nil {
					verif.Assert(len(rmsg.Body) == plen, lab+"/reply-payload-length")
				}
			}
			finished = true
			verif.Reach("answered")
		}
		verif.Quiesce()
		tx = transmissions(pipes, tag)
		live := 0
		for _, p := range pipes {
			if !p.Closed {
				live++
			}
		}
		if fnp && live == 0 && !finished {
			verif.Assert(rg.Done() && rerr == mangos.ErrNoPeers, lab+"/recv-not-failed-with-no-peers-when-the-last-peer-left")
			finished = true
			verif.Reach("ended-by-no-peers")
		}
		// 1. byte-identical
		for _, t := range tx {
			verif.Assert(verif.BytesEq(t.h, first.h) && verif.BytesEq(t.b, first.b), lab+"/retransmission-not-identical")
		}
		newTx := len(tx) - ntx
		verif.Assert(newTx >= 0, lab+"/log-shrank")
		// 3. one connection per (re)transmission cause
		verif.Assert(newTx <= 1, lab+"/more-than-one-transmission-per-event")
		if finished || retryMs == 0 {
			// 4./6. never again once answered; never with retries disabled
			verif.Assert(newTx == 0, lab+"/transmitted-after-completion-or-with-retries-off")
		}
		if newTx == 1 {
			verif.Reach("retransmitted")
			// 2. never sooner than the retry interval unless caused by connection loss / new peer
			if timerFired {
				verif.Assert(verif.Now() >= first.at+retry, lab+"/retry-timer-resend-too-early")
				// ... and not sooner than one interval after the latest transmission either: a re-send
				// caused by a connection loss restarts the interval (one retry chain, not one per loss)
				verif.Assert(verif.Now() >= latestAt+retry, lab+"/retry-timer-resend-sooner-than-interval-after-latest-transmission")
			}
			latestAt = verif.Now()
		}
		// the connection that carried the latest transmission (global order from the transport log)
		for _, ev := range vt.T.Log {
			if ev.Kind == "send" {
				r := ev.Pipe.Sent[ev.N]
				if len(r.B) == 2 && r.B[0] == tag {
					carrier = ev.Pipe
				}
			}
		}
		if intervalElapsed && live > 0 {
			// 2b. ... and not later either: once the interval has elapsed without a reply the request is out again
			verif.Assert(newTx == 1, lab+"/no-retransmission-although-the-retry-interval-elapsed")
			verif.Reach("interval-elapsed")
		}
		if !finished && retryMs > 0 {
			// 5. no lost resend: the carrier died and a live peer exists => it was re-sent
			if dropCaused && live > 0 {
				verif.Assert(newTx == 1, lab+"/no-resend-after-connection-loss")
			}
		}
		if retryMs == 0 && dropCaused && !finished {
			verif.Assert(rg.Done(), lab+"/retries-off-loss-must-cancel-recv")
			if rg.Done() {
				verif.Assert(rerr == mangos.ErrCanceled, lab+"/retries-off-loss-error-kind")
			}
			finished = true
			verif.Reach("cancelled-by-loss")
		}
		ntx = len(tx)
	}
	_ = rmsg
	verif.Reach("done")
	vp.CloseCensus(sock, "C10/req/after-history")
}

// VH03b_requeue: directed family of histories around a request that is waiting
// for re-transmission (no ready connection) when a newer Send replaces it:
// Send A; A loses its connection or its retry timer fires while the only
// connection is stalled; Send B on the same context; a connection becomes
// available; replies with A's id, B's id or an arbitrary id arrive in any
// order; Recv must return B's reply only.
func VH03b_requeue() {
	lab := "C03/requeue"
	sock := vp.New("req")
	retry := time.Duration(verif.Param("retry_ms", 1000)) * time.Millisecond
	sock.SetOption(mangos.OptionRetryTime, retry)
	side := vt.Listen(sock, "a")
	vt.ChooseErrors() // lost connections report ErrClosed or the raw reset error
	p0 := side.Peer("p0")
	pipes := []*vt.Pipe{p0}
	useCtx := verif.Choice("ctx", 2) == 1
	var c mangos.Context
	if useCtx {
		c, _ = sock.OpenContext()
		c.SetOption(mangos.OptionRetryTime, retry)
	}
	send := func(b []byte) error {
		if c != nil {
			return c.Send(b)
		}
		return sock.Send(b)
	}
	recv := func() (*mangos.Message, error) {
		if c != nil {
			return c.RecvMsg()
		}
		return sock.RecvMsg()
	}
	verif.Assert(send([]byte{'A'}) == nil, lab+"/send-A")
	verif.Quiesce()
	idA, okA := findID(pipes, 'A')
	verif.Assert(okA, lab+"/A-transmitted")
	// fault: A has to be re-sent but nothing is ready
	switch verif.Choice("fault", 3) {
	case 0: // its connection goes away, no other peer
		p0.Drop()
	case 1: // the peer stalls, then the retry timer fires: the re-send is handed to the stalled connection
		p0.SendMode = vt.SendBlock
		verif.FireTimer()
	case 2: // retry timer fires twice with a stalled peer: second re-send finds no ready connection
		p0.SendMode = vt.SendBlock
		verif.FireTimer()
		verif.FireTimer()
	}
	verif.Quiesce()
	if verif.Choice("answered-while-waiting-for-retransmission", 2) == 1 {
		// the reply to A arrives (the stalled peer still writes to us) while A waits to be handed to a connection
		// again: A is complete - Recv returns the reply - and must not be left in the queue of pending transmissions
		if p0.Closed {
			verif.Assume(false)
		}
		nA := countTag(pipes, 'A')
		p0.Deliver([]byte{byte(idA >> 24), byte(idA >> 16), byte(idA >> 8), byte(idA), 'a'})
		verif.Quiesce()
		var ma *mangos.Message
		var ea error
		ga := verif.Go("recv-A", func() { ma, ea = recv() })
		verif.Quiesce()
		verif.Assert(ga.Done() && ea == nil && len(ma.Body) == 1 && ma.Body[0] == 'a', lab+"/reply-not-delivered-while-waiting-for-retransmission")
		// a connection becomes ready: nothing is left to transmit
		p0.SendMode = vt.SendOK
		for i := 0; i < 4; i++ {
			p0.Release()
		}
		pipes = append(pipes, side.Peer("p2"))
		verif.Quiesce()
		for i := 0; i < 3; i++ {
			verif.FireTimer()
		}
		verif.Assert(countTag(pipes, 'A') <= nA+1, lab+"/answered-request-transmitted-again")
		verif.Reach("answered-while-queued")
		sock.Close()
		return
	}
	var errB error
	gB := verif.Go("send-B", func() { errB = send([]byte{'B'}) })
	verif.Quiesce()
	// a connection becomes available
	switch verif.Choice("recover", 2) {
	case 0:
		pipes = append(pipes, side.Peer("p1"))
	case 1:
		if !p0.Closed {
			p0.SendMode = vt.SendOK
			for i := 0; i < 4; i++ {
				p0.Release()
			}
		} else {
			pipes = append(pipes, side.Peer("p1"))
		}
	}
	verif.Quiesce()
	verif.Assert(gB.Done(), lab+"/send-B-still-blocked-with-ready-peer")
	if !gB.Done() {
		return
	}
	verif.Assert(errB == nil, lab+"/send-B")
	idB, okB := findID(pipes, 'B')
	verif.Assert(okB, lab+"/B-transmitted")
	if !okB {
		return
	}
	verif.Assert(idB != idA, lab+"/request-ids-distinct")
	var live *vt.Pipe
	for _, p := range pipes {
		if !p.Closed {
			live = p
		}
	}
	// replies: first one of {A's id, arbitrary id}, then B's
	var m *mangos.Message
	var rerr error
	rg := verif.Go("recv", func() { m, rerr = recv() })
	verif.Quiesce()
	first := verif.Choice("first-reply", 3)
	switch first {
	case 0:
		live.Deliver([]byte{byte(idA >> 24), byte(idA >> 16), byte(idA >> 8), byte(idA), 'a'})
	case 1:
		x := verif.Uint32("foreign-id")
		verif.Assume(x != idB)
		live.Deliver([]byte{byte(x >> 24), byte(x >> 16), byte(x >> 8), byte(x), 'x'})
	case 2:
	}
	verif.Quiesce()
	verif.Assert(!rg.Done(), lab+"/recv-returned-before-the-reply-to-the-current-request")
	if rg.Done() {
		if rerr == nil && len(m.Body) == 1 {
			verif.Assert(m.Body[0] == 'b', lab+"/stale-or-foreign-reply-delivered")
		}
		return
	}
	live.Deliver([]byte{byte(idB >> 24), byte(idB >> 16), byte(idB >> 8), byte(idB), 'b'})
	verif.Quiesce()
	verif.Assert(rg.Done(), lab+"/reply-to-current-request-not-delivered")
	if rg.Done() {
		verif.Assert(rerr == nil, lab+"/recv-error")
		if rerr == nil {
			verif.Assert(len(m.Body) == 1 && m.Body[0] == 'b', lab+"/wrong-reply-delivered")
		}
	}
	verif.Reach("requeue-checked")
	vp.CloseCensus(sock, "C10/req/after-history")
}

// VH03c_queued: a request that is still queued inside the socket (the only
// connection is busy with another context's request) has not been seen by any
// peer, so no frame can be an answer to it: a frame with ANY 32-bit id (solver
// variable, so also the id the queued request carries) arriving in that window
// is never returned by Recv and does not make the request vanish; once the
// connection is ready the request is transmitted and its genuine reply is
// delivered.
func VH03c_queued() {
	lab := "C03/queued"
	sock := vp.New("req")
	sock.SetOption(mangos.OptionRetryTime, time.Duration(0))
	side := vt.Listen(sock, "a")
	p0 := side.Peer("p0")
	pipes := []*vt.Pipe{p0}
	c1, _ := sock.OpenContext()
	c2, _ := sock.OpenContext()
	be := verif.Choice("best-effort", 2) == 1
	if be {
		verif.Assert(c2.SetOption(mangos.OptionBestEffort, true) == nil, lab+"/set-best-effort")
	}
	if verif.Choice("earlier-exchange", 2) == 1 {
		// the context that will have to wait has used this connection before
		verif.Assert(c2.Send([]byte{'E'}) == nil, lab+"/send-E")
		verif.Quiesce()
		idE, okE := findID(pipes, 'E')
		verif.Assert(okE, lab+"/E-not-transmitted")
		if !okE {
			return
		}
		p0.Deliver([]byte{byte(idE >> 24), byte(idE >> 16), byte(idE >> 8), byte(idE), 'e'})
		verif.Quiesce()
		me, ee := c2.RecvMsg()
		verif.Assert(ee == nil && len(me.Body) == 1 && me.Body[0] == 'e', lab+"/earlier-exchange")
		verif.Reach("earlier-exchange")
	}
	// the connection is busy: A is handed to it and stalls there
	p0.SendMode = vt.SendBlock
	verif.Assert(c1.Send([]byte{'A'}) == nil, lab+"/send-A")
	verif.Quiesce()
	var errB error
	gB := verif.Go("send-B", func() { errB = c2.Send([]byte{'B'}) })
	verif.Quiesce()
	var m *mangos.Message
	var rerr error
	var rg *verif.G
	if be {
		verif.Assert(gB.Done() && errB == nil, lab+"/best-effort-send-blocked")
		rg = verif.Go("recv", func() { m, rerr = c2.RecvMsg() })
		verif.Quiesce()
	} else {
		verif.Assert(!gB.Done(), lab+"/blocking-send-returned-although-nothing-could-take-the-request")
	}
	_, seen := findID(pipes, 'B')
	verif.Assert(!seen, lab+"/B-on-the-wire-although-the-connection-is-busy")
	// a frame with an arbitrary id arrives while B is still queued
	x := verif.Uint32("frame-id")
	p0.Deliver([]byte{byte(x >> 24), byte(x >> 16), byte(x >> 8), byte(x), 'x'})
	verif.Quiesce()
	if be {
		verif.Assert(!rg.Done(), lab+"/recv-returned-a-frame-that-arrived-before-the-request-was-transmitted")
	} else {
		verif.Assert(!gB.Done(), lab+"/blocking-send-completed-by-an-incoming-frame")
	}
	if verif.Choice("busy-connection-dies", 2) == 1 {
		// the busy connection goes away with A's write unfinished; another peer connects: the waiting request goes there
		p0.Drop()
		verif.Quiesce()
		p0 = side.Peer("p1")
		pipes = append(pipes, p0)
		verif.Reach("busy-connection-died")
	} else {
		// the connection becomes ready
		p0.SendMode = vt.SendOK
		p0.Release()
		verif.Quiesce()
	}
	verif.Assert(gB.Done() && errB == nil, lab+"/send-B-not-completed-with-ready-peer")
	idB, okB := findID(pipes, 'B')
	verif.Assert(okB, lab+"/queued-request-never-transmitted")
	if !okB {
		return
	}
	if !be {
		rg = verif.Go("recv", func() { m, rerr = c2.RecvMsg() })
		verif.Quiesce()
	}
	if rg.Done() {
		verif.Assert(rerr != nil || (len(m.Body) == 1 && m.Body[0] == 'b'), lab+"/recv-returned-a-frame-that-arrived-before-the-request-was-transmitted")
		verif.Assert(false, lab+"/recv-returned-before-the-reply")
		return
	}
	p0.Deliver([]byte{byte(idB >> 24), byte(idB >> 16), byte(idB >> 8), byte(idB), 'b'})
	verif.Quiesce()
	verif.Assert(rg.Done(), lab+"/reply-to-current-request-not-delivered")
	if rg.Done() {
		verif.Assert(rerr == nil && len(m.Body) == 1 && m.Body[0] == 'b', lab+"/wrong-reply-delivered")
	}
	verif.Reach("queued-checked")
	vp.CloseCensus(sock, "C10/req/after-history")
}

// VH04c_inflight: the connection carrying a request dies while the write is
// still in flight and the write reports success afterwards (the kernel had
// taken the bytes). The request is re-sent to the other peer at once, the dead
// connection is never handed anything again (neither the re-send nor later
// requests), and the exchange completes with the surviving peer.
func VH04c_inflight() {
	lab := "C04/inflight"
	sock := vp.New("req")
	retry := verif.Duration("retry")
	verif.Assume(verif.And(retry >= 1, retry <= time.Hour))
	verif.Assert(sock.SetOption(mangos.OptionRetryTime, retry) == nil, lab+"/set-retry")
	side := vt.Listen(sock, "a")
	vt.ChooseErrors() // lost connections report ErrClosed or the raw reset error
	bad := side.Peer("bad")
	bad.SendMode = vt.SendHold
	verif.Assert(sock.Send([]byte{1, 'A'}) == nil, lab+"/send")
	verif.Quiesce()
	verif.Assert(bad.SendCalls == 1, lab+"/request-not-handed-to-the-only-connection")
	good := side.Peer("good")
	verif.Quiesce()
	verif.Assert(len(good.Sent) == 0, lab+"/request-sent-twice-without-cause")
	bad.Drop()
	verif.Quiesce()
	verif.Assert(len(good.Sent) == 1, lab+"/no-resend-after-connection-loss")
	bad.Release() // the in-flight write returns success although the connection is gone
	verif.Quiesce()
	verif.Assert(len(good.Sent) == 1, lab+"/more-than-one-transmission-per-event")
	if len(good.Sent) != 1 {
		return
	}
	h := good.Sent[0].H
	good.Deliver([]byte{h[0], h[1], h[2], h[3], 'R'})
	var b []byte
	var rerr error
	g := verif.Go("recv", func() { b, rerr = sock.Recv() })
	verif.Quiesce()
	verif.Assert(g.Done() && rerr == nil && len(b) == 1 && b[0] == 'R', lab+"/reply-not-delivered")
	// later requests go to the surviving peer only
	for i := 0; i < 2; i++ {
		var serr error
		sg := verif.Go("send2", func() { serr = sock.Send([]byte{2, byte('B' + i)}) })
		verif.Quiesce()
		verif.Assert(sg.Done() && serr == nil, lab+"/send-blocks-although-a-healthy-peer-is-idle")
		if !sg.Done() {
			return
		}
	}
	verif.Assert(bad.SendCalls == 1, lab+"/detached-connection-offered-traffic-again")
	verif.Assert(len(good.Sent) == 3, lab+"/request-lost-although-accepted-after-the-failed-connection-was-detached")
	verif.Reach("inflight-checked")
	vp.CloseCensus(sock, "C10/req/after-history")
}

// VH03e_late_reply: directed family "the previous request ended in way W, then
// its reply arrives late while the next request is outstanding". W: receive
// deadline expired / answered and received / cancelled because its connection
// was lost with retries off / superseded by the next Send while Recv was
// pending / Recv never called. The late frame (id of the previous request) and
// a frame with an arbitrary id (solver variable) must not complete the Recv
// of the new request; the genuine reply must.
func VH03e_late_reply() {
	lab := "C03/late-reply"
	ways := []string{"recv-timeout", "answered", "lost-retries-off", "superseded-during-recv", "never-received"}
	w := ways[verif.Choice("way", len(ways))]
	lab += "/" + w
	sock := vp.New("req")
	side := vt.Listen(sock, "a")
	p0 := side.Peer("p0")
	pipes := []*vt.Pipe{p0}
	useCtx := verif.Choice("ctx", 2) == 1
	type endpoint interface {
		Send([]byte) error
		RecvMsg() (*mangos.Message, error)
		SetOption(string, interface{}) error
	}
	var ep endpoint = sock
	if useCtx {
		c, err := sock.OpenContext()
		verif.Assert(err == nil, lab+"/open-context")
		ep = c
	}
	d := verif.Duration("recv-deadline")
	verif.Assume(verif.And(d >= 1, d <= time.Hour))
	if w == "recv-timeout" {
		verif.Assert(ep.SetOption(mangos.OptionRecvDeadline, d) == nil, lab+"/set-recv-deadline")
		// retries later than any deadline in range, so that the next timer to fire is the deadline
		verif.Assert(ep.SetOption(mangos.OptionRetryTime, 2*time.Hour) == nil, lab+"/set-retry")
	}
	if w == "lost-retries-off" {
		verif.Assert(ep.SetOption(mangos.OptionRetryTime, time.Duration(0)) == nil, lab+"/set-retry-0")
	}
	verif.Assert(ep.Send([]byte{'A'}) == nil, lab+"/send-A")
	verif.Quiesce()
	idA, okA := findID(pipes, 'A')
	verif.Assert(okA, lab+"/A-transmitted")
	if !okA {
		return
	}
	frame := func(id uint32, b byte) []byte { return []byte{byte(id >> 24), byte(id >> 16), byte(id >> 8), byte(id), b} }
	var m0 *mangos.Message
	var e0 error
	switch w {
	case "recv-timeout":
		g := verif.Go("recv-A", func() { m0, e0 = ep.RecvMsg() })
		verif.Quiesce()
		t0 := verif.Now()
		verif.Assert(!g.Done(), lab+"/recv-returned-without-reply")
		// timers fire in any order (decision): keep the schedules in which the deadline timer is among the first three
		for i := 0; i < 3 && !g.Done(); i++ {
			verif.FireTimer()
		}
		if !g.Done() {
			verif.Assume(false)
		}
		verif.Assert(e0 == mangos.ErrRecvTimeout, lab+"/recv-deadline-error-kind")
		verif.Assert(verif.Now() >= t0+d, "C18/req/recv-timeout-before-the-deadline")
		ep.SetOption(mangos.OptionRecvDeadline, time.Duration(0))
	case "answered":
		p0.Deliver(frame(idA, 'a'))
		g := verif.Go("recv-A", func() { m0, e0 = ep.RecvMsg() })
		verif.Quiesce()
		verif.Assert(g.Done() && e0 == nil && len(m0.Body) == 1 && m0.Body[0] == 'a', lab+"/first-exchange")
	case "lost-retries-off":
		g := verif.Go("recv-A", func() { m0, e0 = ep.RecvMsg() })
		verif.Quiesce()
		p0.Drop()
		verif.Quiesce()
		verif.Assert(g.Done() && e0 == mangos.ErrCanceled, lab+"/loss-with-retries-off-did-not-cancel")
		p0 = side.Peer("p1")
		pipes = append(pipes, p0)
	case "superseded-during-recv":
		g := verif.Go("recv-A", func() { m0, e0 = ep.RecvMsg() })
		verif.Quiesce()
		defer func() { _ = g }()
	case "never-received":
	}
	verif.Assert(ep.Send([]byte{'B'}) == nil, lab+"/send-B")
	verif.Quiesce()
	idB, okB := findID(pipes, 'B')
	verif.Assert(okB, lab+"/B-transmitted")
	if !okB {
		return
	}
	verif.Assert(idB != idA, lab+"/request-ids-distinct")
	var m *mangos.Message
	var rerr error
	rg := verif.Go("recv-B", func() { m, rerr = ep.RecvMsg() })
	verif.Quiesce()
	// the late reply to A, then an arbitrary id
	p0.Deliver(frame(idA, 'l'))
	verif.Quiesce()
	verif.Assert(!rg.Done(), lab+"/late-reply-to-the-previous-request-delivered")
	x := verif.Uint32("foreign-id")
	verif.Assume(x != idB)
	p0.Deliver(frame(x, 'x'))
	verif.Quiesce()
	verif.Assert(!rg.Done(), lab+"/reply-with-foreign-id-delivered")
	if rg.Done() {
		return
	}
	p0.Deliver(frame(idB, 'b'))
	verif.Quiesce()
	verif.Assert(rg.Done() && rerr == nil, lab+"/reply-to-current-request-not-delivered")
	if rg.Done() && rerr == nil {
		verif.Assert(len(m.Body) == 1 && m.Body[0] == 'b', lab+"/wrong-reply-delivered")
	}
	// and a duplicate of B's reply afterwards is not a reply to anything
	var m2 *mangos.Message
	var e2 error
	p0.Deliver(frame(idB, 'd'))
	g2 := verif.Go("recv-dup", func() { m2, e2 = ep.RecvMsg() })
	verif.Quiesce()
	verif.Assert(g2.Done() && e2 == mangos.ErrProtoState, lab+"/recv-without-request-after-a-duplicate-reply")
	_ = m2
	// whatever way the first request ended (a timeout included), a later Recv that is abandoned by a newer Send fails
	// with the cancellation error - not with the error of an earlier call
	verif.Assert(ep.Send([]byte{'C'}) == nil, lab+"/send-C")
	verif.Quiesce()
	var e3 error
	g3 := verif.Go("recv-C", func() { _, e3 = ep.RecvMsg() })
	verif.Quiesce()
	verif.Assert(!g3.Done(), lab+"/recv-C-returned-without-reply")
	verif.Assert(ep.Send([]byte{'D'}) == nil, lab+"/send-D")
	verif.Quiesce()
	verif.Assert(g3.Done() && e3 == mangos.ErrCanceled, lab+"/recv-abandoned-by-a-newer-send-does-not-fail-with-the-cancellation-error")
	verif.Reach("late-reply-checked")
	vp.CloseCensus(sock, "C10/req/after-history")
}

// VH04d_retry_change: the retry option is changed while a request is
// outstanding (0 -> d or d -> 0, d a solver variable), then the connection
// that carried the request is lost while another peer is connected. What
// happens follows the setting in force at that moment: retries off => the
// pending Recv is cancelled and nothing is re-sent; retries on => the request
// is re-sent, byte-identical, to the other peer.
func VH04d_retry_change() {
	lab := "C04/retry-change"
	sock := vp.New("req")
	d := verif.Duration("retry")
	verif.Assume(verif.And(d >= 1, d <= time.Hour))
	offFirst := verif.Choice("off-first", 2) == 1
	useCtx := verif.Choice("ctx", 2) == 1
	type endpoint interface {
		Send([]byte) error
		RecvMsg() (*mangos.Message, error)
		SetOption(string, interface{}) error
		GetOption(string) (interface{}, error)
	}
	var ep endpoint = sock
	if useCtx {
		c, err := sock.OpenContext()
		verif.Assert(err == nil, lab+"/open-context")
		ep = c
	}
	r1, r2 := d, time.Duration(0)
	if offFirst {
		r1, r2 = 0, d
	}
	verif.Assert(ep.SetOption(mangos.OptionRetryTime, r1) == nil, lab+"/set-retry-1")
	side := vt.Listen(sock, "a")
	p0 := side.Peer("p0")
	verif.Assert(ep.Send([]byte{1, 'A'}) == nil, lab+"/send")
	verif.Quiesce()
	verif.Assert(len(p0.Sent) == 1, lab+"/first-transmission-exactly-once")
	if len(p0.Sent) != 1 {
		return
	}
	var rerr error
	rg := verif.Go("recv", func() { _, rerr = ep.RecvMsg() })
	verif.Quiesce()
	p1 := side.Peer("p1")
	verif.Assert(len(p1.Sent) == 0, lab+"/request-sent-twice-without-cause")
	// the option changes while the request is outstanding
	verif.Assert(ep.SetOption(mangos.OptionRetryTime, r2) == nil, lab+"/set-retry-2")
	g, gerr := ep.GetOption(mangos.OptionRetryTime)
	verif.Assert(gerr == nil && g.(time.Duration) == r2, "C19/req/RETRY-TIME/get-returns-set-value")
	if !offFirst && verif.Choice("timer-runs-out-instead", 2) == 1 {
		// retries were switched off with a retry timer still armed: it may fire once more (one retransmission
		// that was already scheduled), after which nothing is ever sent again
		for i := 0; i < 4 && verif.PendingTimers() > 0; i++ {
			verif.FireTimer()
		}
		n := len(p0.Sent) + len(p1.Sent)
		verif.Assert(n <= 2, lab+"/retransmitted-more-than-once-after-retries-were-switched-off")
		verif.Assert(verif.PendingCallbackTimers() == 0, lab+"/retry-timer-still-armed-after-retries-were-switched-off")
		verif.Reach("timer-ran-out-with-retries-off")
		sock.Close()
		return
	}
	p0.Drop()
	verif.Quiesce()
	if offFirst {
		// retries are on now
		verif.Assert(!rg.Done(), lab+"/recv-ended-by-connection-loss-although-retries-are-on")
		verif.Assert(len(p1.Sent) == 1, lab+"/no-resend-after-connection-loss")
		if len(p1.Sent) == 1 {
			verif.Assert(verif.BytesEq(p1.Sent[0].Bytes(), p0.Sent[0].Bytes()), lab+"/retransmission-not-identical")
			h := p1.Sent[0].H
			p1.Deliver([]byte{h[0], h[1], h[2], h[3], 'R'})
			verif.Quiesce()
			verif.Assert(rg.Done() && rerr == nil, lab+"/reply-not-delivered")
		}
		verif.Reach("resent-after-enabling-retries")
	} else {
		// retries are off now
		verif.Assert(len(p1.Sent) == 0, lab+"/transmitted-after-completion-or-with-retries-off")
		verif.Assert(rg.Done(), lab+"/retries-off-loss-must-cancel-recv")
		if rg.Done() {
			verif.Assert(rerr == mangos.ErrCanceled, lab+"/retries-off-loss-error-kind")
		}
		for i := 0; i < 3; i++ {
			verif.FireTimer()
		}
		verif.Assert(len(p1.Sent) == 0, lab+"/retry-timer-fired-although-retries-are-off")
		verif.Reach("cancelled-after-disabling-retries")
	}
	vp.CloseCensus(sock, "C10/req/after-history")
}

// VH03g_burst: K of {a Send; another Send from a second goroutine; a pending
// timer fires; a peer connects; a reply to a request that is on the wire
// arrives; the connected peer goes away; a Recv} happen to one REQ socket or
// context at the same moment or in quick succession, with 0..1 peer connected,
// a send deadline and a retry time set or not, and a request already
// outstanding (transmitted, or still waiting for a peer) or not -- under every
// schedule in which one goroutine stalls at one synchronisation point until
// the others are at rest, or across the following steps. During the burst only
// what holds for every order is checked (a delivered reply carries the id of a
// request of this context; nothing is delivered twice). Afterwards a fresh
// request behaves as if nothing had happened: replies to any earlier request
// are never delivered for it, its own reply is, exactly once.
func VH03g_burst() {
	K := verif.Param("K", 2)
	lab := "C03/burst"
	sock := vp.New("req")
	side := vt.Listen(sock, "a")
	r := &rctx{name: "sock", sock: sock}
	var setopt func(string, interface{}) error = sock.SetOption
	api := verif.Param("api", -1)
	if api < 0 {
		api = verif.Choice("api", 2)
	}
	if api == 1 {
		c, err := sock.OpenContext()
		verif.Assert(err == nil, lab+"/open-context")
		r = &rctx{name: "ctx", c: c}
		setopt = c.SetOption
	}
	sdl := verif.Choice("send-deadline", 2) == 1
	if sdl {
		verif.Assert(setopt(mangos.OptionSendDeadline, time.Second) == nil, lab+"/set-send-deadline")
	}
	retry := time.Duration(0)
	if verif.Choice("retry", 2) == 1 {
		retry = 500 * time.Millisecond
	}
	verif.Assert(setopt(mangos.OptionRetryTime, retry) == nil, lab+"/set-retry")
	var pipes []*vt.Pipe
	if verif.Choice("peers0", 2) == 1 {
		pipes = append(pipes, side.Peer("p0"))
	}
	type srec struct {
		g   *verif.G
		err error
		tag byte
	}
	var sends []*srec
	doSend := func(tag byte) {
		s := &srec{tag: tag}
		sends = append(sends, s)
		s.g = verif.Go("send-"+string(rune(tag)), func() { s.err = r.send([]byte{tag}) })
	}
	if verif.Choice("pre", 2) == 1 {
		doSend('A')
		verif.Quiesce()
	}
	type rrec struct {
		g   *verif.G
		m   *mangos.Message
		err error
	}
	var recvs []*rrec
	delivered := map[byte]uint32{} // reply tag -> request id it answers
	rtag := byte('a')
	open := func() *vt.Pipe {
		for _, p := range pipes {
			if !p.Closed {
				return p
			}
		}
		return nil
	}
	wireIDs := func() map[uint32]byte {
		ids := map[uint32]byte{}
		for _, p := range pipes {
			for _, x := range p.Sent {
				verif.Assert(len(x.H) == 4 && len(x.B) == 1, lab+"/request-frame-shape")
				if len(x.H) == 4 && len(x.B) == 1 {
					id := be32(x.H)
					verif.Assert(id&0x80000000 != 0, lab+"/request-id-top-bit")
					if t, ok := ids[id]; ok {
						verif.Assert(t == x.B[0], lab+"/one-id-for-two-requests")
					}
					ids[id] = x.B[0]
				}
			}
		}
		return ids
	}
	// parameter "perm": the K events are an ordered selection (any order, settling after each), so that one
	// stalled goroutine can be overtaken by a whole sequence of steps; otherwise an unordered set
	perm := verif.Param("perm", 0) == 1
	used := map[int]bool{}
	last := -1
	// parameter "A": size of the event alphabet (8 adds: the fail-no-peers option is switched over)
	A := verif.Param("A", 7)
	fnp := false
	for k := 0; k < K; k++ {
		ev := verif.Choice("ev", A)
		if perm {
			verif.Assume(!used[ev] || ev == 3)
			used[ev] = true
		} else {
			verif.Assume(ev > last || ev == 3) // an unordered set of events (connections may repeat)
			if ev != 3 {
				last = ev
			}
		}
		switch ev {
		case 0:
			doSend('B')
		case 1:
			doSend('C')
		case 2:
			verif.Assume(verif.PendingTimers() > 0)
			verif.FireTimerNow()
		case 3:
			verif.Assume(len(pipes) < 2)
			pipes = append(pipes, side.L.Connect("q"+string(rune('0'+len(pipes)))))
		case 4:
			p := open()
			verif.Assume(p != nil)
			var id uint32
			found := false
			for _, q := range pipes {
				if n := len(q.Sent); n > 0 && len(q.Sent[n-1].H) == 4 {
					id, found = be32(q.Sent[n-1].H), true
				}
			}
			verif.Assume(found)
			delivered[rtag] = id
			p.Deliver([]byte{byte(id >> 24), byte(id >> 16), byte(id >> 8), byte(id), rtag})
			rtag++
		case 5:
			p := open()
			verif.Assume(p != nil)
			p.Drop()
		case 6:
			x := &rrec{}
			recvs = append(recvs, x)
			x.g = verif.Go("recv", func() { x.m, x.err = r.recvMsg() })
		case 7:
			fnp = !fnp
			verif.Assert(setopt(mangos.OptionFailNoPeers, fnp) == nil, lab+"/set-fail-no-peers")
		}
		if perm || verif.Choice("settle", 2) == 1 {
			verif.QuiesceKeep()
		}
	}
	verif.Quiesce()
	ids := wireIDs()
	seen := map[byte]bool{}
	for _, x := range recvs {
		if !x.g.Done() || x.err != nil {
			continue
		}
		bd := x.m.Body
		ok := len(bd) == 1
		if ok {
			_, ok = delivered[bd[0]]
		}
		verif.Assert(ok, lab+"/delivered-message-is-not-a-reply-that-arrived")
		if ok {
			verif.Assert(!seen[bd[0]], lab+"/reply-delivered-twice")
			seen[bd[0]] = true
			_, mine := ids[delivered[bd[0]]]
			verif.Assert(mine, lab+"/delivered-reply-answers-no-request-of-this-socket")
		}
	}
	for _, s := range sends {
		if s.g.Done() {
			verif.Assert(s.err == nil || (sdl && s.err == mangos.ErrSendTimeout) || (A > 7 && s.err == mangos.ErrNoPeers), lab+"/unexpected-send-error")
		}
	}
	verif.Reach("burst-done")
	if sdl && open() == nil {
		// nobody to send to: every Send still waiting gives up when its deadline passes
		for i := 0; i < 6 && verif.PendingTimers() > 0; i++ {
			verif.FireTimer()
		}
		for _, s := range sends {
			verif.Assert(s.g.Done(), lab+"/send-blocked-past-its-deadline")
		}
		verif.Reach("deadlines-ran-out")
	}
	// epilogue
	p := open()
	if p == nil {
		verif.Assume(len(pipes) < 3)
		p = side.Peer("late")
		pipes = append(pipes, p)
		verif.Assert(!p.Closed, lab+"/late-peer")
	}
	doSend('D')
	verif.Quiesce()
	for _, s := range sends {
		verif.Assert(s.g.Done(), lab+"/send-still-blocked-although-a-peer-is-ready-and-a-newer-send-was-accepted")
	}
	d := sends[len(sends)-1]
	verif.Assert(d.err == nil, lab+"/fresh-send-failed")
	if !d.g.Done() || d.err != nil {
		return
	}
	for _, x := range recvs {
		verif.Assert(x.g.Done(), lab+"/recv-of-a-superseded-request-still-blocked")
	}
	ids = wireIDs()
	var idD uint32
	nD := 0
	for id, t := range ids {
		if t == 'D' {
			idD = id
			nD++
		}
	}
	verif.Assert(nD == 1, lab+"/fresh-request-not-on-the-wire-under-one-id")
	if nD != 1 {
		return
	}
	var m *mangos.Message
	var rerr error
	rg := verif.Go("recv-D", func() { m, rerr = r.recvMsg() })
	verif.Quiesce()
	for id, t := range ids {
		if t != 'D' {
			p.Deliver([]byte{byte(id >> 24), byte(id >> 16), byte(id >> 8), byte(id), 'z'})
		}
	}
	verif.Quiesce()
	verif.Assert(!rg.Done(), lab+"/reply-to-an-earlier-request-delivered-for-the-fresh-one")
	if rg.Done() {
		return
	}
	p.Deliver([]byte{byte(idD >> 24), byte(idD >> 16), byte(idD >> 8), byte(idD), 'd'})
	verif.Quiesce()
	verif.Assert(rg.Done() && rerr == nil, lab+"/reply-to-the-fresh-request-not-delivered")
	if rg.Done() && rerr == nil {
		verif.Assert(len(m.Body) == 1 && m.Body[0] == 'd', lab+"/wrong-reply-delivered")
	}
	_, e2 := r.recvMsg()
	verif.Assert(e2 == mangos.ErrProtoState, lab+"/second-recv-without-request")
	verif.Reach("burst-epilogue")
	sock.Close() // (no census here: 100 000 schedules; the census runs at the end of every other REQ harness)
}

// VH04e_burst: a request is outstanding on one of two connections and a Recv
// waits for its reply. K of {the carrying connection is lost; the retry timer
// fires; the other connection is lost; a new peer connects; the reply arrives
// on the carrying connection} happen at the same moment, under every schedule
// in which one goroutine stalls at one synchronisation point until the others
// are at rest. Unless the reply was delivered, the request must still be alive
// afterwards: it is (re)transmitted, unchanged and under its own id, to a live
// peer -- at once if its connection was lost, at the latest when the retry
// timer next fires -- and the reply sent by that peer completes the Recv. Never
// is the request written to a connection that has been detached, and the reply
// is delivered exactly once.
func VH04e_burst() {
	K := verif.Param("K", 2)
	lab := "C04/burst"
	sock := vp.New("req")
	retry := time.Second
	verif.Assert(sock.SetOption(mangos.OptionRetryTime, retry) == nil, lab+"/set-retry")
	side := vt.Listen(sock, "a")
	vt.ChooseErrors() // lost connections report ErrClosed or the raw reset error
	pipes := []*vt.Pipe{side.Peer("p0"), side.Peer("p1")}
	verif.Assert(sock.Send([]byte{'A', verif.Byte("payload")}) == nil, lab+"/send")
	verif.Quiesce()
	tx := transmissions(pipes, 'A')
	verif.Assert(len(tx) == 1 && len(tx[0].h) == 4, lab+"/request-not-transmitted-exactly-once")
	if len(tx) != 1 || len(tx[0].h) != 4 {
		return
	}
	carrier := tx[0].pipe
	other := pipes[0]
	if carrier == pipes[0] {
		other = pipes[1]
	}
	id := append([]byte{}, tx[0].h...)
	body := append([]byte{}, tx[0].b...)
	var rb []byte
	var rerr error
	rg := verif.Go("recv", func() { rb, rerr = sock.Recv() })
	verif.Quiesce()
	replied := false
	last := -1
	for k := 0; k < K; k++ {
		ev := verif.Choice("ev", 5)
		verif.Assume(ev > last)
		last = ev
		switch ev {
		case 0:
			carrier.Drop()
		case 1:
			verif.Assert(verif.FireTimerNow(), lab+"/no-retry-timer-pending-for-an-outstanding-request")
		case 2:
			other.Drop()
		case 3:
			pipes = append(pipes, side.L.Connect("p2"))
		case 4:
			replied = true
			carrier.Deliver([]byte{id[0], id[1], id[2], id[3], 'R'})
		}
	}
	verif.Quiesce()
	check := func() {
		for _, p := range pipes {
			for _, r := range p.Sent {
				verif.Assert(verif.BytesEq(r.H, id) && verif.BytesEq(r.B, body), lab+"/retransmission-differs-from-the-request")
			}
		}
	}
	check()
	if rg.Done() {
		verif.Assert(replied, lab+"/recv-returned-without-a-reply")
		verif.Assert(rerr == nil && len(rb) == 1 && rb[0] == 'R', lab+"/wrong-reply-delivered")
		verif.Reach("answered-in-burst")
	} else {
		// the request is still alive: find the live peer that has it, helping with the retry timer and a new peer
		live := func() *vt.Pipe {
			for _, p := range pipes {
				if !p.Closed && len(p.Sent) > 0 {
					return p
				}
			}
			return nil
		}
		anyOpen := false
		for _, p := range pipes {
			if !p.Closed {
				anyOpen = true
			}
		}
		if !anyOpen {
			pipes = append(pipes, side.Peer("late"))
		}
		// a reply that arrived on the carrier while it was being torn down may have been lost with it: that is
		// the network's doing; the request then has to be re-sent like any other unanswered one
		for i := 0; i < 3 && live() == nil; i++ {
			verif.FireTimer()
		}
		p := live()
		verif.Assert(p != nil, lab+"/request-never-retransmitted-to-a-live-peer")
		if p == nil {
			return
		}
		check()
		p.Deliver([]byte{id[0], id[1], id[2], id[3], 'S'})
		verif.Quiesce()
		verif.Assert(rg.Done() && rerr == nil, lab+"/reply-from-the-peer-holding-the-request-not-delivered")
		if rg.Done() && rerr == nil {
			verif.Assert(len(rb) == 1 && (rb[0] == 'S' || (replied && rb[0] == 'R')), lab+"/wrong-reply-delivered")
		}
		verif.Reach("answered-after-burst")
	}
	// once answered: no further transmission, no second delivery
	n := 0
	for _, p := range pipes {
		n += len(p.Sent)
	}
	for i := 0; i < 2; i++ {
		verif.FireTimer()
	}
	m := 0
	for _, p := range pipes {
		m += len(p.Sent)
	}
	verif.Assert(m == n, lab+"/retransmitted-after-the-reply-was-delivered")
	_, e2 := sock.Recv()
	verif.Assert(e2 == mangos.ErrProtoState, lab+"/reply-delivered-twice")
	vp.CloseCensus(sock, "C10/req/after-history")
}

// VH04f_cycles: R request/reply exchanges in a row on one REQ socket or context
// with two peers, each exchange disturbed according to one of a few periodic
// patterns: undisturbed; the carrying connection is lost (the request must be
// re-sent to the other peer at once) and a new peer connects; the retry timer
// fires once before the reply (a second transmission, not sooner than the retry
// time after the first). In every round -- the fifth like the first -- the
// request is (re)transmitted unchanged under one id, ids of different rounds
// differ, the reply of the peer holding the request is delivered exactly once,
// a late reply of an earlier round never is, and no retry timer survives the
// reply.
func VH04f_cycles() {
	R := verif.Param("R", 6)
	lab := "C04/cycles"
	sock := vp.New("req")
	retry := time.Second
	verif.Assert(sock.SetOption(mangos.OptionRetryTime, retry) == nil, lab+"/set-retry")
	side := vt.Listen(sock, "a")
	vt.ChooseErrors() // lost connections report ErrClosed or the raw reset error
	pipes := []*vt.Pipe{side.Peer("p0"), side.Peer("p1")}
	r := &rctx{name: "sock", sock: sock}
	if verif.Choice("api", 2) == 1 {
		c, err := sock.OpenContext()
		verif.Assert(err == nil, lab+"/open-context")
		verif.Assert(c.SetOption(mangos.OptionRetryTime, retry) == nil, lab+"/set-retry-ctx")
		r = &rctx{name: "ctx", c: c}
	}
	patterns := [][]int{{0}, {1}, {2}, {0, 1}, {1, 2}, {0, 0, 1}, {2, 2, 1}, {1, 1, 0, 2}}
	pat := patterns[verif.Choice("pattern", len(patterns))]
	var oldIDs [][]byte
	npeer := 2
	for i := 0; i < R; i++ {
		tag := byte('A' + i)
		body := []byte{tag, verif.Byte("payload")}
		verif.Assert(r.send(body) == nil, lab+"/send")
		verif.Quiesce()
		tx := transmissions(pipes, tag)
		verif.Assert(len(tx) == 1 && len(tx[0].h) == 4, lab+"/request-not-transmitted-exactly-once")
		if len(tx) != 1 || len(tx[0].h) != 4 {
			return
		}
		id := append([]byte{}, tx[0].h...)
		for _, o := range oldIDs {
			verif.Assert(!verif.BytesEq(o, id), lab+"/request-ids-of-different-rounds-equal")
		}
		holder := tx[0].pipe
		switch pat[i%len(pat)] {
		case 1: // the carrier is lost
			holder.Drop()
			verif.Quiesce()
			tx = transmissions(pipes, tag)
			verif.Assert(len(tx) == 2, lab+"/no-immediate-resend-after-connection-loss")
			if len(tx) != 2 {
				return
			}
			for _, t := range tx {
				if !t.pipe.Closed {
					holder = t.pipe
				}
			}
			verif.Assert(!holder.Closed, lab+"/resent-to-a-detached-connection")
			pipes = append(pipes, side.Peer("n"+string(rune('0'+npeer))))
			npeer++
		case 2: // the retry timer fires once
			t0 := tx[0].at
			verif.Assert(verif.FireTimer(), lab+"/no-retry-timer-pending")
			tx = transmissions(pipes, tag)
			verif.Assert(len(tx) == 2, lab+"/retry-timer-did-not-resend")
			if len(tx) != 2 {
				return
			}
			first := holder
			for _, t := range tx {
				if t.at != t0 || t.pipe != first {
					verif.Assert(t.at >= t0+retry, lab+"/resent-sooner-than-the-retry-time")
					holder = t.pipe
				}
			}
		}
		for _, t := range tx {
			verif.Assert(verif.BytesEq(t.h, id) && verif.BytesEq(t.b, body), lab+"/retransmission-differs-from-the-request")
		}
		// a late reply to an earlier round must not be taken for this one
		var rb []byte
		var rerr error
		rg := verif.Go("recv", func() { rb, rerr = r.recvMsg2() })
		verif.Quiesce()
		if len(oldIDs) > 0 {
			o := oldIDs[len(oldIDs)-1]
			holder.Deliver([]byte{o[0], o[1], o[2], o[3], 'x'})
			verif.Quiesce()
			verif.Assert(!rg.Done(), lab+"/late-reply-of-an-earlier-round-delivered")
		}
		if rg.Done() {
			return
		}
		holder.Deliver([]byte{id[0], id[1], id[2], id[3], tag + 32})
		verif.Quiesce()
		verif.Assert(rg.Done() && rerr == nil && len(rb) == 1 && rb[0] == tag+32, lab+"/reply-not-delivered")
		verif.Assert(verif.PendingCallbackTimers() == 0, lab+"/retry-timer-survives-the-reply")
		n := len(transmissions(pipes, tag))
		verif.RunClockTo(verif.Now() + 3*retry)
		verif.Assert(len(transmissions(pipes, tag)) == n, lab+"/retransmitted-after-the-reply")
		oldIDs = append(oldIDs, id)
	}
	verif.Reach("cycles-done")
	vp.CloseCensus(sock, "C10/req/after-history")
}

func (r *rctx) recvMsg2() ([]byte, error) {
	m, err := r.recvMsg()
	if err != nil {
		return nil, err
	}
	return m.Body, nil
}

// VH03i_many_contexts: M (5) contexts of one REQ socket all have a request
// waiting (no peer yet). One or two of them then leave the queue, each in one
// of three ways -- its context is closed, its send deadline runs out, it is
// superseded by a newer Send on the same context -- at any positions of the
// queue (every combination a path). Then a peer connects: the request of every
// context that is still waiting is transmitted exactly once (for a superseded
// one: the newer request), no request of a context that gave up is, every
// blocked Send returns, and each context receives the reply to its own request
// and no other.
func VH03i_many_contexts() {
	M := verif.Param("M", 5)
	lab := "C03/many-contexts"
	sock := vp.New("req")
	side := vt.Listen(sock, "a")
	type cx struct {
		c     mangos.Context
		g     *verif.G
		err   error
		tag   byte
		gone  bool // closed or timed out
		g2    *verif.G
		err2  error
	}
	var cs []*cx
	for i := 0; i < M; i++ {
		c, err := sock.OpenContext()
		verif.Assert(err == nil, lab+"/open-context")
		if err != nil {
			return
		}
		x := &cx{c: c, tag: byte('A' + i)}
		cs = append(cs, x)
	}
	leave := func(x *cx, way int) {
		switch way {
		case 0:
			verif.Assert(x.c.Close() == nil, lab+"/context-close")
			x.gone = true
		case 1:
			x.gone = true // its deadline (set below, before sending) runs out
		case 2:
			x.tag += 32 // 'a'..: the newer request
			x.g2 = verif.Go("send-again", func() { x.err2 = x.c.Send([]byte{x.tag}) })
		}
	}
	a := verif.Choice("first", M)
	wayA := verif.Choice("way-first", 3)
	b := verif.Choice("second", M+1) - 1 // -1: only one leaves
	wayB := 0
	if b >= 0 {
		verif.Assume(b != a)
		wayB = verif.Choice("way-second", 3)
	}
	if wayA == 1 {
		verif.Assert(cs[a].c.SetOption(mangos.OptionSendDeadline, time.Second) == nil, lab+"/set-deadline")
	}
	if b >= 0 && wayB == 1 {
		verif.Assert(cs[b].c.SetOption(mangos.OptionSendDeadline, time.Second) == nil, lab+"/set-deadline")
	}
	for _, x := range cs {
		x := x
		x.g = verif.Go("send", func() { x.err = x.c.Send([]byte{x.tag}) })
		verif.Quiesce()
		verif.Assert(!x.g.Done(), lab+"/send-returned-although-nobody-could-take-the-request")
	}
	leave(cs[a], wayA)
	verif.Quiesce()
	if b >= 0 {
		leave(cs[b], wayB)
		verif.Quiesce()
	}
	if wayA == 1 || (b >= 0 && wayB == 1) {
		for i := 0; i < 2 && verif.PendingTimers() > 0; i++ {
			verif.FireTimer()
		}
	}
	for _, x := range cs {
		if x.gone {
			verif.Assert(x.g.Done() && x.err != nil, lab+"/send-of-a-context-that-gave-up-did-not-fail")
		}
	}
	p := side.Peer("p0")
	// the peer takes one request at a time: let everything drain
	for i := 0; i < 2*M; i++ {
		verif.Quiesce()
	}
	want := 0
	for _, x := range cs {
		if x.gone {
			continue
		}
		want++
		verif.Assert(x.g.Done() && x.err == nil, lab+"/send-still-blocked-although-a-peer-takes-requests")
		if x.g2 != nil {
			verif.Assert(x.g2.Done() && x.err2 == nil, lab+"/newer-send-still-blocked-although-a-peer-takes-requests")
		}
	}
	seen := map[byte][]byte{}
	for _, r := range p.Sent {
		verif.Assert(len(r.H) == 4 && len(r.B) == 1, lab+"/request-frame-shape")
		if len(r.H) != 4 || len(r.B) != 1 {
			continue
		}
		_, dup := seen[r.B[0]]
		verif.Assert(!dup, lab+"/request-transmitted-twice")
		seen[r.B[0]] = r.H
	}
	for _, x := range cs {
		_, ok := seen[x.tag]
		if x.gone {
			verif.Assert(!ok, lab+"/request-of-a-context-that-gave-up-transmitted")
		} else {
			verif.Assert(ok, lab+"/waiting-request-never-transmitted-after-another-context-left-the-queue")
		}
	}
	verif.Assert(len(p.Sent) == want, lab+"/unexpected-number-of-requests-on-the-wire")
	// replies, in reverse order
	for i := len(cs) - 1; i >= 0; i-- {
		x := cs[i]
		h, ok := seen[x.tag]
		if x.gone || !ok {
			continue
		}
		p.Deliver([]byte{h[0], h[1], h[2], h[3], x.tag, 'r'})
	}
	verif.Quiesce()
	for _, x := range cs {
		if x.gone {
			continue
		}
		if _, ok := seen[x.tag]; !ok {
			continue
		}
		b, err := x.c.Recv()
		verif.Assert(err == nil && len(b) == 2 && b[0] == x.tag, lab+"/context-did-not-receive-the-reply-to-its-own-request")
	}
	verif.Reach("many-contexts-checked")
	vp.CloseCensus(sock, "C10/req/after-history")
}

// VH04g_many_peers: a REQ socket with P (4) peers. After 0..3 complete
// exchanges (which shuffle the order in which peers are used) a request is
// sent; then the connection carrying it is lost, again and again, until a
// single peer is left. After every loss the request is re-sent at once to a
// peer that is still connected -- never to a detached one, and no connected
// peer is ever forgotten -- so that the last survivor, whichever it is, ends
// up with the request and its reply completes the exchange.
func VH04g_many_peers() {
	P := verif.Param("P", 4)
	lab := "C04/many-peers"
	sock := vp.New("req")
	verif.Assert(sock.SetOption(mangos.OptionRetryTime, time.Minute) == nil, lab+"/set-retry")
	side := vt.Listen(sock, "a")
	vt.ChooseErrors() // lost connections report ErrClosed or the raw reset error
	var pipes []*vt.Pipe
	for i := 0; i < P; i++ {
		pipes = append(pipes, side.Peer("p"+string(rune('0'+i))))
	}
	holderOf := func(tag byte) *vt.Pipe {
		var h *vt.Pipe
		for _, p := range pipes {
			if n := len(p.Sent); n > 0 && len(p.Sent[n-1].B) == 2 && p.Sent[n-1].B[0] == tag && !p.Closed {
				h = p
			}
		}
		return h
	}
	warm := verif.Choice("warm-up", 4)
	for i := 0; i < warm; i++ {
		tag := byte('a' + i)
		verif.Assert(sock.Send([]byte{tag, 0}) == nil, lab+"/warm-up-send")
		verif.Quiesce()
		h := holderOf(tag)
		verif.Assert(h != nil, lab+"/warm-up-request-not-transmitted")
		if h == nil {
			return
		}
		x := h.Sent[len(h.Sent)-1].H
		h.Deliver([]byte{x[0], x[1], x[2], x[3], tag})
		verif.Quiesce()
		b, err := sock.Recv()
		verif.Assert(err == nil && len(b) == 1 && b[0] == tag, lab+"/warm-up-reply")
	}
	body := []byte{'Q', verif.Byte("payload")}
	verif.Assert(sock.Send(body) == nil, lab+"/send")
	verif.Quiesce()
	var id []byte
	for alive := P; alive > 1; alive-- {
		h := holderOf('Q')
		verif.Assert(h != nil, lab+"/request-not-with-any-connected-peer-although-peers-are-connected")
		if h == nil {
			return
		}
		r := h.Sent[len(h.Sent)-1]
		if id == nil {
			id = append([]byte{}, r.H...)
		}
		verif.Assert(verif.BytesEq(r.H, id) && verif.BytesEq(r.B, body), lab+"/retransmission-differs-from-the-request")
		h.Drop()
		verif.Quiesce()
	}
	h := holderOf('Q')
	verif.Assert(h != nil, lab+"/last-surviving-peer-never-got-the-request")
	if h == nil {
		return
	}
	for _, p := range pipes {
		if p.Closed {
			continue
		}
		verif.Assert(p == h, lab+"/more-than-one-survivor")
	}
	h.Deliver([]byte{id[0], id[1], id[2], id[3], 'R'})
	verif.Quiesce()
	b, err := sock.Recv()
	verif.Assert(err == nil && len(b) == 1 && b[0] == 'R', lab+"/reply-of-the-last-survivor-not-delivered")
	verif.Reach("many-peers-checked")
	vp.CloseCensus(sock, "C10/req/after-history")
}

// VH04i_shared_carrier: N contexts (socket included) each have a request outstanding, all carried by the same
// connection (the only one at the time; a connection is ready again after each transmission). A second peer
// connects, then the carrier is lost. With retries on, EVERY outstanding request is re-sent at once to the survivor,
// byte-identical and once, and each context receives the reply to its own request; with retries off, every context's
// Recv is cancelled and nothing is re-sent.
func VH04i_shared_carrier() {
	N := verif.Param("N", 3)
	lab := "C04/shared-carrier"
	sock := vp.New("req")
	retries := verif.Choice("retries", 2) == 1
	rt := time.Duration(0)
	if retries {
		rt = time.Minute
	}
	verif.Assert(sock.SetOption(mangos.OptionRetryTime, rt) == nil, lab+"/set-retry")
	side := vt.Listen(sock, "a")
	vt.ChooseErrors()
	a := side.Peer("A")
	type rq struct {
		send func([]byte) error
		recv func() (*mangos.Message, error)
		tag  byte
		h, b []byte
		g    *verif.G
		m    *mangos.Message
		err  error
	}
	var rs []*rq
	rs = append(rs, &rq{send: sock.Send, recv: sock.RecvMsg})
	for i := 1; i < N; i++ {
		c, err := sock.OpenContext()
		verif.Assert(err == nil, lab+"/open-context")
		if err != nil {
			return
		}
		c.SetOption(mangos.OptionRetryTime, rt)
		rs = append(rs, &rq{send: c.Send, recv: c.RecvMsg})
	}
	for i, r := range rs {
		r.tag = byte('a' + i)
		verif.Assert(r.send([]byte{r.tag, verif.Byte("payload")}) == nil, lab+"/send")
		verif.Quiesce()
		n := len(a.Sent)
		if n != i+1 || len(a.Sent[n-1].B) != 2 || a.Sent[n-1].B[0] != r.tag {
			verif.Fail(lab + "/request-not-carried-by-the-only-connection")
			return
		}
		r.h, r.b = append([]byte{}, a.Sent[n-1].H...), append([]byte{}, a.Sent[n-1].B...)
	}
	for _, r := range rs {
		rr := r
		rr.g = verif.Go("recv", func() { rr.m, rr.err = rr.recv() })
	}
	verif.Quiesce()
	b := side.Peer("B")
	verif.Quiesce()
	verif.Assert(len(b.Sent) == 0, lab+"/transmitted-to-a-new-peer-without-cause")
	a.Drop()
	verif.Quiesce()
	if !retries {
		verif.Assert(len(b.Sent) == 0, lab+"/re-sent-although-retries-are-off")
		for _, r := range rs {
			verif.Assert(r.g.Done(), lab+"/recv-not-cancelled-by-the-loss-of-its-carrier-with-retries-off")
			if r.g.Done() {
				verif.Assert(r.err == mangos.ErrCanceled, lab+"/retries-off-loss-error-kind")
			}
		}
		verif.Reach("shared-carrier-cancelled")
		sock.Close()
		return
	}
	for _, r := range rs {
		n := 0
		for _, x := range b.Sent {
			if len(x.B) == 2 && x.B[0] == r.tag {
				n++
				verif.Assert(verif.BytesEq(x.H, r.h) && verif.BytesEq(x.B, r.b), lab+"/retransmission-differs-from-the-request")
			}
		}
		verif.Assert(n == 1, lab+"/outstanding-request-not-re-sent-exactly-once-after-the-loss-of-its-carrier")
	}
	// replies in reverse order
	for i := len(rs) - 1; i >= 0; i-- {
		r := rs[i]
		b.Deliver([]byte{r.h[0], r.h[1], r.h[2], r.h[3], r.tag})
		verif.Quiesce()
		verif.Assert(r.g.Done() && r.err == nil, lab+"/reply-does-not-complete-the-context")
		if r.g.Done() && r.err == nil {
			verif.Assert(len(r.m.Body) == 1 && r.m.Body[0] == r.tag, lab+"/context-got-another-contexts-reply")
		}
	}
	verif.Reach("shared-carrier-resent")
	vp.CloseCensus(sock, "C10/req/after-history")
}

// VH04h_write_fault: the connection that is handed a request cannot be written
// to (the write fails at once, or after having stalled), although its read side
// stays healthy -- nothing else tells the library that the connection is bad.
// The library gives the connection up (closes it; it is never offered anything
// again) and the request is re-sent at once to the other peer, unchanged; its
// reply completes the exchange; a second context that was waiting to send is
// not handed to the dead connection either; later requests go to the healthy
// peer. With a single peer the request waits (its Send blocks, or its deadline
// runs out) instead of being reported as sent.
func VH04h_write_fault() {
	lab := "C04/write-fault"
	sock := vp.New("req")
	verif.Assert(sock.SetOption(mangos.OptionRetryTime, time.Minute) == nil, lab+"/set-retry")
	side := vt.Listen(sock, "a")
	vt.ChooseErrors()
	bad := side.Peer("bad")
	stalls := verif.Choice("stalls-first", 2) == 1
	if stalls {
		bad.SendMode = vt.SendBlock
	} else {
		bad.SendMode = vt.SendFail
	}
	twoPeers := verif.Choice("second-peer", 2) == 1
	body := []byte{'Q', verif.Byte("payload")}
	var serr error
	sg := verif.Go("send", func() { serr = sock.Send(body) })
	verif.Quiesce()
	var c2 mangos.Context
	var s2 *verif.G
	var serr2 error
	if stalls {
		// a second context is waiting for a connection while the write is stuck
		c2, _ = sock.OpenContext()
		s2 = verif.Go("send-2", func() { serr2 = c2.Send([]byte{'W', 0}) })
		verif.Quiesce()
	}
	var good *vt.Pipe
	if twoPeers {
		good = side.Peer("good")
	}
	if stalls {
		// the stalled write now fails; the read side of the connection stays as it is
		bad.SendMode = vt.SendFail
		bad.FailBlocked()
		verif.Quiesce()
	}
	verif.Assert(bad.Closed, lab+"/connection-whose-write-failed-not-given-up")
	n := bad.SendCalls
	if twoPeers {
		verif.Assert(sg.Done() && serr == nil, lab+"/send")
		tx := transmissions([]*vt.Pipe{good}, 'Q')
		verif.Assert(len(tx) == 1, lab+"/request-not-re-sent-at-once-to-the-healthy-peer")
		if len(tx) != 1 {
			return
		}
		verif.Assert(verif.BytesEq(tx[0].b, body), lab+"/retransmission-differs-from-the-request")
		h := tx[0].h
		good.Deliver([]byte{h[0], h[1], h[2], h[3], 'R'})
		verif.Quiesce()
		b, err := sock.Recv()
		verif.Assert(err == nil && len(b) == 1 && b[0] == 'R', lab+"/reply-not-delivered")
		if s2 != nil {
			verif.Assert(s2.Done() && serr2 == nil, lab+"/waiting-context-not-served-by-the-healthy-peer")
			verif.Assert(len(transmissions([]*vt.Pipe{good}, 'W')) == 1, lab+"/waiting-request-not-transmitted-to-the-healthy-peer")
		}
		verif.Assert(sock.Send([]byte{'Z', 1}) == nil, lab+"/later-send")
		verif.Quiesce()
		verif.Assert(len(transmissions([]*vt.Pipe{good}, 'Z')) == 1, lab+"/later-request-not-sent-to-the-healthy-peer")
		verif.Reach("failed-over")
	} else {
		// nobody else to send to: nothing may pretend the waiting requests went out
		if s2 != nil {
			verif.Assert(!s2.Done(), lab+"/waiting-send-reported-done-although-its-only-connection-is-dead")
		}
		late := side.Peer("late")
		verif.Quiesce()
		verif.Assert(len(transmissions([]*vt.Pipe{late}, 'Q')) == 1, lab+"/request-not-re-sent-to-the-peer-that-connected-later")
		verif.Reach("waited-for-a-peer")
	}
	verif.Assert(bad.SendCalls == n, lab+"/dead-connection-offered-traffic-again")
	vp.CloseCensus(sock, "C10/req/after-history")
}
