package h03

import (
	"time"

	"go.nanomsg.org/mangos/v3"
	"go.nanomsg.org/mangos/v3/zzverif/verif"
	"go.nanomsg.org/mangos/v3/zzverif/vp"
	"go.nanomsg.org/mangos/v3/zzverif/vt"
)

// VH04j_answered_unreceived: a request was transmitted and its reply has arrived (and has been matched: everything
// is at rest) but the application has not called Recv yet. E further events happen meanwhile - the connection
// that carried the request is lost, another connection is lost, a new peer connects, a pending timer fires, the
// retry time is changed. The request is answered: it is never handed to a connection again, whatever happens to
// the connection it once used, and the Recv that finally comes returns that reply at once, unchanged - with retries
// enabled (interval a solver variable) or disabled. A second Recv has no request; a fresh request then goes out once.
func VH04j_answered_unreceived() {
	E := verif.Param("E", 2)
	lab := "C04/answered-unreceived"
	sock := vp.New("req")
	r := &rctx{name: "sock", sock: sock}
	var setopt func(string, interface{}) error = sock.SetOption
	if verif.Choice("api", 2) == 1 {
		c, err := sock.OpenContext()
		verif.Assert(err == nil, lab+"/open-context")
		r = &rctx{name: "ctx", c: c}
		setopt = c.SetOption
	}
	retry := time.Duration(0)
	if verif.Choice("retry", 2) == 1 {
		retry = verif.Duration("retry")
		verif.Assume(verif.And(retry >= 1, retry <= time.Hour))
	} else {
		lab += "/no-retry"
	}
	verif.Assert(setopt(mangos.OptionRetryTime, retry) == nil, lab+"/set-retry")
	side := vt.Listen(sock, "a")
	pipes := []*vt.Pipe{side.Peer("p0")}
	if verif.Choice("second-peer", 2) == 1 {
		pipes = append(pipes, side.Peer("p1"))
	}
	payload := verif.Byte("payload")
	verif.Assert(r.send([]byte{1, payload}) == nil, lab+"/send")
	verif.Quiesce()
	tx := transmissions(pipes, 1)
	verif.Assert(len(tx) == 1, lab+"/first-transmission-exactly-once")
	if len(tx) != 1 {
		return
	}
	carrier := tx[0].pipe
	id := be32(tx[0].h)
	rb := verif.Byte("reply")
	// the reply comes back on the connection that carried the request
	carrier.Deliver([]byte{byte(id >> 24), byte(id >> 16), byte(id >> 8), byte(id), 'R', rb})
	verif.Quiesce()
	for e := 0; e < E; e++ {
		switch verif.Choice("ev", 5) {
		case 0:
			if carrier.Closed {
				verif.Assume(false)
			}
			carrier.Drop()
			verif.Reach("h04j-carrier-lost")
		case 1:
			var o *vt.Pipe
			for _, p := range pipes {
				if p != carrier && !p.Closed {
					o = p
				}
			}
			if o == nil {
				verif.Assume(false)
			}
			o.Drop()
		case 2:
			if len(pipes) >= 3 {
				verif.Assume(false)
			}
			pipes = append(pipes, side.Peer("pn"))
		case 3:
			if !verif.FireTimer() {
				verif.Assume(false)
			}
		case 4:
			nr := time.Duration(0)
			if retry == 0 {
				nr = time.Second
			}
			verif.Assert(setopt(mangos.OptionRetryTime, nr) == nil, lab+"/change-retry")
		}
		verif.Quiesce()
		verif.Assert(len(transmissions(pipes, 1)) == 1, lab+"/answered-request-transmitted-again")
	}
	var m *mangos.Message
	var rerr error
	g := verif.Go("recv", func() { m, rerr = r.recvMsg() })
	verif.Quiesce()
	verif.Assert(g.Done(), lab+"/recv-blocks-although-the-reply-has-arrived")
	if !g.Done() {
		return
	}
	verif.Assert(rerr == nil, lab+"/reply-that-had-arrived-is-not-returned")
	if rerr == nil {
		verif.Assert(len(m.Body) == 2 && m.Body[0] == 'R' && m.Body[1] == rb, lab+"/reply-changed")
	}
	_, e2 := r.recvMsg()
	verif.Assert(e2 == mangos.ErrProtoState, lab+"/second-recv-without-request")
	verif.Assert(len(transmissions(pipes, 1)) == 1, lab+"/answered-request-transmitted-again")
	// a fresh request
	live := false
	for _, p := range pipes {
		live = live || !p.Closed
	}
	if !live {
		pipes = append(pipes, side.Peer("late"))
	}
	var serr error
	sg := verif.Go("send-2", func() { serr = r.send([]byte{2, payload}) })
	verif.Quiesce()
	verif.Assert(sg.Done() && serr == nil, lab+"/fresh-send")
	verif.Assert(len(transmissions(pipes, 2)) == 1, lab+"/fresh-request-not-transmitted-once")
	verif.Reach("h04j-checked")
	vp.CloseCensus(sock, "C10/req/after-history")
}
