package h14

import (
	"time"

	"go.nanomsg.org/mangos/v3"
	"go.nanomsg.org/mangos/v3/protocol"
	"go.nanomsg.org/mangos/v3/zzverif/verif"
	"go.nanomsg.org/mangos/v3/zzverif/vt"
)

// VH19i_dialer_live: the reconnect options of a dialer that is at work. The reconnect time and its maximum are
// solver variables; after Dial() a history of E events runs - a connection attempt (refused or established), the
// loss of the connection, and either option set again to a fresh arbitrary value on the dialer or on its socket.
// After every event GetOption on the dialer returns, for both options, the value that was set last: what the
// dialer does with its own back-off state (growing it, resetting it after a successful attach) never shows through
// the option.
func VH19i_dialer_live() {
	E := verif.Param("E", 3)
	lab := "C19/dialer-live"
	dur := func(name string) time.Duration {
		v := verif.Duration(name)
		verif.Assume(verif.And(v >= 1, v <= time.Hour))
		return v
	}
	r := dur("reconnect")
	m := time.Duration(0)
	if verif.Choice("capped", 2) == 1 {
		m = dur("max-reconnect")
		verif.Assume(m >= r)
	}
	rp := &okProto{}
	sock := protocol.MakeSocket(rp)
	vt.Install()
	d, err := sock.NewDialer("vt://peer", map[string]interface{}{
		mangos.OptionReconnectTime: r, mangos.OptionMaxReconnectTime: m, mangos.OptionDialAsynch: true})
	verif.Assert(err == nil, lab+"/new-dialer")
	if err != nil {
		return
	}
	td := vt.T.Dialers[0]
	td.Outcome = func(n int) (*vt.Pipe, error) {
		if verif.Choice("outcome", 2) == 0 {
			return nil, mangos.ErrConnRefused
		}
		return vt.NewPipe(vt.T, "c"), nil
	}
	check := func(when string) {
		v, e := d.GetOption(mangos.OptionReconnectTime)
		verif.Assert(e == nil, lab+"/get-reconnect-time")
		if e == nil {
			got, ok := v.(time.Duration)
			verif.Assert(ok && got == r, lab+"/RECONNECT-TIME-is-not-the-value-set-last/"+when)
		}
		v, e = d.GetOption(mangos.OptionMaxReconnectTime)
		verif.Assert(e == nil, lab+"/get-max-reconnect-time")
		if e == nil {
			got, ok := v.(time.Duration)
			verif.Assert(ok && got == m, lab+"/MAX-RECONNECT-TIME-is-not-the-value-set-last/"+when)
		}
	}
	check("before-dial")
	verif.Assert(d.Dial() == nil, lab+"/dial")
	verif.Quiesce()
	check("after-first-attempt")
	for i := 0; i < E; i++ {
		switch verif.Choice("event", 4) {
		case 0: // the pending redial fires: another attempt
			if verif.PendingTimers() == 0 {
				verif.Assume(false)
			}
			verif.FireTimer()
			verif.Quiesce()
			check("after-attempt")
			verif.Reach("h19i-attempt")
		case 1: // the established connection is lost
			if len(td.Pipes) == 0 || td.Pipes[len(td.Pipes)-1].Closed {
				verif.Assume(false)
			}
			td.Pipes[len(td.Pipes)-1].Drop()
			verif.Quiesce()
			check("after-connection-loss")
			verif.Reach("h19i-loss")
		case 2:
			r = dur("reconnect'")
			if m != 0 {
				verif.Assume(m >= r)
			}
			if verif.Choice("via-socket", 2) == 1 {
				verif.Assert(sock.SetOption(mangos.OptionReconnectTime, r) == nil, lab+"/set-on-socket")
			} else {
				verif.Assert(d.SetOption(mangos.OptionReconnectTime, r) == nil, lab+"/set-on-dialer")
			}
			check("after-set")
			verif.Reach("h19i-set")
		case 3:
			if verif.Choice("uncap", 2) == 1 {
				m = 0
			} else {
				m = dur("max-reconnect'")
				verif.Assume(m >= r)
			}
			if verif.Choice("via-socket", 2) == 1 {
				verif.Assert(sock.SetOption(mangos.OptionMaxReconnectTime, m) == nil, lab+"/set-max-on-socket")
			} else {
				verif.Assert(d.SetOption(mangos.OptionMaxReconnectTime, m) == nil, lab+"/set-max-on-dialer")
			}
			check("after-set-max")
		}
	}
	sock.Close()
	check("after-close")
	verif.Reach("h19i-done")
}
