// Package h14: dialer reconnect / back-off / stop (C14).
package h14

import (
	"time"

	"go.nanomsg.org/mangos/v3"
	"go.nanomsg.org/mangos/v3/protocol"
	"go.nanomsg.org/mangos/v3/zzverif/verif"
	"go.nanomsg.org/mangos/v3/zzverif/vt"
)

type okProto struct {
	closed  bool
	adds    int
	removes int
	refuse  bool
}

func (r *okProto) Info() mangos.ProtocolInfo {
	return mangos.ProtocolInfo{Self: 0x10, Peer: 0x10, SelfName: "pair", PeerName: "pair"}
}
func (r *okProto) AddPipe(p mangos.ProtocolPipe) error {
	if r.closed {
		return mangos.ErrClosed // as every protocol of the library does once it has been closed
	}
	if r.refuse {
		return mangos.ErrProtoState
	}
	r.adds++
	go func() { // like every real protocol: a receiver that notices the connection going away
		for p.RecvMsg() != nil {
		}
	}()
	return nil
}
func (r *okProto) RemovePipe(p mangos.ProtocolPipe)                 { r.removes++ }
func (r *okProto) OpenContext() (mangos.ProtocolContext, error)     { return nil, mangos.ErrProtoOp }
func (r *okProto) Close() error                                      { r.closed = true; return nil }
func (r *okProto) SendMsg(m *mangos.Message) error                   { return mangos.ErrProtoOp }
func (r *okProto) RecvMsg() (*mangos.Message, error)                 { return nil, mangos.ErrProtoOp }
func (r *okProto) GetOption(string) (interface{}, error)             { return nil, mangos.ErrBadOption }
func (r *okProto) SetOption(string, interface{}) error               { return mangos.ErrBadOption }

// VH14a_backoff: reconnect time r, max reconnect time m (0 or >= r) and the
// random jitter are solver variables (Int/Real mode); the outcome of each of A
// attempts is a decision.
func VH14a_backoff() {
	A := verif.Param("A", 3)
	lab := "C14/dialer"
	var r, m time.Duration
	if verif.Param("deep", 0) == 1 {
		// deep runs: concrete times (the arithmetic over many attempts would otherwise be non-linear)
		r = 100 * time.Millisecond
		m = []time.Duration{0, 350 * time.Millisecond, 10 * time.Second}[verif.Choice("max", 3)]
	} else {
		r = verif.Duration("reconnect")
		m = verif.Duration("max-reconnect")
		verif.Assume(verif.And(r >= 1, r <= time.Hour))
		verif.Assume(verif.Or(m == 0, verif.And(m >= r, m <= 24*time.Hour)))
	}
	asynch := verif.Choice("asynch", 2) == 1
	rp := &okProto{}
	sock := protocol.MakeSocket(rp)
	vt.Install()
	d, err := sock.NewDialer("vt://peer", map[string]interface{}{
		mangos.OptionReconnectTime: r, mangos.OptionMaxReconnectTime: m, mangos.OptionDialAsynch: asynch})
	verif.Assert(err == nil, lab+"/new-dialer")
	td := vt.T.Dialers[0]
	var outcomes []int // 0 refused, 1 established, 2 established but protocol rejects
	// deep runs (parameter "deep"): the outcomes follow one of a few periodic patterns instead of being chosen
	// freely, so that many attempts (10; 16 thorough) stay affordable
	patterns := [][]int{{0}, {1}, {2}, {0, 1}, {0, 0, 1}, {1, 2}, {0, 0, 0, 1}, {1, 1, 0}}
	var pattern []int
	if verif.Param("deep", 0) == 1 {
		pattern = patterns[verif.Choice("pattern", len(patterns))]
	}
	td.Outcome = func(n int) (*vt.Pipe, error) {
		var o int
		if pattern != nil {
			o = pattern[n%len(pattern)]
		} else {
			o = verif.Choice("outcome", 3)
		}
		outcomes = append(outcomes, o)
		rp.refuse = o == 2
		if o == 0 {
			return nil, mangos.ErrConnRefused
		}
		return vt.NewPipe(vt.T, "c"), nil
	}
	closeAt := A + 1 // attempt index after which the dialer is closed (A+1: never)
	if pattern != nil {
		closeAt = A + 1 - 2*verif.Choice("close-late", 2) // never, or after the last but one attempt
	} else {
		closeAt = verif.Choice("close-at", A+2)
	}
	var derr error
	dg := verif.Go("dial", func() { derr = d.Dial() })
	verif.Quiesce()
	verif.Assert(dg.Done(), lab+"/dial-returns")
	if !dg.Done() {
		return
	}
	if len(td.Dials) == 0 {
		verif.Fail(lab + "/no-attempt-made")
		return
	}
	everConnected := false
	var prevGap time.Duration
	havePrev := false
	// deep runs: the maximum reconnect time may be changed on the started dialer (or on its socket) after the 2nd
	// or 5th attempt - to another cap or to 0 = "no cap" (the delay then stays at the reconnect time)
	changeAt, newMax, viaSocket := -1, time.Duration(0), false
	capChanged := false
	if pattern != nil {
		switch verif.Choice("change-max", 5) {
		case 1:
			changeAt, newMax = 1, 0
		case 2:
			changeAt, newMax = 4, 0
		case 3:
			changeAt, newMax = 1, 350*time.Millisecond
		case 4:
			changeAt, newMax, viaSocket = 4, 0, true
		}
	}
	for i := 0; i < A; i++ {
		if i == changeAt {
			if viaSocket {
				verif.Assert(sock.SetOption(mangos.OptionMaxReconnectTime, newMax) == nil, lab+"/set-max-on-socket")
			} else {
				verif.Assert(d.SetOption(mangos.OptionMaxReconnectTime, newMax) == nil, lab+"/set-max-on-dialer")
			}
			m = newMax // (a socket-level setting is pushed into its dialers)
			havePrev = false
			capChanged = true
		}
		if len(outcomes) != i+1 || len(td.Dials) != i+1 {
			verif.Fail(lab + "/attempt-count-out-of-step")
			return
		}
		o := outcomes[i]
		var tFail time.Duration
		resetExpected := false
		switch o {
		case 0, 2:
			tFail = td.Dials[i]
			if i == 0 && !asynch {
				// synchronous mode: the first failure is reported and nothing is retried
				if o == 0 {
					verif.Assert(derr != nil, lab+"/sync-dial-failure-not-reported")
				}
				if o == 0 {
					verif.Assert(verif.PendingTimers() == 0, lab+"/sync-dial-redials-before-first-success")
					verif.Reach("sync-first-failure")
					return
				}
			}
			if o == 2 {
				// connection made, protocol refused the pipe: the pipe is closed, the dialer must redial
				verif.Assert(td.Pipes[len(td.Pipes)-1].Closed, lab+"/rejected-pipe-left-open")
			}
		case 1:
			everConnected = true
			p := td.Pipes[len(td.Pipes)-1]
			verif.Assert(!p.Closed, lab+"/established-pipe-closed")
			verif.Assert(rp.adds > 0, lab+"/pipe-not-attached")
			p.Drop()
			verif.Quiesce()
			tFail = verif.Now()
			resetExpected = true
		}
		if closeAt == i {
			verif.Assert(d.Close() == nil, lab+"/close")
			n := len(td.Dials)
			verif.RunOutClock()
			verif.Assert(len(td.Dials) == n, lab+"/attempt-started-after-close")
			verif.Reach("closed")
			return
		}
		// a dialer that is at work cannot be started a second time - whatever its attempts have come to so far
		if asynch || everConnected {
			n := len(td.Dials)
			verif.Assert(d.Dial() == mangos.ErrAddrInUse, lab+"/second-Dial-on-a-started-dialer-accepted")
			verif.Assert(len(td.Dials) == n, lab+"/second-Dial-on-a-started-dialer-made-an-attempt")
		}
		// while open and failing a next attempt is always pending
		verif.Assert(verif.PendingTimers() >= 1, lab+"/no-redial-pending-while-open")
		if verif.PendingTimers() < 1 {
			return
		}
		verif.FireTimer()
		if len(td.Dials) != i+2 {
			verif.Fail(lab + "/redial-timer-did-not-start-an-attempt")
			return
		}
		gap := td.Dials[i+1] - tFail
		verif.Assert(gap >= r, lab+"/redial-sooner-than-reconnect-time")
		if m == 0 && capChanged {
			// the cap was lifted mid-run: whatever the delay has grown to, it never drops below the reconnect time
			// (asserted above) - what exactly it stays at is not said by the property
		} else if m == 0 {
			verif.Assert(gap == r, lab+"/delay-changes-without-max-reconnect-time")
		} else {
			verif.Assert(gap <= m, lab+"/delay-exceeds-max-reconnect-time")
			if havePrev && !resetExpected {
				verif.Assert(gap >= prevGap, lab+"/back-off-shrinks-while-failing")
			}
		}
		if resetExpected {
			verif.Assert(gap == r, lab+"/delay-not-reset-after-successful-attach")
			verif.Reach("reset-after-attach")
		}
		prevGap, havePrev = gap, true
		if resetExpected {
			havePrev = false
		}
		verif.Reach("redialled")
	}
	_ = everConnected
	sock.Close()
	n := len(td.Dials)
	verif.RunOutClock()
	verif.Assert(len(td.Dials) == n, lab+"/attempt-started-after-socket-close")
	verif.Reach("done")
}

// VH14e_burst: a started dialer (synchronous or asynchronous, its peer present
// or absent). K of {its connection is lost; its pending redial timer fires; the
// dialer is closed; the socket is closed; the peer starts / stops refusing}
// happen at the same moment, under every schedule in which one goroutine stalls
// at one synchronisation point until the others are at rest. Afterwards: once a
// Close has returned no further connection attempt is started and no timer of
// the dialer remains; otherwise the dialer is still at work -- a lost
// connection is re-established after at least the reconnect time, without any
// action of the application.
func VH14e_burst() {
	K := verif.Param("K", 2)
	lab := "C14/burst"
	rp := &okProto{}
	sock := protocol.MakeSocket(rp)
	vt.Install()
	asynch := verif.Choice("asynch", 2) == 1
	r := 100 * time.Millisecond
	d, err := sock.NewDialer("vt://peer", map[string]interface{}{
		mangos.OptionReconnectTime: r, mangos.OptionMaxReconnectTime: time.Duration(0), mangos.OptionDialAsynch: asynch})
	verif.Assert(err == nil, lab+"/new-dialer")
	td := vt.T.Dialers[0]
	refusing := verif.Choice("peer-absent-at-first", 2) == 1 && asynch
	td.Outcome = func(n int) (*vt.Pipe, error) {
		if refusing {
			return nil, mangos.ErrConnRefused
		}
		return vt.NewPipe(vt.T, "c"), nil
	}
	verif.Assert(d.Dial() == nil, lab+"/dial")
	verif.Quiesce()
	closedD, closedS := false, false
	var cg []*verif.G
	lostAt := time.Duration(-1)
	last := -1
	for k := 0; k < K; k++ {
		ev := verif.Choice("ev", 5)
		verif.Assume(ev > last)
		last = ev
		switch ev {
		case 0:
			verif.Assume(len(td.Pipes) > 0 && !td.Pipes[len(td.Pipes)-1].Closed)
			td.Pipes[len(td.Pipes)-1].Drop()
			lostAt = verif.Now()
		case 1:
			verif.Assume(verif.PendingTimers() > 0)
			verif.FireTimerNow()
		case 2:
			closedD = true
			cg = append(cg, verif.Go("close-dialer", func() { d.Close() }))
		case 3:
			closedS = true
			cg = append(cg, verif.Go("close-socket", func() { sock.Close() }))
		case 4:
			refusing = !refusing
		}
	}
	verif.Quiesce()
	for _, g := range cg {
		verif.Assert(g.Done(), lab+"/close-blocks")
	}
	if closedD || closedS {
		verif.Assert(verif.PendingCallbackTimers() == 0, lab+"/redial-timer-still-armed-after-close")
		n := len(td.Dials)
		for i := 0; i < 4; i++ {
			verif.FireTimer()
		}
		verif.Assert(len(td.Dials) == n, lab+"/connection-attempt-started-after-close")
		if closedS {
			for _, p := range td.Pipes {
				verif.Assert(p.Closed, lab+"/connection-left-open-after-socket-close")
			}
			verif.Assert(verif.LiveGoroutines() == 0, lab+"/goroutines-left-after-close")
		}
		verif.Reach("stopped")
		if !closedS {
			sock.Close()
		}
		return
	}
	// still open: the dialer keeps at it until it has a connection
	refusing = false
	have := func() bool { return len(td.Pipes) > 0 && !td.Pipes[len(td.Pipes)-1].Closed }
	n0 := len(td.Dials)
	for i := 0; i < 4 && !have(); i++ {
		verif.Assert(verif.FireTimer(), lab+"/dialer-gave-up-although-open")
	}
	verif.Assert(have(), lab+"/connection-not-re-established")
	if lostAt >= 0 && len(td.Dials) > n0 {
		verif.Assert(td.Dials[n0] >= lostAt+r, lab+"/redial-sooner-than-the-reconnect-time-after-the-loss")
	}
	for i := 1; i < len(td.Dials); i++ {
		verif.Assert(td.Dials[i] >= td.Dials[i-1]+r, lab+"/attempts-closer-together-than-the-reconnect-time")
	}
	verif.Reach("reconnected")
	sock.Close()
}

// VH14g_slow_hook: the application's pipe event hook is slow. A dialer connects;
// while its Attaching or Attached callback is still running (parked on a gate
// the harness holds), the peer drops the fresh connection - as a PAIR socket
// that already has a peer does. Then the callback returns. The dialer must
// still be at work: a redial is pending, fires no sooner than the reconnect
// time after the loss, and establishes a connection that stays.
func VH14g_slow_hook() {
	lab := "C14/slow-hook"
	rp := &okProto{}
	sock := protocol.MakeSocket(rp)
	vt.Install()
	gate := make(chan struct{})
	var slowIn mangos.PipeEvent = mangos.PipeEventAttached
	if verif.Choice("slow-in", 2) == 1 {
		slowIn = mangos.PipeEventAttaching
	}
	held := 0
	sock.SetPipeEventHook(func(ev mangos.PipeEvent, p mangos.Pipe) {
		if ev == slowIn && held == 0 {
			held++
			<-gate
		}
	})
	asynch := verif.Choice("asynch", 2) == 1
	r := 100 * time.Millisecond
	d, err := sock.NewDialer("vt://peer", map[string]interface{}{
		mangos.OptionReconnectTime: r, mangos.OptionMaxReconnectTime: time.Duration(0), mangos.OptionDialAsynch: asynch})
	verif.Assert(err == nil, lab+"/new-dialer")
	td := vt.T.Dialers[0]
	dg := verif.Go("dial", func() { d.Dial() })
	verif.Quiesce()
	verif.Assert(held == 1 && len(td.Pipes) == 1, lab+"/hook-not-reached")
	if held != 1 || len(td.Pipes) != 1 {
		return
	}
	// the peer drops the connection while the callback is still running
	td.Pipes[0].Drop()
	lostAt := verif.Now()
	verif.Quiesce()
	// ... and, as a choice, the reconnect time passes while the callback is STILL running: the redial comes due
	// before the attempt that made the lost connection has returned
	if verif.Choice("redial-due-during-hook", 2) == 1 {
		for i := 0; i < 3 && verif.PendingTimers() > 0; i++ {
			verif.FireTimer()
		}
		verif.Quiesce()
		verif.Reach("redial-due-during-hook")
	}
	close(gate)
	verif.Quiesce()
	verif.Assert(dg.Done(), lab+"/dial-still-blocked")
	have := func() bool { return len(td.Pipes) > 0 && !td.Pipes[len(td.Pipes)-1].Closed }
	for i := 0; i < 4 && !have(); i++ {
		verif.Assert(verif.FireTimer(), lab+"/dialer-gave-up-after-a-connection-was-lost-during-a-slow-callback")
	}
	verif.Assert(have(), lab+"/connection-not-re-established")
	if len(td.Dials) >= 2 {
		verif.Assert(td.Dials[1] >= lostAt+r, lab+"/redial-sooner-than-the-reconnect-time-after-the-loss")
	}
	verif.Reach("slow-hook-reconnected")
	sock.Close()
}
