// Package h16: hostile protocol-level input on every pattern's receive path (C16).
package h16

import (
	"go.nanomsg.org/mangos/v3"
	"go.nanomsg.org/mangos/v3/zzverif/verif"
	"go.nanomsg.org/mangos/v3/zzverif/vp"
	"go.nanomsg.org/mangos/v3/zzverif/vt"
)

func sentinel(proto string, id []byte) []byte {
	switch proto {
	case "rep", "xrep", "respondent", "xrespondent", "xreq", "xsurveyor":
		return []byte{0x80, 0, 0, 1, 'S', 'S'}
	case "req", "surveyor":
		return append(append([]byte{}, id...), 'S', 'S')
	case "pair1", "xpair1", "star", "xstar":
		return []byte{0, 0, 0, 0, 'S', 'S'}
	}
	return []byte{'S', 'S'}
}

// VH16d_receivers: a peer sends an arbitrary message (every byte a solver
// variable, length 0..L) followed by a well-formed one.
func VH16d_receivers() {
	pi := verif.Param("proto", 0)
	L := verif.Param("L", 9)
	proto := vp.Names[pi]
	lab := "C16/hostile/" + proto
	sock := vp.New(proto)
	if proto == "sub" {
		sock.SetOption(mangos.OptionSubscribe, []byte{})
	}
	side := vt.Listen(sock, "a")
	bad := side.Peer("bad")
	good := bad
	if proto != "pair" && proto != "xpair" && proto != "pair1" && proto != "xpair1" {
		good = side.Peer("good") // PAIR has a single peer: there the same connection must keep working
	}
	var id []byte
	if proto == "req" || proto == "surveyor" {
		verif.Assert(sock.Send([]byte{'q'}) == nil, lab+"/request")
		verif.Quiesce()
		for _, p := range []*vt.Pipe{bad, good} {
			if len(p.Sent) > 0 {
				id = p.Sent[0].H
			}
		}
		if len(id) != 4 {
			verif.Fail(lab + "/request-not-transmitted")
			return
		}
	}
	if (proto == "req" || proto == "surveyor") && verif.Choice("replay", 2) == 1 {
		// a complete exchange first; afterwards the peer replays the answered id
		good.Deliver(append(append([]byte{}, id...), 'o', 'k'))
		var m0 *mangos.Message
		var e0 error
		g0 := verif.Go("recv0", func() { m0, e0 = sock.RecvMsg() })
		verif.Quiesce()
		verif.Assert(g0.Done() && e0 == nil, lab+"/first-exchange")
		_ = m0
		oldID := id
		verif.Assert(sock.Send([]byte{'q', '2'}) == nil, lab+"/second-request")
		verif.Quiesce()
		id = nil
		for _, p := range []*vt.Pipe{bad, good} {
			if len(p.Sent) > 0 && p.Sent[len(p.Sent)-1].B[0] == 'q' && len(p.Sent[len(p.Sent)-1].B) == 2 {
				id = p.Sent[len(p.Sent)-1].H
			}
		}
		if len(id) != 4 {
			verif.Fail(lab + "/second-request-not-transmitted")
			return
		}
		bad.Deliver(append(append([]byte{}, oldID...), 'o', 'l', 'd'))
		verif.Quiesce()
		var m1 *mangos.Message
		var e1 error
		g1 := verif.Go("recv1", func() { m1, e1 = sock.RecvMsg() })
		verif.Quiesce()
		verif.Assert(!g1.Done(), lab+"/replayed-answered-id-delivered-as-reply")
		good.Deliver(append(append([]byte{}, id...), 'S', 'S'))
		verif.Quiesce()
		verif.Assert(g1.Done() && e1 == nil, lab+"/current-reply-not-delivered-after-replay")
		if g1.Done() && e1 == nil {
			b := m1.Body
			verif.Assert(len(b) == 2 && b[0] == 'S', lab+"/wrong-reply-after-replay")
		}
		verif.Reach("replay")
		sock.Close()
		return
	}
	n := verif.Choice("len", L+1)
	junk := verif.Bytes("junk", n)
	bad.Deliver(junk)
	verif.Quiesce()
	verif.Reach("junk-processed")
	// what reaches the application must obey the pattern's header rule
	var m *mangos.Message
	var err error
	g := verif.Go("recv", func() { m, err = sock.RecvMsg() })
	verif.Quiesce()
	if g.Done() && err == mangos.ErrProtoOp {
		verif.Reach("send-only")
		verif.Assert(!good.Closed, lab+"/good-peer-dropped")
		sock.Close()
		return
	}
	deliveredJunk := g.Done() && err == nil
	// the other direction: a message that IS well-formed for the pattern (default TTL 8) - including one whose
	// payload is empty - must be delivered, with exactly the bytes that follow the pattern's header
	{
		must := false
		off := 0
		switch proto {
		case "pair", "xpair", "bus", "xbus", "sub", "xsub", "pull", "xpull":
			must = true
		case "pair1", "xpair1":
			off = 4
			if n >= 4 {
				w := int(junk[0])<<24 | int(junk[1])<<16 | int(junk[2])<<8 | int(junk[3])
				must = verif.And(w <= 8, w < 255)
			}
		case "star", "xstar":
			off = 4
			if n >= 4 {
				must = verif.And(verif.And(junk[0] == 0, junk[1] == 0), verif.And(junk[2] == 0, junk[3] < 8))
			}
		case "rep", "xrep", "respondent", "xrespondent":
			// routing words until the first one with the top bit (the id word); the message crossed (index+1) connections, which must not exceed TTL 8
			clear := true
			for i := 0; 4*(i+1) <= n && i < 8; i++ { // id word at index i = i+1 connections crossed <= TTL 8
				top := junk[4*i]&0x80 != 0
				must = verif.Or(must, verif.And(clear, top))
				clear = verif.And(clear, !top)
			}
		case "req", "surveyor":
			off = 4
			if n >= 4 {
				must = verif.BytesEq(junk[:4], id)
			}
		case "xreq", "xsurveyor":
			off = 4
			must = n >= 4
		}
		verif.Assert(verif.Iff(deliveredJunk, must), lab+"/delivered-iff-well-formed")
		if deliveredJunk {
			k := len(m.Body)
			verif.Assert(k <= n && verif.BytesEq(m.Body, junk[n-k:]), lab+"/delivered-payload-is-not-the-tail-of-the-message")
			switch proto {
			case "rep", "xrep", "respondent", "xrespondent":
				h := n - k
				verif.Assert(h >= 4 && h%4 == 0, lab+"/payload-offset")
				if h >= 4 && h%4 == 0 {
					ok := junk[h-4]&0x80 != 0
					for j := 0; j+4 < h; j += 4 {
						ok = verif.And(ok, junk[j]&0x80 == 0)
					}
					verif.Assert(ok, lab+"/payload-starts-after-the-id-word")
				}
			default:
				verif.Assert(n-k == off, lab+"/payload-offset")
			}
			// raw sockets hand the pattern's header to the application (a device forwards it): its content is fixed by
			// what arrived
			h := m.Header
			switch proto {
			case "xreq", "xsurveyor":
				verif.Assert(len(h) == 4 && verif.BytesEq(h, junk[:4]), lab+"/raw-header-is-not-the-id-word-that-arrived")
			case "xpair1", "xstar":
				if len(h) == 4 && n >= 4 {
					verif.Assert(h[0] == 0 && h[1] == 0 && h[2] == 0 && h[3] == junk[3]+1, lab+"/raw-header-is-not-the-hop-count-plus-one")
				} else {
					verif.Fail(lab + "/raw-header-length")
				}
			case "xrep", "xrespondent":
				if len(h) == (n-k)+4 {
					verif.Assert(verif.BytesEq(h[4:], junk[:n-k]), lab+"/raw-header-routing-words-changed")
					verif.Assert(h[0]|h[1]|h[2]|h[3] != 0 && h[0]&0x80 == 0, lab+"/raw-header-does-not-start-with-a-pipe-id")
				} else {
					verif.Fail(lab + "/raw-header-length")
				}
			case "xbus":
				verif.Assert(len(h) == 4 && h[0]|h[1]|h[2]|h[3] != 0 && h[0]&0x80 == 0, lab+"/raw-header-is-not-a-pipe-id")
			case "xpair", "xpull", "xsub", "pair", "bus", "sub", "pull", "pair1", "star", "rep", "respondent":
				verif.Assert(len(h) == 0, lab+"/header-handed-to-the-application-although-the-pattern-has-none-in-this-mode")
			}
		}
	}
	if deliveredJunk {
		verif.Reach("junk-delivered")
		tot := len(m.Header) + len(m.Body)
		switch proto {
		case "rep", "respondent":
			// cooked: header stripped; at least one id word with the top bit must have been present
			verif.Assert(n >= 4, lab+"/short-message-delivered")
		case "xrep", "xrespondent":
			verif.Assert(n >= 4 && len(m.Header) >= 8, lab+"/message-without-id-word-delivered")
			if len(m.Header) >= 8 {
				verif.Assert(m.Header[len(m.Header)-4]&0x80 != 0, lab+"/backtrace-does-not-end-in-id-word")
			}
		case "req", "surveyor":
			verif.Assert(n >= 4, lab+"/short-reply-delivered")
			if n >= 4 {
				verif.Assert(verif.BytesEq(junk[:4], id), lab+"/reply-with-foreign-id-delivered")
			}
		case "xreq", "xsurveyor":
			verif.Assert(n >= 4, lab+"/short-reply-delivered")
		case "pair1", "xpair1", "star", "xstar":
			verif.Assert(n >= 4, lab+"/message-without-hop-header-delivered")
			if n >= 4 {
				verif.Assert(verif.And(junk[0] == 0, verif.And(junk[1] == 0, junk[2] == 0)), lab+"/malformed-hop-header-delivered")
			}
		}
		verif.Assert(tot <= n+4, lab+"/more-bytes-delivered-than-sent")
		// next Recv for the sentinel
		g = verif.Go("recv2", func() { m, err = sock.RecvMsg() })
		verif.Quiesce()
	}
	// the well-behaved peer is unaffected
	if proto == "req" || proto == "surveyor" {
		if deliveredJunk && proto == "req" {
			// the request was answered; nothing more is expected
			sock.Close()
			return
		}
	}
	good.Deliver(sentinel(proto, id))
	verif.Quiesce()
	verif.Assert(g.Done(), lab+"/well-formed-message-not-delivered-after-junk")
	if g.Done() {
		verif.Assert(err == nil, lab+"/recv-error-after-junk")
		if err == nil {
			b := m.Body
			verif.Assert(len(b) >= 2 && b[len(b)-1] == 'S' && b[len(b)-2] == 'S', lab+"/sentinel-garbled")
		}
	}
	verif.Assert(!good.Closed, lab+"/good-peer-dropped")
	verif.Reach("sentinel")
	sock.Close()
}
