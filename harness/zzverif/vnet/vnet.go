// Package vnet is the harness network: net.Listener / net.Conn implemented in
// plain Go (blocking on channels the VM models). The VM routes
// (*net.ListenConfig).Listen and (*net.Dialer).Dial to ListenHook / DialHook,
// so the real tcp transport, connHandshaker and conn code run on top of it.
package vnet

import (
	"crypto/tls"
	"errors"
	"io"
	"net"
	"syscall"
	"time"
)

type Addr string

func (a Addr) Network() string { return "tcp" }
func (a Addr) String() string  { return string(a) }

var ErrRefused = errors.New("vnet: connection refused")
var ErrInUse = errors.New("vnet: address in use")
var errClosed = errors.New("vnet: use of closed connection")

// Conn is one end of a connection as mangos sees it.
type Conn struct {
	Name   string
	inq    chan []byte // what the peer sends (nil chunk = EOF)
	cur    []byte
	eof    bool
	closeq chan struct{}
	Closed bool
	Out    []byte // what mangos wrote
	Reads  int
	Writes int
	local  Addr
	remote Addr
	// Fd / Cred: what SO_PEERCRED reports for this unix-domain connection (nil: not available)
	Fd   uintptr
	Cred *syscall.Ucred
	// link: the other end when two mangos sockets talk to each other over the harness network
	// (what is written here is read there, in the chunks it was written in)
	link *Conn
	// WriteLimit: total number of bytes this connection accepts before writes start failing (0: no limit). The
	// write that crosses the limit is cut short: it reports the bytes that still fitted and ErrReset.
	WriteLimit int
	reset      bool
	// WriteStall: the peer stays connected but has stopped reading and the buffers are full - a Write does not
	// return until Release, or until the connection is closed (it then fails), as a kernel socket behaves
	WriteStall bool
	release    chan struct{}
	acceptErr  error
	pushed     int   // chunks put into inq so far
	popped     int   // chunks taken out so far
	resets     []int // positions (in push order) of reset markers
}

// Release lets one stalled Write complete.
func (c *Conn) Release() { c.release <- struct{}{} }

// ErrReset is what reads and writes report after the peer reset the connection.
var ErrReset = errors.New("vnet: connection reset by peer")

// PeerReset: the peer resets the connection: once what was sent before has been read, reads fail with ErrReset
// (not io.EOF), and so do writes.
func (c *Conn) PeerReset() {
	c.resets = append(c.resets, c.pushed)
	c.inq <- []byte{0}
	c.pushed++
}

// NextCred: peer credentials given to the next connection created (then cleared)
var NextCred *syscall.Ucred
var nextFd uintptr = 100

func NewConn(name string) *Conn {
	nextFd++
	cr := NextCred
	NextCred = nil
	return &Conn{Fd: nextFd, Cred: cr, Name: name, inq: make(chan []byte, 64), closeq: make(chan struct{}), release: make(chan struct{}, 64), local: "local:" + Addr(name), remote: "remote:" + Addr(name)}
}

func (c *Conn) Read(b []byte) (int, error) {
	c.Reads++
	for len(c.cur) == 0 {
		if c.eof {
			return 0, io.EOF
		}
		select {
		case chunk := <-c.inq:
			if chunk == nil {
				c.popped++
				c.eof = true
				return 0, io.EOF
			}
			for _, k := range c.resets {
				if k == c.popped {
					c.reset = true
				}
			}
			c.popped++
			if c.reset {
				return 0, ErrReset
			}
			c.cur = chunk
		case <-c.closeq:
			return 0, errClosed
		}
	}
	n := copy(b, c.cur)
	c.cur = c.cur[n:]
	return n, nil
}

func (c *Conn) Write(b []byte) (int, error) {
	c.Writes++
	if c.Closed {
		return 0, errClosed
	}
	if c.reset {
		return 0, ErrReset
	}
	if c.WriteStall {
		select {
		case <-c.release:
		case <-c.closeq:
			return 0, errClosed
		}
	}
	if c.WriteLimit > 0 && len(c.Out)+len(b) > c.WriteLimit {
		n := c.WriteLimit - len(c.Out)
		if n < 0 {
			n = 0
		}
		c.Out = append(c.Out, b[:n]...)
		if c.link != nil && !c.link.Closed && n > 0 {
			c.link.inq <- append([]byte{}, b[:n]...)
			c.link.pushed++
		}
		c.reset = true
		return n, ErrReset
	}
	c.Out = append(c.Out, b...)
	if c.link != nil && !c.link.Closed && len(b) > 0 {
		c.link.inq <- append([]byte{}, b...)
		c.link.pushed++
	}
	return len(b), nil
}

func (c *Conn) Close() error {
	if !c.Closed {
		c.Closed = true
		close(c.closeq)
		if c.link != nil && !c.link.Closed {
			c.link.inq <- nil // the other end reads EOF
			c.link.pushed++
		}
		if c.reset {
			// closing a connection the peer has reset reports an error (tls.Conn.Close cannot send its
			// close-notify); it is closed all the same
			return ErrReset
		}
	}
	return nil
}
func (c *Conn) LocalAddr() net.Addr                { return c.local }
func (c *Conn) RemoteAddr() net.Addr               { return c.remote }
func (c *Conn) SetDeadline(t time.Time) error      { return nil }
func (c *Conn) SetReadDeadline(t time.Time) error  { return nil }
func (c *Conn) SetWriteDeadline(t time.Time) error { return nil }

// peer side
func (c *Conn) PeerSend(b []byte) { c.inq <- append([]byte{}, b...); c.pushed++ }
func (c *Conn) PeerHangup()       { c.inq <- nil; c.pushed++ }

type Listener struct {
	addr    Addr
	acceptq chan *Conn
	closeq  chan struct{}
	Closed  bool
	net     *Net
	tcp     *net.TCPAddr
}

// FailAccept makes the next Accept report err (a connection that was reset before it could be accepted, a
// descriptor shortage, ...).
func (l *Listener) FailAccept(err error) { l.acceptq <- &Conn{acceptErr: err} }

func (l *Listener) Accept() (net.Conn, error) {
	select {
	case c := <-l.acceptq:
		if c.acceptErr != nil {
			return nil, c.acceptErr
		}
		return c, nil
	case <-l.closeq:
		return nil, errClosed
	}
}
func (l *Listener) Close() error {
	if !l.Closed {
		l.Closed = true
		close(l.closeq)
		delete(l.net.Listeners, string(l.addr))
	}
	return nil
}
func (l *Listener) Addr() net.Addr { return l.addr }

// Connect: a remote peer connects to the listener.
func (l *Listener) Connect(name string) *Conn {
	c := NewConn(name)
	l.net.Conns = append(l.net.Conns, c)
	l.acceptq <- c
	return c
}

type Net struct {
	Listeners map[string]*Listener
	Conns     []*Conn
	// DialOutcome decides outgoing connections: nil conn => refused.
	DialOutcome func(addr string) *Conn
	// AutoLink: a dial to an address some socket of the harness listens on is connected to that listener
	AutoLink bool
}

var N *Net

// hooks called by the VM's net intrinsics
var ListenHook func(network, addr string) (net.Listener, error)
var DialHook func(network, addr string) (net.Conn, error)

func Install() *Net {
	n := &Net{Listeners: map[string]*Listener{}}
	N = n
	ListenHook = func(network, addr string) (net.Listener, error) {
		if (network == "tcp" || network == "tcp4" || network == "tcp6") && !hasPort(addr) {
			return nil, errors.New("vnet: listen " + network + " " + addr + ": missing port in address")
		}
		if _, ok := n.Listeners[addr]; ok {
			return nil, ErrInUse
		}
		l := &Listener{addr: Addr(addr), acceptq: make(chan *Conn, 16), closeq: make(chan struct{}), net: n}
		n.Listeners[addr] = l
		return l, nil
	}
	DialHook = func(network, addr string) (net.Conn, error) {
		if (network == "tcp" || network == "tcp4" || network == "tcp6") && !hasPort(addr) {
			return nil, errors.New("vnet: dial " + network + " " + addr + ": missing port in address")
		}
		if n.DialOutcome != nil {
			c := n.DialOutcome(addr)
			if c == nil {
				return nil, ErrRefused
			}
			n.Conns = append(n.Conns, c)
			return c, nil
		}
		if n.AutoLink {
			// two mangos sockets in one harness: connect the dialer to the listener bound to that address
			if l, ok := n.Listeners[addr]; ok && !l.Closed {
				a, b := NewConn("dial-side"), NewConn("accept-side")
				a.link, b.link = b, a
				n.Conns = append(n.Conns, a, b)
				l.acceptq <- b
				return a, nil
			}
		}
		return nil, ErrRefused
	}
	return n
}

// hasPort: "host:port" with a non-empty decimal port, as the real resolver demands
func hasPort(addr string) bool {
	i := len(addr) - 1
	for i >= 0 && addr[i] != ':' {
		if addr[i] < '0' || addr[i] > '9' {
			return false
		}
		i--
	}
	return i >= 0 && i < len(addr)-1
}

// SPHeader is the 8-byte SP handshake for protocol number p.
func SPHeader(p uint16) []byte { return []byte{0, 'S', 'P', 0, byte(p >> 8), byte(p), 0, 0} }

// Frame builds a stream-mapping frame.
func Frame(payload []byte) []byte {
	n := uint64(len(payload))
	b := []byte{byte(n >> 56), byte(n >> 48), byte(n >> 40), byte(n >> 32), byte(n >> 24), byte(n >> 16), byte(n >> 8), byte(n)}
	return append(b, payload...)
}

// ---- unix-domain flavour: net.ListenUnix / DialUnix return concrete
// *net.UnixListener / *net.UnixConn; zero values serve as handles and the VM
// redirects their methods to the functions below.

var UnixListeners = map[*net.UnixListener]*Listener{}
var UnixConns = map[*net.UnixConn]*Conn{}

func UnixListen(network string, addr *net.UnixAddr) (*net.UnixListener, error) {
	l, err := ListenHook(network, addr.Name)
	if err == ErrInUse {
		return nil, syscall.EADDRINUSE // what the kernel reports for a bound unix socket path
	}
	if err != nil {
		return nil, err
	}
	h := &net.UnixListener{}
	UnixListeners[h] = l.(*Listener)
	return h, nil
}

func UnixAccept(h *net.UnixListener) (*net.UnixConn, error) {
	c, err := UnixListeners[h].Accept()
	if err != nil {
		return nil, err
	}
	uc := &net.UnixConn{}
	UnixConns[uc] = c.(*Conn)
	return uc, nil
}

func UnixListenerClose(h *net.UnixListener) error { return UnixListeners[h].Close() }
func UnixListenerAddr(h *net.UnixListener) net.Addr { return UnixListeners[h].Addr() }

func UnixDial(network string, laddr, raddr *net.UnixAddr) (*net.UnixConn, error) {
	c, err := DialHook(network, raddr.Name)
	if err != nil {
		return nil, err
	}
	uc := &net.UnixConn{}
	UnixConns[uc] = c.(*Conn)
	return uc, nil
}

func UnixConnRead(c *net.UnixConn, b []byte) (int, error)  { return UnixConns[c].Read(b) }
func UnixConnWrite(c *net.UnixConn, b []byte) (int, error) { return UnixConns[c].Write(b) }
func UnixConnClose(c *net.UnixConn) error                  { return UnixConns[c].Close() }
func UnixConnLocalAddr(c *net.UnixConn) net.Addr           { return UnixConns[c].LocalAddr() }
func UnixConnRemoteAddr(c *net.UnixConn) net.Addr          { return UnixConns[c].RemoteAddr() }

// ---- TLS flavour: crypto/tls is a contract stub (transparent byte stream, no
// handshake bytes, no certificate checks). tls.NewListener / tls.DialWithDialer
// are routed here by the VM; a zero *tls.Conn serves as handle for the
// underlying vnet connection and its methods are redirected to the functions
// below. What crypto/tls does on the wire is outside every claim.

var TLSConns = map[*tls.Conn]net.Conn{}

// TLSDialFail makes the next TLS dial fail after the TCP connection was made
// (certificate rejected / handshake failure): the connection is closed.
var TLSDialFail bool

// TLSConfigs records the configuration handed to the TLS layer per connection.
var TLSConfigs = map[*tls.Conn]*tls.Config{}

type TLSListener struct {
	Inner  net.Listener
	Config *tls.Config
}

func (l *TLSListener) Accept() (net.Conn, error) {
	c, err := l.Inner.Accept()
	if err != nil {
		return nil, err
	}
	h := &tls.Conn{}
	TLSConns[h] = c
	TLSConfigs[h] = l.Config
	if StallNextTLS {
		StallNextTLS = false
		TLSStalled[c] = true
	}
	return h, nil
}

// StallNextTLS: the next connection accepted by a TLS listener never completes its TLS negotiation
var StallNextTLS bool
func (l *TLSListener) Close() error   { return l.Inner.Close() }
func (l *TLSListener) Addr() net.Addr { return l.Inner.Addr() }

func TLSNewListener(inner net.Listener, config *tls.Config) net.Listener {
	return &TLSListener{Inner: inner, Config: config}
}

func TLSDialWithDialer(d *net.Dialer, network, addr string, config *tls.Config) (*tls.Conn, error) {
	c, err := DialHook(network, addr)
	if err != nil {
		return nil, err
	}
	if TLSDialFail {
		TLSDialFail = false
		c.Close()
		return nil, errors.New("vnet: tls handshake failure")
	}
	h := &tls.Conn{}
	TLSConns[h] = c
	TLSConfigs[h] = config
	return h, nil
}

// TLSStalled: connections whose TLS negotiation never completes (the peer connected at TCP level and then
// sent nothing): Handshake - explicit, or implied by the first Read / Write - blocks until the connection closes.
var TLSStalled = map[net.Conn]bool{}

func tlsWait(c *tls.Conn) error {
	u := TLSConns[c]
	if vc, ok := u.(*Conn); ok && TLSStalled[u] {
		<-vc.closeq
		return errClosed
	}
	return nil
}

func TLSConnHandshake(c *tls.Conn) error { return tlsWait(c) }

func TLSConnRead(c *tls.Conn, b []byte) (int, error) {
	if err := tlsWait(c); err != nil {
		return 0, err
	}
	return TLSConns[c].Read(b)
}
func TLSConnWrite(c *tls.Conn, b []byte) (int, error) {
	if err := tlsWait(c); err != nil {
		return 0, err
	}
	return TLSConns[c].Write(b)
}
func TLSConnClose(c *tls.Conn) error                  { return TLSConns[c].Close() }
func TLSConnLocalAddr(c *tls.Conn) net.Addr           { return TLSConns[c].LocalAddr() }
func TLSConnRemoteAddr(c *tls.Conn) net.Addr          { return TLSConns[c].RemoteAddr() }

// TLSVersion is what the stub reports as negotiated version.
const TLSVersion = tls.VersionTLS13

func TLSConnState(c *tls.Conn) tls.ConnectionState {
	return tls.ConnectionState{Version: TLSVersion, HandshakeComplete: true, ServerName: string(TLSConns[c].RemoteAddr().String())}
}

// ---- TCP listener handles (net.ListenTCP is what transport/ws uses)

var TCPListeners = map[*net.TCPListener]*Listener{}

// EphemeralPort is the port a listener bound to port 0 reports as its own.
const EphemeralPort = 49152

func tcpKey(a *net.TCPAddr) string {
	p := a.Port
	s := ""
	if p == 0 {
		return ":0"
	}
	for p > 0 {
		s = string(rune('0'+p%10)) + s
		p /= 10
	}
	return ":" + s
}

func TCPListen(network string, laddr *net.TCPAddr) (*net.TCPListener, error) {
	l, err := ListenHook(network, tcpKey(laddr))
	if err != nil {
		return nil, err
	}
	h := &net.TCPListener{}
	TCPListeners[h] = l.(*Listener)
	port := laddr.Port
	if port == 0 {
		port = EphemeralPort // the kernel picks a free port for ":0"
	}
	l.(*Listener).tcp = &net.TCPAddr{IP: laddr.IP, Port: port}
	return h, nil
}
func TCPAccept(h *net.TCPListener) (net.Conn, error) { return TCPListeners[h].Accept() }
func TCPListenerClose(h *net.TCPListener) error      { return TCPListeners[h].Close() }
func TCPListenerAddr(h *net.TCPListener) net.Addr    { return TCPListeners[h].tcp }


// ---- peer credentials of unix-domain connections (SO_PEERCRED): (*net.UnixConn).SyscallConn and
// syscall.GetsockoptUcred are routed here; the values are whatever the harness attached to the connection.

type RawConn struct{ c *Conn }

func (r *RawConn) Control(f func(fd uintptr)) error {
	if r.c.Closed {
		return errClosed
	}
	f(r.c.Fd)
	return nil
}
func (r *RawConn) Read(f func(fd uintptr) bool) error  { return errors.New("vnet: raw read not modelled") }
func (r *RawConn) Write(f func(fd uintptr) bool) error { return errors.New("vnet: raw write not modelled") }

func UnixSyscallConn(c *net.UnixConn) (syscall.RawConn, error) {
	vc := UnixConns[c]
	if vc == nil || vc.Cred == nil {
		return nil, errors.New("vnet: no raw connection")
	}
	return &RawConn{c: vc}, nil
}

func GetsockoptUcred(fd, level, opt int) (*syscall.Ucred, error) {
	if level != syscall.SOL_SOCKET || opt != syscall.SO_PEERCRED {
		return nil, errors.New("vnet: unsupported socket option")
	}
	for _, vc := range UnixConns {
		if vc.Fd == uintptr(fd) && vc.Cred != nil {
			u := *vc.Cred
			return &u, nil
		}
	}
	return nil, errors.New("vnet: bad file descriptor")
}
