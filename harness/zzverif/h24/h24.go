// Package h24: paths that block coverage (gosym cover) showed no harness
// reached: pipe options on inproc / ws / tcp pipes (C13, C19), an inproc send
// blocked when either end closes (C10, C17), Device on sockets that cannot
// tell whether they are raw and the forwarders' exit (C19, C10), a cooked BUS
// send with a stray header (C08).
package h24

import (
	"github.com/gorilla/websocket"

	"go.nanomsg.org/mangos/v3"
	_ "go.nanomsg.org/mangos/v3/transport/all"
	"go.nanomsg.org/mangos/v3/zzverif/verif"
	"go.nanomsg.org/mangos/v3/zzverif/vnet"
	"go.nanomsg.org/mangos/v3/zzverif/vp"
	"go.nanomsg.org/mangos/v3/zzverif/vws"
)

// VH24a_pipe_options: the read-only options of a pipe, on every kind of pipe.
func VH24a_pipe_options() {
	kinds := []string{"inproc", "tcp", "ws"}
	kind := kinds[verif.Choice("kind", len(kinds))]
	lab := "C13/pipe-options/" + kind
	a, b := vp.New("pair"), vp.New("pair")
	var pa []mangos.Pipe
	a.SetPipeEventHook(func(ev mangos.PipeEvent, p mangos.Pipe) {
		if ev == mangos.PipeEventAttached {
			pa = append(pa, p)
		}
	})
	var url string
	switch kind {
	case "inproc":
		url = "inproc://po"
		verif.Assert(a.Listen(url) == nil && b.Dial(url) == nil, lab+"/connect")
	case "tcp":
		vnet.Install().AutoLink = true
		url = "tcp://127.0.0.1:7300"
		verif.Assert(a.Listen(url) == nil && b.Dial(url) == nil, lab+"/connect")
	case "ws":
		vws.Reset()
		url = "ws://127.0.0.1:80/po"
		vws.DialOutcome = func(u string, offered []string) (*websocket.Conn, error) {
			c, _ := vws.NewConn("d")
			return c, nil
		}
		verif.Assert(a.Dial(url) == nil, lab+"/connect")
	}
	verif.Quiesce()
	if len(pa) != 1 {
		verif.Fail(lab + "/no-pipe")
		return
	}
	p := pa[0]
	verif.Assert(p.Address() == url, lab+"/address")
	verif.Assert(p.ID() != 0 && p.ID()&0x80000000 == 0, lab+"/pipe-id-not-a-non-zero-31-bit-value")
	if kind == "ws" {
		verif.Assert(p.Dialer() != nil && p.Listener() == nil, lab+"/endpoint")
	} else {
		verif.Assert(p.Listener() != nil && p.Dialer() == nil, lab+"/endpoint")
	}
	for _, n := range []string{mangos.OptionLocalAddr, mangos.OptionRemoteAddr} {
		v, err := p.GetOption(n)
		verif.Assert(err == nil && v != nil, lab+"/"+n+"/missing")
	}
	_, err := p.GetOption("NO-SUCH-PIPE-OPTION")
	verif.Assert(err == mangos.ErrBadProperty || err == mangos.ErrBadOption, "C19/pipe/"+kind+"/unknown-option-error-kind")
	_, err = p.GetOption(mangos.OptionTLSConnState)
	verif.Assert(err != nil, lab+"/tls-state-on-a-connection-without-tls")
	if kind != "inproc" {
		v, err := p.GetOption(mangos.OptionMaxRecvSize)
		verif.Assert(err == nil && v.(int) == 1024*1024, lab+"/max-recv-size")
	}
	verif.Reach("pipe-options")
	a.Close()
	b.Close()
	verif.Quiesce()
}

// VH24b_inproc_send_close: a sender parked inside the inproc transport (the
// receiving side does not read) is released when the peer socket or its own
// socket closes; nothing is left and no message is released twice (ledger).
func VH24b_inproc_send_close() {
	lab := "C10/inproc-send"
	rx, tx := vp.New("pair"), vp.New("pair")
	tx.SetOption(mangos.OptionWriteQLen, 0)
	rx.SetOption(mangos.OptionReadQLen, 0)
	verif.Assert(rx.Listen("inproc://sc") == nil && tx.Dial("inproc://sc") == nil, lab+"/connect")
	verif.Quiesce()
	var gs []*verif.G
	for i := 0; i < 4; i++ {
		b := []byte{'m', byte('0' + i), verif.Byte("p")}
		g := verif.Go("send", func() { tx.Send(b) })
		gs = append(gs, g)
		verif.Quiesce()
	}
	parked := 0
	for _, g := range gs {
		if !g.Done() {
			parked++
		}
	}
	verif.Assert(parked > 0, lab+"/no-sender-parked") // otherwise the scenario is not what it says
	if verif.Choice("who", 2) == 0 {
		rx.Close()
		verif.Quiesce()
		verif.Reach("peer-closed")
	}
	tx.Close()
	rx.Close()
	verif.Quiesce()
	for i := 0; i < 3; i++ {
		verif.FireTimer()
	}
	for _, g := range gs {
		verif.Assert(g.Done(), lab+"/send-still-blocked-after-close")
	}
	verif.Assert(verif.LiveGoroutines() == 0, lab+"/goroutines-left-after-close")
	verif.Reach("inproc-send-closed")
}

type noRaw struct{ mangos.Socket }

func (n noRaw) GetOption(name string) (interface{}, error) {
	if name == mangos.OptionRaw {
		return nil, mangos.ErrBadOption
	}
	return n.Socket.GetOption(name)
}

// VH24c_device: Device refuses sockets that cannot say they are raw, without
// side effects; the forwarders of a running device end when either socket
// closes (no goroutine left), whichever closes first.
func VH24c_device() {
	lab := "C19/device"
	x1, x2 := vp.New("xrep"), vp.New("xreq")
	which := verif.Choice("bad", 3)
	switch which {
	case 0:
		verif.Assert(mangos.Device(noRaw{x1}, x2) == mangos.ErrBadOption, lab+"/first-socket-without-raw-option")
	case 1:
		verif.Assert(mangos.Device(x1, noRaw{x2}) == mangos.ErrBadOption, lab+"/second-socket-without-raw-option")
	case 2:
	}
	if which != 2 {
		verif.Quiesce()
		verif.Assert(verif.LiveGoroutines() == 0, lab+"/refused-device-started-a-goroutine")
		x1.Close()
		x2.Close()
		verif.Reach("device-refused")
		return
	}
	verif.Assert(mangos.Device(x1, x2) == nil, lab+"/device")
	verif.Quiesce()
	if verif.Choice("first", 2) == 0 {
		x1.Close()
		verif.Quiesce()
		x2.Close()
	} else {
		x2.Close()
		verif.Quiesce()
		x1.Close()
	}
	verif.Quiesce()
	verif.Assert(verif.LiveGoroutines() == 0, "C10/device/forwarder-left-after-both-sockets-closed")
	verif.Reach("device-ended")
}

// VH24d_bus_header: a cooked BUS socket ignores a header the application put
// on a message: peers receive the body only.
func VH24d_bus_header() {
	lab := "C08/bus-header"
	a, b := vp.New("bus"), vp.New("bus")
	verif.Assert(a.Listen("inproc://bh") == nil && b.Dial("inproc://bh") == nil, lab+"/connect")
	verif.Quiesce()
	m := mangos.NewMessage(2)
	m.Header = append(m.Header, verif.Bytes("hdr", 1+verif.Choice("hlen", 4))...)
	body := verif.Bytes("body", verif.Choice("blen", 3))
	m.Body = append(m.Body, body...)
	verif.Assert(a.SendMsg(m) == nil, lab+"/send")
	verif.Quiesce()
	var got []byte
	var err error
	g := verif.Go("recv", func() { got, err = b.Recv() })
	verif.Quiesce()
	verif.Assert(g.Done() && err == nil, lab+"/not-delivered")
	if g.Done() && err == nil {
		verif.Assert(len(got) == len(body) && verif.BytesEq(got, body), lab+"/stray-header-leaked-into-the-message")
	}
	verif.Reach("bus-header")
	a.Close()
	b.Close()
}

// VH24e_bad_address: a Listen or Dial with a malformed or unsupported address
// fails with an error (no panic), binds nothing, and leaves the socket usable:
// a well-formed Listen on the same socket succeeds afterwards.
func VH24e_bad_address() {
	lab := "C12/bad-address"
	vnet.Install()
	vws.Reset()
	bad := []string{"no-scheme-at-all", "foo://unknown-scheme", "tcp://127.0.0.1", "tls+tcp://127.0.0.1", "ws://127.0.0.1/x", "wss://127.0.0.1/x", "tcp://", "ipc://"}
	addr := bad[verif.Choice("addr", len(bad))]
	lab += "/" + addr
	sock := vp.New("pair")
	var err error
	how := verif.Choice("how", 4)
	g := verif.Go("call", func() {
		switch how {
		case 0:
			err = sock.Listen(addr)
		case 1:
			sock.SetOption(mangos.OptionDialAsynch, false)
			err = sock.Dial(addr)
		case 2:
			var l mangos.Listener
			l, err = sock.NewListener(addr, nil)
			if err == nil {
				err = l.Listen()
			}
		case 3:
			var d mangos.Dialer
			d, err = sock.NewDialer(addr, nil)
			if err == nil {
				err = d.Dial()
			}
		}
	})
	verif.Quiesce()
	verif.Assert(g.Done(), lab+"/call-with-bad-address-blocks")
	if g.Done() && addr != "ipc://" && addr != "tcp://" {
		// (an empty host or path is left to the operating system; whatever it says, nothing below may break)
		verif.Assert(err != nil, lab+"/malformed-address-accepted")
	}
	verif.Assert(len(vnet.N.Listeners) == 0 || err == nil, lab+"/listening-although-the-call-failed")
	// the socket is still usable
	var e2 error
	g2 := verif.Go("good", func() {
		sock.GetOption(mangos.OptionMaxRecvSize)
		e2 = sock.Listen("inproc://after-bad-address")
	})
	verif.Quiesce()
	verif.Assert(g2.Done() && e2 == nil, lab+"/socket-unusable-after-a-bad-address")
	verif.Reach("bad-address")
	sock.Close()
	verif.Quiesce()
}
