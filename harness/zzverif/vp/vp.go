// Package vp: protocol table for harnesses.
package vp

import (
	"go.nanomsg.org/mangos/v3"
	"go.nanomsg.org/mangos/v3/protocol"
	"go.nanomsg.org/mangos/v3/protocol/bus"
	"go.nanomsg.org/mangos/v3/protocol/pair"
	"go.nanomsg.org/mangos/v3/protocol/pair1"
	"go.nanomsg.org/mangos/v3/protocol/pub"
	"go.nanomsg.org/mangos/v3/protocol/pull"
	"go.nanomsg.org/mangos/v3/protocol/push"
	"go.nanomsg.org/mangos/v3/protocol/rep"
	"go.nanomsg.org/mangos/v3/protocol/req"
	"go.nanomsg.org/mangos/v3/protocol/respondent"
	"go.nanomsg.org/mangos/v3/protocol/star"
	"go.nanomsg.org/mangos/v3/protocol/sub"
	"go.nanomsg.org/mangos/v3/protocol/surveyor"
	"go.nanomsg.org/mangos/v3/protocol/xbus"
	"go.nanomsg.org/mangos/v3/protocol/xpair"
	"go.nanomsg.org/mangos/v3/protocol/xpair1"
	"go.nanomsg.org/mangos/v3/protocol/xpub"
	"go.nanomsg.org/mangos/v3/protocol/xpull"
	"go.nanomsg.org/mangos/v3/protocol/xpush"
	"go.nanomsg.org/mangos/v3/protocol/xrep"
	"go.nanomsg.org/mangos/v3/protocol/xreq"
	"go.nanomsg.org/mangos/v3/protocol/xrespondent"
	"go.nanomsg.org/mangos/v3/protocol/xstar"
	"go.nanomsg.org/mangos/v3/protocol/xsub"
	"go.nanomsg.org/mangos/v3/protocol/xsurveyor"
)

var Names = []string{"bus", "pair", "pair1", "pub", "pull", "push", "rep", "req", "respondent", "star", "sub", "surveyor",
	"xbus", "xpair", "xpair1", "xpub", "xpull", "xpush", "xrep", "xreq", "xrespondent", "xstar", "xsub", "xsurveyor"}

func Index(name string) int {
	for i, n := range Names {
		if n == name {
			return i
		}
	}
	return -1
}

func New(name string) mangos.Socket {
	var s mangos.Socket
	var err error
	switch name {
	case "bus":
		s, err = bus.NewSocket()
	case "pair":
		s, err = pair.NewSocket()
	case "pair1":
		s, err = pair1.NewSocket()
	case "pub":
		s, err = pub.NewSocket()
	case "pull":
		s, err = pull.NewSocket()
	case "push":
		s, err = push.NewSocket()
	case "rep":
		s, err = rep.NewSocket()
	case "req":
		s, err = req.NewSocket()
	case "respondent":
		s, err = respondent.NewSocket()
	case "star":
		s, err = star.NewSocket()
	case "sub":
		s, err = sub.NewSocket()
	case "surveyor":
		s, err = surveyor.NewSocket()
	case "xbus":
		s, err = xbus.NewSocket()
	case "xpair":
		s, err = xpair.NewSocket()
	case "xpair1":
		s, err = xpair1.NewSocket()
	case "xpub":
		s, err = xpub.NewSocket()
	case "xpull":
		s, err = xpull.NewSocket()
	case "xpush":
		s, err = xpush.NewSocket()
	case "xrep":
		s, err = xrep.NewSocket()
	case "xreq":
		s, err = xreq.NewSocket()
	case "xrespondent":
		s, err = xrespondent.NewSocket()
	case "xstar":
		s, err = xstar.NewSocket()
	case "xsub":
		s, err = xsub.NewSocket()
	case "xsurveyor":
		s, err = xsurveyor.NewSocket()
	}
	if err != nil {
		return nil
	}
	return s
}

// NewProtocol returns the bare protocol implementation (for harnesses that wrap it before making the socket).
func NewProtocol(name string) protocol.Protocol {
	switch name {
	case "bus":
		return bus.NewProtocol()
	case "pair":
		return pair.NewProtocol()
	case "pair1":
		return pair1.NewProtocol()
	case "pub":
		return pub.NewProtocol()
	case "pull":
		return pull.NewProtocol()
	case "push":
		return push.NewProtocol()
	case "rep":
		return rep.NewProtocol()
	case "req":
		return req.NewProtocol()
	case "respondent":
		return respondent.NewProtocol()
	case "star":
		return star.NewProtocol()
	case "sub":
		return sub.NewProtocol()
	case "surveyor":
		return surveyor.NewProtocol()
	case "xbus":
		return xbus.NewProtocol()
	case "xpair":
		return xpair.NewProtocol()
	case "xpair1":
		return xpair1.NewProtocol()
	case "xpub":
		return xpub.NewProtocol()
	case "xpull":
		return xpull.NewProtocol()
	case "xpush":
		return xpush.NewProtocol()
	case "xrep":
		return xrep.NewProtocol()
	case "xreq":
		return xreq.NewProtocol()
	case "xrespondent":
		return xrespondent.NewProtocol()
	case "xstar":
		return xstar.NewProtocol()
	case "xsub":
		return xsub.NewProtocol()
	case "xsurveyor":
		return xsurveyor.NewProtocol()
	}
	return nil
}
