package vp

import (
	"go.nanomsg.org/mangos/v3"
	"go.nanomsg.org/mangos/v3/internal/core"
	"go.nanomsg.org/mangos/v3/zzverif/verif"
)

// CloseCensus closes the only socket of a harness at the end of whatever history the harness has driven it
// through, and takes the census C10 asks for in that state: Close returns; no timer that its owner could have
// stopped is still armed; once the remaining (unstoppable) timers have run out no goroutine, timer, pipe id or
// tracked pipe is left. (Harness goroutines still parked in a call on the socket are released by Close.)
func CloseCensus(sock mangos.Socket, lab string) {
	g := verif.Go("close", func() { sock.Close() })
	verif.Quiesce()
	verif.Assert(g.Done(), lab+"/close-does-not-return")
	if !g.Done() {
		return
	}
	verif.AssertVM(verif.PendingCallbackTimers() == 0, lab+"/stoppable-timer-still-armed-after-close")
	for i := 0; i < 8 && verif.PendingTimers() > 0; i++ {
		verif.FireTimer()
	}
	verif.Quiesce()
	verif.AssertVM(verif.LiveGoroutines() == 0, lab+"/goroutines-left-after-close")
	verif.AssertVM(verif.PendingTimers() == 0, lab+"/timers-left-after-close")
	verif.AssertVM(core.ZZIDsInUse() == 0, lab+"/pipe-ids-left-after-close")
	verif.AssertVM(core.ZZSocketPipes(sock) == 0, lab+"/socket-still-tracks-pipes")
}
