package h05

import (
	"go.nanomsg.org/mangos/v3"
	"go.nanomsg.org/mangos/v3/zzverif/verif"
	"go.nanomsg.org/mangos/v3/zzverif/vp"
	"go.nanomsg.org/mangos/v3/zzverif/vt"
)

// VH05h_raw_pipelined: N requests are in flight at a raw REP / RESPONDENT socket at once, each arriving on one of
// two connections (so several on the SAME connection, as a device or a REQ socket with contexts produces them) and
// each with a routing header of its own (depth 0..D, all bytes solver variables). All arrive before the first is
// received. Every RecvMsg then returns one of them with its OWN header (pipe id, then its routing words) and body -
// a later arrival on the connection has not touched what an earlier one carries -, and the replies, sent in either
// order on fresh messages carrying the received headers, are each written to the connection its request came from
// with exactly that request's routing header.
func VH05h_raw_pipelined() {
	N := verif.Param("N", 2)
	D := verif.Param("D", 1)
	proto := raws[verif.Choice("proto", 2)]
	lab := "C05/" + proto + "/pipelined"
	sock := vp.New(proto)
	side := vt.Listen(sock, "a")
	pipes := []*vt.Pipe{side.Peer("p0"), side.Peer("p1")}
	type req struct {
		src  int
		hdr  []byte
		body []byte
	}
	var reqs []req
	for i := 0; i < N; i++ {
		r := req{src: verif.Choice("pipe", 2)}
		d := verif.Choice("depth", D+1)
		for k := 0; k < d; k++ {
			w := verif.Bytes("hop", 4)
			verif.Assume(w[0]&0x80 == 0)
			r.hdr = append(r.hdr, w...)
		}
		id := verif.Bytes("id", 4)
		verif.Assume(id[0]&0x80 != 0)
		r.hdr = append(r.hdr, id...)
		r.body = []byte{byte('a' + i), verif.Byte("body")}
		reqs = append(reqs, r)
		pipes[r.src].Deliver(append(append([]byte{}, r.hdr...), r.body...))
		if verif.Choice("settle", 2) == 1 {
			verif.Quiesce()
		}
	}
	verif.Quiesce()
	// receive them all: each is identified by the first byte of its body (concrete)
	got := make([]*mangos.Message, N)
	for i := 0; i < N; i++ {
		var m *mangos.Message
		var rerr error
		g := verif.Go("recv", func() { m, rerr = sock.RecvMsg() })
		verif.Quiesce()
		verif.Assert(g.Done() && rerr == nil, lab+"/request-in-flight-not-received")
		if !g.Done() || rerr != nil {
			return
		}
		verif.Assert(len(m.Body) == 2, lab+"/body-length")
		if len(m.Body) != 2 {
			return
		}
		k := int(verif.Concretize(int(m.Body[0]))) - 'a'
		verif.Assert(k >= 0 && k < N && got[k] == nil, lab+"/request-received-twice-or-invented")
		if k < 0 || k >= N || got[k] != nil {
			return
		}
		got[k] = m
	}
	// only now look at what each carries: the later arrivals have all been parsed meanwhile
	for k, m := range got {
		r := reqs[k]
		verif.Assert(len(m.Header) == 4+len(r.hdr), lab+"/raw-header-length")
		if len(m.Header) != 4+len(r.hdr) {
			return
		}
		verif.Assert(verif.BytesEq(m.Header[4:], r.hdr), lab+"/header-of-a-request-in-flight-changed-by-another-arrival")
		verif.Assert(verif.BytesEq(m.Body, r.body), lab+"/body-of-a-request-in-flight-changed")
	}
	for k := 0; k < N; k++ {
		for j := 0; j < k; j++ {
			if reqs[k].src == reqs[j].src {
				verif.Assert(verif.BytesEq(got[k].Header[:4], got[j].Header[:4]), lab+"/pipe-id-differs-for-one-connection")
				verif.Reach("two-in-flight-on-one-connection")
			} else {
				verif.Assert(!verif.BytesEq(got[k].Header[:4], got[j].Header[:4]), lab+"/pipe-id-shared-by-two-connections")
			}
		}
	}
	// answer in either order
	order := make([]int, N)
	rev := verif.Choice("reverse", 2) == 1
	for i := range order {
		order[i] = i
		if rev {
			order[i] = N - 1 - i
		}
	}
	want := [][][]byte{nil, nil}
	for _, k := range order {
		reply := mangos.NewMessage(2)
		reply.Header = append(reply.Header, got[k].Header...)
		reply.Body = append(reply.Body, 'R', byte('a'+k))
		var serr error
		sg := verif.Go("send", func() { serr = sock.SendMsg(reply) })
		verif.Quiesce()
		verif.Assert(sg.Done() && serr == nil, lab+"/reply-send")
		want[reqs[k].src] = append(want[reqs[k].src], append(append([]byte{}, reqs[k].hdr...), 'R', byte('a'+k)))
	}
	for s := 0; s < 2; s++ {
		verif.Assert(len(pipes[s].Sent) == len(want[s]), lab+"/replies-per-connection")
		if len(pipes[s].Sent) != len(want[s]) {
			return
		}
		for i, w := range want[s] {
			verif.Assert(verif.BytesEq(pipes[s].Sent[i].Bytes(), w), lab+"/reply-does-not-carry-its-own-requests-routing-header")
		}
	}
	for _, m := range got {
		m.Free()
	}
	verif.Reach("pipelined-checked")
	vp.CloseCensus(sock, "C10/rep-respondent/after-history")
}
