// Package h05: REP / RESPONDENT reply routing (C05).
package h05

import (
	"time"
	"go.nanomsg.org/mangos/v3"
	"go.nanomsg.org/mangos/v3/zzverif/verif"
	"go.nanomsg.org/mangos/v3/zzverif/vp"
	"go.nanomsg.org/mangos/v3/zzverif/vt"
)

type reqrec struct {
	tag  byte
	pipe *vt.Pipe
	hdr  []byte // routing header the request carried (hop words + id word)
	got  bool   // handed to the application
}

type sctx struct {
	name string
	c    mangos.Context
	sock mangos.Socket
	cur  *reqrec // request this context must answer next (nil: none)
	rg   *verif.G
	rmsg *mangos.Message
	rerr error
}

func (s *sctx) recvMsg() (*mangos.Message, error) {
	if s.c != nil {
		return s.c.RecvMsg()
	}
	return s.sock.RecvMsg()
}
func (s *sctx) sendMsg(m *mangos.Message) error {
	if s.c != nil {
		return s.c.SendMsg(m)
	}
	return s.sock.SendMsg(m)
}

func find(reqs []*reqrec, tag byte) *reqrec {
	for _, r := range reqs {
		if r.tag == tag {
			return r
		}
	}
	return nil
}

var cooked = []string{"rep", "respondent"}

// VH05a_cooked: REP/RESPONDENT socket + one extra context, two connections.
func VH05a_cooked() {
	E := verif.Param("E", 4)
	D := verif.Param("D", 2)
	proto := cooked[verif.Choice("proto", 2)]
	lab := "C05/" + proto
	sock := vp.New(proto)
	side := vt.Listen(sock, "a")
	pipes := []*vt.Pipe{side.Peer("p0"), side.Peer("p1")}
	c1, err := sock.OpenContext()
	verif.Assert(err == nil, lab+"/open-context")
	cs := []*sctx{{name: "sock", sock: sock}, {name: "ctx", c: c1}}
	if verif.Param("script", 0) >= 1 {
		cs = cs[verif.Choice("on", 2):][:1]
	}
	var reqs []*reqrec
	tag := byte(0)
	rtag := byte(100)
	sentBefore := func() int { return len(pipes[0].Sent) + len(pipes[1].Sent) }
	// directed family (parameter "script"): request A arrives and is received, request B arrives (any connection,
	// any routing depth) and is received too before A was answered, then one reply is sent: it answers B
	var script []int
	if verif.Param("script", 0) == 1 {
		script = []int{0, 1, 0, 1, 2, 2}
		E = len(script)
	}
	// second directed family (script 2): a request is received, the requester's connection goes away, the reply
	// is sent all the same (discarded), and a further Send has nothing to answer
	if verif.Param("script", 0) == 2 {
		script = []int{0, 1, 3, 2, 2}
		E = len(script)
	}
	for e := 0; e < E; e++ {
		var ev int
		if script != nil {
			ev = script[e]
		} else {
			ev = verif.Choice("ev", 5)
		}
		if e == 0 {
			verif.Assume(ev == 0)
		}
		switch ev {
		case 4: // a further context is opened in the middle of things: it starts with no request to answer
			if len(cs) >= 3 {
				verif.Assume(false)
			}
			cn, oerr := sock.OpenContext()
			verif.Assert(oerr == nil, lab+"/open-context-later")
			if oerr != nil {
				return
			}
			cs = append(cs, &sctx{name: "late-ctx", c: cn})
			verif.Reach("late-context")
		case 0: // a request arrives
			p := pipes[verif.Choice("pipe", 2)]
			if p.Closed {
				verif.Assume(false)
			}
			d := verif.Choice("depth", D+1)
			var hdr []byte
			for i := 0; i < d; i++ {
				w := verif.Bytes("hop", 4)
				verif.Assume(w[0]&0x80 == 0)
				hdr = append(hdr, w...)
			}
			id := verif.Bytes("id", 4)
			verif.Assume(id[0]&0x80 != 0)
			hdr = append(hdr, id...)
			tag++
			reqs = append(reqs, &reqrec{tag: tag, pipe: p, hdr: hdr})
			p.Deliver(append(append([]byte{}, hdr...), tag))
		case 1: // Recv on a context
			s := cs[verif.Choice("ctx", len(cs))]
			if s.rg != nil {
				verif.Assume(false)
			}
			// a second Recv before replying: the context then answers its LAST received request (the earlier
			// one is abandoned), with exactly that request's routing header
			ss := s
			s.rg = verif.Go("recv", func() { ss.rmsg, ss.rerr = ss.recvMsg() })
		case 2: // Send a reply on a context
			s := cs[verif.Choice("ctx", len(cs))]
			if s.rg != nil && s.cur != nil {
				// a Send while a further Recv is already waiting: RESPONDENT has abandoned the request at that
				// point, REP has not; the property does not say which, so such histories are not judged
				verif.Assume(false)
			}
			rtag++
			n0 := sentBefore()
			l0, l1 := len(pipes[0].Sent), len(pipes[1].Sent)
			m := mangos.NewMessage(1)
			m.Body = append(m.Body, rtag)
			var serr error
			g := verif.Go("send", func() { serr = s.sendMsg(m) })
			verif.Quiesce()
			verif.Assert(g.Done(), lab+"/send-returns")
			if !g.Done() {
				return
			}
			if s.cur == nil {
				verif.Reach("send-without-request")
				verif.Assert(serr == mangos.ErrProtoState, lab+"/send-without-request-must-be-ErrProtoState")
				verif.Assert(sentBefore() == n0, lab+"/send-without-request-transmitted")
			} else {
				r := s.cur
				s.cur = nil
				other := pipes[0]
				if r.pipe == pipes[0] {
					other = pipes[1]
				}
				nOther := l1
				nMine := l0
				if r.pipe == pipes[1] {
					nOther, nMine = l0, l1
				}
				verif.Assert(len(other.Sent) == nOther, lab+"/reply-delivered-to-wrong-connection")
				if r.pipe.Closed {
					verif.Reach("reply-to-gone-connection")
					verif.Assert(len(r.pipe.Sent) == nMine, lab+"/reply-sent-on-closed-connection")
				} else {
					verif.Assert(serr == nil, lab+"/reply-send-ok")
					verif.Assert(len(r.pipe.Sent) == nMine+1, lab+"/reply-not-transmitted-once")
					if len(r.pipe.Sent) == nMine+1 {
						verif.Reach("reply-routed")
						rec := r.pipe.Sent[nMine]
						want := append(append([]byte{}, r.hdr...), rtag)
						verif.Assert(verif.BytesEq(rec.Bytes(), want), lab+"/reply-bytes-are-request-header-plus-body")
					}
				}
			}
		case 3: // the connection goes away
			p := pipes[verif.Choice("pipe", 2)]
			if p.Closed {
				verif.Assume(false)
			}
			p.Drop()
		}
		verif.Quiesce()
		for _, s := range cs {
			if s.rg != nil && s.rg.Done() {
				s.rg = nil
				verif.Assert(s.rerr == nil, lab+"/recv-error")
				if s.rerr != nil {
					continue
				}
				b := s.rmsg.Body
				verif.Assert(len(b) == 1, lab+"/request-body-length")
				if len(b) != 1 {
					continue
				}
				r := find(reqs, b[0])
				verif.Assert(r != nil, lab+"/invented-request")
				if r == nil {
					continue
				}
				verif.Assert(!r.got, lab+"/request-delivered-twice")
				r.got = true
				s.cur = r
				verif.Reach("request-received")
				if verif.Choice("free-request", 2) == 1 {
					// the application is done with the request before it replies (as Socket.Recv does):
					// its buffers go back to the pool and are reused by later traffic
					s.rmsg.Free()
				}
			}
		}
	}
	verif.Reach("done")
	vp.CloseCensus(sock, "C10/rep-respondent/after-history")
}

var raws = []string{"xrep", "xrespondent"}

// VH05b_raw: raw mode: RecvMsg header = pipe id || routing header; SendMsg
// routes on the first word and strips exactly it.
func VH05b_raw() {
	D := verif.Param("D", 2)
	proto := raws[verif.Choice("proto", 2)]
	lab := "C05/" + proto
	sock := vp.New(proto)
	side := vt.Listen(sock, "a")
	pipes := []*vt.Pipe{side.Peer("p0"), side.Peer("p1")}
	src := verif.Choice("pipe", 2)
	p := pipes[src]
	d := verif.Choice("depth", D+1)
	var hdr []byte
	for i := 0; i < d; i++ {
		w := verif.Bytes("hop", 4)
		verif.Assume(w[0]&0x80 == 0)
		hdr = append(hdr, w...)
	}
	id := verif.Bytes("id", 4)
	verif.Assume(id[0]&0x80 != 0)
	hdr = append(hdr, id...)
	body := verif.Bytes("body", verif.Choice("blen", 3))
	p.Deliver(append(append([]byte{}, hdr...), body...))
	var m *mangos.Message
	var rerr error
	g := verif.Go("recv", func() { m, rerr = sock.RecvMsg() })
	verif.Quiesce()
	verif.Assert(g.Done() && rerr == nil, lab+"/recv")
	if !g.Done() || rerr != nil {
		return
	}
	verif.Assert(len(m.Header) == 4+len(hdr), lab+"/raw-header-length")
	if len(m.Header) != 4+len(hdr) {
		return
	}
	verif.Assert(verif.BytesEq(m.Header[4:], hdr), lab+"/raw-header-is-pipeid-then-routing-header")
	verif.Assert(verif.BytesEq(m.Body, body), lab+"/raw-body-unchanged")
	// answer: either with the header as received, or redirected to an unknown pipe id
	// the reply is a fresh message, the request's own message object, or a message object the application received
	// earlier from the OTHER connection and now re-uses (it owns it): the route is what the header says, whatever
	// the object remembers about where it once came from
	var reply *mangos.Message
	switch verif.Choice("reply-object", 3) {
	case 0:
		reply = mangos.NewMessage(2)
		reply.Header = append(reply.Header, m.Header...)
	case 1:
		reply = m
		reply.Body = reply.Body[:0]
	case 2:
		pipes[1-src].Deliver([]byte{0x80, 0, 0, 9, 'o'})
		verif.Quiesce()
		m2, e2 := sock.RecvMsg()
		verif.Assert(e2 == nil, lab+"/recv-from-the-other-connection")
		if e2 != nil {
			return
		}
		reply = m2
		reply.Header = append(reply.Header[:0], m.Header...)
		reply.Body = reply.Body[:0]
		verif.Reach("reply-on-a-reused-message-object")
	}
	reply.Body = append(reply.Body, 'R')
	gone := verif.Choice("gone", 2) == 1
	var newcomers []*vt.Pipe
	if gone {
		p.Drop()
		verif.Quiesce()
		// ... and new clients connect before the late reply is sent: it is not theirs
		for i := verif.Choice("newcomers", 3); i > 0; i-- {
			newcomers = append(newcomers, side.Peer("late"))
		}
	}
	var serr error
	sg := verif.Go("send", func() { serr = sock.SendMsg(reply) })
	verif.Quiesce()
	verif.Assert(sg.Done(), lab+"/send-returns")
	other := pipes[1-src]
	verif.Assert(len(other.Sent) == 0, lab+"/reply-delivered-to-wrong-connection")
	for _, nc := range newcomers {
		verif.Assert(len(nc.Sent) == 0, lab+"/late-reply-delivered-to-a-client-that-connected-after-the-asker-left")
	}
	if gone {
		verif.Reach("gone")
		verif.Assert(len(p.Sent) == 0, lab+"/reply-sent-on-closed-connection")
	} else {
		verif.Reach("routed")
		verif.Assert(serr == nil, lab+"/send-ok")
		verif.Assert(len(p.Sent) == 1, lab+"/reply-transmitted-once")
		if len(p.Sent) == 1 {
			want := append(append([]byte{}, hdr...), 'R')
			verif.Assert(verif.BytesEq(p.Sent[0].Bytes(), want), lab+"/reply-strips-exactly-the-pipe-id")
		}
	}
	vp.CloseCensus(sock, "C10/rep-respondent/after-history")
}

// VH05d_burst: a REP / RESPONDENT socket or context holds request A (from
// connection p0) unanswered. Two of {it sends its reply; it calls Recv again;
// request B arrives on connection p1; connection p0 goes away} happen at the
// same moment, under every schedule in which one goroutine stalls at one
// synchronisation point until the others are at rest. Whatever the order:
// every frame written to a connection is (routing header of a request that
// arrived on THAT connection and was handed to the application) + (a reply body
// the application sent), no request is answered twice -- and a fresh exchange
// afterwards is routed exactly.
func VH05d_burst() {
	proto := cooked[verif.Choice("proto", 2)]
	lab := "C05/" + proto + "/burst"
	sock := vp.New(proto)
	side := vt.Listen(sock, "a")
	pipes := []*vt.Pipe{side.Peer("p0"), side.Peer("p1")}
	s := &sctx{name: "sock", sock: sock}
	if verif.Choice("api", 2) == 1 {
		c1, err := sock.OpenContext()
		verif.Assert(err == nil, lab+"/open-context")
		s = &sctx{name: "ctx", c: c1}
	}
	var reqs []*reqrec
	mk := func(p *vt.Pipe, tag byte, hop byte) *reqrec {
		hdr := []byte{0, 0, hop, tag, 0x80, 0, 0, tag}
		r := &reqrec{tag: tag, pipe: p, hdr: hdr}
		reqs = append(reqs, r)
		p.Deliver(append(append([]byte{}, hdr...), tag))
		return r
	}
	mk(pipes[0], 1, 7)
	verif.Quiesce()
	m0, e0 := s.recvMsg()
	verif.Assert(e0 == nil && len(m0.Body) == 1 && m0.Body[0] == 1, lab+"/request-A")
	if e0 != nil {
		return
	}
	reqs[0].got = true
	if verif.Choice("free-request", 2) == 1 {
		m0.Free()
	}
	// request B may already be waiting in the socket when things start
	bQueued := verif.Choice("b-queued", 2) == 1
	if bQueued {
		mk(pipes[1], 2, 9)
		verif.Quiesce()
	}
	K := verif.Param("K", 2)
	var sg, rg *verif.G
	var serr, rerr error
	var rm *mangos.Message
	issue := func(ev int) {
		switch ev {
		case 0:
			m := mangos.NewMessage(1)
			m.Body = append(m.Body, 201)
			sg = verif.Go("send", func() { serr = s.sendMsg(m) })
		case 1:
			rg = verif.Go("recv", func() { rm, rerr = s.recvMsg() })
		case 2:
			verif.Assume(!bQueued)
			mk(pipes[1], 2, 9)
		case 3:
			pipes[0].Drop()
		}
	}
	last := -1
	for k := 0; k < K; k++ {
		ev := verif.Choice("ev", 4)
		verif.Assume(ev > last)
		last = ev
		issue(ev)
	}
	verif.Quiesce()
	if rg != nil && rg.Done() && rerr == nil {
		r := find(reqs, rm.Body[0])
		verif.Assert(len(rm.Body) == 1 && r != nil && !r.got, lab+"/recv-returned-something-that-is-not-a-new-request")
		if r != nil {
			r.got = true
		}
	}
	if sg != nil {
		verif.Assert(sg.Done(), lab+"/send-returns")
		verif.Assert(serr == nil || serr == mangos.ErrProtoState || serr == mangos.ErrClosed, lab+"/unexpected-send-error")
	}
	check := func() {
		answered := map[byte]int{}
		for _, p := range pipes {
			for _, rec := range p.Sent {
				var match *reqrec
				for _, r := range reqs {
					if r.pipe == p && r.got && verif.BytesEq(rec.H, r.hdr) {
						match = r
					}
				}
				verif.Assert(match != nil, lab+"/reply-header-is-not-that-of-a-request-received-from-this-connection")
				verif.Assert(len(rec.B) == 1 && rec.B[0] > 200, lab+"/reply-body-is-not-what-the-application-sent")
				if match != nil {
					answered[match.tag]++
					verif.Assert(answered[match.tag] <= 1, lab+"/request-answered-twice")
				}
			}
		}
	}
	check()
	verif.Reach("burst-done")
	// epilogue: a fresh request on the surviving connection, received and answered
	if rg != nil && !rg.Done() {
		// the outstanding Recv takes it
		c := mk(pipes[1], 3, 11)
		verif.Quiesce()
		verif.Assert(rg.Done() && rerr == nil && len(rm.Body) == 1 && rm.Body[0] == 3, lab+"/waiting-recv-did-not-get-the-new-request")
		c.got = true
	} else {
		c := mk(pipes[1], 3, 11)
		verif.Quiesce()
		// earlier unreceived requests may come first
		for i := 0; i < 3; i++ {
			m, e := s.recvMsg()
			verif.Assert(e == nil && len(m.Body) == 1, lab+"/recv-of-fresh-request")
			if e != nil || len(m.Body) != 1 {
				return
			}
			r := find(reqs, m.Body[0])
			verif.Assert(r != nil && !r.got, lab+"/request-delivered-twice-or-invented")
			if r != nil {
				r.got = true
			}
			if r == c {
				break
			}
		}
		verif.Assert(c.got, lab+"/fresh-request-not-delivered")
	}
	n1 := len(pipes[1].Sent)
	n0 := len(pipes[0].Sent)
	m := mangos.NewMessage(1)
	m.Body = append(m.Body, 203)
	verif.Assert(s.sendMsg(m) == nil, lab+"/fresh-reply-send")
	verif.Quiesce()
	verif.Assert(len(pipes[1].Sent) == n1+1 && len(pipes[0].Sent) == n0, lab+"/fresh-reply-not-transmitted-once-on-its-connection")
	if len(pipes[1].Sent) == n1+1 {
		rec := pipes[1].Sent[n1]
		verif.Assert(verif.BytesEq(rec.H, reqs[len(reqs)-1].hdr) && len(rec.B) == 1 && rec.B[0] == 203, lab+"/reply-bytes-are-request-header-plus-body")
	}
	check()
	verif.Reach("burst-epilogue")
	vp.CloseCensus(sock, "C10/rep-respondent/after-history")
}

// VH05e_deep_header: the hop limit is raised (TTL 16) and a request arrives
// that has already crossed d devices (d = 0..14 routing words before the id
// word, every depth a separate path; the words are solver variables). The
// application receives it (releasing the request or not) and replies: the reply
// is written to the requester's connection with exactly the d+1 words the
// request carried, in order, followed by the reply body -- for every depth the
// hop limit admits, not only for the few words short chains produce.
func VH05e_deep_header() {
	proto := cooked[verif.Choice("proto", 2)]
	lab := "C05/" + proto + "/deep-header"
	sock := vp.New(proto)
	verif.Assert(sock.SetOption(mangos.OptionTTL, 16) == nil, lab+"/set-ttl")
	side := vt.Listen(sock, "a")
	p0 := side.Peer("p0")
	p1 := side.Peer("p1")
	s := &sctx{name: "sock", sock: sock}
	if verif.Choice("api", 2) == 1 {
		c1, err := sock.OpenContext()
		verif.Assert(err == nil, lab+"/open-context")
		s = &sctx{name: "ctx", c: c1}
	}
	d := verif.Choice("depth", 15)
	var hdr []byte
	for i := 0; i < d; i++ {
		w := verif.Bytes("hop", 4)
		verif.Assume(w[0]&0x80 == 0)
		hdr = append(hdr, w...)
	}
	id := verif.Bytes("id", 4)
	verif.Assume(id[0]&0x80 != 0)
	hdr = append(hdr, id...)
	p0.Deliver(append(append([]byte{}, hdr...), 'q'))
	verif.Quiesce()
	m, err := s.recvMsg()
	verif.Assert(err == nil && len(m.Body) == 1 && m.Body[0] == 'q', lab+"/request-within-the-hop-limit-not-delivered")
	if err != nil {
		return
	}
	if verif.Choice("free-request", 2) == 1 {
		m.Free()
	}
	r := mangos.NewMessage(1)
	r.Body = append(r.Body, 'r')
	verif.Assert(s.sendMsg(r) == nil, lab+"/reply-send")
	verif.Quiesce()
	verif.Assert(len(p0.Sent) == 1 && len(p1.Sent) == 0, lab+"/reply-not-transmitted-once-on-the-requesters-connection")
	if len(p0.Sent) == 1 {
		want := append(append([]byte{}, hdr...), 'r')
		got := p0.Sent[0].Bytes()
		verif.Assert(len(got) == len(want), lab+"/reply-header-length-differs-from-the-requests")
		if len(got) == len(want) {
			verif.Assert(verif.BytesEq(got, want), lab+"/reply-bytes-are-request-header-plus-body")
		}
	}
	verif.Reach("deep-header-routed")
	vp.CloseCensus(sock, "C10/rep-respondent/after-history")
}

// VH05f_many_contexts: M (5) contexts of one REP / RESPONDENT socket, each
// waiting in Recv; M requests arrive from two connections with different
// routing headers; one context (any position, or none) is closed before it
// replies; every other context replies. Each reply goes, once, to the
// connection its context's request came from, with exactly that request's
// header; the closed context's request gets no reply; nothing is written
// anywhere else.
func VH05f_many_contexts() {
	M := verif.Param("M", 5)
	proto := cooked[verif.Choice("proto", 2)]
	lab := "C05/" + proto + "/many-contexts"
	sock := vp.New(proto)
	side := vt.Listen(sock, "a")
	pipes := []*vt.Pipe{side.Peer("p0"), side.Peer("p1")}
	type cx struct {
		c   mangos.Context
		g   *verif.G
		m   *mangos.Message
		err error
	}
	var cs []*cx
	for i := 0; i < M; i++ {
		c, err := sock.OpenContext()
		verif.Assert(err == nil, lab+"/open-context")
		if err != nil {
			return
		}
		x := &cx{c: c}
		cs = append(cs, x)
		x.g = verif.Go("recv", func() { x.m, x.err = x.c.RecvMsg() })
	}
	verif.Quiesce()
	var reqs []*reqrec
	for i := 0; i < M; i++ {
		p := pipes[i%2]
		hdr := []byte{0, 0, byte(i), 7, 0x80, 0, byte(i), 1}
		r := &reqrec{tag: byte(10 + i), pipe: p, hdr: hdr}
		reqs = append(reqs, r)
		p.Deliver(append(append([]byte{}, hdr...), r.tag))
		verif.Quiesce()
	}
	closeAt := verif.Choice("close", M+1) - 1
	owner := map[byte]*cx{}
	for _, x := range cs {
		verif.Assert(x.g.Done() && x.err == nil && len(x.m.Body) == 1, lab+"/waiting-context-did-not-get-a-request")
		if !x.g.Done() || x.err != nil || len(x.m.Body) != 1 {
			return
		}
		r := find(reqs, x.m.Body[0])
		verif.Assert(r != nil && !r.got, lab+"/request-delivered-twice-or-invented")
		if r == nil {
			return
		}
		r.got = true
		owner[r.tag] = x
	}
	if closeAt >= 0 {
		verif.Assert(cs[closeAt].c.Close() == nil, lab+"/context-close")
	}
	// replies in reverse order of the contexts
	for i := M - 1; i >= 0; i-- {
		x := cs[i]
		m := mangos.NewMessage(2)
		m.Body = append(m.Body, 'r', x.m.Body[0])
		err := x.c.SendMsg(m)
		if i == closeAt {
			verif.Assert(err != nil, lab+"/reply-on-a-closed-context-accepted")
		} else {
			verif.Assert(err == nil, lab+"/reply-send")
		}
		verif.Quiesce()
	}
	for _, p := range pipes {
		for _, rec := range p.Sent {
			verif.Assert(len(rec.B) == 2 && rec.B[0] == 'r', lab+"/reply-body-is-not-what-the-application-sent")
			if len(rec.B) != 2 {
				continue
			}
			r := find(reqs, rec.B[1])
			verif.Assert(r != nil && r.pipe == p && verif.BytesEq(rec.H, r.hdr), lab+"/reply-not-routed-with-its-own-requests-header-to-its-own-connection")
			if r != nil {
				verif.Assert(closeAt < 0 || owner[r.tag] != cs[closeAt], lab+"/closed-context-replied")
				r.tag = 0 // answered: a second reply for it would not be found
			}
		}
	}
	n := 0
	for _, p := range pipes {
		n += len(p.Sent)
	}
	want := M
	if closeAt >= 0 {
		want--
	}
	verif.Assert(n == want, lab+"/number-of-replies-on-the-wire")
	verif.Reach("many-contexts-replied")
	vp.CloseCensus(sock, "C10/rep-respondent/after-history")
}

// VH05g_blocked_reply: a REP / RESPONDENT socket or context with a send deadline answers requests of a stalled peer
// p0 (WRITEQ-LEN 1) until a reply has to wait. While that Send waits, request B arrives from another peer p1 and a
// second goroutine receives it on the same object; then the waiting Send's deadline expires. Whatever the object
// does next - the reply to B is sent - every frame written to a connection carries the routing header of a request
// that arrived on THAT connection: B's reply goes to p1 with B's header, or nowhere; never to p0, never with a
// header of p0's requests.
func VH05g_blocked_reply() {
	proto := []string{"rep", "respondent"}[verif.Choice("proto", 2)]
	lab := "C05/" + proto + "/blocked-reply"
	sock := vp.New(proto)
	s := &sctx{name: "sock", sock: sock}
	if verif.Choice("api", 2) == 1 {
		c, err := sock.OpenContext()
		verif.Assert(err == nil, lab+"/open-context")
		if err != nil {
			return
		}
		s = &sctx{name: "ctx", c: c}
		lab += "/context"
	}
	D := time.Second
	if s.c != nil {
		verif.Assert(s.c.SetOption(mangos.OptionSendDeadline, D) == nil, lab+"/set-deadline")
	} else {
		verif.Assert(sock.SetOption(mangos.OptionSendDeadline, D) == nil, lab+"/set-deadline")
	}
	sock.SetOption(mangos.OptionWriteQLen, 1)
	side := vt.Listen(sock, "a")
	p0, p1 := side.Peer("p0"), side.Peer("p1")
	p0.SendMode = vt.SendBlock
	var blocked *verif.G
	var berr error
	for i := 0; i < 5 && blocked == nil; i++ {
		p0.Deliver([]byte{0x80, 0, 0xA, byte(i), 'a'})
		verif.Quiesce()
		if _, rerr := s.recvMsg(); rerr != nil {
			verif.Fail(lab + "/request-of-the-stalled-peer-not-received")
			return
		}
		r := mangos.NewMessage(2)
		r.Body = append(r.Body, 'A', byte('0'+i))
		g := verif.Go("reply-A", func() { berr = s.sendMsg(r) })
		verif.Quiesce()
		if !g.Done() {
			blocked = g
		}
	}
	if blocked == nil {
		verif.Assume(false)
	}
	t0 := verif.Now()
	// B arrives from the other peer and is received on the same object while the reply to A still waits
	p1.Deliver([]byte{0x80, 0, 0xB, 1, 'b'})
	verif.Quiesce()
	var mb *mangos.Message
	var eb error
	gb := verif.Go("recv-B", func() { mb, eb = s.recvMsg() })
	verif.Quiesce()
	verif.RunClockTo(t0 + D)
	verif.Assert(blocked.Done(), lab+"/waiting-reply-hangs-beyond-its-deadline")
	_ = berr
	if gb.Done() && eb == nil {
		verif.Assert(len(mb.Body) == 1 && mb.Body[0] == 'b', lab+"/request-B-changed")
		rb := mangos.NewMessage(2)
		rb.Body = append(rb.Body, 'B', '!')
		gs := verif.Go("reply-B", func() {
			if s.sendMsg(rb) != nil {
				rb.Free()
			}
		})
		verif.Quiesce()
		_ = gs
		verif.Reach("replied-to-B")
	}
	p0.SendMode = vt.SendOK
	for i := 0; i < 8; i++ {
		p0.Release()
	}
	verif.Quiesce()
	for _, r := range p0.Sent {
		verif.Assert(len(r.H) == 4 && r.H[2] == 0xA, lab+"/frame-on-the-stalled-connection-carries-a-header-of-another-connections-request")
		verif.Assert(len(r.B) == 2 && r.B[0] == 'A', lab+"/reply-to-another-connections-request-written-to-the-stalled-connection")
	}
	for _, r := range p1.Sent {
		verif.Assert(len(r.H) == 4 && r.H[2] == 0xB, lab+"/frame-on-the-second-connection-carries-a-header-of-another-connections-request")
		verif.Assert(len(r.B) == 2 && r.B[0] == 'B', lab+"/reply-to-another-connections-request-written-to-the-second-connection")
	}
	verif.Assert(len(p1.Sent) <= 1, lab+"/reply-to-B-more-than-once")
	verif.Reach("blocked-reply-checked")
	vp.CloseCensus(sock, "C10/rep-respondent/after-history")
}
