package h17

import (
	"go.nanomsg.org/mangos/v3"
	"go.nanomsg.org/mangos/v3/transport"
	_ "go.nanomsg.org/mangos/v3/transport/inproc"
	"go.nanomsg.org/mangos/v3/zzverif/verif"
	"go.nanomsg.org/mangos/v3/zzverif/vp"
)

// VH17m_inproc_sendfail: the real in-process transport at the transport API. A Send that is waiting for the peer
// to take the message when either end of the connection is closed fails, and - like a failed Send of every other
// transport - leaves the caller's reference with the caller (every protocol releases the message itself on a send
// error; a transport that had released it too would drop a reference that another connection of a fan-out still
// holds). A Send that succeeds hands the receiver its own copy: exactly the header and body bytes, in a message
// object of its own.
func VH17m_inproc_sendfail() {
	lab := "C17/inproc-send"
	tr := transport.GetTransport("inproc")
	verif.Assert(tr != nil, lab+"/transport-not-registered")
	sa, sb := vp.New("pair"), vp.New("pair")
	l, err := tr.NewListener("inproc://sf", sa)
	verif.Assert(err == nil, lab+"/new-listener")
	verif.Assert(l.Listen() == nil, lab+"/listen")
	var sp, cp transport.Pipe
	var aerr error
	ag := verif.Go("accept", func() { sp, aerr = l.Accept() })
	verif.Quiesce()
	d, err := tr.NewDialer("inproc://sf", sb)
	verif.Assert(err == nil, lab+"/new-dialer")
	cp, err = d.Dial()
	verif.Assert(err == nil && cp != nil, lab+"/dial")
	verif.Quiesce()
	verif.Assert(ag.Done() && aerr == nil && sp != nil, lab+"/accept")
	if cp == nil || sp == nil {
		return
	}
	hdr := verif.Bytes("hdr", verif.Choice("hlen", 2)*4)
	body := verif.Bytes("body", 3)
	m := mangos.NewMessage(3)
	m.Header = append(m.Header, hdr...)
	m.Body = append(m.Body, body...)
	shared := verif.Choice("shared", 2) == 1
	if shared {
		m.Clone() // another connection of a fan-out still holds a reference
	}
	// the side that sends: the dialled or the accepted end
	tx, rx := cp, sp
	if verif.Choice("from-accepted-end", 2) == 1 {
		tx, rx = sp, cp
	}
	outcome := verif.Choice("outcome", 3) // 0 the peer takes it, 1 the peer's end is closed, 2 the sender's end is closed
	var serr error
	sg := verif.Go("send", func() { serr = tx.Send(m) })
	verif.Quiesce()
	switch outcome {
	case 0:
		rm, rerr := rx.Recv()
		verif.Assert(rerr == nil && rm != nil, lab+"/recv")
		if rm != nil {
			verif.Assert(rm != m, lab+"/receiver-was-handed-the-senders-message-object")
			verif.Assert(len(rm.Header) == 0 && len(rm.Body) == len(hdr)+len(body), lab+"/length")
			if len(rm.Body) == len(hdr)+len(body) {
				verif.Assert(verif.BytesEq(rm.Body[:len(hdr)], hdr) && verif.BytesEq(rm.Body[len(hdr):], body), lab+"/bytes")
			}
			rm.Free()
		}
	case 1:
		rx.Close()
	case 2:
		tx.Close()
	}
	verif.Quiesce()
	verif.Assert(sg.Done(), lab+"/send-still-waiting-after-the-connection-was-closed")
	if !sg.Done() {
		return
	}
	if outcome == 0 {
		verif.Assert(serr == nil, lab+"/send-error")
		if shared {
			verif.AssertVM(!verif.Released(m), lab+"/message-released-while-another-holder-has-a-reference")
			verif.Assert(verif.BytesEq(m.Body, body), lab+"/send-changed-the-shared-body")
			m.Free()
		}
		verif.Reach("send-ok")
	} else {
		verif.Assert(serr != nil, lab+"/failed-send-reported-as-success")
		verif.AssertVM(!verif.Released(m), lab+"/failed-send-released-the-message")
		verif.Assert(verif.BytesEq(m.Body, body), lab+"/failed-send-changed-the-body")
		m.Free() // the caller disposes of its reference, as every protocol does on a send error
		if shared {
			verif.AssertVM(!verif.Released(m), lab+"/message-released-while-another-holder-has-a-reference")
			m.Free()
		}
		verif.Reach("send-failed")
	}
	tx.Close()
	rx.Close()
	l.Close()
	sa.Close()
	sb.Close()
}
