package h17

import (
	"go.nanomsg.org/mangos/v3"
	"go.nanomsg.org/mangos/v3/zzverif/verif"
	"go.nanomsg.org/mangos/v3/zzverif/vp"
	"go.nanomsg.org/mangos/v3/zzverif/vt"
)

// VH17n_fanout_vs_leave: a fan-out (STAR, BUS, PUB, SURVEYOR, cooked and raw) to two peers at the very moment one
// of them leaves - under every schedule in which one goroutine (the departing connection's tear-down, the sender,
// a per-connection writer) stalls at one synchronisation point until the others are at rest, with the ownership
// ledger watching. The peer that stays gets exactly one unchanged copy; the references taken for the departing
// peer are accounted for exactly (nothing released that was never taken, nothing released twice, nothing touched
// after its release); a second message sent afterwards - which re-uses whatever went back to the pool - arrives
// as itself.
func VH17n_fanout_vs_leave() {
	protos := []string{"star", "xstar", "bus", "xbus", "pub", "xpub", "surveyor", "xsurveyor"}
	proto := protos[verif.Choice("proto", len(protos))]
	lab := "C17/" + proto + "/fanout-vs-leave"
	sock := vp.New(proto)
	side := vt.Listen(sock, "a")
	pa, pb := side.Peer("A"), side.Peer("B")
	if verif.Choice("leaver-is-first", 2) == 1 {
		pa, pb = pb, pa
	}
	b1 := verif.Byte("b1")
	m := mangos.NewMessage(2)
	m.Body = append(m.Body, 'x', b1)
	hdrFor(proto, m)
	var serr error
	pb.Drop()
	g := verif.Go("send", func() { serr = sock.SendMsg(m) })
	verif.Quiesce()
	verif.Assert(g.Done() && serr == nil, lab+"/send")
	if !g.Done() {
		return
	}
	verif.Assert(len(pa.Sent) == 1, lab+"/staying-peer-did-not-get-exactly-one-copy")
	if len(pa.Sent) == 1 {
		verif.Assert(verif.BytesEq(pa.Sent[0].B, []byte{'x', b1}), lab+"/copy-changed")
	}
	verif.Reach("h17n-first")
	b2 := verif.Byte("b2")
	m2 := mangos.NewMessage(2)
	verif.Assert(len(m2.Body) == 0 && len(m2.Header) == 0, lab+"/new-message-not-empty")
	m2.Body = append(m2.Body, 'y', b2)
	hdrFor(proto, m2)
	g2 := verif.Go("send-2", func() { serr = sock.SendMsg(m2) })
	verif.Quiesce()
	verif.Assert(g2.Done() && serr == nil, lab+"/send-2")
	verif.Assert(len(pa.Sent) == 2, lab+"/second-message-not-delivered-exactly-once")
	if len(pa.Sent) == 2 {
		verif.Assert(verif.BytesEq(pa.Sent[1].B, []byte{'y', b2}), lab+"/second-message-changed")
		verif.Assert(verif.BytesEq(pa.Sent[0].B, []byte{'x', b1}), lab+"/first-copy-changed-afterwards")
	}
	verif.Reach("h17n-checked")
	vp.CloseCensus(sock, "C10/fanout/after-leave")
}
