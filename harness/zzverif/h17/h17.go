// Package h17: message ownership (C17), checked with the VM's ownership ledger.
package h17

import (
	"time"

	"go.nanomsg.org/mangos/v3"
	"go.nanomsg.org/mangos/v3/zzverif/verif"
	"go.nanomsg.org/mangos/v3/zzverif/vp"
	"go.nanomsg.org/mangos/v3/zzverif/vt"
)

func hdrFor(proto string, m *mangos.Message) {
	switch proto {
	case "xpair1", "xstar":
		m.Header = append(m.Header, 0, 0, 0, 0)
	case "xreq", "xsurveyor":
		m.Header = append(m.Header, 0x80, 0, 0, 1)
	}
}

func wireFor(proto string, tag byte, payload byte) []byte {
	switch proto {
	case "rep", "xrep", "respondent", "xrespondent", "xreq", "xsurveyor":
		return []byte{0x80, 0, 0, 1, tag, payload}
	case "pair1", "xpair1", "star", "xstar":
		return []byte{0, 0, 0, 0, tag, payload}
	}
	return []byte{tag, payload}
}

// padded inserts filler before the last two bytes (tag, payload) so that the part of w after its first hdr bytes - what
// the application will see as body, at least - is n bytes long; a few marker bytes make the content position-dependent.
func padded(w []byte, n int, mark byte) []byte {
	if n <= 2 {
		return w
	}
	fill := make([]byte, n-2)
	for _, i := range []int{0, len(fill) / 3, len(fill) / 2, len(fill) - 1} {
		fill[i] = mark + byte(i)
	}
	out := append([]byte{}, w[:len(w)-2]...)
	out = append(out, fill...)
	return append(out, w[len(w)-2:]...)
}

// VH17a_send: every send outcome: on failure the message stays with the caller
// (not released, body intact); a shared message (extra reference held by the
// caller) is never written by the library.
func VH17a_send() {
	pi := verif.Param("proto", 0)
	proto := vp.Names[pi]
	lab := "C17/" + proto
	sock := vp.New(proto)
	vt.Install()
	outcome := verif.Choice("outcome", 7)
	names := []string{"success", "timeout", "closed", "no-peers", "best-effort", "shared", "peer-gone"}
	lab += "/" + names[outcome]
	var p1 *vt.Pipe
	if outcome == 1 || outcome == 4 || outcome == 6 {
		// a short per-connection queue, so that a stalled peer makes the send time out / drop within a few messages
		sock.SetOption(mangos.OptionWriteQLen, 1)
	}
	if outcome != 3 {
		side := vt.Listen(sock, "a")
		p1 = side.Peer("p1")
	}
	// raw REP / RESPONDENT route on the header: take the routing header of a request that really arrived
	var route []byte
	if p1 != nil && (proto == "xrep" || proto == "xrespondent") {
		p1.Deliver([]byte{0x80, 0, 0, 1, 'q'})
		verif.Quiesce()
		rm, rerr := sock.RecvMsg()
		verif.Assert(rerr == nil && len(rm.Header) == 8, lab+"/raw-request-header")
		if rerr != nil {
			return
		}
		route = append(route, rm.Header...)
		rm.Free()
	}
	raw := proto[0] == 'x'
	body := verif.Bytes("body", 3)
	mk := func() *mangos.Message {
		m := mangos.NewMessage(len(body))
		m.Body = append(m.Body, body...)
		if route != nil {
			m.Header = append(m.Header, route...)
		} else {
			hdrFor(proto, m)
		}
		return m
	}
	switch outcome {
	case 1:
		if sock.SetOption(mangos.OptionSendDeadline, time.Second) != nil {
			verif.Assume(false)
		}
		p1.SendMode = vt.SendBlock
	case 2:
		sock.Close()
	case 3:
		if sock.SetOption(mangos.OptionFailNoPeers, true) != nil {
			verif.Assume(false)
		}
	case 4:
		if sock.SetOption(mangos.OptionBestEffort, true) != nil {
			verif.Assume(false)
		}
		p1.SendMode = vt.SendBlock
	case 6:
		p1.SendMode = vt.SendBlock
	}
	answering := proto == "rep" || proto == "respondent"
	for i := 0; i < 5; i++ {
		if answering && p1 != nil && !p1.Closed {
			// a cooked REP / RESPONDENT only sends in answer to a request it has received
			p1.Deliver([]byte{0x80, 0, 0, byte(i + 1), 'q'})
			verif.Quiesce()
			if rm, rerr := sock.RecvMsg(); rerr == nil {
				rm.Free()
			}
		}
		m := mk()
		hdr0 := append([]byte{}, m.Header...)
		if outcome == 5 {
			m.Clone() // the caller keeps a second reference to the (now shared) message
		}
		var err error
		g := verif.Go("send", func() { err = sock.SendMsg(m) })
		verif.Quiesce()
		if outcome == 6 && !g.Done() {
			// the send is blocked on the stalled peer: the peer goes away
			p1.Drop()
			verif.Quiesce()
		}
		// let the deadline of this very call pass (deadline timers of earlier, completed calls may still be pending)
		for k := 0; k < 8 && !g.Done(); k++ {
			if !verif.FireTimer() {
				break // blocked without deadline: not this outcome
			}
		}
		if !g.Done() {
			break
		}
		if err != nil {
			verif.Reach("failed-send")
			verif.Reach("failed/" + names[outcome])
			verif.Assert(!verif.Released(m), lab+"/failed-send-released-the-callers-message")
			verif.Assert(len(m.Body) == 3 && verif.BytesEq(m.Body, body), lab+"/failed-send-changed-the-body")
			if raw {
				// on a raw socket the header is the application's too: a failed send hands it back as it was
				verif.Assert(len(m.Header) == len(hdr0) && verif.BytesEq(m.Header, hdr0), lab+"/failed-send-changed-the-header")
			}
			break
		}
		if outcome == 5 {
			verif.Assert(!verif.Released(m), lab+"/shared-message-released-while-caller-holds-a-reference")
			verif.Assert(len(m.Body) == 3 && verif.BytesEq(m.Body, body), lab+"/shared-message-body-changed")
			m.Free() // the caller drops its own reference
			break
		}
	}
	if p1 != nil {
		for i := 0; i < 6; i++ {
			p1.Release()
		}
	}
	verif.Quiesce()
	verif.Reach("done")
	sock.Close()
	verif.Quiesce()
}

// VH17b_recv: a message handed to the application is never written again while
// further traffic of the same pool class flows and buffers are recycled
// (pool Get may return any pooled object).
func VH17b_recv() {
	pi := verif.Param("proto", 0)
	proto := vp.Names[pi]
	lab := "C17/" + proto
	sock := vp.New(proto)
	vt.Install()
	side := vt.Listen(sock, "a")
	p1 := side.Peer("p1")
	// which receive call hands the data to the application: RecvMsg or Recv (a copy of the body), on the
	// socket or on an opened context
	type endpoint interface {
		Send([]byte) error
		SendMsg(*mangos.Message) error
		Recv() ([]byte, error)
		RecvMsg() (*mangos.Message, error)
		SetOption(string, interface{}) error
	}
	var ep endpoint = sock
	api := verif.Choice("api", 4)
	lab += []string{"/RecvMsg", "/Recv", "/ctx.RecvMsg", "/ctx.Recv"}[api]
	if api >= 2 {
		c, cerr := sock.OpenContext()
		if cerr != nil {
			verif.Assume(false) // pattern without contexts
		}
		ep = c
	}
	bytesAPI := api == 1 || api == 3
	if proto == "sub" {
		ep.SetOption(mangos.OptionSubscribe, []byte{})
	}
	if proto == "req" || proto == "surveyor" {
		// need an outstanding request/survey whose id the reply must carry
		verif.Assert(ep.Send([]byte{'q'}) == nil, lab+"/request")
		verif.Quiesce()
	}
	reply := func(tag, payload byte) []byte {
		if proto == "req" || proto == "surveyor" {
			if len(p1.Sent) == 0 {
				return nil
			}
			h := p1.Sent[len(p1.Sent)-1].H
			return append(append([]byte{}, h...), tag, payload)
		}
		return wireFor(proto, tag, payload)
	}
	pay := verif.Byte("payload")
	w := reply('A', pay)
	if w == nil {
		verif.Assume(false)
	}
	// optionally the body is padded to a length on a boundary that the code itself names (c-1, c, c+1 for the integer
	// constants of the message pool, the core and the transports: pool classes, copy thresholds, inline buffers)
	padTo := 0
	if bmax := verif.Param("bmax", 0); bmax > 0 {
		const scope = "go.nanomsg.org/mangos/v3,go.nanomsg.org/mangos/v3/internal/core,go.nanomsg.org/mangos/v3/transport"
		padTo = verif.Boundary(scope, bmax, verif.Choice("boundary", verif.BoundaryCount(scope, bmax)))
		if padTo < verif.Param("bmin", 2) {
			verif.Assume(false)
		}
		w = padded(w, padTo, 0x5a)
		verif.Reach("boundary-length")
	}
	p1.Deliver(w)
	var m *mangos.Message
	var err error
	g := verif.Go("recv", func() {
		if bytesAPI {
			var b []byte
			b, err = ep.Recv()
			if err == nil {
				m = &mangos.Message{Body: b} // the application's own wrapper around the bytes it was handed
			}
		} else {
			m, err = ep.RecvMsg()
		}
	})
	verif.Quiesce()
	if !g.Done() || err != nil {
		verif.Assume(false) // pattern without a receive path
	}
	if !bytesAPI {
		verif.Owned(m)
	}
	hcopy := append([]byte{}, m.Header...)
	bcopy := append([]byte{}, m.Body...)
	verif.Assert(len(m.Body) >= 2 && m.Body[len(m.Body)-2] == 'A' && m.Body[len(m.Body)-1] == pay, lab+"/received-body")
	if padTo > 0 {
		verif.Assert(len(m.Body) >= padTo, lab+"/received-length")
	}
	// more traffic through the same pool classes
	for i := 0; i < verif.Param("more", 2); i++ {
		if proto == "req" {
			ep.Send([]byte{'q'})
			verif.Quiesce()
		}
		if w2 := reply('B', verif.Byte("later")); w2 != nil {
			if padTo > 0 {
				w2 = padded(w2, padTo-1+i, 0xc3) // one byte shorter, then the same length: the pool class a released buffer of this size serves
			}
			p1.Deliver(w2)
		}
		var m2 *mangos.Message
		var e2 error
		g2 := verif.Go("recv2", func() { m2, e2 = ep.RecvMsg() })
		verif.Quiesce()
		if g2.Done() && e2 == nil {
			m2.Free()
		}
		out := mangos.NewMessage(2)
		out.Body = append(out.Body, 'o', 'k')
		hdrFor(proto, out)
		gs := verif.Go("send", func() {
			if ep.SendMsg(out) != nil {
				out.Free()
			}
		})
		verif.Quiesce()
		_ = gs
	}
	verif.Assert(verif.BytesEq(m.Header, hcopy) && verif.BytesEq(m.Body, bcopy), lab+"/application-owned-message-changed")
	verif.Reach("owned-checked")
	if !bytesAPI {
		m.Free()
	}
	sock.Close()
	verif.Quiesce()
}

// VH17c_recycle: the application frees a received request before replying
// (as Socket.Recv does); its buffers are recycled by later traffic (pool Get
// may return any pooled object). What the library kept for the reply must not
// live in those buffers: the reply still carries the first request's routing header.
func VH17c_recycle() {
	proto := []string{"rep", "respondent"}[verif.Choice("proto", 2)]
	lab := "C17/recycle/" + proto
	sock := vp.New(proto)
	vt.Install()
	side := vt.Listen(sock, "a")
	p1, p2 := side.Peer("p1"), side.Peer("p2")
	hdrA := verif.Bytes("hdrA", 4)
	verif.Assume(hdrA[0]&0x80 != 0)
	p1.Deliver(append(append([]byte{}, hdrA...), 'A'))
	var m *mangos.Message
	var err error
	g := verif.Go("recv", func() { m, err = sock.RecvMsg() })
	verif.Quiesce()
	verif.Assert(g.Done() && err == nil, lab+"/recv")
	if !g.Done() || err != nil {
		return
	}
	m.Free() // the application is done with the request
	// more requests of the same size class arrive on another connection and are parsed
	c2, cerr := sock.OpenContext()
	verif.Assert(cerr == nil, lab+"/context")
	for i := 0; i < 2; i++ {
		hb := verif.Bytes("hdrB", 4)
		verif.Assume(hb[0]&0x80 != 0)
		hop := verif.Bytes("hopB", 4)
		verif.Assume(hop[0]&0x80 == 0)
		p2.Deliver(append(append(append([]byte{}, hop...), hb...), 'B'))
		verif.Quiesce()
		gb := verif.Go("recvB", func() {
			if mb, e := c2.RecvMsg(); e == nil {
				mb.Free()
			}
		})
		verif.Quiesce()
		_ = gb
	}
	// now the first request is answered
	verif.Assert(sock.Send([]byte{'r'}) == nil, lab+"/reply")
	verif.Quiesce()
	verif.Assert(len(p1.Sent) == 1, lab+"/reply-not-sent-to-the-requester")
	if len(p1.Sent) == 1 {
		want := append(append([]byte{}, hdrA...), 'r')
		verif.Assert(verif.BytesEq(p1.Sent[0].Bytes(), want), lab+"/reply-header-taken-from-a-recycled-buffer")
	}
	verif.Reach("recycled")
	sock.Close()
}

// VH17g_shared_release: a message with 2..3 holders (Clone), every holder
// releases its reference at the same moment -- or one of them asks for a
// private copy (MakeUnique) while the others release -- under every schedule in
// which one goroutine stalls at one synchronisation point until the others are
// at rest. The buffer goes back to the pool exactly once, and only after the
// last holder is done with it: the next two messages of that size are two
// different objects, and a private copy has the original bytes.
func VH17g_shared_release() {
	lab := "C17/shared-release"
	sizes := []int{8, 64, 65}
	n := sizes[verif.Choice("size", len(sizes))]
	m := mangos.NewMessage(n)
	for i := 0; i < 4; i++ {
		m.Body = append(m.Body, byte(0x40+i))
	}
	m.Header = append(m.Header, 0x11, 0x22)
	holders := 2 + verif.Choice("holders", 2)
	for i := 1; i < holders; i++ {
		m.Clone()
	}
	unique := verif.Choice("one-makes-unique", 2) == 1
	var u *mangos.Message
	var gs []*verif.G
	for i := 0; i < holders; i++ {
		if i == 0 && unique {
			gs = append(gs, verif.Go("unique", func() { u = m.MakeUnique() }))
			continue
		}
		gs = append(gs, verif.Go("free", func() { m.Free() }))
	}
	verif.Quiesce()
	for _, g := range gs {
		verif.Assert(g.Done(), lab+"/release-blocks")
	}
	if unique {
		verif.Assert(u != nil && len(u.Body) == 4 && len(u.Header) == 2, lab+"/private-copy-shape")
		if u != nil && len(u.Body) == 4 && len(u.Header) == 2 {
			verif.Assert(u.Body[0] == 0x40 && u.Body[3] == 0x43 && u.Header[0] == 0x11 && u.Header[1] == 0x22, lab+"/private-copy-does-not-have-the-original-bytes")
		}
	}
	a := mangos.NewMessage(n)
	b := mangos.NewMessage(n)
	verif.Assert(a != b, lab+"/pool-hands-one-message-to-two-users")
	if unique && u != nil {
		verif.Assert(a != u && b != u, lab+"/pool-hands-out-a-message-its-holder-still-uses")
		a.Body = append(a.Body, 0xEE, 0xEE, 0xEE, 0xEE)
		b.Body = append(b.Body, 0xDD, 0xDD, 0xDD, 0xDD)
		verif.Assert(len(u.Body) == 4 && u.Body[0] == 0x40, lab+"/private-copy-overwritten-by-a-later-message")
		u.Free()
	}
	verif.Reach("shared-release-checked")
}

// VH17h_resize_backlog: a receiving socket with READQ-LEN 1 and a backlog of
// four messages from one peer (so that the connection's reader goroutine sits
// on a full queue with a message in its hand), then READQ-LEN is changed on the
// live socket. The application receives whatever is delivered and HOLDS every
// message: no message object is handed out twice, every payload arrives at
// most once, a held body does not change when later messages arrive, and the
// application's own release of each message is its first (ledger). Resizing may
// lose messages (the property excludes resizes from the no-loss guarantee); it
// must not duplicate or recycle them.
func VH17h_resize_backlog() {
	protos := []string{"pull", "xpull", "pair", "xpair", "pair1", "xpair1", "sub", "xsub", "rep", "xrep", "respondent", "xrespondent"}
	proto := protos[verif.Choice("proto", len(protos))]
	lab := "C17/resize-backlog/" + proto
	sock := vp.New(proto)
	vt.Install()
	if proto == "sub" {
		verif.Assert(sock.SetOption(mangos.OptionSubscribe, []byte{}) == nil, lab+"/subscribe")
	}
	if sock.SetOption(mangos.OptionReadQLen, 1) != nil {
		verif.Assume(false) // the pattern has no receive queue option
	}
	side := vt.Listen(sock, "a")
	p1 := side.Peer("p1")
	for i := 0; i < 4; i++ {
		p1.Deliver(wireFor(proto, byte('a'+i), byte(0x10+i)))
	}
	verif.Quiesce()
	newLen := 2 + verif.Choice("new-len", 3)*3 // 2, 5, 8
	verif.Assert(sock.SetOption(mangos.OptionReadQLen, newLen) == nil, lab+"/resize")
	verif.Quiesce()
	// two more arrive after the resize
	for i := 4; i < 6; i++ {
		p1.Deliver(wireFor(proto, byte('a'+i), byte(0x10+i)))
	}
	verif.Quiesce()
	var held []*mangos.Message
	seen := map[byte]bool{}
	for k := 0; k < 8; k++ {
		var m *mangos.Message
		var err error
		g := verif.Go("recv", func() { m, err = sock.RecvMsg() })
		verif.Quiesce()
		if !g.Done() {
			break
		}
		verif.Assert(err == nil, lab+"/recv-error")
		if err != nil {
			break
		}
		for _, o := range held {
			verif.Assert(o != m, lab+"/one-message-object-delivered-twice")
		}
		b := m.Body
		verif.Assert(len(b) == 2 && b[0] >= 'a' && b[0] < 'a'+6 && b[1] == 0x10+(b[0]-'a'), lab+"/delivered-message-is-not-one-that-was-sent")
		if len(b) == 2 {
			verif.Assert(!seen[b[0]], lab+"/payload-delivered-twice")
			seen[b[0]] = true
		}
		held = append(held, m)
	}
	verif.Assert(len(held) >= 1, lab+"/nothing-delivered-after-resize")
	for _, m := range held {
		b := m.Body
		verif.Assert(len(b) == 2 && b[1] == 0x10+(b[0]-'a'), lab+"/held-message-changed-while-the-application-owned-it")
	}
	for _, m := range held {
		m.Free()
	}
	verif.Reach("resize-backlog-checked")
	sock.Close()
}

// VH17i_independent: two messages arrive from the same peer (for the
// request/reply and survey patterns through a raw socket with two-word routing
// headers) and the application receives and holds both. It then overwrites the
// first one completely -- header and body, which are the application's from the
// moment RecvMsg returned -- and appends to both. The second message is not
// affected: received messages share no storage, neither with each other nor
// with anything the library keeps.
func VH17i_independent() {
	protos := []string{"xpair", "xpair1", "xpull", "xsub", "xbus", "xstar", "xrep", "xrespondent", "xreq", "xsurveyor",
		"pair", "pair1", "pull", "sub", "bus", "star"}
	proto := protos[verif.Choice("proto", len(protos))]
	lab := "C17/independent/" + proto
	sock := vp.New(proto)
	vt.Install()
	if proto == "sub" {
		verif.Assert(sock.SetOption(mangos.OptionSubscribe, []byte{}) == nil, lab+"/subscribe")
	}
	side := vt.Listen(sock, "a")
	p1 := side.Peer("p1")
	wire := func(tag byte) []byte {
		switch proto {
		case "xrep", "xrespondent":
			return []byte{0, 0, tag, 7, 0x80, 0, tag, 1, tag, 0x5a}
		case "xreq", "xsurveyor":
			return []byte{0x80, 0, tag, 2, tag, 0x5a}
		}
		return wireFor(proto, tag, 0x5a)
	}
	p1.Deliver(wire('A'))
	p1.Deliver(wire('B'))
	verif.Quiesce()
	var ms []*mangos.Message
	for i := 0; i < 2; i++ {
		var m *mangos.Message
		var err error
		g := verif.Go("recv", func() { m, err = sock.RecvMsg() })
		verif.Quiesce()
		verif.Assert(g.Done() && err == nil, lab+"/recv")
		if !g.Done() || err != nil {
			return
		}
		ms = append(ms, m)
	}
	verif.Assert(ms[0] != ms[1], lab+"/one-message-object-delivered-twice")
	h2 := append([]byte{}, ms[1].Header...)
	b2 := append([]byte{}, ms[1].Body...)
	for i := range ms[0].Header {
		ms[0].Header[i] ^= 0xFF
	}
	for i := range ms[0].Body {
		ms[0].Body[i] ^= 0xFF
	}
	ms[0].Header = append(ms[0].Header, 0xEE, 0xEE, 0xEE, 0xEE, 0xEE, 0xEE, 0xEE, 0xEE)
	ms[0].Body = append(ms[0].Body, 0xDD, 0xDD, 0xDD, 0xDD)
	verif.Assert(len(ms[1].Header) == len(h2) && verif.BytesEq(ms[1].Header, h2), lab+"/header-of-one-received-message-changed-by-writing-into-another")
	verif.Assert(len(ms[1].Body) == len(b2) && verif.BytesEq(ms[1].Body, b2), lab+"/body-of-one-received-message-changed-by-writing-into-another")
	// and a third message arriving now does not touch what the application holds
	p1.Deliver(wire('C'))
	verif.Quiesce()
	verif.Assert(verif.BytesEq(ms[1].Header, h2) && verif.BytesEq(ms[1].Body, b2), lab+"/held-message-changed-by-a-later-arrival")
	verif.Reach("independent-checked")
	for _, m := range ms {
		m.Free()
	}
	sock.Close()
}

// VH17k_shared_twice: the application holds several references to one message (Clone) and starts a survey with it
// on two SURVEYOR contexts (or socket and context) one right after the other, before the first has left the socket.
// SURVEYOR takes a private copy before it writes the survey id (MakeUnique): the two surveys go out with two
// different ids, each carrying the body; the application's reference still shows the body and no header; each
// context receives the response to its own survey.
func VH17k_shared_twice() {
	lab := "C17/shared-twice/surveyor"
	sock := vp.New("surveyor")
	vt.Install()
	side := vt.Listen(sock, "a")
	p1 := side.Peer("p1")
	c1, e1 := sock.OpenContext()
	c2, e2 := sock.OpenContext()
	verif.Assert(e1 == nil && e2 == nil, lab+"/contexts")
	if e1 != nil || e2 != nil {
		return
	}
	type sender interface {
		SendMsg(*mangos.Message) error
		RecvMsg() (*mangos.Message, error)
	}
	a, b := sender(c1), sender(c2)
	if verif.Choice("first-on-the-socket", 2) == 1 {
		a = sock
	}
	body := verif.Bytes("body", 1+verif.Choice("blen", 2))
	m := mangos.NewMessage(len(body))
	m.Body = append(m.Body, body...)
	m.Clone()
	m.Clone() // three references: one per Send, one kept
	verif.Assert(a.SendMsg(m) == nil, lab+"/send-1")
	if verif.Choice("settle-in-between", 2) == 1 {
		verif.Quiesce()
	}
	verif.Assert(b.SendMsg(m) == nil, lab+"/send-2")
	verif.Quiesce()
	verif.Assert(len(m.Header) == 0 && verif.BytesEq(m.Body, body), lab+"/callers-reference-changed")
	verif.Assert(len(p1.Sent) == 2, lab+"/two-surveys-on-the-wire")
	if len(p1.Sent) != 2 {
		return
	}
	h1, h2 := p1.Sent[0].H, p1.Sent[1].H
	verif.Assert(len(h1) == 4 && len(h2) == 4, lab+"/survey-header-length")
	if len(h1) != 4 || len(h2) != 4 {
		return
	}
	verif.Assert(!verif.BytesEq(h1, h2), lab+"/two-surveys-carry-the-same-id")
	verif.Assert(verif.BytesEq(p1.Sent[0].B, body) && verif.BytesEq(p1.Sent[1].B, body), lab+"/survey-body-changed")
	// the responses, second survey first
	p1.Deliver([]byte{h2[0], h2[1], h2[2], h2[3], 'B'})
	p1.Deliver([]byte{h1[0], h1[1], h1[2], h1[3], 'A'})
	verif.Quiesce()
	ra, ea := a.RecvMsg()
	rb, eb := b.RecvMsg()
	verif.Assert(ea == nil && len(ra.Body) == 1 && ra.Body[0] == 'A', lab+"/first-context-did-not-get-the-response-to-its-survey")
	verif.Assert(eb == nil && len(rb.Body) == 1 && rb.Body[0] == 'B', lab+"/second-context-did-not-get-the-response-to-its-survey")
	m.Free()
	verif.Reach("shared-twice-checked")
	sock.Close()
	verif.Quiesce()
}
