package h21

import (
	"go.nanomsg.org/mangos/v3"
	"go.nanomsg.org/mangos/v3/internal/core"
	"go.nanomsg.org/mangos/v3/zzverif/verif"
	"go.nanomsg.org/mangos/v3/zzverif/vnet"
	"go.nanomsg.org/mangos/v3/zzverif/vp"
)

// VH21k_close_slow_peer: a peer on a real stream connection (tcp / ipc / tls+tcp by parameter) is slow rather than
// gone: it stays connected but has stopped reading, so the frame the protocol is writing does not complete. Then
// that pipe, or the socket, is closed. Close returns (it does not wait for the writer it is about to release), the
// stalled write fails, the connection is closed, Detached is reported once, and no goroutine, pipe id or tracked
// pipe is left - for the patterns whose sender goroutine writes directly (pair, push, pub, req, bus).
func VH21k_close_slow_peer() {
	lab := "C10/stream-slow-peer"
	protos := []string{"pair", "push", "pub", "req", "bus"}
	proto := protos[verif.Choice("proto", len(protos))]
	lab += "/" + proto
	vnet.Install()
	sock := vp.New(proto)
	attached, detached := 0, 0
	var pipe mangos.Pipe
	sock.SetPipeEventHook(func(ev mangos.PipeEvent, p mangos.Pipe) {
		switch ev {
		case mangos.PipeEventAttached:
			attached++
			pipe = p
		case mangos.PipeEventDetached:
			detached++
		}
	})
	url, key, _ := scheme()
	verif.Assert(doListen(sock, url) == nil, lab+"/listen")
	verif.Quiesce()
	L := vnet.N.Listeners[key]
	if L == nil {
		verif.Fail(lab + "/no-listener-on-the-network")
		return
	}
	c := L.Connect("slow")
	c.PeerSend(vnet.SPHeader(sock.Info().Peer))
	verif.Quiesce()
	verif.Assert(attached == 1 && pipe != nil, lab+"/not-attached")
	if attached != 1 || pipe == nil {
		return
	}
	c.WriteStall = true
	n0 := len(c.Out)
	for i := 0; i < 2; i++ {
		verif.Go("send", func() { sock.Send([]byte{'m', byte('0' + i)}) })
		verif.Quiesce()
	}
	verif.Assert(len(c.Out) == n0, lab+"/bytes-written-although-the-peer-does-not-read")
	verif.Reach("stream-writer-stalled")
	if verif.Choice("close-the-pipe-first", 2) == 1 {
		g := verif.Go("pipe-close", func() { pipe.Close() })
		verif.Quiesce()
		verif.Assert(g.Done(), lab+"/pipe-close-does-not-return")
		verif.Assert(c.Closed, lab+"/connection-left-open-after-pipe-close")
		verif.Assert(detached == 1, lab+"/Detached-not-reported-after-pipe-close")
	}
	cg := verif.Go("close", func() { sock.Close() })
	verif.Quiesce()
	verif.Assert(cg.Done(), lab+"/close-does-not-return")
	verif.Assert(c.Closed, lab+"/connection-left-open-after-close")
	for i := 0; i < 4 && verif.PendingTimers() > 0; i++ {
		verif.FireTimer()
	}
	verif.Quiesce()
	verif.Assert(detached == 1, lab+"/Detached-not-exactly-once")
	verif.AssertVM(verif.LiveGoroutines() == 0, lab+"/goroutines-left-after-close")
	verif.AssertVM(core.ZZIDsInUse() == 0, lab+"/pipe-ids-left-after-close")
	verif.AssertVM(core.ZZSocketPipes(sock) == 0, lab+"/socket-still-tracks-pipes")
	verif.Reach("stream-slow-peer-checked")
}
