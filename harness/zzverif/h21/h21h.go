package h21

import (
	"go.nanomsg.org/mangos/v3"
	"go.nanomsg.org/mangos/v3/zzverif/verif"
	"go.nanomsg.org/mangos/v3/zzverif/vnet"
	"go.nanomsg.org/mangos/v3/zzverif/vp"
)

// VH21h_listener_close_scoped: the real stream listener (tcp / ipc / tls+tcp by parameter) has accepted and
// attached N connections - their handshakes completed through the real connHandshaker - and, as a choice, one more
// connection is still in its handshake. Then only the LISTENER is closed. Closing a listener affects only that
// object: the address is released and the pending handshake is abandoned, but every established connection stays
// open and attached (no Detached event) and still carries a message in each direction. Closing the socket then
// closes them all.
func VH21h_listener_close_scoped() {
	lab := "C10/stream-listener-close"
	vnet.Install()
	sock := vp.New("bus")
	attached, detached := 0, 0
	sock.SetPipeEventHook(func(ev mangos.PipeEvent, p mangos.Pipe) {
		switch ev {
		case mangos.PipeEventAttached:
			attached++
		case mangos.PipeEventDetached:
			detached++
		}
	})
	url, key, _ := scheme()
	l, err := sock.NewListener(url, epOpts())
	verif.Assert(err == nil, lab+"/new-listener")
	if err != nil {
		return
	}
	verif.Assert(l.Listen() == nil, lab+"/listen")
	verif.Quiesce()
	L := vnet.N.Listeners[key]
	if L == nil {
		verif.Fail(lab + "/no-listener-on-the-network")
		return
	}
	self := sock.Info().Peer
	N := 1 + verif.Choice("established", 2)
	var conns []*vnet.Conn
	for i := 0; i < N; i++ {
		c := L.Connect("c")
		c.PeerSend(vnet.SPHeader(self))
		verif.Quiesce()
		conns = append(conns, c)
	}
	verif.Assert(attached == N, lab+"/connections-not-attached")
	if attached != N {
		return
	}
	var pending *vnet.Conn
	if verif.Choice("one-more-in-handshake", 2) == 1 {
		pending = L.Connect("p")
		verif.Quiesce()
	}
	g := verif.Go("listener-close", func() { l.Close() })
	verif.Quiesce()
	verif.Assert(g.Done(), lab+"/listener-close-does-not-return")
	verif.Assert(vnet.N.Listeners[key] == nil, lab+"/address-not-released-by-listener-close")
	if pending != nil {
		verif.Assert(pending.Closed, lab+"/pending-handshake-left-open-after-listener-close")
	}
	verif.Assert(detached == 0, lab+"/established-connection-detached-by-listener-close")
	for _, c := range conns {
		verif.Assert(!c.Closed, lab+"/established-connection-closed-by-listener-close")
	}
	if detached != 0 {
		return
	}
	// traffic still flows both ways on every established connection
	b := verif.Byte("payload")
	for _, c := range conns {
		if c.Closed {
			return
		}
		fr := vnet.Frame([]byte{'i', b})
		if _, _, ipc := scheme(); ipc {
			fr = append([]byte{1}, fr...)
		}
		c.PeerSend(fr)
	}
	verif.Quiesce()
	for range conns {
		var m []byte
		var rerr error
		rg := verif.Go("recv", func() { m, rerr = sock.Recv() })
		verif.Quiesce()
		verif.Assert(rg.Done() && rerr == nil && verif.BytesEq(m, []byte{'i', b}), lab+"/message-not-received-on-an-established-connection-after-listener-close")
	}
	outBefore := make([]int, len(conns))
	for i, c := range conns {
		outBefore[i] = len(c.Out)
	}
	verif.Assert(sock.Send([]byte{'o', b}) == nil, lab+"/send")
	verif.Quiesce()
	for i, c := range conns {
		verif.Assert(len(c.Out) > outBefore[i], lab+"/message-not-sent-on-an-established-connection-after-listener-close")
	}
	verif.Reach("listener-close-scoped")
	sock.Close()
	verif.Quiesce()
	for _, c := range conns {
		verif.Assert(c.Closed, lab+"/connection-left-open-after-socket-close")
	}
	verif.Assert(detached == N, lab+"/detached-count-after-socket-close")
}
