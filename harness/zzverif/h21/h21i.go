package h21

import (
	"go.nanomsg.org/mangos/v3"
	"go.nanomsg.org/mangos/v3/zzverif/verif"
	"go.nanomsg.org/mangos/v3/zzverif/vnet"
	"go.nanomsg.org/mangos/v3/zzverif/vp"
)

// VH21i_dialer_close_scoped: the real stream dialer (tcp / ipc / tls+tcp by parameter) has established its
// connection (handshake through the real connHandshaker, pipe attached). Then only the DIALER is closed. Closing a
// dialer affects only that object: the established connection stays open and attached and still carries a message
// in each direction; the closed dialer starts no further attempt - not now and not when that connection is lost
// later (C10, C14).
func VH21i_dialer_close_scoped() {
	lab := "C10/stream-dialer-close"
	vnet.Install()
	sock := vp.New("bus")
	attached, detached := 0, 0
	sock.SetPipeEventHook(func(ev mangos.PipeEvent, p mangos.Pipe) {
		switch ev {
		case mangos.PipeEventAttached:
			attached++
		case mangos.PipeEventDetached:
			detached++
		}
	})
	self := sock.Info().Peer
	var conns []*vnet.Conn
	vnet.N.DialOutcome = func(a string) *vnet.Conn {
		c := vnet.NewConn("d")
		conns = append(conns, c)
		c.PeerSend(vnet.SPHeader(self))
		return c
	}
	durl, _, ipc := scheme()
	d, err := sock.NewDialer(durl, epOpts())
	verif.Assert(err == nil, lab+"/new-dialer")
	if err != nil {
		return
	}
	if verif.Choice("asynch", 2) == 1 {
		verif.Assert(d.SetOption(mangos.OptionDialAsynch, true) == nil, lab+"/asynch")
	}
	dg := verif.Go("dial", func() { d.Dial() })
	verif.Quiesce()
	verif.Assert(dg.Done() && attached == 1 && len(conns) == 1, lab+"/not-connected")
	if attached != 1 || len(conns) != 1 {
		return
	}
	c := conns[0]
	g := verif.Go("dialer-close", func() { d.Close() })
	verif.Quiesce()
	verif.Assert(g.Done(), lab+"/dialer-close-does-not-return")
	verif.Assert(!c.Closed && detached == 0, lab+"/established-connection-closed-by-dialer-close")
	if c.Closed || detached != 0 {
		return
	}
	b := verif.Byte("payload")
	fr := vnet.Frame([]byte{'i', b})
	if ipc {
		fr = append([]byte{1}, fr...)
	}
	c.PeerSend(fr)
	var m []byte
	var rerr error
	rg := verif.Go("recv", func() { m, rerr = sock.Recv() })
	verif.Quiesce()
	verif.Assert(rg.Done() && rerr == nil && verif.BytesEq(m, []byte{'i', b}), lab+"/message-not-received-after-dialer-close")
	n0 := len(c.Out)
	verif.Assert(sock.Send([]byte{'o', b}) == nil, lab+"/send")
	verif.Quiesce()
	verif.Assert(len(c.Out) > n0, lab+"/message-not-sent-after-dialer-close")
	// the connection is lost later: the closed dialer does not come back
	c.PeerHangup()
	verif.Quiesce()
	verif.RunOutClock()
	verif.Assert(len(conns) == 1, "C14/stream-dialer-close/attempt-started-after-dialer-close")
	verif.Assert(detached == 1, lab+"/lost-connection-not-detached")
	verif.Reach("dialer-close-scoped")
	sock.Close()
	verif.Quiesce()
}
