package h21

import (
	"go.nanomsg.org/mangos/v3"
	"go.nanomsg.org/mangos/v3/zzverif/verif"
	"go.nanomsg.org/mangos/v3/zzverif/vnet"
	"go.nanomsg.org/mangos/v3/zzverif/vp"
)

// VH21j_dial_vs_close: the real stream dialer (tcp / ipc / tls+tcp by parameter) starts a connection attempt
// against a well-behaved peer at the very moment the dialer - or its socket - is closed, under every schedule in
// which one goroutine (the attempt, the handshake worker, the Close) stalls at one synchronisation point until the
// others are at rest. Whatever the order, every connection the attempt opened ends in one of two states: attached
// to the socket (the attempt won) or closed (the Close won) - never open and forgotten. After the socket is closed
// every connection is closed and no goroutine is left.
func VH21j_dial_vs_close() {
	lab := "C10/dial-vs-close"
	vnet.Install()
	sock := vp.New("bus")
	attached, detached := 0, 0
	sock.SetPipeEventHook(func(ev mangos.PipeEvent, p mangos.Pipe) {
		switch ev {
		case mangos.PipeEventAttached:
			attached++
		case mangos.PipeEventDetached:
			detached++
		}
	})
	self := sock.Info().Peer
	var conns []*vnet.Conn
	vnet.N.DialOutcome = func(a string) *vnet.Conn {
		c := vnet.NewConn("d")
		conns = append(conns, c)
		c.PeerSend(vnet.SPHeader(self))
		return c
	}
	durl, _, _ := scheme()
	d, err := sock.NewDialer(durl, epOpts())
	verif.Assert(err == nil, lab+"/new-dialer")
	if err != nil {
		return
	}
	verif.Assert(d.SetOption(mangos.OptionDialAsynch, true) == nil, lab+"/asynch")
	closeSocket := verif.Choice("close-the-socket", 2) == 1
	g1 := verif.Go("dial", func() { d.Dial() })
	g2 := verif.Go("close", func() {
		if closeSocket {
			sock.Close()
		} else {
			d.Close()
		}
	})
	verif.Quiesce()
	verif.Assert(g1.Done() && g2.Done(), lab+"/dial-or-close-does-not-return")
	open := 0
	for _, c := range conns {
		if !c.Closed {
			open++
		}
	}
	if closeSocket {
		verif.Assert(open == 0, lab+"/connection-left-open-after-socket-close")
	} else {
		verif.Assert(open == attached-detached, lab+"/connection-neither-attached-nor-closed-after-dialer-close")
	}
	verif.Reach("dial-vs-close")
	if !closeSocket {
		sock.Close()
		verif.Quiesce()
	}
	for i := 0; i < 4 && verif.PendingTimers() > 0; i++ {
		verif.FireTimer()
	}
	verif.Quiesce()
	for _, c := range conns {
		verif.Assert(c.Closed, lab+"/connection-left-open-after-close")
	}
	verif.AssertVM(verif.LiveGoroutines() == 0, lab+"/goroutines-left-after-close")
	verif.AssertVM(verif.PendingCallbackTimers() == 0, lab+"/redial-timer-left-after-close")
}
