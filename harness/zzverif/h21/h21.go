// Package h21: the real tcp transport (listener/dialer, connHandshaker, conn)
// behind the real core socket, on top of the harness network vnet. Serves
// C10 (close during handshake), C12 (lost connections never stop a listener),
// C13 (pipe addresses), C15/C01 (wire bytes through the whole stack) and
// C16 (a peer that never completes its handshake).
package h21

import (
	"time"
	"crypto/tls"
	"syscall"
	"go.nanomsg.org/mangos/v3"
	_ "go.nanomsg.org/mangos/v3/transport/ipc"
	_ "go.nanomsg.org/mangos/v3/transport/tcp"
	_ "go.nanomsg.org/mangos/v3/transport/tlstcp"
	"go.nanomsg.org/mangos/v3/zzverif/verif"
	"go.nanomsg.org/mangos/v3/zzverif/vnet"
	"go.nanomsg.org/mangos/v3/zzverif/vp"
)

const addr = "127.0.0.1:5555"
const ipcPath = "/tmp/verif-h21.sock"

// which stream transport a run uses: tcp or ipc (parameter "ipc")
func scheme() (url string, key string, ipc bool) {
	if verif.Param("ipc", 0) == 1 {
		return "ipc://" + ipcPath, ipcPath, true
	}
	if isTLS() {
		return "tls+tcp://" + addr, addr, false
	}
	return "tcp://" + addr, addr, false
}

// parameter "tls": the real tlstcp transport over the crypto/tls contract stub of vnet
func isTLS() bool { return verif.Param("tls", 0) == 1 }

var tlsCfg = &tls.Config{Certificates: []tls.Certificate{{}}, ServerName: "verif"}

func epOpts() map[string]interface{} {
	if isTLS() {
		return map[string]interface{}{mangos.OptionTLSConfig: tlsCfg}
	}
	return nil
}

func doListen(sock mangos.Socket, url string) error { return sock.ListenOptions(url, epOpts()) }
func doDial(sock mangos.Socket, url string) error   { return sock.DialOptions(url, epOpts()) }

type hookrec struct {
	attached, detached int
	pipes              []mangos.Pipe
}

func listen(proto string, lab string) (mangos.Socket, *vnet.Listener, *hookrec) {
	vnet.Install()
	sock := vp.New(proto)
	h := &hookrec{}
	sock.SetPipeEventHook(func(ev mangos.PipeEvent, p mangos.Pipe) {
		switch ev {
		case mangos.PipeEventAttached:
			h.attached++
			h.pipes = append(h.pipes, p)
		case mangos.PipeEventDetached:
			h.detached++
		}
	})
	url, key, _ := scheme()
	verif.Assert(doListen(sock, url) == nil, lab+"/listen")
	verif.Quiesce()
	return sock, vnet.N.Listeners[key], h
}

// VH21a_listener: first connection has one of several fates at handshake
// level; a second, well-behaved one must still be accepted; Close releases
// every connection whatever state its handshake is in.
func VH21a_listener() {
	lab := "C12/tcp-listener"
	sock, L, h := listen("bus", lab)
	if L == nil {
		verif.Fail(lab + "/no-listener-on-the-network")
		return
	}
	self := sock.Info().Peer
	fate := verif.Choice("fate", 5)
	if fate == 4 && isTLS() {
		vnet.StallNextTLS = true // the silent peer does not even negotiate TLS
	}
	c1 := L.Connect("c1")
	verif.Quiesce()
	switch fate {
	case 0: // well-formed handshake
		c1.PeerSend(vnet.SPHeader(self))
	case 1: // hangs up before sending anything
		c1.PeerHangup()
	case 2: // arbitrary 8 bytes that are not the expected header
		b := verif.Bytes("hdr", 8)
		good := vnet.SPHeader(self)
		verif.Assume(!verif.BytesEq(b, good))
		c1.PeerSend(b)
	case 3: // partial header, then hangs up
		c1.PeerSend(vnet.SPHeader(self)[:verif.Choice("part", 7)+1])
		c1.PeerHangup()
	case 4: // silent: never completes its handshake (on TLS: not even the TLS negotiation)
	}
	verif.Quiesce()
	// the library always sends its own header first
	if !(fate == 4 && isTLS()) { // (nothing can be written before the TLS negotiation has completed)
		verif.Assert(verif.BytesEq(c1.Out[:min(8, len(c1.Out))], vnet.SPHeader(sock.Info().Self)), "C15/tcp/own-header-first")
	}
	switch fate {
	case 0:
		verif.Assert(h.attached == 1 && !c1.Closed, lab+"/good-connection-not-attached")
	case 1, 2, 3:
		verif.Assert(h.attached == 0, lab+"/bad-handshake-attached")
		verif.Assert(c1.Closed, "C16/tcp/failed-handshake-connection-left-open")
	case 4:
		verif.Assert(h.attached == 0 && !c1.Closed, lab+"/silent-peer")
	}
	// the receive limit is changed while the listener is running (solver variable): connections accepted from now
	// on carry the new limit (C19: an accepted value takes effect)
	newMax := verif.Int("new-maxrx")
	verif.Assume(verif.And(newMax >= 16, newMax <= 1<<20))
	changeMax := verif.Choice("change-maxrx", 2) == 1
	if changeMax {
		verif.Assert(sock.SetOption(mangos.OptionMaxRecvSize, newMax) == nil, "C19/stream-listener/set-maxrx-while-listening")
	}
	// a later well-behaved peer is accepted regardless (C12, C16: no delay from the silent one)
	// unix-domain connections carry the peer's credentials (SO_PEERCRED): three arbitrary, pairwise different ids
	var cred *syscall.Ucred
	if _, _, ipc := scheme(); ipc {
		pid, uid, gid := verif.Int("peer-pid"), verif.Int("peer-uid"), verif.Int("peer-gid")
		verif.Assume(verif.And(verif.And(pid >= 1, pid < 1<<22), verif.And(verif.And(uid >= 0, uid < 1<<31), verif.And(gid >= 0, gid < 1<<31))))
		verif.Assume(verif.And(uid != gid, verif.And(pid != uid, pid != gid)))
		cred = &syscall.Ucred{Pid: int32(pid), Uid: uint32(uid), Gid: uint32(gid)}
		vnet.NextCred = cred
	}
	c2 := L.Connect("c2")
	c2.PeerSend(vnet.SPHeader(self))
	verif.Quiesce()
	for i := 0; i < 3 && verif.PendingTimers() > 0; i++ {
		verif.FireTimer() // the accept loop backs off for 10 ms after a failed handshake
	}
	want := 1
	if fate == 0 {
		want = 2
	}
	verif.Assert(h.attached == want, lab+"/listener-stopped-accepting-after-first-connection")
	verif.Assert(!c2.Closed, lab+"/second-connection-closed")
	verif.Reach("second-accepted")
	// traffic on the accepted connection: bytes on the wire follow the stream mapping
	body := verif.Bytes("body", 2)
	verif.Assert(sock.Send(body) == nil, lab+"/send")
	verif.Quiesce()
	verif.Observe("wire", c2.Out)
	if len(c2.Out) >= 8 {
		wire := c2.Out[8:]
		want := vnet.Frame(body)
		if _, _, ipc := scheme(); ipc {
			want = append([]byte{1}, want...) // the IPC mapping puts one byte 0x01 in front of every frame
		}
		verif.Assert(verif.BytesEq(wire, want), "C15/tcp/frame-bytes")
	}
	// and what the independent codec writes is parsed by mangos: a frame with arbitrary bytes arrives unchanged
	{
		in := verif.Bytes("in", verif.Choice("ilen", 3))
		fr := vnet.Frame(in)
		if _, _, ipc := scheme(); ipc {
			fr = append([]byte{1}, fr...)
		}
		c2.PeerSend(fr)
		var got []byte
		var rerr error
		rg := verif.Go("recv", func() { got, rerr = sock.Recv() })
		verif.Quiesce()
		verif.Assert(rg.Done() && rerr == nil, "C15/tcp/conforming-frame-not-accepted")
		if rg.Done() && rerr == nil {
			verif.Assert(len(got) == len(in) && verif.BytesEq(got, in), "C01/tcp/frame-changed")
		}
	}
	// pipe addresses describe the connection (C13)
	if len(h.pipes) > 0 {
		p := h.pipes[len(h.pipes)-1]
		url, _, _ := scheme()
		verif.Assert(p.Address() == url, "C13/tcp/pipe-address")
		verif.Assert(p.Listener() != nil && p.Dialer() == nil, "C13/tcp/pipe-endpoint")
		if v, err := p.GetOption(mangos.OptionRemoteAddr); err == nil {
			verif.Assert(v == interface{}(c2.RemoteAddr()), "C13/tcp/remote-addr")
		} else {
			verif.Fail("C13/tcp/remote-addr-option-missing")
		}
		if v, err := p.GetOption(mangos.OptionLocalAddr); err == nil {
			verif.Assert(v == interface{}(c2.LocalAddr()), "C13/tcp/local-addr")
		} else {
			verif.Fail("C13/tcp/local-addr-option-missing")
		}
		verif.Assert(p.ID() != 0 && p.ID()&0x80000000 == 0, "C13/tcp/pipe-id-not-a-non-zero-31-bit-value")
		if cred != nil {
			for _, o := range []struct {
				name string
				want int
			}{{mangos.OptionPeerPID, int(cred.Pid)}, {mangos.OptionPeerUID, int(cred.Uid)}, {mangos.OptionPeerGID, int(cred.Gid)}} {
				v, err := p.GetOption(o.name)
				verif.Assert(err == nil, "C13/ipc/"+o.name+"/missing")
				if err == nil {
					verif.Assert(v.(int) == o.want, "C13/ipc/"+o.name+"/does-not-describe-the-peer")
				}
			}
			verif.Reach("peer-credentials")
		}
		if isTLS() {
			// read-only pipe option: the TLS state of this very connection
			if v, err := p.GetOption(mangos.OptionTLSConnState); err == nil {
				st, ok := v.(tls.ConnectionState)
				verif.Assert(ok && st.HandshakeComplete && st.Version == vnet.TLSVersion && st.ServerName == "remote:c2", "C13/tls/conn-state-describes-the-connection")
			} else {
				verif.Fail("C13/tls/conn-state-option-missing")
			}
		}
		if v, err := p.GetOption(mangos.OptionMaxRecvSize); err == nil {
			if changeMax {
				verif.Assert(v.(int) == newMax, "C19/stream-listener/limit-set-while-listening-not-applied-to-new-connections")
			} else {
				verif.Assert(v.(int) == 1024*1024, "C13/tcp/max-recv-size-inherited")
			}
		} else {
			verif.Fail("C13/tcp/max-recv-size-option-missing")
		}
	}
	// Close: whatever is in progress
	verif.Assert(sock.Close() == nil, "C10/tcp/close")
	verif.Quiesce()
	if fate == 4 && verif.Choice("late-header", 2) == 1 {
		// the silent peer completes its handshake after the socket was closed
		c1.PeerSend(vnet.SPHeader(self))
		verif.Quiesce()
	}
	for i := 0; i < 3; i++ {
		verif.FireTimer()
	}
	verif.Assert(c1.Closed, "C10/tcp/connection-of-pending-handshake-left-open-after-close")
	verif.Assert(c2.Closed, "C10/tcp/established-connection-left-open-after-close")
	verif.Assert(len(vnet.N.Listeners) == 0, "C10/tcp/listening-address-left-after-close")
	verif.Assert(verif.LiveGoroutines() == 0, "C10/tcp/goroutines-left-after-close")
	verif.Reach("closed")
}

func min(a, b int) int {
	if a < b {
		return a
	}
	return b
}

// VH21b_dialer: the real tcp dialer and core redial loop: refused, failed
// handshake, established then lost; Close at the end.
func VH21b_dialer() {
	lab := "C12/tcp-dialer"
	vnet.Install()
	sock := vp.New("bus")
	attached := 0
	var dialed []mangos.Pipe
	sock.SetPipeEventHook(func(ev mangos.PipeEvent, p mangos.Pipe) {
		if ev == mangos.PipeEventAttached {
			attached++
			dialed = append(dialed, p)
		}
	})
	self := sock.Info().Peer
	var conns []*vnet.Conn
	outcomes := []int{verif.Choice("o1", 4), verif.Choice("o2", 4)}
	n := 0
	vnet.N.DialOutcome = func(a string) *vnet.Conn {
		o := 0
		if n < len(outcomes) {
			o = outcomes[n]
		}
		n++
		if o == 1 {
			return nil // refused
		}
		c := vnet.NewConn("d")
		conns = append(conns, c)
		switch o {
		case 0:
			c.PeerSend(vnet.SPHeader(self))
		case 2:
			c.PeerHangup()
		case 3:
			c.PeerSend(vnet.SPHeader(self + 1)) // wrong protocol
		}
		return c
	}
	verif.Assert(sock.SetOption(mangos.OptionDialAsynch, true) == nil, lab+"/asynch")
	durl, _, _ := scheme()
	verif.Assert(doDial(sock, durl) == nil, lab+"/dial")
	verif.Quiesce()
	// attempt 1 done; if it did not attach, a redial must be pending and attempt 2 follows
	if outcomes[0] != 0 {
		verif.Assert(attached == 0, lab+"/failed-attempt-attached")
		verif.Assert(verif.PendingTimers() >= 1, lab+"/no-redial-after-failed-attempt")
		verif.FireTimer()
		verif.Assert(n >= 2, lab+"/dialer-stopped-redialling")
		if outcomes[1] == 0 {
			verif.Assert(attached == 1, lab+"/second-attempt-not-attached")
			verif.Reach("reconnected")
		}
	} else {
		verif.Assert(attached == 1, lab+"/good-attempt-not-attached")
		// lose it: the dialer must try again
		conns[0].PeerHangup()
		verif.Quiesce()
		verif.Assert(verif.PendingTimers() >= 1, lab+"/no-redial-after-connection-loss")
		verif.FireTimer()
		verif.Assert(n >= 2, lab+"/dialer-stopped-redialling")
		verif.Reach("redialled-after-loss")
	}
	// traffic on the dialed connection, both directions, against the independent codec (C15, C01)
	{
		var last *vnet.Conn
		for _, c := range conns {
			if !c.Closed {
				last = c
			}
		}
		if last != nil && attached > 0 {
			_, _, ipc := scheme()
			n0 := len(last.Out)
			body := verif.Bytes("body", verif.Choice("blen", 3))
			verif.Assert(sock.Send(body) == nil, lab+"/send")
			verif.Quiesce()
			want := vnet.Frame(body)
			if ipc {
				want = append([]byte{1}, want...)
			}
			verif.Assert(verif.BytesEq(last.Out[n0:], want) && len(last.Out[n0:]) == len(want), "C15/tcp/frame-bytes")
			in := verif.Bytes("in", verif.Choice("ilen", 3))
			fr := vnet.Frame(in)
			if ipc {
				fr = append([]byte{1}, fr...)
			}
			last.PeerSend(fr)
			var got []byte
			var rerr error
			rg := verif.Go("recv", func() { got, rerr = sock.Recv() })
			verif.Quiesce()
			verif.Assert(rg.Done() && rerr == nil, "C15/tcp/conforming-frame-not-accepted")
			if rg.Done() && rerr == nil {
				verif.Assert(len(got) == len(in) && verif.BytesEq(got, in), "C01/tcp/frame-changed")
			}
			verif.Reach("dialer-traffic")
		}
	}
	// a dialed pipe describes its connection and the endpoint that made it (C13)
	if len(dialed) > 0 {
		p := dialed[len(dialed)-1]
		verif.Assert(p.Address() == durl, "C13/tcp/dialed-pipe-address")
		verif.Assert(p.Dialer() != nil && p.Listener() == nil, "C13/tcp/dialed-pipe-endpoint")
		verif.Assert(p.ID() != 0 && p.ID()&0x80000000 == 0, "C13/tcp/pipe-id-not-a-non-zero-31-bit-value")
		var last *vnet.Conn
		for _, c := range conns {
			if !c.Closed {
				last = c
			}
		}
		if last != nil {
			la, e1 := p.GetOption(mangos.OptionLocalAddr)
			ra, e2 := p.GetOption(mangos.OptionRemoteAddr)
			verif.Assert(e1 == nil && e2 == nil, "C13/tcp/address-options-missing")
			if e1 == nil && e2 == nil {
				verif.Assert(la == interface{}(last.LocalAddr()) && ra == interface{}(last.RemoteAddr()), "C13/tcp/address-options-do-not-describe-the-connection")
			}
		}
		if _, e := p.GetOption("NO-SUCH-PIPE-OPTION"); e == nil {
			verif.Fail("C13/tcp/unknown-pipe-option-accepted")
		}
		verif.Reach("dialed-pipe-described")
	}
	sock.Close()
	verif.Quiesce()
	m := n
	for i := 0; i < 4; i++ {
		verif.FireTimer()
	}
	verif.Assert(n == m, "C14/tcp/attempt-after-close")
	for _, c := range conns {
		verif.Assert(c.Closed, "C10/tcp/dialed-connection-left-open-after-close")
	}
	verif.Assert(verif.LiveGoroutines() == 0, "C10/tcp/goroutines-left-after-close")
	verif.Reach("closed")
}

// VH21c_close_queue: Close while the accept loop is busy and finished
// handshakes (one failed, then good ones) are queued behind it: every
// connection is released.
func VH21c_close_queue() {
	lab := "C10/tcp-queue"
	vnet.Install()
	sock := vp.New("bus")
	gate := make(chan struct{})
	held := 0
	sock.SetPipeEventHook(func(ev mangos.PipeEvent, p mangos.Pipe) {
		if ev == mangos.PipeEventAttaching && held == 0 {
			held++
			<-gate // the application's hook is slow: the accept loop is busy
		}
	})
	qurl, qkey, _ := scheme()
	verif.Assert(doListen(sock, qurl) == nil, lab+"/listen")
	verif.Quiesce()
	L := vnet.N.Listeners[qkey]
	self := sock.Info().Peer
	c0 := L.Connect("c0")
	c0.PeerSend(vnet.SPHeader(self))
	verif.Quiesce()
	// while the loop is stuck in the hook, more handshakes finish and queue up
	order := verif.Choice("order", 3)
	var cs []*vnet.Conn
	mk := func(good bool) {
		c := L.Connect("q")
		if good {
			c.PeerSend(vnet.SPHeader(self))
		} else {
			c.PeerSend(vnet.SPHeader(self + 1))
		}
		cs = append(cs, c)
		verif.Quiesce()
	}
	switch order {
	case 0:
		mk(false)
		mk(true)
	case 1:
		mk(true)
		mk(false)
		mk(true)
	case 2:
		mk(true)
		mk(true)
	}
	cg := verif.Go("close", func() { sock.Close() })
	verif.Quiesce()
	close(gate)
	verif.Quiesce()
	for i := 0; i < 3; i++ {
		verif.FireTimer()
	}
	verif.Assert(cg.Done(), lab+"/close-does-not-return")
	verif.Assert(c0.Closed, lab+"/connection-left-open-after-close")
	for _, c := range cs {
		verif.Assert(c.Closed, lab+"/queued-connection-left-open-after-close")
	}
	verif.Assert(verif.LiveGoroutines() == 0, lab+"/goroutines-left-after-close")
	verif.Reach("queue-closed")
}


// VH21d_busy: Listen on an address that is taken fails with ErrAddrInUse and
// succeeds when retried on the same listener after the address was freed
// (tcp: whatever the network reports; ipc: EADDRINUSE is mapped after the
// stale-socket probe).
func VH21d_busy() {
	lab := "C12/stream-busy"
	vnet.Install()
	url, key, ipc := scheme()
	blocker := vp.New("bus")
	verif.Assert(doListen(blocker, url) == nil, lab+"/blocker")
	verif.Quiesce()
	sock := vp.New("bus")
	l, err := sock.NewListener(url, epOpts())
	verif.Assert(err == nil, lab+"/new-listener")
	e1 := l.Listen()
	verif.Assert(e1 != nil, lab+"/listen-on-busy-address-succeeded")
	if ipc {
		verif.Assert(e1 == mangos.ErrAddrInUse, lab+"/ipc-busy-address-error-kind")
	}
	// everything else on the socket and the listener still works
	g := verif.Go("poke", func() {
		l.GetOption(mangos.OptionMaxRecvSize)
		l.SetOption(mangos.OptionMaxRecvSize, 100)
		sock.GetOption(mangos.OptionMaxRecvSize)
		l.Address()
	})
	verif.Quiesce()
	verif.Assert(g.Done(), lab+"/listener-wedged-after-failed-listen")
	if gu := verif.Choice("loser-gives-up", 3); gu > 0 {
		// the refused listener (or its whole socket) is closed: the holder of the address is not affected - it
		// still accepts, and the address is still taken
		if gu == 1 {
			l.Close()
		} else {
			sock.Close()
		}
		verif.Quiesce()
		L := vnet.N.Listeners[key]
		verif.Assert(L != nil, lab+"/closing-the-refused-listener-unbound-the-holders-address")
		if L == nil {
			return
		}
		c := L.Connect("c")
		c.PeerSend(vnet.SPHeader(blocker.Info().Peer))
		verif.Quiesce()
		verif.Assert(!c.Closed, lab+"/holder-of-the-address-stopped-accepting-after-the-refused-listener-was-closed")
		third := vp.New("bus")
		verif.Assert(doListen(third, url) != nil, lab+"/address-handed-out-twice")
		third.Close()
		blocker.Close()
		verif.Quiesce()
		verif.Reach("loser-gave-up")
		return
	}
	blocker.Close()
	verif.Quiesce()
	e2 := l.Listen()
	verif.Assert(e2 == nil, lab+"/listen-retry-after-address-freed-refused")
	if e2 == nil {
		L := vnet.N.Listeners[key]
		if L == nil {
			verif.Fail(lab + "/not-listening-after-retry")
			return
		}
		c := L.Connect("c")
		c.PeerSend(vnet.SPHeader(sock.Info().Peer))
		verif.Quiesce()
		verif.Assert(!c.Closed, lab+"/connection-refused-after-retry")
	}
	verif.Reach("busy-checked")
	sock.Close()
	verif.Quiesce()
}

// VH21e_tls_config: a TLS listener/dialer whose configuration is missing or
// incomplete fails with the designated error, stays usable, and works once the
// configuration is corrected (C12); a failed TLS handshake on the dialing
// side is one more failed attempt: the dialer redials (C12, C14).
func VH21e_tls_config() {
	lab := "C12/tls-config"
	vnet.Install()
	url := "tls+tcp://" + addr
	sock := vp.New("bus")
	self := sock.Info().Peer
	switch verif.Choice("side", 2) {
	case 0:
		l, err := sock.NewListener(url, nil)
		verif.Assert(err == nil, lab+"/new-listener")
		kind := verif.Choice("defect", 2)
		if kind == 1 {
			// a configuration without any certificate
			verif.Assert(l.SetOption(mangos.OptionTLSConfig, &tls.Config{}) == nil, lab+"/set-empty-config")
		}
		e1 := l.Listen()
		if kind == 0 {
			verif.Assert(e1 == mangos.ErrTLSNoConfig, lab+"/listen-without-config-error-kind")
		} else {
			verif.Assert(e1 == mangos.ErrTLSNoCert, lab+"/listen-without-certificate-error-kind")
		}
		verif.Assert(len(vnet.N.Listeners) == 0, lab+"/listening-although-listen-failed")
		// every other call still completes
		g := verif.Go("poke", func() {
			l.GetOption(mangos.OptionTLSConfig)
			l.GetOption(mangos.OptionMaxRecvSize)
			l.SetOption(mangos.OptionMaxRecvSize, 100)
			l.Address()
			sock.GetOption(mangos.OptionMaxRecvSize)
		})
		verif.Quiesce()
		verif.Assert(g.Done(), lab+"/listener-wedged-after-failed-listen")
		// correct the configuration and retry
		sg := verif.Go("fix", func() {
			verif.Assert(l.SetOption(mangos.OptionTLSConfig, tlsCfg) == nil, lab+"/set-config-after-failed-listen")
		})
		verif.Quiesce()
		verif.Assert(sg.Done(), lab+"/set-config-blocks-after-failed-listen")
		if !sg.Done() {
			return
		}
		v, gerr := l.GetOption(mangos.OptionTLSConfig)
		verif.Assert(gerr == nil && v == interface{}(tlsCfg), lab+"/get-config-returns-what-was-set")
		e2 := l.Listen()
		verif.Assert(e2 == nil, lab+"/listen-retry-after-correction-refused")
		if e2 == nil {
			L := vnet.N.Listeners[addr]
			if L == nil {
				verif.Fail(lab + "/not-listening-after-retry")
				return
			}
			c := L.Connect("c")
			c.PeerSend(vnet.SPHeader(self))
			verif.Quiesce()
			verif.Assert(!c.Closed, lab+"/connection-refused-after-retry")
			verif.Reach("listener-corrected")
		}
	case 1:
		attached := 0
		sock.SetPipeEventHook(func(ev mangos.PipeEvent, p mangos.Pipe) {
			if ev == mangos.PipeEventAttached {
				attached++
			}
		})
		n := 0
		var conns []*vnet.Conn
		vnet.N.DialOutcome = func(a string) *vnet.Conn {
			n++
			c := vnet.NewConn("d")
			conns = append(conns, c)
			c.PeerSend(vnet.SPHeader(self))
			return c
		}
		vnet.TLSDialFail = true
		asynch := verif.Choice("asynch", 2) == 1
		d, err := sock.NewDialer(url, map[string]interface{}{mangos.OptionTLSConfig: tlsCfg, mangos.OptionDialAsynch: asynch})
		verif.Assert(err == nil, lab+"/new-dialer")
		e1 := d.Dial()
		verif.Quiesce()
		if asynch {
			verif.Assert(e1 == nil, lab+"/asynch-dial-reports-the-failure")
			verif.Assert(verif.PendingTimers() >= 1, lab+"/no-redial-after-failed-tls-handshake")
			verif.FireTimer()
		} else {
			verif.Assert(e1 != nil, lab+"/dial-with-failed-tls-handshake-succeeded")
			// the failed synchronous dial can be retried on the same dialer
			e2 := d.Dial()
			verif.Assert(e2 == nil, lab+"/dial-retry-after-correction-refused")
			verif.Quiesce()
		}
		verif.Assert(n == 2 && attached == 1, lab+"/second-attempt-not-attached")
		verif.Assert(len(conns) > 0 && conns[0].Closed, "C10/tls/connection-of-failed-tls-handshake-left-open")
		// the configuration in force reached the TLS layer
		v, gerr := d.GetOption(mangos.OptionTLSConfig)
		verif.Assert(gerr == nil && v == interface{}(tlsCfg), lab+"/get-config-returns-what-was-set")
		verif.Reach("dialer-recovered")
	}
	sock.Close()
	verif.Quiesce()
	for i := 0; i < 3; i++ {
		verif.FireTimer()
	}
	verif.Assert(verif.LiveGoroutines() == 0, "C10/tls/goroutines-left-after-close")
}

// VH21f_faults: the environment fails at a particular point of an established
// stream connection (tcp, ipc or tls by parameter), listener side:
//   0  Accept itself fails once (a connection reset before it was accepted);
//   1  a write is cut short: the connection takes only k more bytes (k = 0, 1,
//      8 = exactly the length prefix, 9, all but one) and then resets;
//   2  the peer resets after k bytes of a frame (1, 8, 9 bytes; not an EOF);
//   3  the peer resets right after the handshake;
//   4  the peer hangs up (EOF) after the length prefix and part of the body.
// The faulty connection is closed and detached exactly once, nothing of a
// partial frame reaches the application, the message being written is released
// exactly once (ledger variants), and the socket carries on: a later connection
// is accepted, a frame arriving on it is delivered unchanged, a message sent
// goes out as one well-formed frame, and Close leaves nothing behind.
func VH21f_faults() {
	lab := "C12/stream-faults"
	sock, L, h := listen("bus", lab)
	if L == nil {
		verif.Fail(lab + "/no-listener-on-the-network")
		return
	}
	self := sock.Info().Peer
	_, _, ipc := scheme()
	frame := func(b []byte) []byte {
		fr := vnet.Frame(b)
		if ipc {
			fr = append([]byte{1}, fr...)
		}
		return fr
	}
	fault := verif.Choice("fault", 6)
	if fault == 5 {
		// the very first write on a connection (the library's own handshake header) is cut short after 1, 4 or 7
		// bytes: that connection never attaches, the listener carries on
		c0 := L.Connect("c0")
		c0.WriteLimit = []int{1, 4, 7}[verif.Choice("k", 3)]
		c0.PeerSend(vnet.SPHeader(self))
		verif.Quiesce()
		for i := 0; i < 3 && verif.PendingTimers() > 0; i++ {
			verif.FireTimer()
		}
		verif.Assert(h.attached == 0, lab+"/connection-attached-although-its-handshake-could-not-be-written")
		verif.Assert(c0.Closed, lab+"/connection-with-failed-handshake-left-open")
	}
	if fault == 0 {
		L.FailAccept(vnet.ErrReset)
		verif.Quiesce()
		for i := 0; i < 3 && verif.PendingTimers() > 0; i++ {
			verif.FireTimer()
		}
	}
	// with the write fault a healthy bystander is connected too: it shares the message whose write fails on c1
	var c9 *vnet.Conn
	base := 0
	if fault == 1 && verif.Choice("bystander", 2) == 1 {
		c9 = L.Connect("c9")
		c9.PeerSend(vnet.SPHeader(self))
		verif.Quiesce()
		base = 1
	}
	c1 := L.Connect("c1")
	c1.PeerSend(vnet.SPHeader(self))
	verif.Quiesce()
	for i := 0; i < 3 && verif.PendingTimers() > 0; i++ {
		verif.FireTimer()
	}
	verif.Assert(h.attached == base+1 && !c1.Closed, lab+"/connection-after-a-failed-accept-not-attached")
	if h.attached != base+1 {
		return
	}
	body := []byte{'m', verif.Byte("b1"), verif.Byte("b2"), verif.Byte("b3")}
	full := len(frame(body))
	sentBody := false
	switch fault {
	case 1:
		ks := []int{0, 1, 8, 9, full - 1}
		if ipc {
			ks = []int{0, 1, 9, 10, full - 1} // the IPC prefix is one byte longer
		}
		k := ks[verif.Choice("k", 5)]
		c1.WriteLimit = len(c1.Out) + k
		if k == 0 {
			c1.WriteLimit = len(c1.Out) // nothing more fits
			c1.PeerReset()
			verif.Quiesce()
		} else {
			sentBody = true
			var serr error
			g := verif.Go("send", func() { serr = sock.Send(body) })
			verif.Quiesce()
			verif.Assert(g.Done(), lab+"/send-blocks-on-a-failing-connection")
			_ = serr
		}
	case 2:
		k := []int{1, 8, 9}[verif.Choice("k", 3)]
		fr := frame(body)
		c1.PeerSend(fr[:k])
		c1.PeerReset()
		verif.Quiesce()
	case 3:
		c1.PeerReset()
		verif.Quiesce()
	case 4:
		fr := frame(body)
		cut := len(fr) - 2 // inside the body
		switch verif.Choice("eof-at", 3) {
		case 1:
			cut = len(fr) - len(body) // right after the length prefix: not one byte of the body
		case 2:
			cut = len(fr) - len(body) - 3 // inside the length prefix
		}
		c1.PeerSend(fr[:cut])
		c1.PeerHangup()
		verif.Quiesce()
	}
	for i := 0; i < 3 && verif.PendingTimers() > 0; i++ {
		verif.FireTimer()
	}
	if fault != 0 && fault != 5 {
		verif.Assert(c1.Closed, lab+"/faulty-connection-left-open")
		verif.Assert(h.detached == 1, lab+"/faulty-connection-not-detached-exactly-once")
		rg := verif.Go("recv-partial", func() { sock.Recv() })
		verif.Quiesce()
		verif.Assert(!rg.Done(), lab+"/partial-frame-delivered")
	}
	verif.Reach("fault-injected")
	// the socket carries on
	c2 := L.Connect("c2")
	c2.PeerSend(vnet.SPHeader(self))
	verif.Quiesce()
	for i := 0; i < 3 && verif.PendingTimers() > 0; i++ {
		verif.FireTimer()
	}
	verif.Assert(h.attached == base+2 && !c2.Closed, lab+"/listener-stopped-accepting-after-a-fault")
	if h.attached != base+2 {
		return
	}
	if c9 != nil {
		// the bystander got the message whose write failed elsewhere, whole and once, and nothing else
		verif.Assert(!c9.Closed, lab+"/bystander-connection-closed-by-a-fault-on-another-connection")
		if sentBody {
			verif.Assert(len(c9.Out) == 8+len(frame(body)) && verif.BytesEq(c9.Out[8:], frame(body)), lab+"/bystander-did-not-get-the-message-intact")
		} else {
			verif.Assert(len(c9.Out) == 8, lab+"/bystander-got-a-message-nobody-sent")
		}
	}
	in := []byte{'i', verif.Byte("i1")}
	c2.PeerSend(frame(in))
	verif.Quiesce()
	var got []byte
	var rerr error
	g2 := verif.Go("recv", func() { got, rerr = sock.Recv() })
	verif.Quiesce()
	if fault != 0 && fault != 5 {
		// the waiting Recv from above takes it: one of the two has it
		verif.Quiesce()
	}
	_ = g2
	_ = got
	_ = rerr
	out := []byte{'o', verif.Byte("o1")}
	n0 := len(c2.Out)
	verif.Assert(sock.Send(out) == nil, lab+"/send-after-fault")
	verif.Quiesce()
	verif.Assert(verif.BytesEq(c2.Out[n0:], frame(out)) && len(c2.Out)-n0 == len(frame(out)), "C15/stream/frame-bytes-after-a-fault")
	if fault == 0 || fault == 5 {
		// the first connection is healthy: it gets the message too, as one frame
		verif.Assert(len(c1.Out) >= 8+len(frame(out)), lab+"/healthy-connection-missed-the-message")
	}
	verif.Assert(sock.Close() == nil, "C10/stream/close")
	verif.Quiesce()
	for i := 0; i < 3; i++ {
		verif.FireTimer()
	}
	if c9 != nil {
		off := 8
		if sentBody {
			off += len(frame(body))
		}
		verif.Assert(len(c9.Out) == off+len(frame(out)) && verif.BytesEq(c9.Out[off:], frame(out)), lab+"/bystander-did-not-get-the-later-message-intact")
		verif.Assert(c9.Closed, "C10/stream/connection-left-open-after-close")
	}
	verif.Assert(c1.Closed && c2.Closed, "C10/stream/connection-left-open-after-close")
	verif.Assert(len(vnet.N.Listeners) == 0, "C10/stream/listening-address-left-after-close")
	verif.Assert(verif.LiveGoroutines() == 0, "C10/stream/goroutines-left-after-close")
	verif.Reach("faults-closed")
}

// VH21g_silent_dial: a dialer's connection attempt is in progress against a peer that accepts the connection and
// then says nothing (on TLS: either does not even negotiate, or negotiates and then sends no SP header). While the
// attempt hangs, the rest of the socket is usable: option calls on the socket - which are passed on to the dialer -
// return, a listener can be added and accepts a well-behaved peer, and Close returns and leaves nothing.
func VH21g_silent_dial() {
	lab := "C12/silent-dial"
	vnet.Install()
	sock := vp.New("bus")
	attached := 0
	sock.SetPipeEventHook(func(ev mangos.PipeEvent, p mangos.Pipe) {
		if ev == mangos.PipeEventAttached {
			attached++
		}
	})
	var conns []*vnet.Conn
	if isTLS() && verif.Choice("tls-negotiation-stalls-too", 2) == 1 {
		vnet.StallNextTLS = true
	}
	vnet.N.DialOutcome = func(a string) *vnet.Conn {
		c := vnet.NewConn("silent")
		conns = append(conns, c)
		return c // accepted at the transport level; never sends anything
	}
	verif.Assert(sock.SetOption(mangos.OptionDialAsynch, true) == nil, lab+"/asynch")
	durl, _, _ := scheme()
	verif.Assert(doDial(sock, durl) == nil, lab+"/dial")
	verif.Quiesce()
	verif.Assert(len(conns) == 1 && attached == 0, lab+"/attempt-in-progress")
	type res struct {
		g   *verif.G
		err error
	}
	var rs []*res
	call := func(name string, f func() error) {
		r := &res{}
		r.g = verif.Go(name, func() { r.err = f() })
		rs = append(rs, r)
		verif.Quiesce()
		verif.Assert(r.g.Done(), lab+"/"+name+"-blocked-by-a-hanging-connection-attempt")
	}
	call("set-max-recv-size", func() error { return sock.SetOption(mangos.OptionMaxRecvSize, 4096) })
	call("set-reconnect-time", func() error { return sock.SetOption(mangos.OptionReconnectTime, time.Second) })
	call("get-max-recv-size", func() error { _, e := sock.GetOption(mangos.OptionMaxRecvSize); return e })
	for _, r := range rs {
		if r.g.Done() {
			verif.Assert(r.err == nil, lab+"/option-call-error")
		}
	}
	verif.Reach("options-while-dialling")
	cg := verif.Go("close", func() { sock.Close() })
	verif.Quiesce()
	verif.Assert(cg.Done(), lab+"/close-blocked-by-a-hanging-connection-attempt")
	for i := 0; i < 4; i++ {
		verif.FireTimer()
	}
	verif.Quiesce()
	for _, c := range conns {
		verif.Assert(c.Closed, "C10/silent-dial/connection-of-the-hanging-attempt-left-open-after-close")
	}
	verif.Assert(verif.LiveGoroutines() == 0, "C10/silent-dial/goroutines-left-after-close")
	verif.Reach("silent-dial-checked")
}
