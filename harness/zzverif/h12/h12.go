// Package h12: a failed operation leaves the object usable (C12, use-after-error part).
package h12

import (
	"time"

	"go.nanomsg.org/mangos/v3"
	"go.nanomsg.org/mangos/v3/zzverif/verif"
	"go.nanomsg.org/mangos/v3/zzverif/vp"
	"go.nanomsg.org/mangos/v3/zzverif/vt"
)

// every other call on the object must still complete (run under the deadlock census)
func pokeSocket(sock mangos.Socket, lab string) {
	g := verif.Go("poke", func() {
		sock.GetOption(mangos.OptionRecvDeadline)
		sock.SetOption(mangos.OptionRecvDeadline, time.Second)
		sock.GetOption(mangos.OptionMaxRecvSize)
		sock.SetOption(mangos.OptionMaxRecvSize, 1000)
		sock.SetOption("NO-SUCH", 1)
		sock.Info()
		c, err := sock.OpenContext()
		if err == nil {
			c.Close()
		}
	})
	verif.Quiesce()
	verif.Assert(g.Done(), lab+"/socket-wedged-after-error")
}

// VH12b_endpoints: Listen/Dial failures can be corrected and retried; the
// socket and the endpoint stay usable after every error outcome.
func VH12b_endpoints() {
	lab := "C12/endpoint"
	sock := vp.New("pair")
	vt.Install()
	switch verif.Choice("case", 6) {
	case 0: // listen fails (address in use / refused by the OS), is corrected, retried
		l, err := sock.NewListener("vt://x", nil)
		verif.Assert(err == nil, lab+"/new-listener")
		// make the transport fail
		blocker := vp.New("pair")
		verif.Assert(blocker.Listen("vt://x") == nil, lab+"/blocker-listen")
		e1 := l.Listen()
		verif.Assert(e1 == mangos.ErrAddrInUse, lab+"/listen-on-busy-address-error")
		pokeSocket(sock, lab+"/after-listen-error")
		_, ge := l.GetOption(mangos.OptionMaxRecvSize)
		verif.Assert(ge == nil, lab+"/listener-getoption-after-error")
		blocker.Close()
		verif.Quiesce()
		e2 := l.Listen()
		verif.Assert(e2 == nil, lab+"/listen-retry-after-correction-refused")
		if e2 == nil {
			p := vt.T.Listeners["x"].Connect("c")
			verif.Quiesce()
			verif.Assert(!p.Closed, lab+"/listener-does-not-accept-after-retry")
		}
		verif.Reach("listen-retried")
	case 1: // synchronous dial fails, peer appears, retry on the same dialer
		d, err := sock.NewDialer("vt://late", nil)
		verif.Assert(err == nil, lab+"/new-dialer")
		e1 := d.Dial()
		verif.Assert(e1 != nil, lab+"/dial-without-listener-succeeded")
		pokeSocket(sock, lab+"/after-dial-error")
		_, ge := d.GetOption(mangos.OptionReconnectTime)
		verif.Assert(ge == nil, lab+"/dialer-getoption-after-error")
		peer := vp.New("pair")
		verif.Assert(peer.Listen("vt://late") == nil, lab+"/peer-listen")
		e2 := d.Dial()
		verif.Assert(e2 == nil, lab+"/dial-retry-after-correction-refused")
		verif.Reach("dial-retried")
	case 2: // bad addresses / schemes
		verif.Assert(sock.Listen("nosuch://x") == mangos.ErrBadTran, lab+"/bad-scheme-listen")
		verif.Assert(sock.Dial("nosuch://x") == mangos.ErrBadTran, lab+"/bad-scheme-dial")
		verif.Assert(sock.Listen("vt://bad") == mangos.ErrBadAddr, lab+"/bad-address-listen")
		verif.Assert(sock.Dial("vt://bad") == mangos.ErrBadAddr, lab+"/bad-address-dial")
		pokeSocket(sock, lab+"/after-bad-address")
		verif.Assert(sock.Listen("vt://good") == nil, lab+"/listen-after-bad-address")
		verif.Reach("bad-address")
	case 3: // double listen / double dial on the same endpoint object
		l, _ := sock.NewListener("vt://y", nil)
		verif.Assert(l.Listen() == nil, lab+"/listen")
		verif.Assert(l.Listen() == mangos.ErrAddrInUse, lab+"/second-listen-on-same-listener")
		verif.Assert(l.Close() == nil, lab+"/listener-close")
		verif.Assert(l.Listen() == mangos.ErrClosed, lab+"/listen-on-closed-listener")
		verif.Assert(l.Close() == mangos.ErrClosed, lab+"/second-close")
		pokeSocket(sock, lab+"/after-listener-errors")
		verif.Reach("listener-errors")
	case 4: // a rejected connection does not stop the listener; a lost one neither
		verif.Assert(sock.Listen("vt://z") == nil, lab+"/listen")
		L := vt.T.Listeners["z"]
		L.FailAccept(mangos.ErrBadHeader) // failed handshake
		verif.Quiesce()
		verif.FireTimer() // the accept loop backs off for 10 ms
		p1 := L.Connect("c1")
		verif.Quiesce()
		verif.Assert(!p1.Closed, lab+"/listener-stopped-after-failed-handshake")
		p2 := L.Connect("c2") // PAIR: refused by the protocol
		verif.Quiesce()
		verif.Assert(p2.Closed, lab+"/second-pair-peer-not-refused")
		p1.Drop()
		verif.Quiesce()
		p3 := L.Connect("c3")
		verif.Quiesce()
		verif.Assert(!p3.Closed, lab+"/listener-stopped-after-refusal-and-loss")
		pokeSocket(sock, lab+"/after-rejections")
		verif.Reach("rejections")
	case 5: // operations on a closed socket fail and leave nothing locked
		sock.Close()
		verif.Assert(sock.Listen("vt://q") == mangos.ErrClosed, lab+"/listen-on-closed-socket")
		verif.Assert(sock.Dial("vt://q") == mangos.ErrClosed, lab+"/dial-on-closed-socket")
		_, le := sock.NewListener("vt://q2", nil)
		verif.Assert(le == mangos.ErrClosed, lab+"/new-listener-on-closed-socket")
		verif.Assert(len(vt.T.Listeners) == 0, lab+"/listener-leaked-on-closed-socket")
		pokeSocket(sock, lab+"/after-close")
		verif.Reach("closed-socket")
	}
	sock.Close()
}
