// Package vws stands in for gorilla/websocket connections and the HTTP
// upgrade: the VM redirects the gorilla entry points used by transport/ws to
// the functions below (opaque contract: one WriteMessage on one side is one
// ReadMessage on the other; message type, read limit, offered / selected
// subprotocols are recorded). gorilla's framing, net/http and TLS are outside
// every claim.
package vws

import (
	"time"
	"io"
	"errors"
	"net"
	"net/http"

	"github.com/gorilla/websocket"
)

type addr string

func (a addr) Network() string { return "ws" }
func (a addr) String() string  { return string(a) }

type State struct {
	Name       string
	inq        chan frame
	closeq     chan struct{}
	Closed     bool
	Frames     []Frame // what mangos wrote
	Controls   []Frame // control frames mangos wrote (WriteControl)
	// WriteStall: the peer has stopped reading - a WriteMessage is accepted but does not return until Release or
	// until the connection is closed (it then fails); like gorilla it holds the connection's write lock meanwhile
	WriteStall bool
	release    chan struct{}
	wmu        chan struct{}
	ReadLimit  int64
	LimitSet   bool
	Offered    []string // subprotocols offered by a dialing mangos
	URL        string
}

type frame struct {
	mt   int
	data []byte
	err  error
}

type Frame struct {
	Type int
	Data []byte
}

var States = map[*websocket.Conn]*State{}
var ErrClosed = errors.New("vws: closed")
var ErrTooBig = errors.New("vws: read limit exceeded")

// NewConn creates a connection handle (the gorilla type, never used for real).
func NewConn(name string) (*websocket.Conn, *State) {
	c := &websocket.Conn{}
	s := &State{Name: name, inq: make(chan frame, 64), closeq: make(chan struct{}), release: make(chan struct{}, 64), wmu: make(chan struct{}, 1)}
	States[c] = s
	return c, s
}

// PeerSend: the remote peer sends one frame.
func (s *State) PeerSend(mt int, data []byte) { s.inq <- frame{mt: mt, data: append([]byte{}, data...)} }
func (s *State) PeerClose()                   { s.inq <- frame{err: ErrClosed} }

// ---- redirect targets (called by the VM in place of the gorilla methods)

func ConnReadMessage(c *websocket.Conn) (int, []byte, error) {
	s := States[c]
	select {
	case f := <-s.inq:
		if f.err != nil {
			return 0, nil, f.err
		}
		if s.ReadLimit > 0 && int64(len(f.data)) > s.ReadLimit {
			return 0, nil, ErrTooBig
		}
		return f.mt, f.data, nil
	case <-s.closeq:
		return 0, nil, ErrClosed
	}
}

// frameReader: what NextReader hands out - the payload of one frame, read piecewise; io.EOF at its end (and at once
// for an empty frame, as gorilla does).
type frameReader struct {
	data []byte
	pos  int
}

func (r *frameReader) Read(p []byte) (int, error) {
	if r.pos >= len(r.data) {
		return 0, io.EOF
	}
	n := copy(p, r.data[r.pos:])
	r.pos += n
	return n, nil
}

// ConnNextReader: gorilla's streaming read API (one reader per frame).
func ConnNextReader(c *websocket.Conn) (int, io.Reader, error) {
	mt, data, err := ConnReadMessage(c)
	if err != nil {
		return 0, nil, err
	}
	return mt, &frameReader{data: data}, nil
}

func ConnWriteMessage(c *websocket.Conn, mt int, data []byte) error {
	s := States[c]
	if s.Closed {
		return ErrClosed
	}
	s.wmu <- struct{}{} // the connection's write lock (gorilla: one writer at a time)
	defer func() { <-s.wmu }()
	if s.WriteStall {
		select {
		case <-s.release:
		case <-s.closeq:
			return ErrClosed // Close fails the write that is in progress
		}
	}
	if s.Closed {
		return ErrClosed
	}
	s.Frames = append(s.Frames, Frame{Type: mt, Data: append([]byte{}, data...)})
	return nil
}

// Release lets one stalled WriteMessage complete.
func (s *State) Release() { s.release <- struct{}{} }

// ErrWriteTimeout is what WriteControl reports when it could not get the write lock before its deadline.
var ErrWriteTimeout = errors.New("vws: write control timeout")

// ConnWriteControl: gorilla's contract - it may be called concurrently with the other methods, waits for the
// connection's write lock until the deadline (a zero deadline means no limit), and is NOT woken by anything but
// the lock becoming free.
func ConnWriteControl(c *websocket.Conn, mt int, data []byte, deadline time.Time) error {
	s := States[c]
	if s.Closed {
		return ErrClosed
	}
	if deadline.IsZero() {
		s.wmu <- struct{}{}
	} else {
		d := time.Until(deadline)
		if d < 0 {
			d = 0
		}
		select {
		case s.wmu <- struct{}{}:
		case <-time.After(d):
			return ErrWriteTimeout
		}
	}
	defer func() { <-s.wmu }()
	if s.Closed {
		return ErrClosed
	}
	s.Controls = append(s.Controls, Frame{Type: mt, Data: append([]byte{}, data...)})
	return nil
}

func ConnSetReadLimit(c *websocket.Conn, n int64) {
	s := States[c]
	s.ReadLimit = n
	s.LimitSet = true
}

func ConnClose(c *websocket.Conn) error {
	s := States[c]
	if !s.Closed {
		s.Closed = true
		close(s.closeq)
	}
	return nil
}

func ConnLocalAddr(c *websocket.Conn) net.Addr  { return addr("ws-local:" + States[c].Name) }
func ConnRemoteAddr(c *websocket.Conn) net.Addr { return addr("ws-remote:" + States[c].Name) }
func ConnUnderlyingConn(c *websocket.Conn) net.Conn { return nil }

// DialOutcome decides what a Dial does: the returned state is the new connection, or an error.
var DialOutcome func(url string, offered []string) (*websocket.Conn, error)

func DialerDial(d *websocket.Dialer, url string, hdr http.Header) (*websocket.Conn, *http.Response, error) {
	if DialOutcome == nil {
		return nil, nil, errors.New("vws: connection refused")
	}
	c, err := DialOutcome(url, d.Subprotocols)
	if err != nil {
		return nil, nil, err
	}
	s := States[c]
	s.Offered = append([]string{}, d.Subprotocols...)
	s.URL = url
	return c, nil, nil
}

// Upgrades: connection handed out by the next Upgrade call.
var NextUpgrade *websocket.Conn
var Upgrades int

// UpgradeSubprotocols: the subprotocol list of the upgrader used by the last Upgrade (the server's answer names
// the first of them that the client offered); UpgradeChecksOrigin: whether it carried an origin check.
var UpgradeSubprotocols []string
var UpgradeChecksOrigin bool
var UpgradeAllowsForeignOrigin bool

func UpgraderUpgrade(u *websocket.Upgrader, w http.ResponseWriter, r *http.Request, hdr http.Header) (*websocket.Conn, error) {
	Upgrades++
	UpgradeSubprotocols = append([]string{}, u.Subprotocols...)
	UpgradeChecksOrigin = u.CheckOrigin != nil
	// what the upgrader does with a request whose Origin differs from its Host: gorilla's default (no function
	// set) refuses it; a function decides for itself
	UpgradeAllowsForeignOrigin = u.CheckOrigin != nil && u.CheckOrigin(&http.Request{Host: "here.example", Header: http.Header{"Origin": []string{"http://elsewhere.example"}}})
	if NextUpgrade == nil {
		return nil, errors.New("vws: upgrade failed")
	}
	c := NextUpgrade
	NextUpgrade = nil
	return c, nil
}

// HTTP errors written by the handler
type HTTPErr struct {
	Msg  string
	Code int
}

var HTTPErrors []HTTPErr

func HTTPError(w http.ResponseWriter, msg string, code int) {
	HTTPErrors = append(HTTPErrors, HTTPErr{msg, code})
}

// ServerServe stands for (*http.Server).Serve: the accept loop of the HTTP
// server; what net/http does with an accepted connection (request parsing,
// routing to the handler) is outside every claim, the harness calls the
// handler itself.
var Served []net.Conn

func ServerServe(srv *http.Server, l net.Listener) error {
	for {
		c, err := l.Accept()
		if err != nil {
			return err
		}
		Served = append(Served, c)
	}
}

func Reset() {
	Served = nil
	States = map[*websocket.Conn]*State{}
	DialOutcome = nil
	NextUpgrade = nil
	Upgrades = 0
	UpgradeSubprotocols = nil
	UpgradeChecksOrigin = false
	UpgradeAllowsForeignOrigin = false
	HTTPErrors = nil
}
