// Package h08: BUS and STAR topologies (C08).
package h08

import (
	"go.nanomsg.org/mangos/v3"
	"go.nanomsg.org/mangos/v3/zzverif/verif"
	"go.nanomsg.org/mangos/v3/zzverif/vp"
	"go.nanomsg.org/mangos/v3/zzverif/vt"
)

type member struct {
	sock mangos.Socket
	side *vt.Side
	nbr  []int
	got  [][]byte
}

// drain receives everything queued at a member without blocking the harness.
func drain(m *member, lab string) {
	for i := 0; i < 8; i++ {
		var msg *mangos.Message
		var err error
		g := verif.Go("recv", func() { msg, err = m.sock.RecvMsg() })
		verif.Quiesce()
		if !g.Done() {
			return // queue empty; the goroutine stays parked until Close
		}
		verif.Assert(err == nil, lab+"/recv-error")
		if err != nil {
			return
		}
		m.got = append(m.got, append([]byte{}, msg.Body...))
	}
	verif.Fail(lab + "/more-than-8-messages-queued")
}

func count(got [][]byte, b []byte) int {
	n := 0
	for _, g := range got {
		if len(g) == len(b) && verif.BytesEq(g, b) { // forks when payload bytes are symbolic and could coincide
			n++
		}
	}
	return n
}

// topologies: edges between members 0..n-1
var topoNames = []string{"pair", "chain3", "mesh3", "star3"}
var topoN = []int{2, 3, 3, 3}
var topoEdges = [][][2]int{
	{{0, 1}},
	{{0, 1}, {1, 2}},
	{{0, 1}, {1, 2}, {0, 2}},
	{{0, 1}, {0, 2}},
}

func build(proto string, ti int) []*member {
	vt.Install()
	n := topoN[ti]
	ms := make([]*member, n)
	for i := range ms {
		s := vp.New(proto)
		ms[i] = &member{sock: s}
		verif.Assert(s.Listen("vt://m"+string(rune('0'+i))) == nil, "harness/listen")
		ms[i].side = &vt.Side{Sock: s, L: vt.T.Listeners["m"+string(rune('0'+i))]}
	}
	for _, e := range topoEdges[ti] {
		vt.Link(ms[e[0]].side, ms[e[1]].side, "l")
		ms[e[0]].nbr = append(ms[e[0]].nbr, e[1])
		ms[e[1]].nbr = append(ms[e[1]].nbr, e[0])
	}
	return ms
}

func isNbr(m *member, j int) bool {
	for _, k := range m.nbr {
		if k == j {
			return true
		}
	}
	return false
}

// VH08a_bus: cooked BUS: every member sends one message; each direct neighbour
// gets it once, the sender and non-neighbours never (cooked BUS does not forward).
func VH08a_bus() {
	ti := verif.Choice("topo", 3) // pair, chain3, mesh3
	lab := "C08/bus/" + topoNames[ti]
	ms := build("bus", ti)
	var bodies [][]byte
	emptyFrom := verif.Choice("empty-from", len(ms)+1) - 1 // one member (or none) sends a message with an empty body
	for i, m := range ms {
		b := []byte{byte('a' + i), verif.Byte("payload")}
		if i == emptyFrom {
			b = []byte{}
		}
		bodies = append(bodies, b)
		verif.Assert(m.sock.Send(b) == nil, lab+"/send-ok")
		verif.Quiesce()
	}
	for _, m := range ms {
		drain(m, lab)
	}
	for i, m := range ms {
		for j := range ms {
			n := count(m.got, bodies[j])
			switch {
			case i == j:
				verif.Assert(n == 0, lab+"/echoed-to-sender")
			case isNbr(ms[j], i):
				verif.Assert(n == 1, lab+"/neighbour-did-not-get-exactly-one-copy")
			default:
				verif.Assert(n == 0, lab+"/cooked-bus-forwarded")
			}
		}
		verif.Assert(len(m.got) == len(m.nbr), lab+"/unexpected-message-count")
	}
	verif.Reach("bus-checked")
	for _, m := range ms {
		m.sock.Close()
	}
}

// VH08b_star: STAR in loop-free topologies: every member gets every other
// member's message exactly once, unchanged, and never its own.
func VH08b_star() {
	tsel := []int{0, 1, 3}[verif.Choice("topo", 3)] // pair, chain3, star3
	lab := "C08/star/" + topoNames[tsel]
	ms := build("star", tsel)
	var bodies [][]byte
	// one member (or none) has its own hop limit: any value (solver variable) that still admits the longest route
	// ending at it. The limit governs what that member accepts - not what it passes on - so nothing else changes.
	// parameter "plain" (schedule-exploring runs): no member-specific options, so that the schedules stay affordable
	plain := verif.Param("plain", 0) == 1
	if at := verif.Choice("own-ttl-at", len(ms)+1) - 1; at >= 0 {
		if plain {
			verif.Assume(false)
		}
		ecc := [][]int{{1, 1}, {2, 1, 2}, nil, {1, 2, 2}}[tsel][at]
		t := verif.Int("ttl")
		verif.Assume(verif.And(t >= ecc, t <= 255))
		verif.Assert(ms[at].sock.SetOption(mangos.OptionTTL, t) == nil, lab+"/set-ttl")
		verif.Reach("mixed-ttl")
	}
	emptyFrom := verif.Choice("empty-from", len(ms)+1) - 1 // one member (or none) sends a message with an empty body
	// one member (or none) changes a queue length once everybody is connected: its existing connections must go on
	// delivering into (and sending from) the new queues
	if at := verif.Choice("resize-at", len(ms)+1) - 1; at >= 0 {
		if plain {
			verif.Assume(false)
		}
		opt := []string{mangos.OptionReadQLen, mangos.OptionWriteQLen}[verif.Choice("resize-which", 2)]
		verif.Assert(ms[at].sock.SetOption(opt, 5) == nil, lab+"/resize")
		verif.Quiesce()
		verif.Reach("resized-while-connected")
	}
	for i, m := range ms {
		b := []byte{byte('a' + i), verif.Byte("payload")}
		if i == emptyFrom {
			b = []byte{}
		}
		bodies = append(bodies, b)
		verif.Assert(m.sock.Send(b) == nil, lab+"/send-ok")
		verif.Quiesce()
	}
	for _, m := range ms {
		drain(m, lab)
	}
	for i, m := range ms {
		for j := range ms {
			n := count(m.got, bodies[j])
			if i == j {
				verif.Assert(n == 0, lab+"/own-message-came-back")
			} else {
				verif.Assert(n == 1, lab+"/member-did-not-get-exactly-one-copy")
			}
		}
		verif.Assert(len(m.got) == len(ms)-1, lab+"/unexpected-message-count")
	}
	verif.Reach("star-checked")
	for _, m := range ms {
		m.sock.Close()
	}
}

// VH08c_xbus: raw BUS device forwarding: a message re-sent with the header it
// arrived with goes to every peer except the one it came from.
func VH08c_xbus() {
	lab := "C08/xbus"
	sock := vp.New("xbus")
	side := vt.Listen(sock, "a")
	pipes := []*vt.Pipe{side.Peer("p0"), side.Peer("p1"), side.Peer("p2")}
	src := verif.Choice("src", 3)
	body := verif.Bytes("body", verif.Choice("blen", 3))
	pipes[src].Deliver(body)
	var m *mangos.Message
	var err error
	g := verif.Go("recv", func() { m, err = sock.RecvMsg() })
	verif.Quiesce()
	verif.Assert(g.Done() && err == nil, lab+"/recv")
	if !g.Done() || err != nil {
		return
	}
	verif.Assert(verif.BytesEq(m.Body, body), lab+"/body-changed")
	verif.Assert(len(m.Header) == 4, lab+"/raw-header-is-arrival-pipe-id")
	// forward as a device does - or, as a bridge that hands one received message to several sockets does, take a
	// second reference (Clone) and forward the message twice: both times the origin is skipped
	twice := verif.Choice("cloned-and-forwarded-twice", 2) == 1
	if twice {
		m.Clone()
		verif.Assert(sock.SendMsg(m) == nil, lab+"/forward-ok")
		verif.Quiesce()
		verif.Assert(len(pipes[src].Sent) == 0, lab+"/forwarded-back-to-origin")
		for i, p := range pipes {
			if i != src {
				verif.Assert(len(p.Sent) == 1, lab+"/peer-missed-forwarded-message")
				p.Sent = p.Sent[:0]
			}
		}
	}
	verif.Assert(sock.SendMsg(m) == nil, lab+"/forward-ok")
	verif.Quiesce()
	for i, p := range pipes {
		if i == src {
			verif.Assert(len(p.Sent) == 0, lab+"/forwarded-back-to-origin")
		} else {
			verif.Assert(len(p.Sent) == 1, lab+"/peer-missed-forwarded-message")
			if len(p.Sent) == 1 {
				verif.Assert(verif.BytesEq(p.Sent[0].B, body), lab+"/forwarded-body-changed")
			}
		}
	}
	// a locally originated message (no header) goes to everybody
	own := mangos.NewMessage(1)
	own.Body = append(own.Body, 'Z')
	verif.Assert(sock.SendMsg(own) == nil, lab+"/send-own")
	verif.Quiesce()
	for i, p := range pipes {
		want := 2
		if i == src {
			want = 1
		}
		verif.Assert(len(p.Sent) == want, lab+"/own-message-not-sent-to-everyone")
	}
	verif.Reach("xbus-checked")
	sock.Close()
}

// VH08d_stalled: a STAR/XSTAR or raw BUS hub with three peers, one of which is
// stalled (its send queue is full): messages forwarded from the source still
// reach the healthy peer, unchanged, once each; the stalled peer loses alone.
func VH08d_stalled() {
	proto := []string{"xstar", "star", "xbus"}[verif.Choice("proto", 3)]
	lab := "C08/stalled/" + proto
	sock := vp.New(proto)
	verif.Assert(sock.SetOption(mangos.OptionWriteQLen, 1) == nil, lab+"/set-wqlen")
	side := vt.Listen(sock, "a")
	vt.ChooseErrors() // lost connections report ErrClosed or the raw reset error
	ps := []*vt.Pipe{side.Peer("src"), side.Peer("x"), side.Peer("y")}
	stalled := 1 + verif.Choice("stalled", 2)
	healthy := 3 - stalled
	ps[stalled].SendMode = vt.SendBlock
	K := verif.Param("K", 4)
	var bodies [][]byte
	var held []*mangos.Message
	for k := 0; k < K; k++ {
		b := []byte{byte('a' + k), verif.Byte("payload")}
		bodies = append(bodies, b)
		wire := b
		if proto != "xbus" {
			wire = append([]byte{0, 0, 0, 0}, b...)
		}
		ps[0].Deliver(wire)
		verif.Quiesce()
		if proto == "xbus" {
			// a raw BUS forwards only when the application (device) re-sends what it received
			var m *mangos.Message
			var err error
			g := verif.Go("recv", func() { m, err = sock.RecvMsg() })
			verif.Quiesce()
			if !g.Done() || err != nil {
				verif.Fail(lab + "/recv")
				return
			}
			verif.Assert(sock.SendMsg(m) == nil, lab+"/forward")
			verif.Quiesce()
		}
		if proto != "xbus" {
			// STAR also hands every message to the local application: it keeps them all until the end
			var m *mangos.Message
			var err error
			g := verif.Go("recv-local", func() { m, err = sock.RecvMsg() })
			verif.Quiesce()
			verif.Assert(g.Done() && err == nil, lab+"/local-application-missed-a-message")
			if g.Done() && err == nil {
				verif.Owned(m)
				verif.Assert(len(m.Body) == 2 && verif.BytesEq(m.Body, b), lab+"/local-copy-garbled")
				held = append(held, m)
			}
		}
		got := ps[healthy].Sent
		verif.Assert(len(got) == k+1, lab+"/healthy-peer-missed-a-forwarded-message")
		if len(got) == k+1 {
			w := got[k].Bytes()
			verif.Assert(len(w) >= 2 && verif.BytesEq(w[len(w)-2:], b), lab+"/forwarded-message-garbled")
		}
	}
	verif.Assert(len(ps[0].Sent) == 0, lab+"/echoed-to-the-source")
	for i, m := range held {
		verif.Assert(len(m.Body) == 2 && verif.BytesEq(m.Body, bodies[i]), lab+"/application-owned-message-changed")
	}
	verif.Reach("stalled-checked")
	sock.Close()
}

// VH08e_burst: every member of a BUS (pair, chain, mesh) or STAR (pair, chain,
// star) sends one message at the same moment, each from its own goroutine,
// while the ownership ledger watches -- under every schedule in which one
// goroutine (a sender, a forwarding hub, a per-connection writer or reader)
// stalls at one synchronisation point until the others are at rest. Every
// member that must get a message gets exactly one unchanged copy, nobody gets
// its own message back, cooked BUS does not forward.
func VH08e_burst() {
	star := verif.Choice("pattern", 2) == 1
	var ti int
	proto := "bus"
	if star {
		proto = "star"
		ti = []int{0, 1, 3}[verif.Choice("topo", 3)]
	} else {
		ti = verif.Choice("topo", 3)
	}
	lab := "C08/burst/" + proto + "/" + topoNames[ti]
	ms := build(proto, ti)
	var bodies [][]byte
	var gs []*verif.G
	errs := make([]error, len(ms))
	for i, m := range ms {
		b := []byte{byte('a' + i), byte('0' + i)}
		bodies = append(bodies, b)
		i, m := i, m
		gs = append(gs, verif.Go("send", func() { errs[i] = m.sock.Send(b) }))
	}
	verif.Quiesce()
	for i, g := range gs {
		verif.Assert(g.Done() && errs[i] == nil, lab+"/send-blocks-or-fails")
	}
	for _, m := range ms {
		drain(m, lab)
	}
	for i, m := range ms {
		want := 0
		for j := range ms {
			n := count(m.got, bodies[j])
			switch {
			case i == j:
				verif.Assert(n == 0, lab+"/own-message-came-back")
			case star || isNbr(ms[j], i):
				verif.Assert(n == 1, lab+"/member-did-not-get-exactly-one-copy")
				want++
			default:
				verif.Assert(n == 0, lab+"/cooked-bus-forwarded")
			}
		}
		verif.Assert(len(m.got) == want, lab+"/unexpected-message-count")
	}
	verif.Reach("burst-checked")
	for _, m := range ms {
		m.sock.Close()
	}
}

// VH08f_wide: many peers on one socket (W = 10; thorough 20). A STAR / XSTAR
// hub receives one message from one of its W peers (with an arbitrary hop
// count below the limit) and the application of a BUS / XBUS / STAR / PUB /
// SURVEYOR socket sends one message of its own: every peer that must get a
// copy gets exactly one, unchanged -- the eighth, ninth and tenth like the
// first -- each forwarded copy carries the hop count of the arrival plus one,
// the origin gets nothing back.
func VH08f_wide() {
	W := verif.Param("W", 10)
	protos := []string{"star", "xstar", "bus", "xbus", "pub", "xpub", "surveyor"}
	proto := protos[verif.Choice("proto", len(protos))]
	lab := "C08/wide/" + proto
	sock := vp.New(proto)
	side := vt.Listen(sock, "a")
	var pipes []*vt.Pipe
	for i := 0; i < W; i++ {
		pipes = append(pipes, side.Peer("w"+string(rune('a'+i))))
	}
	src := -1
	if proto == "star" || proto == "xstar" {
		src = verif.Choice("src", 3) * (W - 1) / 2 // first, middle or last peer
		hop := verif.Byte("hop")
		verif.Assume(hop < 7)
		body := []byte{'f', verif.Byte("payload")}
		pipes[src].Deliver(append([]byte{0, 0, 0, hop}, body...))
		verif.Quiesce()
		for i, p := range pipes {
			if i == src {
				verif.Assert(len(p.Sent) == 0, lab+"/forwarded-back-to-origin")
				continue
			}
			verif.Assert(len(p.Sent) == 1, lab+"/peer-did-not-get-exactly-one-forwarded-copy")
			if len(p.Sent) == 1 {
				x := p.Sent[0].Bytes()
				verif.Assert(len(x) == 6 && verif.BytesEq(x[4:], body), lab+"/forwarded-body-changed")
				if len(x) == 6 {
					verif.Assert(x[0] == 0 && x[1] == 0 && x[2] == 0 && x[3] == hop+1, lab+"/forwarded-copy-does-not-carry-arrival-hop-count-plus-one")
				}
			}
		}
		verif.Reach("wide-forwarded")
	}
	// one of the many peers leaves (first, middle, last or none) and possibly a newcomer joins
	switch verif.Choice("leaves", 4) {
	case 1:
		pipes[0].Drop()
	case 2:
		pipes[W/2].Drop()
	case 3:
		pipes[W-1].Drop()
	}
	verif.Quiesce()
	if verif.Choice("joins", 2) == 1 {
		pipes = append(pipes, side.Peer("newcomer"))
	}
	if src >= 0 && !pipes[src].Closed {
		// the same member sends again after the membership changed (same number of peers or not): the copy goes to
		// exactly the peers connected NOW - the newcomer included, the one that left excluded
		before := make([]int, len(pipes))
		for i, p := range pipes {
			before[i] = len(p.Sent)
		}
		body2 := []byte{'g', verif.Byte("payload2")}
		pipes[src].Deliver(append([]byte{0, 0, 0, 0}, body2...))
		verif.Quiesce()
		for i, p := range pipes {
			switch {
			case i == src:
				verif.Assert(len(p.Sent) == before[i], lab+"/forwarded-back-to-origin")
			case p.Closed:
				verif.Assert(len(p.Sent) == before[i], lab+"/message-written-to-a-detached-connection")
			default:
				verif.Assert(len(p.Sent) == before[i]+1, lab+"/peer-connected-now-did-not-get-the-forwarded-copy")
				if len(p.Sent) == before[i]+1 {
					x := p.Sent[before[i]].Bytes()
					verif.Assert(len(x) == 6 && verif.BytesEq(x[4:], body2), lab+"/forwarded-body-changed")
				}
			}
		}
		verif.Reach("wide-forwarded-after-membership-change")
	}
	base := make([]int, len(pipes))
	for i, p := range pipes {
		base[i] = len(p.Sent)
	}
	own := []byte{'o', verif.Byte("own")}
	m := mangos.NewMessage(2)
	m.Body = append(m.Body, own...)
	if proto == "xstar" {
		m.Header = append(m.Header, 0, 0, 0, 0)
	}
	verif.Assert(sock.SendMsg(m) == nil, lab+"/send-own")
	verif.Quiesce()
	for i, p := range pipes {
		if p.Closed {
			verif.Assert(len(p.Sent) == base[i], lab+"/message-written-to-a-detached-connection")
			continue
		}
		verif.Assert(len(p.Sent) == base[i]+1, lab+"/own-message-not-sent-exactly-once-to-every-peer")
		if len(p.Sent) == base[i]+1 {
			verif.Assert(verif.BytesEq(p.Sent[base[i]].B, own), lab+"/own-message-changed")
		}
	}
	verif.Reach("wide-sent")
	sock.Close()
}
