// Package h02: PAIR and PUSH/PULL exactly-once, in-order delivery (C02).
package h02

import (
	"time"

	"go.nanomsg.org/mangos/v3"
	"go.nanomsg.org/mangos/v3/zzverif/verif"
	"go.nanomsg.org/mangos/v3/zzverif/vp"
	"go.nanomsg.org/mangos/v3/zzverif/vt"
)

var pairs = []string{"pair", "xpair", "pair1", "xpair1"}

func hdrLen(proto string) int {
	if proto == "pair1" || proto == "xpair1" {
		return 4
	}
	return 0
}

func sendOne(sock mangos.Socket, proto string, body []byte) error {
	m := mangos.NewMessage(len(body))
	m.Body = append(m.Body, body...)
	if proto == "xpair1" {
		m.Header = append(m.Header, 0, 0, 0, 0)
	}
	return sock.SendMsg(m)
}

// VH02a_pair: one peer, queue lengths 0..2 each way (set through the real
// SetOption), N messages out and N messages in.
func VH02a_pair() {
	N := verif.Param("N", 3)
	proto := pairs[verif.Choice("proto", len(pairs))]
	lab := "C02/" + proto
	sock := vp.New(proto)
	wq := verif.Choice("wqlen", 3)
	rq := verif.Choice("rqlen", 3)
	verif.Assert(sock.SetOption(mangos.OptionWriteQLen, wq) == nil, lab+"/set-wqlen")
	verif.Assert(sock.SetOption(mangos.OptionReadQLen, rq) == nil, lab+"/set-rqlen")
	side := vt.Listen(sock, "a")
	peer := side.Peer("p")
	// outbound
	var bodies [][]byte
	for i := 0; i < N; i++ {
		b := []byte{byte('a' + i), verif.Byte("out")}
		bodies = append(bodies, b)
		var serr error
		g := verif.Go("send", func() { serr = sendOne(sock, proto, b) })
		verif.Quiesce()
		verif.Assert(g.Done(), lab+"/send-blocks-although-peer-takes-messages")
		if !g.Done() {
			return
		}
		verif.Assert(serr == nil, lab+"/send-ok")
	}
	verif.Assert(len(peer.Sent) == N, lab+"/peer-did-not-get-every-message-exactly-once")
	hl := hdrLen(proto)
	for i := 0; i < N && i < len(peer.Sent); i++ {
		w := peer.Sent[i].Bytes()
		verif.Assert(len(w) == hl+2, lab+"/wire-length")
		if len(w) == hl+2 {
			verif.Assert(verif.BytesEq(w[hl:], bodies[i]), lab+"/out-of-order-or-changed")
		}
	}
	verif.Reach("outbound-checked")
	// inbound: deliver one, receive one (so that no accepted queue length overflows)
	for i := 0; i < N; i++ {
		b := []byte{byte('k' + i), verif.Byte("in")}
		var wire []byte
		if hl == 4 {
			wire = append(wire, 0, 0, 0, 0)
		}
		wire = append(wire, b...)
		var m *mangos.Message
		var rerr error
		g := verif.Go("recv", func() { m, rerr = sock.RecvMsg() })
		verif.Quiesce()
		peer.Deliver(wire)
		verif.Quiesce()
		verif.Assert(g.Done(), lab+"/recv-does-not-return-delivered-message")
		if !g.Done() {
			return
		}
		verif.Assert(rerr == nil, lab+"/recv-ok")
		if rerr == nil {
			verif.Assert(verif.BytesEq(m.Body, b), lab+"/inbound-changed")
		}
	}
	// nothing extra
	g := verif.Go("recv-extra", func() { sock.RecvMsg() })
	verif.Quiesce()
	verif.Assert(!g.Done(), lab+"/invented-or-duplicated-inbound-message")
	verif.Reach("inbound-checked")
	vp.CloseCensus(sock, "C10/pair-pipeline/after-history")
}

var pushes = []string{"push", "xpush"}

// VH02b_push: two PULL peers; every message reaches exactly one of them,
// per-connection order = send order.
func VH02b_push() {
	N := verif.Param("N", 3)
	proto := pushes[verif.Choice("proto", 2)]
	lab := "C02/" + proto
	sock := vp.New(proto)
	wq := verif.Choice("wqlen", 3)
	verif.Assert(sock.SetOption(mangos.OptionWriteQLen, wq) == nil, lab+"/set-wqlen")
	side := vt.Listen(sock, "a")
	vt.ChooseErrors() // lost connections report ErrClosed or the raw reset error
	peers := []*vt.Pipe{side.Peer("p0"), side.Peer("p1")}
	var bodies [][]byte
	for i := 0; i < N; i++ {
		b := []byte{byte('a' + i), verif.Byte("out")}
		bodies = append(bodies, b)
		var serr error
		g := verif.Go("send", func() { serr = sock.Send(b) })
		verif.Quiesce()
		verif.Assert(g.Done(), lab+"/send-blocks-although-peers-take-messages")
		if !g.Done() {
			return
		}
		verif.Assert(serr == nil, lab+"/send-ok")
		if verif.Choice("lose", 3) == 0 && i == 0 {
			// one connection fails mid-stream: messages may be lost, never duplicated
			peers[1].Drop()
			verif.Quiesce()
		}
	}
	total := 0
	for _, p := range peers {
		last := -1
		for _, r := range p.Sent {
			w := r.Bytes()
			verif.Assert(len(w) == 2, lab+"/wire-length")
			if len(w) != 2 {
				continue
			}
			idx := int(w[0] - 'a')
			verif.Assert(idx >= 0 && idx < N && verif.BytesEq(w, bodies[idx]), lab+"/invented-or-changed-message")
			verif.Assert(idx > last, lab+"/reordered-or-duplicated-on-one-connection")
			last = idx
			total++
		}
	}
	for i := 0; i < N; i++ {
		n := 0
		for _, p := range peers {
			for _, r := range p.Sent {
				if len(r.Bytes()) == 2 && r.Bytes()[0] == byte('a'+i) {
					n++
				}
			}
		}
		verif.Assert(n <= 1, lab+"/message-delivered-to-more-than-one-peer")
		if !peers[1].Closed {
			verif.Assert(n == 1, lab+"/message-lost-with-all-connections-up")
		}
	}
	verif.Reach("push-checked")
	vp.CloseCensus(sock, "C10/pair-pipeline/after-history")
}

var pulls = []string{"pull", "xpull"}

// VH02c_pull: two PUSH peers interleaving; per-connection order preserved, each once.
func VH02c_pull() {
	proto := pulls[verif.Choice("proto", 2)]
	lab := "C02/" + proto
	sock := vp.New(proto)
	side := vt.Listen(sock, "a")
	peers := []*vt.Pipe{side.Peer("p0"), side.Peer("p1")}
	seq := [][]byte{}
	from := []int{}
	for i := 0; i < 4; i++ {
		k := verif.Choice("from", 2)
		b := []byte{byte('a' + i), verif.Byte("in")}
		peers[k].Deliver(b)
		seq = append(seq, b)
		from = append(from, k)
		verif.Quiesce()
	}
	lastIdx := []int{-1, -1}
	for i := 0; i < 4; i++ {
		var m *mangos.Message
		var err error
		g := verif.Go("recv", func() { m, err = sock.RecvMsg() })
		verif.Quiesce()
		verif.Assert(g.Done() && err == nil, lab+"/recv")
		if !g.Done() || err != nil {
			return
		}
		verif.Assert(len(m.Body) == 2, lab+"/body-length")
		idx := int(m.Body[0] - 'a')
		verif.Assert(idx >= 0 && idx < 4 && verif.BytesEq(m.Body, seq[idx]), lab+"/invented-or-changed")
		if idx >= 0 && idx < 4 {
			k := from[idx]
			verif.Assert(idx > lastIdx[k], lab+"/reordered-or-duplicated-within-a-connection")
			lastIdx[k] = idx
		}
	}
	g := verif.Go("recv-extra", func() { sock.RecvMsg() })
	verif.Quiesce()
	verif.Assert(!g.Done(), lab+"/duplicate-delivery")
	verif.Reach("pull-checked")
	vp.CloseCensus(sock, "C10/pair-pipeline/after-history")
}

// VH02e_second_peer: PAIR has at most one peer; further connections are refused
// without disturbing the conversation and succeed once the first peer is gone.
func VH02e_second_peer() {
	proto := pairs[verif.Choice("proto", len(pairs))]
	lab := "C02/" + proto
	sock := vp.New(proto)
	side := vt.Listen(sock, "a")
	p1 := side.Peer("p1")
	p2 := side.Peer("p2")
	verif.Assert(p2.Closed, lab+"/second-peer-not-refused")
	verif.Assert(!p1.Closed, lab+"/first-peer-disturbed-by-second")
	b := []byte{'x', verif.Byte("out")}
	var serr error
	g := verif.Go("send", func() { serr = sendOne(sock, proto, b) })
	verif.Quiesce()
	verif.Assert(g.Done() && serr == nil, lab+"/send-after-refusal")
	verif.Assert(len(p1.Sent) == 1 && len(p2.Sent) == 0, lab+"/traffic-went-to-refused-peer")
	p1.Drop()
	verif.Quiesce()
	p3 := side.Peer("p3")
	verif.Assert(!p3.Closed, lab+"/new-peer-refused-after-first-left")
	g2 := verif.Go("send2", func() { serr = sendOne(sock, proto, b) })
	verif.Quiesce()
	verif.Assert(g2.Done() && serr == nil, lab+"/send-to-new-peer")
	verif.Assert(len(p3.Sent) == 1, lab+"/new-peer-got-no-traffic")
	verif.Reach("second-peer-checked")
	vp.CloseCensus(sock, "C10/pair-pipeline/after-history")
}

// VH02f_dialer_takeover: a PAIR socket with an established peer also dials a
// second address; that connection is refused while the first peer is there and
// must be re-established (and carry the traffic) once the first peer has gone.
func VH02f_dialer_takeover() {
	proto := pairs[verif.Choice("proto", len(pairs))]
	lab := "C02/" + proto + "/takeover"
	sock := vp.New(proto)
	verif.Assert(sock.SetOption(mangos.OptionDialAsynch, true) == nil, lab+"/asynch")
	side := vt.Listen(sock, "a")
	p1 := side.Peer("p1")
	verif.Assert(!p1.Closed, lab+"/first-peer")
	verif.Assert(sock.Dial("vt://peerB") == nil, lab+"/dial")
	verif.Quiesce()
	d := vt.T.Dialers[0]
	verif.Assert(len(d.Pipes) >= 1 && d.Pipes[0].Closed, lab+"/second-connection-not-refused")
	verif.Assert(!p1.Closed, lab+"/first-peer-disturbed")
	// the first peer leaves; the dialer's next attempt must be accepted
	p1.Drop()
	verif.Quiesce()
	for i := 0; i < 4 && (len(d.Pipes) == 0 || d.Pipes[len(d.Pipes)-1].Closed); i++ {
		if !verif.FireTimer() {
			break
		}
	}
	last := d.Pipes[len(d.Pipes)-1]
	verif.Assert(!last.Closed, lab+"/dialer-did-not-take-over-after-first-peer-left")
	if last.Closed {
		return
	}
	b := []byte{'t', verif.Byte("out")}
	var serr error
	g := verif.Go("send", func() { serr = sendOne(sock, proto, b) })
	verif.Quiesce()
	verif.Assert(g.Done() && serr == nil, lab+"/send-after-takeover")
	verif.Assert(len(last.Sent) == 1, lab+"/traffic-not-on-the-new-connection")
	verif.Reach("took-over")
	vp.CloseCensus(sock, "C10/pair-pipeline/after-history")
}

// VH02g_concurrent: two application goroutines send concurrently; every
// schedule with at most k preemptions: each message arrives exactly once,
// unchanged, and in each sender's own order.
func VH02g_concurrent() {
	protos := []string{"pair", "xpair", "push", "xpush", "pair1"}
	proto := protos[verif.Choice("proto", len(protos))]
	lab := "C02/" + proto + "/concurrent"
	sock := vp.New(proto)
	wq := verif.Choice("wqlen", 2) + 1
	verif.Assert(sock.SetOption(mangos.OptionWriteQLen, wq) == nil, lab+"/set-wqlen")
	side := vt.Listen(sock, "a")
	peer := side.Peer("p")
	N := verif.Param("N", 2)
	mkSender := func(tag byte) func() {
		return func() {
			for i := 0; i < N; i++ {
				if sendOne(sock, proto, []byte{tag, byte('0' + i)}) != nil {
					verif.Fail(lab + "/send-error")
				}
			}
		}
	}
	ga := verif.Go("A", mkSender('A'))
	gb := verif.Go("B", mkSender('B'))
	verif.Quiesce()
	verif.Assert(ga.Done() && gb.Done(), lab+"/sender-blocked-although-peer-takes-messages")
	hl := hdrLen(proto)
	nextA, nextB := 0, 0
	for _, r := range peer.Sent {
		w := r.Bytes()
		if len(w) != hl+2 {
			verif.Fail(lab + "/wire-length")
			continue
		}
		b := w[hl:]
		switch b[0] {
		case 'A':
			verif.Assert(int(b[1]-'0') == nextA, lab+"/reordered-or-duplicated-within-a-sender")
			nextA++
		case 'B':
			verif.Assert(int(b[1]-'0') == nextB, lab+"/reordered-or-duplicated-within-a-sender")
			nextB++
		default:
			verif.Fail(lab + "/invented-message")
		}
	}
	verif.Assert(nextA == N && nextB == N, lab+"/message-lost")
	verif.Reach("concurrent-checked")
	vp.CloseCensus(sock, "C10/pair-pipeline/after-history")
}

// VH02h_inflight_loss: a PUSH connection fails while a write on it is in
// flight, and that write still reports success after the connection was
// detached (the kernel had taken the bytes). That message may be lost. But
// every message accepted AFTER the failed connection was fully detached, with
// a healthy idle peer connected, is delivered to that peer: the dead
// connection is never offered traffic again.
func VH02h_inflight_loss() {
	proto := pushes[verif.Choice("proto", 2)]
	lab := "C02/" + proto + "/inflight"
	sock := vp.New(proto)
	verif.Assert(sock.SetOption(mangos.OptionWriteQLen, 1) == nil, lab+"/set-wqlen")
	side := vt.Listen(sock, "a")
	vt.ChooseErrors() // lost connections report ErrClosed or the raw reset error
	good := side.Peer("good")
	bad := side.Peer("bad")
	bad.SendMode = vt.SendHold
	// traffic until a write is in flight on the bad connection
	sent := 0
	for i := 0; i < 3 && bad.SendCalls == 0; i++ {
		var serr error
		b := []byte{byte('a' + i), verif.Byte("pre")}
		g := verif.Go("send", func() { serr = sock.Send(b) })
		verif.Quiesce()
		verif.Assert(g.Done() && serr == nil, lab+"/send-blocks-although-peers-take-messages")
		if !g.Done() {
			return
		}
		sent++
	}
	if bad.SendCalls == 0 {
		verif.Assume(false) // the scheduler never picked the bad connection
	}
	bad.Drop()
	verif.Quiesce()
	bad.Release() // the in-flight write returns success although the connection is gone
	verif.Quiesce()
	n0 := len(good.Sent)
	calls0 := bad.SendCalls
	var bodies [][]byte
	for i := 0; i < 3; i++ {
		var serr error
		b := []byte{byte('x' + i), verif.Byte("post")}
		bodies = append(bodies, b)
		g := verif.Go("send", func() { serr = sock.Send(b) })
		verif.Quiesce()
		verif.Assert(g.Done() && serr == nil, lab+"/send-blocks-although-a-healthy-peer-is-idle")
		if !g.Done() {
			return
		}
	}
	verif.Assert(bad.SendCalls == calls0, lab+"/detached-connection-offered-traffic-again")
	verif.Assert(len(good.Sent) == n0+3, lab+"/message-lost-although-accepted-after-the-failed-connection-was-detached")
	for i, b := range bodies {
		if n0+i < len(good.Sent) {
			verif.Assert(verif.BytesEq(good.Sent[n0+i].Bytes(), b), lab+"/reordered-or-changed")
		}
	}
	verif.Reach("inflight-checked")
	vp.CloseCensus(sock, "C10/pair-pipeline/after-history")
}

// VH02i_idle_loss: an IDLE PUSH connection goes away (any of 2..3 peers, so
// also the one that attached first). Afterwards the survivors are slow: every
// connection is handed one message at a time (never a second one before the
// first write returned), the departed connection is never offered anything,
// and once the survivors drain every accepted message has been delivered
// exactly once, in send order per connection.
func VH02i_idle_loss() {
	proto := pushes[verif.Choice("proto", 2)]
	lab := "C02/" + proto + "/idle-loss"
	sock := vp.New(proto)
	verif.Assert(sock.SetOption(mangos.OptionWriteQLen, 2) == nil, lab+"/set-wqlen")
	side := vt.Listen(sock, "a")
	vt.ChooseErrors() // lost connections report ErrClosed or the raw reset error
	np := 2 + verif.Choice("peers", 2)
	var peers []*vt.Pipe
	for i := 0; i < np; i++ {
		peers = append(peers, side.Peer("p"+string(rune('0'+i))))
	}
	gone := peers[verif.Choice("gone", np)]
	gone.Drop()
	verif.Quiesce()
	for _, p := range peers {
		if p != gone {
			p.SendMode = vt.SendBlock
		}
	}
	var bodies [][]byte
	accepted := 0
	for i := 0; i < 4; i++ {
		b := []byte{byte('a' + i), verif.Byte("out")}
		var serr error
		g := verif.Go("send", func() { serr = sock.Send(b) })
		verif.Quiesce()
		if !g.Done() {
			break // queue and hand-off slots full: the sender waits, as documented
		}
		verif.Assert(serr == nil, lab+"/send-ok")
		bodies = append(bodies, b)
		accepted++
	}
	verif.Assert(gone.SendCalls == 0, lab+"/detached-connection-offered-traffic")
	for _, p := range peers {
		verif.Assert(p.MaxInFlight <= 1, lab+"/connection-handed-a-second-message-before-the-first-write-returned")
	}
	for _, p := range peers {
		if p != gone {
			p.SendMode = vt.SendOK
			for k := 0; k < 6; k++ {
				p.Release()
			}
		}
	}
	verif.Quiesce()
	total := 0
	for _, p := range peers {
		last := -1
		for _, r := range p.Sent {
			w := r.Bytes()
			idx := int(w[0] - 'a')
			verif.Assert(len(w) == 2 && idx >= 0 && idx < len(bodies)+1, lab+"/invented-or-changed-message")
			verif.Assert(idx > last, lab+"/reordered-or-duplicated-on-one-connection")
			last = idx
			total++
		}
	}
	verif.Assert(total >= accepted, lab+"/message-lost-although-accepted-after-the-connection-was-detached")
	verif.Reach("idle-loss-checked")
	vp.CloseCensus(sock, "C10/pair-pipeline/after-history")
}

// VH02j_pair_reconnect: the PAIR peer stops reading with one message stuck in
// the write and more queued behind it, then disconnects; a new peer connects
// and reads. What the new peer receives is an in-order subsequence of what
// was sent (messages may be lost with the failed connection, never reordered,
// duplicated or invented), and messages sent after the reconnection all arrive.
func VH02j_pair_reconnect() {
	proto := pairs[verif.Choice("proto", len(pairs))]
	lab := "C02/" + proto + "/reconnect"
	sock := vp.New(proto)
	wq := 1 + verif.Choice("wqlen", 3) // 1..3
	verif.Assert(sock.SetOption(mangos.OptionWriteQLen, wq) == nil, lab+"/set-wqlen")
	side := vt.Listen(sock, "a")
	vt.ChooseErrors() // lost connections report ErrClosed or the raw reset error
	p1 := side.Peer("p1")
	mode := vt.SendBlock // the stuck write fails when the connection goes
	if verif.Choice("late-success", 2) == 1 {
		mode = vt.SendHold // ... or reports success after the connection went
	}
	p1.SendMode = mode
	bodies := make([][]byte, 7) // by tag
	n := 0
	burst := 2 + verif.Choice("burst", 4) // 2..5 messages before the peer goes: queue partly filled, full, or a sender waiting
	for i := 0; i < burst; i++ {
		b := []byte{byte('a' + i), verif.Byte("out")}
		var serr error
		g := verif.Go("send", func() { serr = sendOne(sock, proto, b) })
		verif.Quiesce()
		bodies[i] = b
		if !g.Done() {
			break // queue full: the sender waits, as documented (its message goes out once there is room)
		}
		verif.Assert(serr == nil, lab+"/send-ok")
		n++
	}
	p1.Drop()
	verif.Quiesce()
	if mode == vt.SendHold {
		p1.Release()
		verif.Quiesce()
	}
	p2 := side.Peer("p2")
	verif.Assert(!p2.Closed, lab+"/new-peer-refused-after-the-first-left")
	verif.Quiesce()
	// two more after the reconnection
	for i := 0; i < 2; i++ {
		b := []byte{byte('a' + 5 + i), verif.Byte("later")}
		var serr error
		g := verif.Go("send", func() { serr = sendOne(sock, proto, b) })
		verif.Quiesce()
		verif.Assert(g.Done() && serr == nil, lab+"/send-blocks-although-the-new-peer-takes-messages")
		bodies[5+i] = b
	}
	verif.Quiesce()
	last := -1
	later := 0
	for _, r := range p2.Sent {
		w := r.B
		if len(w) != 2 {
			verif.Fail(lab + "/invented-or-changed-message")
			continue
		}
		idx := int(w[0] - 'a')
		verif.Assert(idx >= 0 && idx < len(bodies) && bodies[idx] != nil && verif.BytesEq(w, bodies[idx]), lab+"/invented-or-changed-message")
		verif.Assert(idx > last, lab+"/reordered-or-duplicated-on-one-connection")
		last = idx
		if idx >= 5 {
			later++
		}
	}
	verif.Assert(later == 2, lab+"/message-lost-although-sent-after-the-reconnection")
	for _, r := range p1.Sent {
		for _, q := range p2.Sent {
			verif.Assert(!(len(r.B) == 2 && len(q.B) == 2 && r.B[0] == q.B[0]), lab+"/message-delivered-to-both-the-old-and-the-new-peer")
		}
	}
	verif.Reach("reconnect-checked")
	vp.CloseCensus(sock, "C10/pair-pipeline/after-history")
}

// VH02k_simultaneous_connect: two or three things happen to a PAIR socket at
// the same moment -- peers arrive through two different listeners, or through a
// listener and a dialer; a peer that has only just connected hangs up again --
// under every schedule in which one goroutine stalls at one synchronisation
// point until all the others have come to rest. Afterwards: at most one of the
// connections is open, a message goes to exactly that one, and once it has gone
// a new peer is accepted and gets the traffic.
func VH02k_simultaneous_connect() {
	proto := pairs[verif.Choice("proto", len(pairs))]
	lab := "C02/" + proto + "/simultaneous"
	sock := vp.New(proto)
	verif.Assert(sock.SetOption(mangos.OptionDialAsynch, true) == nil, lab+"/asynch")
	sa := vt.Listen(sock, "a")
	sb := vt.Listen(sock, "b")
	var cands []*vt.Pipe
	var d *vt.Dialer
	shape := verif.Choice("shape", 3)
	switch shape {
	case 0: // two listeners
		cands = append(cands, sa.L.Connect("p1"), sb.L.Connect("p2"))
	case 1: // a listener and a dialer
		verif.Assert(sock.Dial("vt://peerB") == nil, lab+"/dial")
		cands = append(cands, sa.L.Connect("p1"))
	case 2: // a peer arrives and leaves at once, while another arrives
		p1 := sa.L.Connect("p1")
		cands = append(cands, p1, sb.L.Connect("p2"))
		verif.Go("hangup", func() { p1.Drop() })
	}
	verif.Quiesce()
	if shape == 1 {
		d = vt.T.Dialers[0]
		verif.Assert(len(d.Pipes) >= 1, lab+"/dialer-never-connected")
		if len(d.Pipes) >= 1 {
			cands = append(cands, d.Pipes[0])
		}
	}
	open := 0
	var cur *vt.Pipe
	for _, p := range cands {
		if !p.Closed {
			open++
			cur = p
		}
	}
	verif.Assert(open <= 1, lab+"/two-peers-admitted-at-once")
	if shape != 2 {
		verif.Assert(open == 1, lab+"/every-simultaneous-peer-refused")
	}
	if open != 1 {
		if open == 0 && shape == 2 {
			// both gone (the survivor was refused because the leaver still held the place): a newcomer must get in
			cur = sa.Peer("p3")
			verif.Assert(!cur.Closed, lab+"/new-peer-refused-although-no-peer-is-left")
			if cur.Closed {
				return
			}
		} else {
			return
		}
	}
	b := []byte{'s', verif.Byte("out")}
	var serr error
	g := verif.Go("send", func() { serr = sendOne(sock, proto, b) })
	verif.Quiesce()
	verif.Assert(g.Done() && serr == nil, lab+"/send-to-the-single-peer")
	hl := hdrLen(proto)
	total := len(cur.Sent)
	for _, p := range cands {
		if p != cur {
			total += len(p.Sent)
		}
	}
	verif.Assert(len(cur.Sent) == 1 && total == 1, lab+"/message-not-delivered-exactly-once-to-the-single-peer")
	if len(cur.Sent) == 1 {
		w := cur.Sent[0].Bytes()
		verif.Assert(len(w) == hl+2 && verif.BytesEq(w[hl:], b), lab+"/message-changed")
	}
	// the peer leaves: the place is free again
	cur.Drop()
	verif.Quiesce()
	if shape == 1 {
		for i := 0; i < 3 && d.Pipes[len(d.Pipes)-1].Closed; i++ {
			if !verif.FireTimer() {
				break
			}
		}
	}
	var nw *vt.Pipe
	if shape == 1 && !d.Pipes[len(d.Pipes)-1].Closed {
		nw = d.Pipes[len(d.Pipes)-1] // the dialer took the place over
	} else {
		nw = sb.Peer("p9")
	}
	verif.Assert(!nw.Closed, lab+"/new-peer-refused-after-the-single-peer-left")
	if nw.Closed {
		return
	}
	g2 := verif.Go("send2", func() { serr = sendOne(sock, proto, b) })
	verif.Quiesce()
	verif.Assert(g2.Done() && serr == nil && len(nw.Sent) == 1, lab+"/new-peer-got-no-traffic")
	verif.Reach("simultaneous-checked")
	vp.CloseCensus(sock, "C10/pair-pipeline/after-history")
}

// VH02l_deadline_race: a deadline runs out at the very moment the call could
// complete. Receiving side (pair, xpair, pair1, pull, xpull): a Recv with a
// receive deadline is waiting; a message arrives and the deadline timer fires
// at the same moment. Sending side (pair, xpair, push, xpush): the peer does
// not take messages, the queue is full and a Send with a send deadline is
// waiting; the peer starts taking messages and the deadline timer fires at the
// same moment. Under every schedule in which one goroutine stalls at one
// synchronisation point until the others are at rest, exactly one of the two
// outcomes happens, completely: Recv returns the message, or it times out and
// the message is still there for the next Recv; Send reports success and the
// message reaches the peer exactly once, or it times out and the message never
// does. Nothing is lost, duplicated or delivered behind the application's back.
func VH02l_deadline_race() {
	if verif.Choice("side", 2) == 0 {
		protos := []string{"pair", "xpair", "pair1", "pull", "xpull"}
		proto := protos[verif.Choice("proto", len(protos))]
		lab := "C02/" + proto + "/recv-deadline-race"
		sock := vp.New(proto)
		verif.Assert(sock.SetOption(mangos.OptionRecvDeadline, time.Second) == nil, lab+"/set-deadline")
		side := vt.Listen(sock, "a")
		peer := side.Peer("p")
		var m *mangos.Message
		var rerr error
		g := verif.Go("recv", func() { m, rerr = sock.RecvMsg() })
		verif.Quiesce()
		verif.Assert(!g.Done(), lab+"/recv-returned-without-message-or-deadline")
		wire := []byte{}
		if hdrLen(proto) == 4 {
			wire = append(wire, 0, 0, 0, 0)
		}
		wire = append(wire, 'm', verif.Byte("in"))
		switch verif.Choice("first", 3) {
		case 0:
			peer.Deliver(wire)
			verif.Assert(verif.FireTimerNow(), lab+"/no-deadline-timer")
		case 2:
			// the message is in the socket (or on its way there, if a goroutine stalls) when the timer fires
			peer.Deliver(wire)
			verif.QuiesceKeep()
			verif.Assert(verif.FireTimerNow(), lab+"/no-deadline-timer")
		default:
			verif.Assert(verif.FireTimerNow(), lab+"/no-deadline-timer")
			peer.Deliver(wire)
		}
		verif.Quiesce()
		verif.Assert(g.Done(), lab+"/recv-hangs-beyond-its-deadline")
		if !g.Done() {
			return
		}
		got := 0
		if rerr == nil {
			verif.Assert(verif.BytesEq(m.Body, wire[hdrLen(proto):]), lab+"/inbound-changed")
			got++
			verif.Reach("recv-won")
		} else {
			verif.Assert(rerr == mangos.ErrRecvTimeout, lab+"/unexpected-recv-error")
			verif.Reach("deadline-won")
		}
		// what is there now? (at most the one message, exactly once in total)
		verif.Assert(sock.SetOption(mangos.OptionRecvDeadline, time.Duration(0)) == nil, lab+"/clear-deadline")
		var m2 *mangos.Message
		var e2 error
		g2 := verif.Go("recv2", func() { m2, e2 = sock.RecvMsg() })
		verif.Quiesce()
		if g2.Done() {
			verif.Assert(e2 == nil && verif.BytesEq(m2.Body, wire[hdrLen(proto):]), lab+"/second-recv")
			got++
			g3 := verif.Go("recv3", func() { sock.RecvMsg() })
			verif.Quiesce()
			verif.Assert(!g3.Done(), lab+"/message-delivered-more-than-once")
		}
		verif.Assert(got == 1, lab+"/message-lost-or-duplicated-when-the-deadline-ran-out-as-it-arrived")
		verif.Assert(!peer.Closed, lab+"/peer-disconnected")
		sock.Close()
		return
	}
	protos := []string{"pair", "xpair", "push", "xpush"}
	proto := protos[verif.Choice("proto", len(protos))]
	lab := "C02/" + proto + "/send-deadline-race"
	sock := vp.New(proto)
	verif.Assert(sock.SetOption(mangos.OptionWriteQLen, 1) == nil, lab+"/set-wqlen")
	verif.Assert(sock.SetOption(mangos.OptionSendDeadline, time.Second) == nil, lab+"/set-deadline")
	side := vt.Listen(sock, "a")
	peer := side.Peer("p")
	peer.SendMode = vt.SendBlock
	// fill the write in progress and the queue
	type sr struct {
		g   *verif.G
		err error
		b   []byte
	}
	var sends []*sr
	for i := 0; i < 4; i++ {
		s := &sr{b: []byte{byte('a' + i), verif.Byte("out")}}
		sends = append(sends, s)
		s.g = verif.Go("send", func() { s.err = sendOne(sock, proto, s.b) })
		verif.Quiesce()
		if !s.g.Done() {
			break
		}
		verif.Assert(s.err == nil, lab+"/send-ok")
	}
	w := sends[len(sends)-1]
	verif.Assert(!w.g.Done(), lab+"/four-sends-accepted-with-queue-length-1-and-a-stalled-peer")
	if w.g.Done() {
		return
	}
	// the peer starts taking messages and the waiting Send's deadline fires, at the same moment
	rel := func() {
		peer.SendMode = vt.SendOK
		for k := 0; k < 6; k++ {
			peer.Release()
		}
	}
	switch verif.Choice("first", 3) {
	case 0:
		rel()
		verif.Assert(verif.FireTimerNow(), lab+"/no-deadline-timer")
	case 2:
		rel()
		verif.QuiesceKeep()
		if !verif.FireTimerNow() {
			verif.Reach("send-timer-gone")
		}
	default:
		verif.Assert(verif.FireTimerNow(), lab+"/no-deadline-timer")
		rel()
	}
	verif.Quiesce()
	verif.Assert(w.g.Done(), lab+"/send-hangs-beyond-its-deadline")
	if !w.g.Done() {
		return
	}
	verif.Assert(w.err == nil || w.err == mangos.ErrSendTimeout, lab+"/unexpected-send-error")
	hl := hdrLen(proto)
	for i, s := range sends {
		n := 0
		for _, r := range peer.Sent {
			x := r.Bytes()
			if len(x) == hl+2 && verif.BytesEq(x[hl:], s.b) && x[hl] == s.b[0] {
				n++
			}
		}
		if s.err == nil {
			verif.Assert(n == 1, lab+"/accepted-message-not-delivered-exactly-once")
		} else {
			verif.Assert(n == 0, lab+"/message-delivered-although-send-reported-a-timeout")
		}
		_ = i
	}
	last := -1
	for _, r := range peer.Sent {
		x := r.Bytes()
		if len(x) == hl+2 {
			idx := int(x[hl] - 'a')
			verif.Assert(idx > last, lab+"/reordered-or-duplicated")
			last = idx
		}
	}
	if w.err == nil {
		verif.Reach("send-won")
	} else {
		verif.Reach("send-deadline-won")
	}
	vp.CloseCensus(sock, "C10/pair-pipeline/after-history")
}

// VH02m_push_long: N (12) messages through a PUSH socket with three PULL
// peers, write queue length 1..2, one of the peers slow for a while (it takes
// its first message only after the sixth Send). Every message reaches exactly
// one peer, unchanged; on each connection the messages arrive in send order;
// no Send waits while a ready peer is idle.
func VH02m_push_long() {
	N := verif.Param("N", 12)
	proto := pushes[verif.Choice("proto", 2)]
	lab := "C02/" + proto + "/long"
	sock := vp.New(proto)
	wq := 1 + verif.Choice("wqlen", 2)
	verif.Assert(sock.SetOption(mangos.OptionWriteQLen, wq) == nil, lab+"/set-wqlen")
	side := vt.Listen(sock, "a")
	peers := []*vt.Pipe{side.Peer("p0"), side.Peer("p1"), side.Peer("p2")}
	slow := verif.Choice("slow", 4) // which peer is slow at first (3: none)
	if slow < 3 {
		peers[slow].SendMode = vt.SendBlock
	}
	var bodies [][]byte
	for i := 0; i < N; i++ {
		b := []byte{byte('a' + i), verif.Byte("out")}
		bodies = append(bodies, b)
		var serr error
		g := verif.Go("send", func() { serr = sock.Send(b) })
		verif.Quiesce()
		verif.Assert(g.Done() && serr == nil, lab+"/send-blocks-although-a-ready-peer-is-idle")
		if !g.Done() {
			return
		}
		if i == 5 && slow < 3 {
			peers[slow].SendMode = vt.SendOK
			for k := 0; k < 4; k++ {
				peers[slow].Release()
			}
			verif.Quiesce()
		}
	}
	verif.Quiesce()
	total := 0
	for _, p := range peers {
		last := -1
		for _, r := range p.Sent {
			w := r.Bytes()
			verif.Assert(len(w) == 2, lab+"/wire-length")
			if len(w) != 2 {
				continue
			}
			idx := int(w[0] - 'a')
			verif.Assert(idx >= 0 && idx < N && verif.BytesEq(w, bodies[idx]), lab+"/invented-or-changed-message")
			verif.Assert(idx > last, lab+"/reordered-or-duplicated-on-one-connection")
			last = idx
			total++
		}
	}
	verif.Assert(total == N, lab+"/message-lost-or-duplicated-with-all-connections-up")
	verif.Reach("push-long-checked")
	vp.CloseCensus(sock, "C10/pair-pipeline/after-history")
}
