// Package verif is the harness API of gosym. Inside the symbolic VM every
// function below is intercepted (its body never runs). The bodies are the
// native implementation used (a) to replay a solver counterexample against
// the real build and (b) to validate the VM differentially: values and choices
// come from the JSON file named by VERIF_REPLAY (or loaded with Reset), a
// failed assertion prints VERIF-ASSERT-FAIL and (outside differential mode)
// exits 3.
package verif

import (
	"encoding/json"
	"fmt"
	"os"
	"runtime"
	"strconv"
	"strings"
	"sync"
	"time"
)

type replayFile struct {
	Model   map[string]string `json:"model"`
	Choices map[string]int    `json:"choices"`
	Params  map[string]int    `json:"params"`
}

var (
	once sync.Once
	rf   replayFile
	mu   sync.Mutex
	ctr  = map[string]int{}
	// Diff mode: assertion failures are logged, not fatal.
	Diff bool
)

func load() {
	once.Do(func() {
		p := os.Getenv("VERIF_REPLAY")
		if p == "" {
			return
		}
		loadFile(p)
	})
}

func loadFile(p string) {
	b, err := os.ReadFile(p)
	if err != nil {
		panic(err)
	}
	rf = replayFile{}
	if err := json.Unmarshal(b, &rf); err != nil {
		panic(err)
	}
}

// Reset loads another replay file and forgets all name counters.
func Reset(path string) {
	once.Do(func() {})
	mu.Lock()
	ctr = map[string]int{}
	mu.Unlock()
	loadFile(path)
}

func uniq(name string) string {
	mu.Lock()
	defer mu.Unlock()
	n := ctr[name]
	ctr[name] = n + 1
	if n == 0 {
		return name
	}
	return name + "#" + strconv.Itoa(n)
}

func val(name string) uint64 {
	load()
	s, ok := rf.Model[uniq(name)]
	if !ok {
		return 0
	}
	n, _ := strconv.ParseUint(s, 10, 64)
	return n
}

func Bool(name string) bool              { return val(name) != 0 }
func Byte(name string) byte              { return byte(val(name)) }
func Int(name string) int                { return int(val(name)) }
func Uint16(name string) uint16          { return uint16(val(name)) }
func Uint32(name string) uint32          { return uint32(val(name)) }
func Uint64(name string) uint64          { return val(name) }
func Int64(name string) int64            { return int64(val(name)) }
func Duration(name string) time.Duration { return time.Duration(val(name)) }

// Bytes returns n arbitrary bytes (n concrete).
func Bytes(name string, n int) []byte {
	b := make([]byte, n)
	for i := range b {
		b[i] = byte(val(name + "[" + strconv.Itoa(i) + "]"))
	}
	return b
}

// Choice is a bounded decision 0..n-1 (enumerated by the VM).
func Choice(name string, n int) int {
	load()
	return rf.Choices[uniq("choice:"+name)]
}

// BoundaryCount / Boundary: candidate lengths derived by the VM from the integer constants of the code under test
// (c-1, c, c+1 for every constant 2 <= c <= max in the listed packages, plus 0 and 1). Native build: 0 and 1 only.
func BoundaryCount(scope string, max int) int { return 2 }
func Boundary(scope string, max int, i int) int { return i }

// Param returns a tier-dependent bound from the harness configuration.
func Param(name string, def int) int {
	load()
	if v, ok := rf.Params[name]; ok {
		return v
	}
	return def
}

type assumeFalse struct{}

func Assume(c bool) {
	if !c {
		if Diff {
			fmt.Println("VERIF-ASSUME-FALSE")
			panic(assumeFalse{})
		}
		fmt.Println("VERIF-ASSUME-FALSE")
		os.Exit(4)
	}
}

// IsAssumeFalse recognises the panic Assume raises in differential mode.
func IsAssumeFalse(r interface{}) bool { _, ok := r.(assumeFalse); return ok }

func Assert(c bool, label string) {
	if !c {
		fmt.Println("VERIF-ASSERT-FAIL " + label)
		if !Diff {
			os.Exit(3)
		}
	}
}

// Fail records an unconditional violation.
func Fail(label string) { Assert(false, label) }

func Reach(label string) {}

// Observe logs values for the differential comparison of the VM with the
// native run. Supported: int kinds, bool, string, []byte, error, nil.
func Observe(tag string, v ...interface{}) {
	var sb strings.Builder
	sb.WriteString("VERIF-OBSERVE ")
	sb.WriteString(tag)
	for _, x := range v {
		sb.WriteString(" ")
		sb.WriteString(fmtObs(x))
	}
	fmt.Println(sb.String())
}

func fmtObs(x interface{}) string {
	switch y := x.(type) {
	case nil:
		return "nil"
	case error:
		return "err"
	case []byte:
		var sb strings.Builder
		sb.WriteString("[")
		for i, b := range y {
			if i > 0 {
				sb.WriteString(" ")
			}
			sb.WriteString(strconv.Itoa(int(b)))
		}
		sb.WriteString("]")
		return sb.String()
	case bool:
		return strconv.FormatBool(y)
	case string:
		return strconv.Quote(y)
	case int:
		return strconv.FormatInt(int64(y), 10)
	case int64:
		return strconv.FormatInt(y, 10)
	case uint16:
		return strconv.FormatInt(int64(y), 10)
	case uint32:
		return strconv.FormatInt(int64(y), 10)
	case byte:
		return strconv.FormatInt(int64(y), 10)
	case time.Duration:
		return strconv.FormatInt(int64(y), 10)
	}
	return fmt.Sprintf("?%T", x)
}

// Concurrency / time (VM semantics; native: best effort).
type G struct{ done chan struct{} }

func Go(name string, f func()) *G {
	g := &G{done: make(chan struct{})}
	go func() { defer close(g.done); f() }()
	return g
}
func (g *G) Done() bool {
	select {
	case <-g.done:
		return true
	default:
		return false
	}
}
func (g *G) Blocked() bool { Quiesce(); return !g.Done() }

func Quiesce()             { time.Sleep(20 * time.Millisecond) }

// QuiesceKeep is Quiesce, except that under the stall schedule a goroutine that has been stalled (and holds
// no lock) may remain stalled across it, so that further harness steps happen while it is stopped.
func QuiesceKeep() { time.Sleep(20 * time.Millisecond) }
func RunOutClock()         { time.Sleep(300 * time.Millisecond) }
func FireTimer() bool      { time.Sleep(50 * time.Millisecond); return false }
func PendingTimers() int   { return 0 }

// PendingCallbackTimers counts pending timers that were armed with
// time.AfterFunc: their owner can stop them, so after Close none may remain
// (time.After channels cannot be stopped and simply run out).
func PendingCallbackTimers() int { return 0 }
func Now() time.Duration   { return 0 }
func LiveGoroutines() int  { return runtime.NumGoroutine() }
func AllocBytes() int      { return 0 }
func Owned(m interface{})  {}
func Concretize(x int) int { return x }
func NoPreempt(f func())   { f() }
func InVM() bool           { return false }

// Non-short-circuit boolean combinators (build one formula instead of forking paths).
func And(a, b bool) bool     { return a && b }
func Or(a, b bool) bool      { return a || b }
func Not(a bool) bool        { return !a }
func Implies(a, b bool) bool { return !a || b }
func Iff(a, b bool) bool     { return a == b }
func All(c ...bool) bool {
	for _, x := range c {
		if !x {
			return false
		}
	}
	return true
}

// BytesEq compares two byte slices without forking per byte.
func BytesEq(a, b []byte) bool {
	if len(a) != len(b) {
		return false
	}
	for i := range a {
		if a[i] != b[i] {
			return false
		}
	}
	return true
}

// IteByte selects without forking.
func IteByte(c bool, a, b byte) byte {
	if c {
		return a
	}
	return b
}

// RunClockTo advances the virtual clock to t, firing in deadline order every
// timer due by then (concrete deadlines only).
func RunClockTo(t time.Duration) { time.Sleep(50 * time.Millisecond) }

// FireTimerNow fires one pending timer at once (no quiescing before or after);
// may be called from any goroutine.
func FireTimerNow() bool { return false }

// FireTimerN fires the i-th pending timer (in creation order) after quiescing.
func FireTimerN(i int) bool { time.Sleep(50 * time.Millisecond); return false }

// Released reports whether the library has returned the message to its pool
// (VM ledger; natively unknown).
func Released(m interface{}) bool { return false }

// AssertVM is an assertion about something only the VM can observe (allocation
// accounting, goroutine census, ledger): checked in the VM, a no-op natively.
func AssertVM(c bool, label string) {}
