// Package h19: option contract sweep and unsupported operations (C19).
package h19

import (
	"time"

	_ "go.nanomsg.org/mangos/v3/transport/all"

	"go.nanomsg.org/mangos/v3"
	"go.nanomsg.org/mangos/v3/zzverif/verif"
	"go.nanomsg.org/mangos/v3/zzverif/vp"
	"go.nanomsg.org/mangos/v3/zzverif/vt"
)

var optNames = []string{
	mangos.OptionRaw, mangos.OptionRecvDeadline, mangos.OptionSendDeadline, mangos.OptionRetryTime,
	mangos.OptionSubscribe, mangos.OptionUnsubscribe, mangos.OptionSurveyTime, mangos.OptionTLSConfig,
	mangos.OptionWriteQLen, mangos.OptionReadQLen, mangos.OptionKeepAlive, mangos.OptionKeepAliveTime,
	mangos.OptionNoDelay, mangos.OptionLinger, mangos.OptionTTL, mangos.OptionMaxRecvSize,
	mangos.OptionReconnectTime, mangos.OptionMaxReconnectTime, mangos.OptionBestEffort, mangos.OptionLocalAddr,
	mangos.OptionRemoteAddr, mangos.OptionTLSConnState, mangos.OptionHTTPRequest, mangos.OptionDialAsynch,
	mangos.OptionPeerPID, mangos.OptionFailNoPeers, "NO-SUCH-OPTION",
}

var typeNames = []string{"int", "bool", "duration", "string", "bytes", "nil", "uint32"}

type optObj interface {
	SetOption(string, interface{}) error
	GetOption(string) (interface{}, error)
}

func mkValue(vt int) interface{} {
	switch vt {
	case 0:
		return verif.Int("v.int")
	case 1:
		return verif.Bool("v.bool")
	case 2:
		return verif.Duration("v.dur")
	case 3:
		return "topic"
	case 4:
		return verif.Bytes("v.bytes", 2)
	case 5:
		return nil
	}
	return verif.Uint32("v.u32")
}

func kindOf(v interface{}) int {
	switch v.(type) {
	case int:
		return 0
	case bool:
		return 1
	case time.Duration:
		return 2
	case string:
		return 3
	case []byte:
		return 4
	case nil:
		return 5
	case uint32:
		return 6
	}
	return -1
}

func sameValue(a, b interface{}) bool {
	switch x := a.(type) {
	case int:
		y, ok := b.(int)
		return verif.And(ok, x == y)
	case bool:
		y, ok := b.(bool)
		return verif.And(ok, x == y)
	case time.Duration:
		y, ok := b.(time.Duration)
		return verif.And(ok, x == y)
	case string:
		y, ok := b.(string)
		return ok && x == y
	case uint32:
		y, ok := b.(uint32)
		return verif.And(ok, x == y)
	}
	return a == nil && b == nil
}

func isContractErr(err error) bool {
	return err == nil || err == mangos.ErrBadOption || err == mangos.ErrBadValue
}

// VH19a_sweep: one SetOption(name, value) on a socket or context of one protocol,
// name x value type enumerated, payload symbolic.
func VH19a_sweep() {
	pi := verif.Param("proto", -1)
	if pi < 0 {
		pi = verif.Choice("proto", len(vp.Names))
	}
	proto := vp.Names[pi]
	sock := vp.New(proto)
	var obj optObj = sock
	where := "socket"
	if verif.Choice("obj", 2) == 1 {
		ctx, err := sock.OpenContext()
		if err != nil {
			verif.Assert(err == mangos.ErrProtoOp, "C19/sweep/"+proto+"/opencontext-error-is-ErrProtoOp")
			return
		}
		obj = ctx
		where = "context"
	}
	if verif.Choice("attached", 2) == 1 {
		side := vt.Listen(sock, "a")
		side.Peer("p1")
		where += "+pipe"
	}
	name := optNames[verif.Choice("opt", len(optNames))]
	vt_ := verif.Choice("vtype", len(typeNames))
	val := mkValue(vt_)
	if vt_ == 0 && (name == mangos.OptionReadQLen || name == mangos.OptionWriteQLen) {
		// queue lengths: all negatives, 0..3, and absurdly large; (3, 2^45] is
		// memory exhaustion territory and outside the claim
		v := val.(int)
		switch verif.Choice("qlen-range", 3) {
		case 0:
			verif.Assume(v < 0)
		case 1:
			verif.Assume(verif.And(v >= 0, v <= 3))
		case 2:
			verif.Assume(v > 1<<45)
		}
	}
	lab := "C19/sweep/" + proto + "/" + where + "/" + name + "/" + typeNames[vt_]

	before, gerr := obj.GetOption(name)
	verif.Assert(gerr == nil || gerr == mangos.ErrBadOption, lab+"/get-error-kind")
	err := obj.SetOption(name, val)
	verif.Reach("set-returned")
	verif.Assert(isContractErr(err), lab+"/set-error-kind")
	writeOnly := name == mangos.OptionSubscribe || name == mangos.OptionUnsubscribe
	if name == "NO-SUCH-OPTION" {
		verif.Assert(err == mangos.ErrBadOption, lab+"/unknown-name-is-bad-option")
		verif.Assert(gerr == mangos.ErrBadOption, lab+"/unknown-name-get-is-bad-option")
	}
	if gerr == mangos.ErrBadOption && !writeOnly {
		// not readable here => must not be settable either
		verif.Assert(err == mangos.ErrBadOption, lab+"/unsupported-option-accepted")
	}
	if gerr == nil && name == mangos.OptionRaw {
		// RAW is a read-only option: every Set is refused as unsupported
		verif.Assert(err == mangos.ErrBadOption, lab+"/read-only-option-set")
	} else if gerr == nil {
		verif.Assert(err != mangos.ErrBadOption, lab+"/readable-option-reports-bad-option-on-set")
		if kindOf(before) != vt_ {
			verif.Assert(err == mangos.ErrBadValue, lab+"/wrong-type-not-bad-value")
		}
		after, gerr2 := obj.GetOption(name)
		verif.Assert(gerr2 == nil, lab+"/get-after-set")
		if gerr2 == nil {
			if err == nil {
				verif.Reach("accepted")
				verif.Assert(sameValue(val, after), lab+"/get-returns-set-value")
			} else {
				verif.Reach("rejected")
				verif.Assert(sameValue(before, after), lab+"/rejected-set-changed-value")
			}
		}
		// documented ranges
		if vt_ == 0 {
			v := val.(int)
			switch name {
			case mangos.OptionTTL:
				verif.Assert(verif.Iff(err == nil, verif.And(v >= 1, v <= 255)), lab+"/ttl-range")
			case mangos.OptionReadQLen, mangos.OptionWriteQLen, mangos.OptionMaxRecvSize:
				verif.Assert(verif.Iff(err == nil, v >= 0), lab+"/nonneg-range")
			}
		}
	}
	sock.Close()
}

// wireIn: an inbound frame whose payload is five bytes tag, tag+1, .. tag+4 (long enough to be mistaken for a header
// if it were parsed twice, and self-checking: see payloadOK)
func wireIn(proto string, tag byte) []byte {
	pay := []byte{tag, tag + 1, tag + 2, tag + 3, tag + 4}
	switch proto {
	case "rep", "xrep", "respondent", "xrespondent", "xreq", "xsurveyor":
		return append([]byte{0x80, 0, 0, 1}, pay...)
	case "pair1", "xpair1", "star", "xstar":
		return append([]byte{0, 0, 0, 0}, pay...)
	}
	return pay
}

// payloadOK: the body handed to the application is one of wireIn's payloads, whole and unchanged
func payloadOK(b []byte) bool {
	if len(b) != 5 {
		return false
	}
	for i := 1; i < 5; i++ {
		if b[i] != b[0]+byte(i) {
			return false
		}
	}
	return true
}

// VH19b_resize: changing a queue length never disconnects a peer, and traffic
// keeps flowing afterwards.
func VH19b_resize() {
	pi := verif.Param("proto", 0)
	proto := vp.Names[pi]
	lab := "C19/resize/" + proto
	sock := vp.New(proto)
	if proto == "sub" {
		sock.SetOption(mangos.OptionSubscribe, []byte{})
	}
	// the receiving calls go to the socket or to an opened context, and the option is changed on either of them
	type rcvopt interface {
		RecvMsg() (*mangos.Message, error)
		SetOption(string, interface{}) error
	}
	var rx rcvopt = sock
	var optOn rcvopt = sock
	if verif.Choice("recv-on-a-context", 2) == 1 {
		c, cerr := sock.OpenContext()
		if cerr != nil {
			verif.Assume(false)
		}
		if proto == "sub" {
			c.SetOption(mangos.OptionSubscribe, []byte{})
		}
		rx = c
		lab += "/context"
		if verif.Choice("option-on-the-context", 2) == 1 {
			optOn = c
		}
		verif.Reach("resize-with-context")
	}
	// optionally a sender is waiting as well when the option changes: short send queues, stalled peer
	senderWaiting := verif.Choice("sender-waiting", 2) == 1
	if senderWaiting {
		if rx != rcvopt(sock) {
			verif.Assume(false) // kept to the socket API
		}
		if sock.SetOption(mangos.OptionWriteQLen, 1) != nil {
			verif.Assume(false)
		}
	}
	side := vt.Listen(sock, "a")
	p1 := side.Peer("p1")
	opt := []string{mangos.OptionReadQLen, mangos.OptionWriteQLen}[verif.Choice("which", 2)]
	v := verif.Int("qlen")
	verif.Assume(verif.And(v >= 0, v <= 3))
	// some traffic before: inbound messages queued (where the pattern receives); with "full" the receive
	// queue is first shrunk to 1 and over-filled, so that the pipe's receiver goroutine is parked on it
	room := "" // label suffix: the history is part of a finding's identity
	overfilled := false
	if verif.Choice("full", 2) == 1 {
		overfilled = true
		if sock.SetOption(mangos.OptionReadQLen, 1) != nil {
			verif.Assume(false)
		}
		p1.Deliver(wireIn(proto, 'x'))
		p1.Deliver(wireIn(proto, 'y'))
		p1.Deliver(wireIn(proto, 'z'))
	}
	if room == "" && !overfilled {
		room = "-with-room-in-the-queue"
	}
	p1.Deliver(wireIn(proto, 'a'))
	verif.Quiesce()
	pending := verif.Choice("receiver-waiting", 2) == 1
	var g0 *verif.G
	if pending {
		g0 = verif.Go("recv0", func() { rx.RecvMsg() })
		verif.Quiesce()
	}
	var blocked *verif.G
	var route []byte
	if senderWaiting {
		if proto == "xrep" || proto == "xrespondent" {
			p1.Deliver(wireIn(proto, 'r'))
			verif.Quiesce()
			if rm, rerr := sock.RecvMsg(); rerr == nil {
				route = append(route, rm.Header...)
				rm.Free()
			}
		}
		p1.SendMode = vt.SendBlock
		for i := 0; i < 5 && blocked == nil; i++ {
			if proto == "rep" || proto == "respondent" {
				p1.Deliver(wireIn(proto, byte('k'+i)))
				verif.Quiesce()
				if _, rerr := sock.RecvMsg(); rerr != nil {
					break
				}
			}
			sm := mangos.NewMessage(2)
			sm.Body = append(sm.Body, 'S', byte('0'+i))
			sm.Header = append(sm.Header, route...)
			switch proto {
			case "xpair1", "xstar":
				sm.Header = append(sm.Header, 0, 0, 0, 0)
			case "xreq", "xsurveyor":
				sm.Header = append(sm.Header, 0x80, 0, 0, 1)
			}
			gs := verif.Go("send", func() {
				if sock.SendMsg(sm) != nil {
					sm.Free()
				}
			})
			verif.Quiesce()
			if !gs.Done() {
				blocked = gs
			}
		}
		if blocked == nil {
			verif.Assume(false) // this pattern never makes a sender wait
		}
		verif.Reach("resize-with-a-waiting-sender")
	}
	err := optOn.SetOption(opt, v)
	verif.Quiesce()
	if senderWaiting {
		// the peer reads again: the waiting Send ends (delivered, or dropped by a send-queue resize), and what
		// the peer gets are messages that were sent - whole, each at most once
		p1.SendMode = vt.SendOK
		for i := 0; i < 8; i++ {
			p1.Release()
		}
		verif.Quiesce()
		verif.Assert(blocked.Done(), lab+"/"+opt+"/sender-still-waiting-after-the-peer-reads-again")
		seen := map[byte]int{}
		for _, r := range p1.Sent {
			if len(r.B) == 2 && r.B[0] == 'S' {
				seen[r.B[1]]++
			} else if len(r.B) > 0 && r.B[0] == 'S' {
				verif.Fail(lab + "/" + opt + "/message-on-the-wire-is-not-one-that-was-sent")
			}
		}
		for _, n := range seen {
			verif.Assert(n == 1, lab+"/"+opt+"/message-on-the-wire-twice")
		}
	}
	if err != nil {
		verif.Assert(err == mangos.ErrBadOption, lab+"/qlen-in-range-rejected")
		return
	}
	verif.Reach("resized")
	if rx != rcvopt(sock) {
		// ... and then the same option on the sibling object (socket after context, context after socket), and a
		// cancelled subscription on top: each object rebuilds its own queue, none trips over the other's
		var sib rcvopt = sock
		if optOn == rcvopt(sock) {
			sib = rx
		}
		e2 := sib.SetOption(opt, v)
		verif.Assert(e2 == nil || e2 == mangos.ErrBadOption, lab+"/"+opt+"/sibling-resize-error")
		if proto == "sub" {
			sock.SetOption(mangos.OptionSubscribe, []byte("zz"))
			rx.SetOption(mangos.OptionSubscribe, []byte("zz"))
			verif.Assert(sock.SetOption(mangos.OptionUnsubscribe, []byte("zz")) == nil, lab+"/unsubscribe-on-the-socket")
			verif.Assert(rx.SetOption(mangos.OptionUnsubscribe, []byte("zz")) == nil, lab+"/unsubscribe-on-the-context")
		}
		verif.Quiesce()
		verif.Reach("sibling-resized")
	}
	verif.Assert(p1.CloseCalls == 0 && !p1.Closed, lab+"/"+opt+"/peer-disconnected-by-queue-resize"+room)
	// traffic after the resize still flows in the directions the pattern has
	var m *mangos.Message
	var rerr error
	g := verif.Go("recv", func() { m, rerr = rx.RecvMsg() })
	verif.Quiesce()
	p1.Deliver(wireIn(proto, 'b'))
	verif.Quiesce()
	if g.Done() && rerr == mangos.ErrProtoOp {
		verif.Reach("send-only-pattern")
	} else if proto != "req" && proto != "surveyor" {
		// REQ/SURVEYOR deliver only answers to an outstanding request; others must deliver 'b' (or the queued 'a')
		verif.Assert(g.Done(), lab+"/"+opt+"/no-delivery-after-resize"+room)
		if g.Done() {
			verif.Assert(rerr == nil, lab+"/"+opt+"/recv-error-after-resize")
			if rerr == nil {
				// what is delivered around a resize is a message that arrived, whole: not a re-parsed remainder
				verif.Assert(payloadOK(m.Body), lab+"/"+opt+"/message-delivered-after-resize-is-not-one-that-arrived")
				if proto == "xreq" || proto == "xsurveyor" {
					verif.Assert(len(m.Header) == 4 && m.Header[0] == 0x80 && m.Header[3] == 1, lab+"/"+opt+"/header-of-the-message-delivered-after-resize-changed")
				}
			}
		}
	}
	verif.Assert(p1.CloseCalls == 0 && !p1.Closed, lab+"/"+opt+"/peer-disconnected-after-resize-traffic"+room)
	_ = m
	_ = g0
	sock.Close()
}

// VH19b_zero: an accepted zero duration means "no limit".
func VH19b_zero() {
	pi := verif.Param("proto", 0)
	proto := vp.Names[pi]
	lab := "C19/zero/" + proto
	sock := vp.New(proto)
	side := vt.Listen(sock, "a")
	p1 := side.Peer("p1")
	switch verif.Choice("opt", 3) {
	case 0: // receive deadline 0 - set explicitly, or never set - : Recv waits
		if verif.Choice("deadline-set-explicitly", 2) == 1 {
			if sock.SetOption(mangos.OptionRecvDeadline, time.Duration(0)) != nil {
				verif.Assume(false)
			}
		}
		var err error
		g := verif.Go("recv", func() { _, err = sock.RecvMsg() })
		verif.Quiesce()
		if g.Done() {
			verif.Assert(err != mangos.ErrRecvTimeout, lab+"/zero-recv-deadline-times-out")
			break
		}
		for i := 0; i < 3; i++ {
			verif.FireTimer()
		}
		verif.Assert(!g.Done() || err != mangos.ErrRecvTimeout, lab+"/zero-recv-deadline-times-out")
		verif.Reach("recv-waits")
	case 1: // send deadline 0 - set explicitly, or simply never set - : a Send that cannot complete waits
		if verif.Choice("deadline-set-explicitly", 2) == 1 {
			if sock.SetOption(mangos.OptionSendDeadline, time.Duration(0)) != nil {
				verif.Assume(false)
			}
		}
		// short queues and a stalled peer, so that a send really has to wait within a few messages (the per-connection
		// queue is sized when the peer attaches: reconnect it after shortening)
		p1.Drop()
		verif.Quiesce()
		sock.SetOption(mangos.OptionWriteQLen, 1)
		p1 = side.Peer("p1b")
		verif.Quiesce()
		var route []byte
		if proto == "xrep" || proto == "xrespondent" {
			p1.Deliver([]byte{0x80, 0, 0, 1, 'q'})
			verif.Quiesce()
			if rm, rerr := sock.RecvMsg(); rerr == nil {
				route = append(route, rm.Header...)
				rm.Free()
			}
		}
		p1.SendMode = vt.SendBlock
		timedOut := false
		for i := 0; i < 6; i++ {
			if proto == "rep" || proto == "respondent" {
				p1.Deliver([]byte{0x80, 0, 0, byte(i + 2), 'q'})
				verif.Quiesce()
				if _, rerr := sock.RecvMsg(); rerr != nil {
					break
				}
			}
			var err error
			m := mangos.NewMessage(1)
			m.Body = append(m.Body, 'x')
			m.Header = append(m.Header, route...)
			switch proto {
			case "xpair1", "xstar":
				m.Header = append(m.Header, 0, 0, 0, 0)
			case "xreq", "xsurveyor":
				m.Header = append(m.Header, 0x80, 0, 0, 1)
			}
			g := verif.Go("send", func() { err = sock.SendMsg(m) })
			verif.Quiesce()
			if !g.Done() {
				verif.Reach("send-had-to-wait")
				for k := 0; k < 3; k++ {
					verif.FireTimer()
				}
			}
			if g.Done() && err == mangos.ErrSendTimeout {
				timedOut = true
			}
		}
		verif.Assert(!timedOut, lab+"/zero-send-deadline-times-out")
		verif.Reach("send-waits")
	case 2: // survey time 0: the survey never expires
		if proto != "surveyor" {
			verif.Assume(false)
		}
		verif.Assert(sock.SetOption(mangos.OptionSurveyTime, time.Duration(0)) == nil, lab+"/survey-time-zero-rejected")
		verif.Assert(sock.Send([]byte{'q'}) == nil, lab+"/survey-send")
		verif.Quiesce()
		for i := 0; i < 3; i++ {
			verif.FireTimer()
		}
		if len(p1.Sent) == 0 {
			verif.Fail(lab + "/survey-not-sent")
			return
		}
		h := p1.Sent[0].H
		p1.Deliver(append(append([]byte{}, h...), 'r'))
		var m *mangos.Message
		var err error
		g := verif.Go("recv", func() { m, err = sock.RecvMsg() })
		verif.Quiesce()
		verif.Assert(g.Done() && err == nil, lab+"/survey-time-zero-expired-the-survey")
		_ = m
		verif.Reach("survey-infinite")
	}
	sock.Close()
}

// VH19c_unsupported: operations a pattern does not have fail with the designated error and no side effect.
func VH19c_unsupported() {
	pi := verif.Param("proto", 0)
	proto := vp.Names[pi]
	lab := "C19/unsupported/" + proto
	sock := vp.New(proto)
	side := vt.Listen(sock, "a")
	p1 := side.Peer("p1")
	recvOnly := proto == "sub" || proto == "xsub" || proto == "pull" || proto == "xpull"
	sendOnly := proto == "pub" || proto == "xpub" || proto == "push" || proto == "xpush"
	if recvOnly {
		m := mangos.NewMessage(1)
		m.Body = append(m.Body, 'x')
		err := sock.SendMsg(m)
		verif.Assert(err == mangos.ErrProtoOp, lab+"/send-on-receive-only-pattern")
		verif.Assert(len(m.Body) == 1 && m.Body[0] == 'x', lab+"/failed-send-changed-message")
		verif.Quiesce()
		verif.Assert(len(p1.Sent) == 0, lab+"/send-on-receive-only-pattern-transmitted")
		verif.Reach("recv-only")
	}
	if sendOnly {
		_, err := sock.RecvMsg()
		verif.Assert(err == mangos.ErrProtoOp, lab+"/recv-on-send-only-pattern")
		verif.Reach("send-only")
	}
	hasCtx := proto == "req" || proto == "rep" || proto == "sub" || proto == "surveyor" || proto == "respondent"
	c, err := sock.OpenContext()
	if hasCtx {
		verif.Assert(err == nil, lab+"/context-refused")
		if err == nil {
			c.Close()
		}
	} else {
		verif.Assert(err == mangos.ErrProtoOp && c == nil, lab+"/context-on-pattern-without-contexts")
	}
	verif.Assert(!p1.Closed, lab+"/peer-disturbed")
	verif.Assert(verif.LiveGoroutines() <= 6, lab+"/goroutines-started")
	sock.Close()
}

// VH19c_device: Device on cooked / mismatched / nil sockets.
func VH19c_device() {
	lab := "C19/device"
	a := vp.New([]string{"xreq", "req", "xpub", "xbus"}[verif.Choice("a", 4)])
	b := vp.New([]string{"xrep", "rep", "xsub", "xpull", "xbus"}[verif.Choice("b", 5)])
	ia, ib := a.Info(), b.Info()
	ra, _ := a.GetOption(mangos.OptionRaw)
	rb, _ := b.GetOption(mangos.OptionRaw)
	err := mangos.Device(a, b)
	mismatch := ia.Peer != ib.Self || ib.Peer != ia.Self
	switch {
	case (ra != true || rb != true) && mismatch:
		verif.Assert(err == mangos.ErrNotRaw || err == mangos.ErrBadProto, lab+"/cooked-and-mismatched-accepted")
	case ra != true || rb != true:
		verif.Assert(err == mangos.ErrNotRaw, lab+"/cooked-socket-accepted")
		verif.Reach("not-raw")
	case mismatch:
		verif.Assert(err == mangos.ErrBadProto, lab+"/mismatched-protocols-accepted")
		verif.Reach("bad-proto")
	default:
		verif.Assert(err == nil, lab+"/valid-device-refused")
		verif.Reach("ok")
	}
	if err != nil {
		verif.Assert(verif.LiveGoroutines() == 0, lab+"/refused-device-started-goroutines")
	}
	verif.Assert(mangos.Device(nil, nil) != nil, lab+"/both-nil-accepted")
	a.Close()
	b.Close()
}

var tranAddrs = []string{"tcp://127.0.0.1:5555", "tls+tcp://127.0.0.1:5556", "ws://127.0.0.1:5557/x", "wss://127.0.0.1:5558/x", "inproc://opt", "ipc:///tmp/verif.sock"}
var tranOpts = []string{mangos.OptionMaxRecvSize, mangos.OptionNoDelay, mangos.OptionKeepAlive, mangos.OptionKeepAliveTime, mangos.OptionTLSConfig,
	mangos.OptionReconnectTime, mangos.OptionMaxReconnectTime, mangos.OptionDialAsynch, mangos.OptionLocalAddr, "NO-SUCH-OPTION", mangos.OptionReadQLen,
	"UNIX-IPC-CHMOD", "UNIX-IPC-OWNER", "UNIX-IPC-GROUP"}

// VH19d_transports: option contract of the dialers and listeners of every transport.
func VH19d_transports() {
	ti := verif.Param("tran", 0)
	addr := tranAddrs[ti]
	sock := vp.New("pair")
	var o optObj
	where := "dialer"
	if verif.Choice("obj", 2) == 0 {
		d, err := sock.NewDialer(addr, nil)
		if err != nil {
			verif.Fail("C19/transport/" + addr + "/new-dialer")
			return
		}
		o = d
	} else {
		l, err := sock.NewListener(addr, nil)
		if err != nil {
			verif.Fail("C19/transport/" + addr + "/new-listener")
			return
		}
		o = l
		where = "listener"
	}
	name := tranOpts[verif.Choice("opt", len(tranOpts))]
	vt_ := verif.Choice("vtype", len(typeNames))
	val := mkValue(vt_)
	lab := "C19/transport/" + addr + "/" + where + "/" + name + "/" + typeNames[vt_]
	before, gerr := o.GetOption(name)
	verif.Assert(gerr == nil || gerr == mangos.ErrBadOption, lab+"/get-error-kind")
	err := o.SetOption(name, val)
	verif.Reach("set-returned")
	verif.Assert(isContractErr(err), lab+"/set-error-kind")
	if name == "NO-SUCH-OPTION" {
		verif.Assert(err == mangos.ErrBadOption, lab+"/unknown-name-is-bad-option")
		verif.Assert(gerr == mangos.ErrBadOption, lab+"/unknown-name-get-is-bad-option")
	}
	if name == "UNIX-IPC-CHMOD" || name == "UNIX-IPC-OWNER" || name == "UNIX-IPC-GROUP" {
		isIpcListener := ti == 5 && where == "listener"
		if !isIpcListener {
			verif.Assert(err == mangos.ErrBadOption, lab+"/ipc-option-accepted-elsewhere")
		} else if name == "UNIX-IPC-CHMOD" && vt_ == 6 {
			v := val.(uint32)
			verif.Assert(verif.Iff(err == nil, v&0777 == v), lab+"/chmod-accepts-exactly-permission-bits")
			verif.Reach("chmod")
		} else if name != "UNIX-IPC-CHMOD" && vt_ == 0 {
			verif.Assert(err == nil, lab+"/owner-or-group-int-rejected")
		} else {
			verif.Assert(err == mangos.ErrBadValue, lab+"/wrong-type-not-bad-value")
		}
	}
	if name == mangos.OptionReadQLen {
		// a socket-level option: an endpoint may pass Get up to its socket, but cannot set it
		verif.Assert(err == mangos.ErrBadOption, lab+"/socket-option-settable-on-endpoint")
	}
	if gerr == nil && err != mangos.ErrBadOption {
		if kindOf(before) >= 0 && kindOf(before) != vt_ {
			verif.Assert(err == mangos.ErrBadValue, lab+"/wrong-type-not-bad-value")
		}
		after, gerr2 := o.GetOption(name)
		verif.Assert(gerr2 == nil, lab+"/get-after-set")
		if gerr2 == nil && kindOf(before) >= 0 && name != mangos.OptionNoDelay {
			if err == nil {
				verif.Assert(sameValue(val, after), lab+"/get-returns-set-value")
			} else {
				verif.Assert(sameValue(before, after), lab+"/rejected-set-changed-value")
			}
		}
	}
	sock.Close()
}

// VH19e_inherit: option inheritance. (a) New contexts: every option that both
// the socket and a fresh context of the pattern know (Get works on both) is
// set to a non-default value on the socket (durations are solver variables);
// a context opened afterwards is asked for each. A pattern either provides
// inheritance or it does not (REP does not): if the new context inherited at
// least one option, it must have inherited every one of them. (b) New dialers
// and listeners of every transport report the socket's MaxRecvSize and
// reconnect times (solver variables) that were set before they were created.
func VH19e_inherit() {
	if verif.Choice("part", 2) == 0 {
		ctxProtos := []string{"req", "rep", "sub", "surveyor", "respondent"}
		proto := ctxProtos[verif.Choice("proto", len(ctxProtos))]
		lab := "C19/inherit/" + proto
		sock := vp.New(proto)
		probe, err := sock.OpenContext()
		verif.Assert(err == nil, lab+"/open-context")
		if err != nil {
			return
		}
		type ov struct {
			name string
			val  interface{}
		}
		d1 := verif.Duration("d1")
		d2 := verif.Duration("d2")
		d3 := verif.Duration("d3")
		verif.Assume(verif.And(verif.And(d1 >= 1, d1 <= time.Hour), verif.And(verif.And(d2 >= 1, d2 <= time.Hour), verif.And(d3 >= 1, d3 <= time.Hour))))
		cands := []ov{{mangos.OptionRecvDeadline, d1}, {mangos.OptionSendDeadline, d2}, {mangos.OptionRetryTime, d3}, {mangos.OptionSurveyTime, d3},
			{mangos.OptionBestEffort, true}, {mangos.OptionFailNoPeers, true}, {mangos.OptionReadQLen, 7}, {mangos.OptionWriteQLen, 9}, {mangos.OptionTTL, 5}}
		var set []ov
		for _, o := range cands {
			if _, e := probe.GetOption(o.name); e != nil {
				continue // the pattern's contexts do not have this option
			}
			if _, e := sock.GetOption(o.name); e != nil {
				continue
			}
			if sock.SetOption(o.name, o.val) != nil {
				continue
			}
			set = append(set, o)
		}
		c, err := sock.OpenContext()
		verif.Assert(err == nil, lab+"/open-context-2")
		if err != nil {
			return
		}
		inherited := 0
		var missing []string
		for _, o := range set {
			got, gerr := c.GetOption(o.name)
			same := false
			if gerr == nil {
				switch w := o.val.(type) {
				case time.Duration:
					g, ok := got.(time.Duration)
					same = ok && g == w
				case bool:
					g, ok := got.(bool)
					same = ok && g == w
				case int:
					g, ok := got.(int)
					same = ok && g == w
				}
			}
			if same {
				inherited++
			} else {
				missing = append(missing, o.name)
			}
		}
		if inherited > 0 {
			verif.Reach("pattern-inherits")
			for _, n := range missing {
				verif.Fail(lab + "/" + n + "/not-inherited-by-a-new-context-although-the-pattern-inherits-its-other-options")
			}
		} else {
			verif.Reach("pattern-does-not-inherit")
		}
		// an option set on the context itself sticks, and does not travel back to the socket
		if len(set) > 0 {
			o := set[0]
			if dv, ok := o.val.(time.Duration); ok {
				verif.Assert(c.SetOption(o.name, dv+1) == nil, lab+"/"+o.name+"/set-on-context")
				g1, _ := c.GetOption(o.name)
				g2, _ := sock.GetOption(o.name)
				verif.Assert(g1.(time.Duration) == dv+1 && g2.(time.Duration) == dv, lab+"/"+o.name+"/context-option-leaks-to-the-socket")
			}
		}
		sock.Close()
		return
	}
	ti := verif.Choice("tran", len(tranList))
	addr := tranList[ti].addr
	lab := "C19/inherit/" + tranList[ti].name
	sock := vp.New("pair")
	maxrx := verif.Int("maxrx")
	verif.Assume(verif.And(maxrx >= 0, maxrx <= 1<<30))
	r := verif.Duration("reconn")
	m := verif.Duration("max-reconn")
	verif.Assume(verif.And(verif.And(r >= 1, r <= time.Hour), verif.And(m >= r, m <= 2*time.Hour)))
	verif.Assert(sock.SetOption(mangos.OptionMaxRecvSize, maxrx) == nil, lab+"/set-maxrx")
	verif.Assert(sock.SetOption(mangos.OptionReconnectTime, r) == nil, lab+"/set-reconn")
	verif.Assert(sock.SetOption(mangos.OptionMaxReconnectTime, m) == nil, lab+"/set-max-reconn")
	if verif.Choice("obj", 2) == 0 {
		d, err := sock.NewDialer(addr, nil)
		verif.Assert(err == nil, lab+"/new-dialer")
		if err != nil {
			return
		}
		if tranList[ti].name != "inproc" {
			v, e := d.GetOption(mangos.OptionMaxRecvSize)
			verif.Assert(e == nil && v.(int) == maxrx, lab+"/dialer/MAX-RCV-SIZE-not-inherited")
		}
		v, e := d.GetOption(mangos.OptionReconnectTime)
		verif.Assert(e == nil && v.(time.Duration) == r, lab+"/dialer/RECONNECT-TIME-not-inherited")
		v, e = d.GetOption(mangos.OptionMaxReconnectTime)
		verif.Assert(e == nil && v.(time.Duration) == m, lab+"/dialer/MAX-RECONNECT-TIME-not-inherited")
		verif.Reach("dialer-inherits")
		pushDown(lab+"/dialer", sock, d, tranList[ti].name != "inproc", true)
	} else {
		l, err := sock.NewListener(addr, nil)
		verif.Assert(err == nil, lab+"/new-listener")
		if err != nil {
			return
		}
		if tranList[ti].name != "inproc" {
			v, e := l.GetOption(mangos.OptionMaxRecvSize)
			verif.Assert(e == nil && v.(int) == maxrx, lab+"/listener/MAX-RCV-SIZE-not-inherited")
		}
		verif.Reach("listener-inherits")
		pushDown(lab+"/listener", sock, l, tranList[ti].name != "inproc", false)
	}
	pushDownMany(lab, sock, ti)
	sock.Close()
}

// pushDownMany: several dialers and listeners of different transports on one socket (an inproc one - which supports
// none of the options - first, in the middle or last). A socket-level option set afterwards is seen by ALL the
// endpoints that have the option, or by none of them: never by some.
func pushDownMany(lab string, sock mangos.Socket, ti int) {
	lab += "/many-endpoints"
	order := verif.Choice("inproc-position", 3)
	addrs := []string{tranList[ti].addr + "1", "tcp://127.0.0.1:6001", "ipc:///tmp/verif-many.sock"}
	in := "inproc://many"
	switch order {
	case 0:
		addrs = append([]string{in}, addrs...)
	case 1:
		addrs = append(addrs[:1:1], append([]string{in}, addrs[1:]...)...)
	case 2:
		addrs = append(addrs, in)
	}
	var eps []optObject
	for i, a := range addrs {
		if tranList[ti].name == "inproc" && i == 0 && order != 0 {
			a = "inproc://many-b"
		}
		if d, err := sock.NewDialer(a, nil); err == nil {
			eps = append(eps, d)
		}
		if l, err := sock.NewListener(a+"L", nil); err == nil {
			eps = append(eps, l)
		}
	}
	nrx := verif.Int("many-maxrx")
	verif.Assume(verif.And(nrx >= 0, nrx <= 1<<30))
	old, _ := sock.GetOption(mangos.OptionMaxRecvSize)
	verif.Assume(nrx != old.(int))
	nd := verif.Duration("many-reconn")
	verif.Assume(verif.And(nd >= 1, nd <= time.Minute))
	oldD, _ := sock.GetOption(mangos.OptionReconnectTime)
	verif.Assume(nd != oldD.(time.Duration))
	check := func(name string, val interface{}, eq func(interface{}) bool) {
		verif.Assert(sock.SetOption(name, val) == nil, lab+"/"+name+"/socket-set")
		have, reached := 0, 0
		for _, ep := range eps {
			g, err := ep.GetOption(name)
			if err != nil {
				continue
			}
			have++
			if eq(g) {
				reached++
			}
		}
		verif.Assert(have >= 2, lab+"/"+name+"/fewer-than-two-endpoints-have-the-option")
		verif.Assert(reached == 0 || reached == have, lab+"/"+name+"/socket-option-reached-some-endpoints-but-not-all")
		verif.Reach("push-down-many")
	}
	check(mangos.OptionMaxRecvSize, nrx, func(g interface{}) bool { v, ok := g.(int); return ok && v == nrx })
	check(mangos.OptionReconnectTime, nd, func(g interface{}) bool { v, ok := g.(time.Duration); return ok && v == nd })
}

type optObject interface {
	GetOption(string) (interface{}, error)
	SetOption(string, interface{}) error
}

// pushDown: a socket-level SetOption reaches the endpoints that already exist - or it does not; either way it does
// so consistently. The endpoint is given a value of its own, the socket is set to a NEW value: if the endpoint now
// shows the socket's value, the library pushes the option down. Then the endpoint is given its own value again and
// the socket is set to the value it ALREADY has: the outcome must be the same as before (no table of which options
// travel; the first observation is the reference for the second).
func pushDown(lab string, sock mangos.Socket, ep optObject, hasMaxRx, isDialer bool) {
	type ov struct {
		name     string
		own, new interface{}
	}
	ownRx, newRx := verif.Int("own-maxrx"), verif.Int("new-maxrx")
	verif.Assume(verif.And(verif.And(ownRx >= 0, ownRx <= 1<<30), verif.And(newRx >= 0, newRx <= 1<<30)))
	verif.Assume(ownRx != newRx)
	ownD, newD := verif.Duration("own-reconn"), verif.Duration("new-reconn")
	verif.Assume(verif.And(verif.And(ownD >= 1, ownD <= time.Minute), verif.And(newD >= 1, newD <= time.Minute)))
	verif.Assume(ownD != newD)
	var opts []ov
	if hasMaxRx {
		opts = append(opts, ov{mangos.OptionMaxRecvSize, ownRx, newRx})
	}
	if isDialer {
		opts = append(opts, ov{mangos.OptionReconnectTime, ownD, newD})
	}
	same := func(a, b interface{}) bool {
		switch x := a.(type) {
		case int:
			y, ok := b.(int)
			return ok && x == y
		case time.Duration:
			y, ok := b.(time.Duration)
			return ok && x == y
		}
		return false
	}
	for _, o := range opts {
		if ep.SetOption(o.name, o.own) != nil {
			continue
		}
		verif.Assert(sock.SetOption(o.name, o.new) == nil, lab+"/"+o.name+"/socket-set-new-value")
		g1, e1 := ep.GetOption(o.name)
		if e1 != nil {
			continue
		}
		pushed := same(g1, o.new)
		verif.Assert(pushed || same(g1, o.own), lab+"/"+o.name+"/endpoint-shows-neither-its-own-nor-the-sockets-value")
		// again, the socket being set to the value it already has
		verif.Assert(ep.SetOption(o.name, o.own) == nil, lab+"/"+o.name+"/endpoint-set-own-value-again")
		verif.Assert(sock.SetOption(o.name, o.new) == nil, lab+"/"+o.name+"/socket-set-same-value")
		g2, e2 := ep.GetOption(o.name)
		verif.Assert(e2 == nil, lab+"/"+o.name+"/get")
		if e2 == nil {
			if pushed {
				verif.Assert(same(g2, o.new), lab+"/"+o.name+"/socket-option-set-to-its-current-value-does-not-reach-the-endpoint")
			} else {
				verif.Assert(same(g2, o.own), lab+"/"+o.name+"/socket-option-reaches-the-endpoint-only-when-unchanged")
			}
		}
		verif.Reach("push-down-checked")
	}
}

var tranList = []struct{ name, addr string }{{"tcp", "tcp://127.0.0.1:5555"}, {"tlstcp", "tls+tcp://127.0.0.1:5556"}, {"ws", "ws://127.0.0.1:5557/x"},
	{"wss", "wss://127.0.0.1:5558/x"}, {"inproc", "inproc://inh"}, {"ipc", "ipc:///tmp/verif-inh.sock"}}

// VH19f_queues: the two queue-length options are independent and take effect:
// how many messages a socket takes for a stalled peer depends on WRITEQ-LEN
// only, how many arrivals it holds for a slow application on READQ-LEN only,
// and one more slot holds one more message. Metamorphic: the same scenario is
// run on fresh sockets with (r,w) = (1,3), (4,3), (1,1) / (3,1), (3,4), (1,1)
// and the counts are compared - no per-pattern table of expected numbers.
func VH19f_queues() {
	pi := verif.Param("proto", 0)
	proto := vp.Names[pi]
	lab := "C19/queues/" + proto
	vt.Install()
	n := 0
	mk := func(r, w int) (mangos.Socket, *vt.Pipe, bool) {
		sock := vp.New(proto)
		okR := sock.SetOption(mangos.OptionReadQLen, r) == nil
		okW := sock.SetOption(mangos.OptionWriteQLen, w) == nil
		if proto == "sub" {
			sock.SetOption(mangos.OptionSubscribe, []byte{})
		}
		n++
		side := vt.Listen(sock, "q"+string(rune('0'+n)))
		return sock, side.Peer("p"), okR || okW
	}
	if verif.Choice("dir", 2) == 0 {
		// sending side: peer stalled, 8 sends; (completed before the first one blocks, transmitted once the peer drains)
		measure := func(r, w int) (int, int, bool) {
			sock, p, ok := mk(r, w)
			if !ok {
				return 0, 0, false
			}
			var route []byte
			if proto == "xrep" || proto == "xrespondent" {
				// raw REP / RESPONDENT route on the header of a request that really arrived
				p.Deliver([]byte{0x80, 0, 0, 1, 'q'})
				verif.Quiesce()
				rm, rerr := sock.RecvMsg()
				if rerr != nil {
					return 0, 0, false
				}
				route = append(route, rm.Header...)
				rm.Free()
			}
			p.SendMode = vt.SendBlock
			done := 0
			for i := 0; i < 8; i++ {
				m := mangos.NewMessage(2)
				m.Body = append(m.Body, 'm', byte('0'+i))
				m.Header = append(m.Header, route...)
				switch proto {
				case "xpair1", "xstar":
					m.Header = append(m.Header, 0, 0, 0, 0)
				case "xreq", "xsurveyor":
					m.Header = append(m.Header, 0x80, 0, 0, 1)
				}
				var err error
				g := verif.Go("send", func() { err = sock.SendMsg(m) })
				verif.Quiesce()
				if !g.Done() {
					break
				}
				if err != nil {
					return 0, 0, false // pattern cannot send (or needs a request first)
				}
				done++
			}
			p.SendMode = vt.SendOK
			for i := 0; i < 10; i++ {
				p.Release()
			}
			verif.Quiesce()
			tx := len(p.Sent)
			sock.Close()
			verif.Quiesce()
			return done, tx, true
		}
		d1, t1, ok1 := measure(1, 3)
		if !ok1 {
			verif.Assume(false)
		}
		d2, t2, _ := measure(4, 3)
		d3, t3, _ := measure(1, 1)
		verif.Assert(d1 == d2 && t1 == t2, lab+"/messages-taken-for-a-stalled-peer-depend-on-READQ-LEN")
		if proto != "req" && proto != "surveyor" {
			// (REQ keeps one request, SURVEYOR one survey: no send queue to speak of)
			verif.Assert(d1+t1 > d3+t3 || (d1 == 8 && t1 == 8), lab+"/larger-WRITEQ-LEN-takes-no-more-messages")
		}
		verif.Reach("send-queues")
		return
	}
	// receiving side: 8 arrivals while the application is not receiving, then receive until it would block
	measure := func(r, w int) (int, bool) {
		sock, p, ok := mk(r, w)
		if !ok {
			return 0, false
		}
		for i := 0; i < 8; i++ {
			switch proto {
			case "rep", "xrep", "respondent", "xrespondent", "xreq", "xsurveyor":
				p.Deliver([]byte{0x80, 0, 0, byte(i + 1), 'm', byte('0' + i)})
			case "pair1", "xpair1", "star", "xstar":
				p.Deliver([]byte{0, 0, 0, 0, 'm', byte('0' + i)})
			default:
				p.Deliver([]byte{'m', byte('0' + i)})
			}
			verif.Quiesce()
		}
		got := 0
		for i := 0; i < 9; i++ {
			var err error
			g := verif.Go("recv", func() { _, err = sock.RecvMsg() })
			verif.Quiesce()
			if !g.Done() {
				break
			}
			if err != nil {
				return 0, false // pattern cannot receive (or needs a request first)
			}
			got++
		}
		sock.Close()
		verif.Quiesce()
		return got, true
	}
	g1, ok1 := measure(3, 1)
	if !ok1 {
		verif.Assume(false)
	}
	g2, _ := measure(3, 4)
	g3, _ := measure(1, 1)
	verif.Assert(g1 == g2, lab+"/arrivals-held-for-the-application-depend-on-WRITEQ-LEN")
	if proto != "rep" && proto != "respondent" && proto != "req" && proto != "surveyor" {
		verif.Assert(g1 > g3 || g1 == 8, lab+"/larger-READQ-LEN-holds-no-more-arrivals")
	}
	verif.Reach("recv-queues")
}
