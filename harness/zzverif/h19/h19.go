// Package h19: option contract sweep and unsupported operations (C19).
package h19

import (
	"time"

	"go.nanomsg.org/mangos/v3"
	"go.nanomsg.org/mangos/v3/zzverif/verif"
	"go.nanomsg.org/mangos/v3/zzverif/vp"
	"go.nanomsg.org/mangos/v3/zzverif/vt"
)

var optNames = []string{
	mangos.OptionRaw, mangos.OptionRecvDeadline, mangos.OptionSendDeadline, mangos.OptionRetryTime,
	mangos.OptionSubscribe, mangos.OptionUnsubscribe, mangos.OptionSurveyTime, mangos.OptionTLSConfig,
	mangos.OptionWriteQLen, mangos.OptionReadQLen, mangos.OptionKeepAlive, mangos.OptionKeepAliveTime,
	mangos.OptionNoDelay, mangos.OptionLinger, mangos.OptionTTL, mangos.OptionMaxRecvSize,
	mangos.OptionReconnectTime, mangos.OptionMaxReconnectTime, mangos.OptionBestEffort, mangos.OptionLocalAddr,
	mangos.OptionRemoteAddr, mangos.OptionTLSConnState, mangos.OptionHTTPRequest, mangos.OptionDialAsynch,
	mangos.OptionPeerPID, mangos.OptionFailNoPeers, "NO-SUCH-OPTION",
}

var typeNames = []string{"int", "bool", "duration", "string", "bytes", "nil", "uint32"}

type optObj interface {
	SetOption(string, interface{}) error
	GetOption(string) (interface{}, error)
}

func mkValue(vt int) interface{} {
	switch vt {
	case 0:
		return verif.Int("v.int")
	case 1:
		return verif.Bool("v.bool")
	case 2:
		return verif.Duration("v.dur")
	case 3:
		return "topic"
	case 4:
		return verif.Bytes("v.bytes", 2)
	case 5:
		return nil
	}
	return verif.Uint32("v.u32")
}

func kindOf(v interface{}) int {
	switch v.(type) {
	case int:
		return 0
	case bool:
		return 1
	case time.Duration:
		return 2
	case string:
		return 3
	case []byte:
		return 4
	case nil:
		return 5
	case uint32:
		return 6
	}
	return -1
}

func sameValue(a, b interface{}) bool {
	switch x := a.(type) {
	case int:
		y, ok := b.(int)
		return verif.And(ok, x == y)
	case bool:
		y, ok := b.(bool)
		return verif.And(ok, x == y)
	case time.Duration:
		y, ok := b.(time.Duration)
		return verif.And(ok, x == y)
	case string:
		y, ok := b.(string)
		return ok && x == y
	case uint32:
		y, ok := b.(uint32)
		return verif.And(ok, x == y)
	}
	return a == nil && b == nil
}

func isContractErr(err error) bool {
	return err == nil || err == mangos.ErrBadOption || err == mangos.ErrBadValue
}

// VH19a_sweep: one SetOption(name, value) on a socket or context of one protocol,
// name x value type enumerated, payload symbolic.
func VH19a_sweep() {
	pi := verif.Param("proto", -1)
	if pi < 0 {
		pi = verif.Choice("proto", len(vp.Names))
	}
	proto := vp.Names[pi]
	sock := vp.New(proto)
	var obj optObj = sock
	where := "socket"
	if verif.Choice("obj", 2) == 1 {
		ctx, err := sock.OpenContext()
		if err != nil {
			verif.Assert(err == mangos.ErrProtoOp, "C19/sweep/"+proto+"/opencontext-error-is-ErrProtoOp")
			return
		}
		obj = ctx
		where = "context"
	}
	if verif.Choice("attached", 2) == 1 {
		side := vt.Listen(sock, "a")
		side.Peer("p1")
		where += "+pipe"
	}
	name := optNames[verif.Choice("opt", len(optNames))]
	vt_ := verif.Choice("vtype", len(typeNames))
	val := mkValue(vt_)
	if vt_ == 0 && (name == mangos.OptionReadQLen || name == mangos.OptionWriteQLen) {
		// queue lengths: all negatives, 0..3, and absurdly large; (3, 2^45] is
		// memory exhaustion territory and outside the claim
		v := val.(int)
		switch verif.Choice("qlen-range", 3) {
		case 0:
			verif.Assume(v < 0)
		case 1:
			verif.Assume(verif.And(v >= 0, v <= 3))
		case 2:
			verif.Assume(v > 1<<45)
		}
	}
	lab := "C19/sweep/" + proto + "/" + where + "/" + name + "/" + typeNames[vt_]

	before, gerr := obj.GetOption(name)
	verif.Assert(gerr == nil || gerr == mangos.ErrBadOption, lab+"/get-error-kind")
	err := obj.SetOption(name, val)
	verif.Reach("set-returned")
	verif.Assert(isContractErr(err), lab+"/set-error-kind")
	writeOnly := name == mangos.OptionSubscribe || name == mangos.OptionUnsubscribe
	if name == "NO-SUCH-OPTION" {
		verif.Assert(err == mangos.ErrBadOption, lab+"/unknown-name-is-bad-option")
		verif.Assert(gerr == mangos.ErrBadOption, lab+"/unknown-name-get-is-bad-option")
	}
	if gerr == mangos.ErrBadOption && !writeOnly {
		// not readable here => must not be settable either
		verif.Assert(err == mangos.ErrBadOption, lab+"/unsupported-option-accepted")
	}
	if gerr == nil && name == mangos.OptionRaw {
		// RAW is a read-only option: every Set is refused as unsupported
		verif.Assert(err == mangos.ErrBadOption, lab+"/read-only-option-set")
	} else if gerr == nil {
		verif.Assert(err != mangos.ErrBadOption, lab+"/readable-option-reports-bad-option-on-set")
		if kindOf(before) != vt_ {
			verif.Assert(err == mangos.ErrBadValue, lab+"/wrong-type-not-bad-value")
		}
		after, gerr2 := obj.GetOption(name)
		verif.Assert(gerr2 == nil, lab+"/get-after-set")
		if gerr2 == nil {
			if err == nil {
				verif.Reach("accepted")
				verif.Assert(sameValue(val, after), lab+"/get-returns-set-value")
			} else {
				verif.Reach("rejected")
				verif.Assert(sameValue(before, after), lab+"/rejected-set-changed-value")
			}
		}
		// documented ranges
		if vt_ == 0 {
			v := val.(int)
			switch name {
			case mangos.OptionTTL:
				verif.Assert(verif.Iff(err == nil, verif.And(v >= 1, v <= 255)), lab+"/ttl-range")
			case mangos.OptionReadQLen, mangos.OptionWriteQLen, mangos.OptionMaxRecvSize:
				verif.Assert(verif.Iff(err == nil, v >= 0), lab+"/nonneg-range")
			}
		}
	}
	sock.Close()
}
