// Package h11: concurrent use (C11): pairs of API operations against a
// connected socket under the VM's happens-before race detector, panic
// detection and deadlock census.
package h11

import (
	"time"

	_ "go.nanomsg.org/mangos/v3/transport/all"

	"go.nanomsg.org/mangos/v3"
	"go.nanomsg.org/mangos/v3/zzverif/verif"
	"go.nanomsg.org/mangos/v3/zzverif/vp"
	"go.nanomsg.org/mangos/v3/zzverif/vt"
)

var opNames = []string{"send", "recv", "set-readq", "set-writeq", "set-ttl", "set-recvdl", "set-senddl", "set-besteffort",
	"get-readq", "get-writeq", "get-ttl", "set-retry", "set-survey", "set-failnopeers", "context", "close", "set-maxrx", "subscribe"}

func wireFor(proto string) []byte {
	switch proto {
	case "rep", "xrep", "respondent", "xrespondent":
		return []byte{0x80, 0, 0, 1, 'x'}
	case "req", "xreq", "surveyor", "xsurveyor":
		return []byte{0x80, 0, 0, 1, 'x'}
	case "pair1", "xpair1", "star", "xstar":
		return []byte{0, 0, 0, 0, 'x'}
	}
	return []byte{'x'}
}

func contractErr(err error) bool {
	switch err {
	case nil, mangos.ErrClosed, mangos.ErrBadOption, mangos.ErrBadValue, mangos.ErrProtoOp, mangos.ErrProtoState,
		mangos.ErrSendTimeout, mangos.ErrRecvTimeout, mangos.ErrNoPeers, mangos.ErrCanceled, mangos.ErrBadHeader, mangos.ErrNoContext:
		return true
	}
	return false
}

// symDur is an arbitrary duration in [1ns, 1h] (solver variable).
func symDur(name string) time.Duration {
	d := verif.Duration(name)
	verif.Assume(verif.And(d >= 1, d <= time.Hour))
	return d
}

func doOp(sock mangos.Socket, proto string, op int, lab string) {
	var err error
	switch opNames[op] {
	case "send":
		m := mangos.NewMessage(2)
		m.Body = append(m.Body, 'h', 'i')
		if proto == "xpair1" || proto == "xstar" {
			m.Header = append(m.Header, 0, 0, 0, 0)
		}
		err = sock.SendMsg(m)
	case "recv":
		_, err = sock.RecvMsg()
	case "set-readq":
		err = sock.SetOption(mangos.OptionReadQLen, 2)
	case "set-writeq":
		err = sock.SetOption(mangos.OptionWriteQLen, 2)
	case "set-ttl":
		t := verif.Int("ttl")
		verif.Assume(verif.And(t >= 1, t <= 255))
		err = sock.SetOption(mangos.OptionTTL, t)
	case "set-recvdl":
		err = sock.SetOption(mangos.OptionRecvDeadline, symDur("recv-deadline"))
	case "set-senddl":
		err = sock.SetOption(mangos.OptionSendDeadline, symDur("send-deadline"))
	case "set-besteffort":
		err = sock.SetOption(mangos.OptionBestEffort, true)
	case "get-readq":
		_, err = sock.GetOption(mangos.OptionReadQLen)
	case "get-writeq":
		_, err = sock.GetOption(mangos.OptionWriteQLen)
	case "get-ttl":
		_, err = sock.GetOption(mangos.OptionTTL)
	case "set-retry":
		err = sock.SetOption(mangos.OptionRetryTime, symDur("retry"))
	case "set-survey":
		err = sock.SetOption(mangos.OptionSurveyTime, symDur("survey"))
	case "set-failnopeers":
		err = sock.SetOption(mangos.OptionFailNoPeers, true)
	case "set-maxrx":
		err = sock.SetOption(mangos.OptionMaxRecvSize, 1024)
	case "subscribe":
		err = sock.SetOption(mangos.OptionSubscribe, []byte{})
	case "context":
		var c mangos.Context
		c, err = sock.OpenContext()
		if err == nil {
			err = c.Close()
		}
	case "close":
		err = sock.Close()
	}
	verif.Assert(contractErr(err), lab+"/"+opNames[op]+"/result-outside-sequential-contract")
}

// VH11a_pairs: two application goroutines each issue one API call while a
// third party (the peer / the transport) delivers a message, connects or drops.
func VH11a_pairs() {
	pi := verif.Param("proto", 0)
	proto := vp.Names[pi]
	lab := "C11/" + proto
	sock := vp.New(proto)
	side := vt.Listen(sock, "a")
	p1 := side.Peer("p1")
	a := verif.Choice("opA", len(opNames))
	b := verif.Choice("opB", len(opNames))
	verif.Assume(a <= b)
	bg := verif.Choice("bg", 4)
	verif.Go("A", func() { doOp(sock, proto, a, lab) })
	verif.Go("B", func() { doOp(sock, proto, b, lab) })
	verif.Go("bg", func() {
		switch bg {
		case 0:
			p1.Deliver(wireFor(proto))
		case 1:
			side.L.Connect("p2")
		case 2:
			p1.Drop()
		case 3:
		}
	})
	verif.Quiesce()
	for i := 0; i < 3; i++ { // let deadlines and retry timers act (bounded: retry timers re-arm forever)
		verif.FireTimer()
	}
	verif.Reach("ran")
	sock.Close()
	verif.Quiesce()
}

var coreOps = []string{"d.get-maxrx", "d.get-reconn", "d.set-reconn", "s.set-reconn", "s.set-maxrx", "s.get-maxrx", "l.get-maxrx", "l.set-maxrx",
	"p.get-maxrx", "p.close", "d.close", "l.close", "s.set-asynch", "s.get-reconn", "d.get-passed-up", "l.get-passed-up",
	"l2.listen", "d2.dial", "s.close"}

// VH11b_core: pairs of operations on a socket, its dialer, its listener and a
// dialed pipe from two goroutines, under every schedule with at most k
// preemptions: no deadlock, no panic, no unsynchronised access in the core.
func VH11b_core() {
	lab := "C11/core"
	vt.Install()
	sock := vp.New("bus")
	var pipes []mangos.Pipe
	sock.SetPipeEventHook(func(ev mangos.PipeEvent, p mangos.Pipe) {
		if ev == mangos.PipeEventAttached {
			pipes = append(pipes, p)
		}
	})
	l, err := sock.NewListener("vt://l", nil)
	verif.Assert(err == nil && l.Listen() == nil, lab+"/listen")
	d, err := sock.NewDialer("vt://peer", nil)
	verif.Assert(err == nil && d.Dial() == nil, lab+"/dial")
	verif.Quiesce()
	if len(pipes) == 0 {
		verif.Fail(lab + "/no-pipe")
		return
	}
	p := pipes[0]
	// a second listener and a second dialer that have not been started yet: starting one from two goroutines at
	// once must start it once
	l2, err := sock.NewListener("vt://l2", nil)
	verif.Assert(err == nil, lab+"/new-listener-2")
	d2, err := sock.NewDialer("vt://peer2", nil)
	verif.Assert(err == nil, lab+"/new-dialer-2")
	listenOK, dialOK := 0, 0
	a := verif.Choice("opA", len(coreOps))
	b := verif.Choice("opB", len(coreOps))
	verif.Assume(a <= b)
	do := func(op int) {
		switch coreOps[op] {
		case "d.get-maxrx":
			d.GetOption(mangos.OptionMaxRecvSize)
		case "d.get-reconn":
			d.GetOption(mangos.OptionReconnectTime)
		case "d.set-reconn":
			d.SetOption(mangos.OptionReconnectTime, time.Second)
		case "s.set-reconn":
			sock.SetOption(mangos.OptionReconnectTime, time.Second)
		case "s.set-maxrx":
			sock.SetOption(mangos.OptionMaxRecvSize, 4096)
		case "s.get-maxrx":
			sock.GetOption(mangos.OptionMaxRecvSize)
		case "l.get-maxrx":
			l.GetOption(mangos.OptionMaxRecvSize)
		case "l.set-maxrx":
			l.SetOption(mangos.OptionMaxRecvSize, 2048)
		case "p.get-maxrx":
			p.GetOption(mangos.OptionMaxRecvSize)
		case "p.close":
			p.Close()
		case "d.close":
			d.Close()
		case "l.close":
			l.Close()
		case "s.set-asynch":
			sock.SetOption(mangos.OptionDialAsynch, true)
		case "s.get-reconn":
			sock.GetOption(mangos.OptionReconnectTime)
		case "d.get-passed-up": // an option neither the dialer nor its transport knows is passed up to the socket
			d.GetOption("NO-SUCH-OPTION")
		case "l.get-passed-up":
			l.GetOption("NO-SUCH-OPTION")
		case "l2.listen":
			e := l2.Listen()
			if e == nil {
				listenOK++
			} else {
				verif.Assert(e == mangos.ErrAddrInUse || e == mangos.ErrClosed, lab+"/l2.listen/result-outside-sequential-contract")
			}
		case "d2.dial":
			e := d2.Dial()
			if e == nil {
				dialOK++
			} else {
				verif.Assert(e == mangos.ErrAddrInUse || e == mangos.ErrClosed, lab+"/d2.dial/result-outside-sequential-contract")
			}
		case "s.close":
			sock.Close()
		}
	}
	ga := verif.Go("A", func() { do(a) })
	gb := verif.Go("B", func() { do(b) })
	verif.Quiesce()
	verif.Assert(ga.Done() && gb.Done(), lab+"/"+coreOps[a]+"+"+coreOps[b]+"/calls-deadlocked")
	verif.Assert(listenOK <= 1, lab+"/listener-started-twice-by-concurrent-Listen-calls")
	verif.Assert(dialOK <= 1, lab+"/dialer-started-twice-by-concurrent-Dial-calls")
	if vl := vt.T.Listeners["l2"]; vl != nil {
		verif.Assert(vl.ListenCalls <= 1, lab+"/transport-listener-started-twice")
	}
	verif.Reach("ran")
	sock.Close()
	verif.Quiesce()
}

var tranAddrs = []string{"tcp://127.0.0.1:5555", "tls+tcp://127.0.0.1:5556", "ws://127.0.0.1:5557/x", "wss://127.0.0.1:5558/x", "inproc://opt", "ipc:///tmp/verif.sock"}

// VH11c_transport_options: two goroutines use the option calls of one
// transport dialer or listener at the same time.
func VH11c_transport_options() {
	ti := verif.Choice("tran", len(tranAddrs))
	addr := tranAddrs[ti]
	lab := "C11/transport/" + addr
	sock := vp.New("pair")
	type obj interface {
		SetOption(string, interface{}) error
		GetOption(string) (interface{}, error)
	}
	var o obj
	if verif.Choice("obj", 2) == 0 {
		d, err := sock.NewDialer(addr, nil)
		verif.Assert(err == nil, lab+"/new-dialer")
		o = d
	} else {
		l, err := sock.NewListener(addr, nil)
		verif.Assert(err == nil, lab+"/new-listener")
		o = l
	}
	ops := []func(){
		func() { o.SetOption(mangos.OptionMaxRecvSize, 100) },
		func() { o.GetOption(mangos.OptionMaxRecvSize) },
		func() { o.SetOption(mangos.OptionNoDelay, true) },
		func() { o.GetOption(mangos.OptionNoDelay) },
		func() { o.SetOption(mangos.OptionKeepAliveTime, time.Second) },
		func() { o.GetOption(mangos.OptionKeepAliveTime) },
		func() { o.GetOption(mangos.OptionReadQLen) },
	}
	a := verif.Choice("opA", len(ops))
	b := verif.Choice("opB", len(ops))
	verif.Assume(a <= b)
	ga := verif.Go("A", ops[a])
	gb := verif.Go("B", ops[b])
	verif.Quiesce()
	verif.Assert(ga.Done() && gb.Done(), lab+"/option-calls-blocked")
	verif.Reach("ran")
	sock.Close()
}

// VH11d_answer: the answer to an outstanding request / survey (matching id,
// read off the wire) arrives while the application does something that ends
// that request: a new Send, closing the context or the socket, the expiry /
// retry timer, an option change - explored with one preemption at every
// visible operation of every goroutine, library goroutines included. For the
// replying side (rep / respondent): the reply is sent while the asking
// connection goes away, another request arrives or the socket closes.
func VH11d_answer() {
	protos := []string{"req", "surveyor", "rep", "respondent", "sub"}
	proto := protos[verif.Param("proto", 0)]
	lab := "C11/answer/" + proto
	sock := vp.New(proto)
	side := vt.Listen(sock, "a")
	p1 := side.Peer("p1")
	useCtx := verif.Choice("ctx", 2) == 1
	var c mangos.Context
	if useCtx {
		var err error
		c, err = sock.OpenContext()
		verif.Assert(err == nil, lab+"/open-context")
	}
	send := func(b []byte) error {
		if c != nil {
			return c.Send(b)
		}
		return sock.Send(b)
	}
	recv := func() ([]byte, error) {
		if c != nil {
			return c.Recv()
		}
		return sock.Recv()
	}
	setopt := func(n string, v interface{}) error {
		if c != nil {
			return c.SetOption(n, v)
		}
		return sock.SetOption(n, v)
	}
	asking := proto == "req" || proto == "surveyor"
	var wire []byte
	if asking {
		verif.Assert(send([]byte{'q'}) == nil, lab+"/first-send")
		verif.Quiesce()
		if len(p1.Sent) != 1 || len(p1.Sent[0].H) != 4 {
			verif.Fail(lab + "/request-not-on-the-wire")
			return
		}
		wire = append(append([]byte{}, p1.Sent[0].H...), 'r')
	} else if proto == "sub" {
		// a subscriber with a matching subscription: publications race with unsubscribe / resize / close
		verif.Assert(setopt(mangos.OptionSubscribe, []byte{}) == nil, lab+"/subscribe")
	} else {
		p1.Deliver([]byte{0x80, 0, 0, 7, 'q'})
		verif.Quiesce()
		b, err := recv()
		verif.Assert(err == nil && len(b) == 1 && b[0] == 'q', lab+"/request-received")
	}
	ops := []string{"send", "recv", "close-ctx", "close-socket", "timer", "set-time"}
	op := verif.Choice("op", len(ops))
	if ops[op] == "close-ctx" && c == nil {
		verif.Assume(false)
	}
	if asking && verif.Choice("recv-pending", 2) == 1 {
		verif.Go("R", func() {
			_, err := recv()
			verif.Assert(contractErr(err), lab+"/pending-recv/result-outside-sequential-contract")
		})
	}
	bgk := verif.Choice("bg", 3)
	verif.Go("A", func() {
		var err error
		switch ops[op] {
		case "send":
			if proto == "sub" {
				err = setopt(mangos.OptionUnsubscribe, []byte{})
			} else {
				err = send([]byte{'z'})
			}
		case "recv":
			_, err = recv()
		case "close-ctx":
			err = c.Close()
		case "close-socket":
			err = sock.Close()
		case "timer":
			verif.FireTimerNow()
		case "set-time":
			if proto == "req" {
				err = setopt(mangos.OptionRetryTime, time.Millisecond)
			} else if proto == "surveyor" {
				err = setopt(mangos.OptionSurveyTime, time.Millisecond)
			} else if proto == "sub" {
				err = setopt(mangos.OptionReadQLen, 1)
			} else {
				err = setopt(mangos.OptionTTL, 3)
			}
		}
		verif.Assert(contractErr(err), lab+"/"+ops[op]+"/result-outside-sequential-contract")
	})
	verif.Go("bg", func() {
		switch bgk {
		case 0:
			if asking {
				p1.Deliver(wire) // the matching answer
			} else {
				p1.Deliver([]byte{0x80, 0, 0, 8, 'n'}) // another request
			}
		case 1:
			p1.Drop()
		case 2:
			if asking {
				p1.Deliver(wire)
				p1.Deliver(wire) // a duplicate right behind it
			} else {
				side.Peer("p2").Deliver([]byte{0x80, 0, 0, 9, 'm'})
			}
		}
	})
	verif.Quiesce()
	for i := 0; i < 2; i++ {
		verif.FireTimer()
	}
	verif.Reach("ran")
	sock.Close()
	verif.Quiesce()
}

// VH11e_shared_publication: one publication is handed to two SUB contexts
// (and, for BUS/STAR-style fan-out on the sending side, to two connections);
// both receive it at the same time, from two goroutines; each owner then
// scribbles on and frees its message at once. Every receiver must have got
// the published bytes, under every schedule with one preemption.
func VH11e_shared_publication() {
	lab := "C11/shared-publication"
	sock := vp.New("sub")
	side := vt.Listen(sock, "a")
	pub := side.Peer("pub")
	c1, e1 := sock.OpenContext()
	c2, e2 := sock.OpenContext()
	verif.Assert(e1 == nil && e2 == nil, lab+"/open-contexts")
	for _, c := range []mangos.Context{c1, c2} {
		verif.Assert(c.SetOption(mangos.OptionSubscribe, []byte{}) == nil, lab+"/subscribe")
	}
	body := []byte{'p', verif.Byte("payload"), 'q'}
	pub.Deliver(body)
	verif.Quiesce()
	ok := [2]bool{}
	got := [2]bool{}
	recv := func(i int, c mangos.Context) {
		m, err := c.RecvMsg()
		if err != nil {
			return
		}
		got[i] = true
		ok[i] = len(m.Body) == 3 && m.Body[0] == 'p' && m.Body[1] == body[1] && m.Body[2] == 'q'
		// the message is this receiver's own now: it may do with it what it likes
		for k := range m.Body {
			m.Body[k] = 0xee
		}
		m.Free()
	}
	g1 := verif.Go("R1", func() { recv(0, c1) })
	g2 := verif.Go("R2", func() { recv(1, c2) })
	verif.Quiesce()
	verif.Assert(g1.Done() && g2.Done() && got[0] && got[1], lab+"/a-subscriber-missed-the-publication")
	verif.Assert(ok[0] && ok[1], lab+"/a-receiver-saw-bytes-another-receiver-wrote")
	verif.Reach("ran")
	sock.Close()
	verif.Quiesce()
}

// VH19h_concurrent_resize: two goroutines change queue lengths of one socket
// (READQ-LEN / WRITEQ-LEN, any combination, possibly the same option) at the
// same moment, with a peer connected and possibly a message arriving, under
// every schedule in which one goroutine stalls at one synchronisation point
// until the others are at rest: no option call panics, each returns what its
// sequential contract allows, and the peer is not disconnected.
func VH19h_concurrent_resize() {
	proto := vp.Names[verif.Choice("proto", len(vp.Names))]
	lab := "C19/" + proto + "/concurrent-resize"
	sock := vp.New(proto)
	side := vt.Listen(sock, "a")
	p1 := side.Peer("p1")
	opts := []string{mangos.OptionReadQLen, mangos.OptionWriteQLen}
	a := verif.Choice("optA", 2)
	b := verif.Choice("optB", 2)
	verif.Assume(a <= b)
	var ea, eb error
	ga := verif.Go("A", func() { ea = sock.SetOption(opts[a], 1) })
	gb := verif.Go("B", func() { eb = sock.SetOption(opts[b], 3) })
	if verif.Choice("arrival", 2) == 1 {
		p1.Deliver(wireFor(proto))
	}
	verif.Quiesce()
	verif.Assert(ga.Done() && gb.Done(), lab+"/option-call-blocks")
	verif.Assert((ea == nil || ea == mangos.ErrBadOption) && (eb == nil || eb == mangos.ErrBadOption), lab+"/result-outside-sequential-contract")
	verif.Assert(!p1.Closed, lab+"/peer-disconnected-by-a-queue-length-change")
	if a == b && ea == nil && eb == nil {
		v, err := sock.GetOption(opts[a])
		verif.Assert(err == nil && (v == 1 || v == 3), lab+"/get-returns-neither-of-the-values-set")
	}
	verif.Reach("resized")
	sock.Close()
	verif.Quiesce()
}

// VH11f_pipe_close_vs_arrival: the application closes a connection (Pipe.Close,
// from a goroutine of its own) at the very moment a message arrives on it,
// on a socket that has a second peer whose writes are slow. Every pattern,
// every schedule in which one goroutine stalls at one synchronisation point.
// Whatever the application then receives is the arrival, intact, and is the
// application's alone: it overwrites every byte of it before the slow write
// to the other peer proceeds, and what a forwarding pattern (STAR, raw STAR)
// then puts on the other connection is still the arrival with its hop count
// raised by one. Nothing goes back to the origin, no call blocks or panics,
// no conflicting unsynchronised accesses.
func VH11f_pipe_close_vs_arrival() {
	proto := vp.Names[verif.Choice("proto", len(vp.Names))]
	lab := "C11/pipe-close-vs-arrival/" + proto
	sock := vp.New(proto)
	var mps []mangos.Pipe
	sock.SetPipeEventHook(func(ev mangos.PipeEvent, p mangos.Pipe) {
		if ev == mangos.PipeEventAttached {
			mps = append(mps, p)
		}
	})
	side := vt.Listen(sock, "a")
	a := side.Peer("pa")
	b := side.Peer("pb")
	onePeer := proto == "pair" || proto == "xpair" || proto == "pair1" || proto == "xpair1" // the second is refused
	if onePeer {
		verif.Assert(len(mps) == 1 && b.Closed, lab+"/pair-second-peer-refused")
	} else {
		verif.Assert(len(mps) == 2, lab+"/two-peers-attached")
	}
	if len(mps) == 0 {
		return
	}
	if proto == "sub" || proto == "xsub" {
		sock.SetOption(mangos.OptionSubscribe, []byte{})
	}
	b.SendMode = vt.SendBlock
	wire := wireFor(proto)
	pay := verif.Byte("payload")
	wire[len(wire)-1] = pay
	hdrLen := len(wire) - 1
	sock.SetOption(mangos.OptionRecvDeadline, time.Second)
	a.Deliver(append([]byte{}, wire...))
	var cerr error
	gc := verif.Go("close-pipe", func() { cerr = mps[0].Close() })
	verif.Quiesce()
	verif.Assert(gc.Done(), lab+"/pipe-close-blocked")
	verif.Assert(cerr == nil || cerr == mangos.ErrClosed, lab+"/pipe-close-result")
	verif.Assert(a.Closed, lab+"/closed-pipe-left-open")
	var m *mangos.Message
	var rerr error
	gr := verif.Go("recv", func() { m, rerr = sock.RecvMsg() })
	verif.Quiesce()
	if !gr.Done() {
		verif.RunClockTo(verif.Now() + 2*time.Second)
		verif.Quiesce()
	}
	verif.Assert(gr.Done(), lab+"/recv-blocked-past-its-deadline")
	if !gr.Done() {
		return
	}
	verif.Assert(contractErr(rerr), lab+"/recv-result-outside-contract")
	if rerr == nil {
		verif.Assert(len(m.Body) == 1 && m.Body[0] == pay, lab+"/received-message-is-not-the-arrival")
		// the application's own now: it may do with it what it likes
		for k := range m.Body {
			m.Body[k] = 0xee
		}
		for k := range m.Header {
			m.Header[k] = 0xee
		}
		m.Free()
		verif.Reach("arrival-received")
	}
	// now the slow write to the other peer proceeds
	b.Release()
	verif.Quiesce()
	verif.Assert(len(a.Sent) == 0, lab+"/sent-back-to-origin")
	forwards := proto == "star" || proto == "xstar"
	if !forwards {
		verif.Assert(len(b.Sent) == 0, lab+"/non-forwarding-pattern-forwarded")
	} else {
		verif.Assert(len(b.Sent) <= 1, lab+"/forwarded-more-than-once")
		if len(b.Sent) == 1 {
			x := b.Sent[0].Bytes()
			verif.Assert(len(x) == hdrLen+1 && x[len(x)-1] == pay, lab+"/forwarded-copy-changed-after-the-application-got-its-own")
			if len(x) == 5 {
				verif.Assert(x[0] == 0 && x[1] == 0 && x[2] == 0 && x[3] == wire[3]+1, lab+"/forwarded-copy-hop-count-is-not-arrival-plus-one")
			}
			verif.Reach("forwarded")
		}
	}
	verif.Reach("ran")
	sock.Close()
	verif.Quiesce()
}
