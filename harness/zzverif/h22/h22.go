// Package h22: end-to-end over the real inproc transport: per-pattern byte
// identity (C01) and device chains (C09).
package h22

import (
	"crypto/tls"

	"go.nanomsg.org/mangos/v3"
	_ "go.nanomsg.org/mangos/v3/transport/inproc"
	_ "go.nanomsg.org/mangos/v3/transport/ipc"
	_ "go.nanomsg.org/mangos/v3/transport/tcp"
	_ "go.nanomsg.org/mangos/v3/transport/tlstcp"
	"go.nanomsg.org/mangos/v3/zzverif/vnet"
	"go.nanomsg.org/mangos/v3/zzverif/verif"
	"go.nanomsg.org/mangos/v3/zzverif/vp"
)

// transport under the two sockets (parameter "tran"): inproc is the real in-process transport; tcp, ipc and
// tls+tcp are the real stream transports on the harness network with dialer and listener linked to each other
var trans = []string{"inproc", "tcp", "ipc", "tls+tcp"}

var e2eTLS = &tls.Config{Certificates: []tls.Certificate{{}}}

var netInstalled bool

func e2eAddr(name string) (string, map[string]interface{}) {
	t := trans[verif.Param("tran", 0)]
	if t != "inproc" && !netInstalled {
		vnet.Install().AutoLink = true
		netInstalled = true
	}
	switch t {
	case "tcp":
		return "tcp://127.0.0.1:70" + name, nil
	case "ipc":
		return "ipc:///tmp/verif-e2e-" + name, nil
	case "tls+tcp":
		return "tls+tcp://127.0.0.1:71" + name, map[string]interface{}{mangos.OptionTLSConfig: e2eTLS}
	}
	return "inproc://" + name, nil
}

type pairing struct{ tx, rx string }

var pairings = []pairing{
	{"pair", "pair"}, {"push", "pull"}, {"pub", "sub"}, {"bus", "bus"}, {"star", "star"}, {"pair1", "pair1"},
	{"xpair", "xpair"}, {"xpush", "xpull"}, {"xpub", "xsub"}, {"req", "rep"}, {"surveyor", "respondent"},
}

func recvOne(s mangos.Socket) ([]byte, error, bool) {
	var b []byte
	var err error
	g := verif.Go("recv", func() { b, err = s.Recv() })
	verif.Quiesce()
	return b, err, g.Done()
}

// VH22a_patterns: one message with symbolic bytes (length 0..B) followed by a
// sentinel, through two real sockets connected over inproc.
func VH22a_patterns() {
	B := verif.Param("B", 3)
	pi := verif.Param("pairing", -1)
	if pi < 0 {
		pi = verif.Choice("pairing", len(pairings))
	}
	pr := pairings[pi]
	lab := "C01/inproc/" + pr.tx + "-" + pr.rx
	tx, rx := vp.New(pr.tx), vp.New(pr.rx)
	if pr.rx == "sub" {
		rx.SetOption(mangos.OptionSubscribe, []byte{})
	}
	addr, opts := e2eAddr("01")
	lab = "C01/" + trans[verif.Param("tran", 0)] + "/" + pr.tx + "-" + pr.rx
	verif.Assert(rx.ListenOptions(addr, opts) == nil, lab+"/listen")
	verif.Assert(tx.DialOptions(addr, opts) == nil, lab+"/dial")
	verif.Quiesce()
	n := 0
	if bmax := verif.Param("bmax", 0); bmax > 0 {
		// a body length on every boundary the code itself names (pool classes, inline buffers, thresholds)
		const scope = "go.nanomsg.org/mangos/v3,go.nanomsg.org/mangos/v3/internal/core,go.nanomsg.org/mangos/v3/transport,go.nanomsg.org/mangos/v3/transport/inproc"
		n = verif.Boundary(scope, bmax, verif.Choice("boundary", verif.BoundaryCount(scope, bmax)))
		if n < verif.Param("bmin", 0) {
			verif.Assume(false)
		}
	} else {
		n = verif.Choice("len", B+1)
	}
	body := verif.Bytes("body", n)
	{
		// Send takes a copy: the caller's buffer is overwritten as soon as the call has returned
		buf := append([]byte{}, body...)
		verif.Assert(tx.Send(buf) == nil, lab+"/send")
		for i := range buf {
			buf[i] ^= 0x5A
		}
	}
	verif.Quiesce()
	verif.Assert(tx.Send([]byte{'S', 'E', 'N', 'T'}) == nil || pr.tx == "req", lab+"/send-sentinel")
	verif.Quiesce()
	got, err, done := recvOne(rx)
	verif.Assert(done && err == nil, lab+"/first-message-not-received")
	if !done || err != nil {
		return
	}
	verif.Assert(verif.BytesEq(got, body), lab+"/body-changed-in-transit")
	if pr.tx == "req" {
		// REQ abandons the first request on the second Send; only check the first arrival
		verif.Reach("received")
		tx.Close()
		rx.Close()
		return
	}
	got2, err2, done2 := recvOne(rx)
	verif.Assert(done2 && err2 == nil, lab+"/second-message-not-received")
	if done2 && err2 == nil {
		verif.Assert(verif.BytesEq(got2, []byte{'S', 'E', 'N', 'T'}), lab+"/messages-merged-or-split")
	}
	_, _, done3 := recvOne(rx)
	verif.Assert(!done3, lab+"/extra-message-delivered")
	verif.Reach("received")
	tx.Close()
	rx.Close()
}

// VH22b_device: req -> [Device(xrep,xreq)]*n -> rep with two clients and
// symbolic payloads: payload unchanged, each reply reaches the client that asked.
func VH22b_device() {
	lab := "C09/device"
	n := verif.Choice("devices", verif.Param("N", 2)+1)
	lab = "C09/device/" + trans[verif.Param("tran", 0)]
	hop := func(i int) (string, map[string]interface{}) { return e2eAddr("9" + string(rune(0x30+i))) }
	// request/reply or survey/response through the same chain of devices
	server, front0, back0, client := "rep", "xrep", "xreq", "req"
	if verif.Choice("kind", 2) == 1 {
		server, front0, back0, client = "respondent", "xrespondent", "xsurveyor", "surveyor"
		lab += "/survey"
	}
	rep := vp.New(server)
	a0, o0 := hop(0)
	verif.Assert(rep.ListenOptions(a0, o0) == nil, lab+"/rep-listen")
	var devs []mangos.Socket
	for i := 0; i < n; i++ {
		front, back := vp.New(front0), vp.New(back0)
		ab, ob := hop(i)
		af, of := hop(i + 1)
		verif.Assert(back.DialOptions(ab, ob) == nil, lab+"/device-dial")
		verif.Assert(front.ListenOptions(af, of) == nil, lab+"/device-listen")
		verif.Assert(mangos.Device(front, back) == nil, lab+"/device")
		devs = append(devs, front, back)
	}
	entry, eo := hop(n)
	c1, c2 := vp.New(client), vp.New(client)
	verif.Assert(c1.DialOptions(entry, eo) == nil && c2.DialOptions(entry, eo) == nil, lab+"/clients-dial")
	verif.Quiesce()
	q1 := []byte{'1', verif.Byte("q1")}
	q2 := []byte{'2', verif.Byte("q2")}
	verif.Assert(c1.Send(q1) == nil && c2.Send(q2) == nil, lab+"/requests")
	verif.Quiesce()
	// the server answers both, echoing the payload
	for i := 0; i < 2; i++ {
		m, err, done := recvOne(rep)
		verif.Assert(done && err == nil, lab+"/request-not-delivered-through-the-chain")
		if !done || err != nil {
			return
		}
		verif.Assert(len(m) == 2 && (verif.BytesEq(m, q1) || verif.BytesEq(m, q2)), lab+"/request-payload-changed")
		verif.Assert(rep.Send(append([]byte{'r'}, m...)) == nil, lab+"/reply")
		verif.Quiesce()
	}
	r1, e1, d1 := recvOne(c1)
	r2, e2, d2 := recvOne(c2)
	verif.Assert(d1 && e1 == nil && d2 && e2 == nil, lab+"/reply-did-not-return")
	if d1 && e1 == nil {
		verif.Assert(verif.BytesEq(r1, append([]byte{'r'}, q1...)), lab+"/reply-went-to-the-wrong-client-or-changed")
	}
	if d2 && e2 == nil {
		verif.Assert(verif.BytesEq(r2, append([]byte{'r'}, q2...)), lab+"/reply-went-to-the-wrong-client-or-changed")
	}
	verif.Reach("chain-checked")
	c1.Close()
	c2.Close()
	rep.Close()
	for _, d := range devs {
		d.Close()
	}
	// every socket - the devices' included - is closed: the forwarders have ended, nothing is left (C10)
	verif.Quiesce()
	for i := 0; i < 6 && verif.PendingTimers() > 0; i++ {
		verif.FireTimer()
	}
	verif.Quiesce()
	verif.AssertVM(verif.LiveGoroutines() == 0, "C10/device/goroutines-left-after-all-sockets-closed")
	verif.AssertVM(verif.PendingCallbackTimers() == 0, "C10/device/stoppable-timer-left-after-all-sockets-closed")
}

// VH22c_inproc_mismatch: a dial from a socket of the wrong protocol is
// rejected and leaves the inproc listener fully usable.
func VH22c_inproc_mismatch() {
	lab := "C12/inproc"
	srv := vp.New("rep")
	verif.Assert(srv.Listen("inproc://mm") == nil, lab+"/listen")
	verif.Quiesce()
	wrong := vp.New([]string{"push", "sub", "pair"}[verif.Choice("wrong", 3)])
	var werr error
	wg := verif.Go("wrong-dial", func() { werr = wrong.Dial("inproc://mm") })
	verif.Quiesce()
	verif.Assert(wg.Done(), lab+"/mismatched-dial-blocks")
	if wg.Done() {
		verif.Assert(werr == mangos.ErrBadProto, lab+"/mismatched-dial-error-kind")
	}
	// a correct peer still connects and is served
	cli := vp.New("req")
	var derr error
	dg := verif.Go("dial", func() { derr = cli.Dial("inproc://mm") })
	verif.Quiesce()
	verif.Assert(dg.Done() && derr == nil, lab+"/listener-stopped-accepting-after-rejected-dial")
	if !dg.Done() || derr != nil {
		return
	}
	q := []byte{'q', verif.Byte("q")}
	verif.Assert(cli.Send(q) == nil, lab+"/send")
	verif.Quiesce()
	m, err, done := recvOne(srv)
	verif.Assert(done && err == nil && verif.BytesEq(m, q), lab+"/request-not-delivered-after-rejected-dial")
	// every other call on the listener side still completes
	g := verif.Go("poke", func() {
		srv.GetOption(mangos.OptionRecvDeadline)
		srv.SetOption(mangos.OptionRecvDeadline, 0)
	})
	verif.Quiesce()
	verif.Assert(g.Done(), lab+"/socket-wedged")
	verif.Reach("mismatch-checked")
	wrong.Close()
	cli.Close()
	srv.Close()
}

// VH22d_inproc_close: Close against inproc activity in every phase: a dial
// that is waiting for the listener's accept loop (busy in a slow Attaching
// hook) when the listening socket closes must return (refused), a later dial
// to the released address is refused at once, the address can be bound again,
// and after all sockets are closed no goroutine is left (C10, C12).
func VH22d_inproc_close() {
	lab := "C10/inproc"
	srv := vp.New("bus")
	gate := make(chan struct{})
	held := 0
	srv.SetPipeEventHook(func(ev mangos.PipeEvent, p mangos.Pipe) {
		if ev == mangos.PipeEventAttaching && held == 0 {
			held++
			<-gate // the application's hook is slow: the accept loop is busy
		}
	})
	verif.Assert(srv.Listen("inproc://cl") == nil, lab+"/listen")
	verif.Quiesce()
	c1 := vp.New("bus")
	var e1 error
	g1 := verif.Go("dial-1", func() { e1 = c1.Dial("inproc://cl") })
	verif.Quiesce()
	verif.Assert(g1.Done() && e1 == nil, lab+"/first-dial")
	// the accept loop is now stuck in the hook: a second dial has to wait
	c2 := vp.New("bus")
	asynch := verif.Choice("asynch", 2) == 1
	if asynch {
		c2.SetOption(mangos.OptionDialAsynch, true)
	}
	var e2 error
	g2 := verif.Go("dial-2", func() { e2 = c2.Dial("inproc://cl") })
	verif.Quiesce()
	if !asynch {
		verif.Assert(!g2.Done(), lab+"/second-dial-completed-although-nobody-accepts")
	}
	order := verif.Choice("close-first", 2)
	var cg *verif.G
	if order == 0 {
		// the listening socket closes while the dial waits
		cg = verif.Go("close-srv", func() { srv.Close() })
		verif.Quiesce()
		close(gate)
		verif.Quiesce()
		verif.Assert(cg.Done(), lab+"/close-does-not-return")
		verif.Assert(g2.Done(), lab+"/dial-still-waiting-after-the-listener-closed")
		if g2.Done() && !asynch {
			verif.Assert(e2 != nil, lab+"/dial-to-a-closed-listener-succeeded")
		}
		// the address is released: a fresh dial is refused at once, a new listener can bind it
		c3 := vp.New("bus")
		var e3 error
		g3 := verif.Go("dial-3", func() { e3 = c3.Dial("inproc://cl") })
		verif.Quiesce()
		verif.Assert(g3.Done(), lab+"/dial-to-released-address-blocks")
		if g3.Done() {
			verif.Assert(e3 == mangos.ErrConnRefused, lab+"/dial-to-released-address-error-kind")
		}
		srv2 := vp.New("bus")
		verif.Assert(srv2.Listen("inproc://cl") == nil, lab+"/address-not-released-by-close")
		verif.Quiesce()
		srv2.Close()
		c3.Close()
		verif.Reach("listener-closed-under-waiting-dial")
	} else {
		// the dialing socket closes while its dial waits; then the accept loop resumes
		cg = verif.Go("close-c2", func() { c2.Close() })
		verif.Quiesce()
		close(gate)
		verif.Quiesce()
		verif.Assert(cg.Done(), lab+"/close-does-not-return")
		srv.Close()
		verif.Reach("dialer-closed-while-waiting")
	}
	c1.Close()
	c2.Close()
	verif.Quiesce()
	for i := 0; i < 4; i++ {
		verif.FireTimer()
	}
	verif.Assert(g2.Done(), lab+"/dial-never-returned")
	verif.Assert(verif.LiveGoroutines() == 0, lab+"/goroutines-left-after-close")
}

// VH22f_device_oneway: the one-way and symmetric patterns through a chain of
// 0..N devices (forwarders between two raw sockets): a payload of arbitrary
// bytes followed by a sentinel arrives unchanged, once each, in order.
func VH22f_device_oneway() {
	kinds := [][4]string{{"push", "xpull", "xpush", "pull"}, {"pub", "xsub", "xpub", "sub"}, {"pair", "xpair", "xpair", "pair"},
		{"pair1", "xpair1", "xpair1", "pair1"}, {"bus", "xbus", "xbus", "bus"}, {"star", "xstar", "xstar", "star"}}
	k := kinds[verif.Choice("kind", len(kinds))]
	lab := "C09/device/" + trans[verif.Param("tran", 0)] + "/" + k[0]
	n := verif.Choice("devices", verif.Param("N", 2)+1)
	hop := func(i int) (string, map[string]interface{}) { return e2eAddr("8" + string(rune(0x30+i))) }
	rx := vp.New(k[3])
	if k[3] == "sub" {
		rx.SetOption(mangos.OptionSubscribe, []byte{})
	}
	a0, o0 := hop(0)
	verif.Assert(rx.ListenOptions(a0, o0) == nil, lab+"/listen")
	var devs []mangos.Socket
	for i := 0; i < n; i++ {
		front, back := vp.New(k[1]), vp.New(k[2])
		ab, ob := hop(i)
		af, of := hop(i + 1)
		verif.Assert(back.DialOptions(ab, ob) == nil, lab+"/device-dial")
		verif.Assert(front.ListenOptions(af, of) == nil, lab+"/device-listen")
		verif.Assert(mangos.Device(front, back) == nil, lab+"/device")
		devs = append(devs, front, back)
	}
	if (k[0] == "pair1" || k[0] == "star") && n >= 1 && verif.Choice("device-ttl", 2) == 1 {
		// the device sockets get the smallest hop limit that still admits what each of them RECEIVES on this route
		// (the limit is a receiver's; what a socket sends on is for the next receiver to judge - here the default 8)
		t := n
		if k[0] == "pair1" && n > 1 {
			t = n - 1
		}
		for _, d := range devs {
			verif.Assert(d.SetOption(mangos.OptionTTL, t) == nil, lab+"/device-ttl")
		}
		verif.Reach("device-ttl-below-the-route-length")
	}
	tx := vp.New(k[0])
	an, on := hop(n)
	verif.Assert(tx.DialOptions(an, on) == nil, lab+"/dial")
	verif.Quiesce()
	body := verif.Bytes("body", verif.Choice("len", 3))
	verif.Assert(tx.Send(body) == nil, lab+"/send")
	verif.Quiesce()
	verif.Assert(tx.Send([]byte{'S', 'E', 'N', 'T'}) == nil, lab+"/send-sentinel")
	verif.Quiesce()
	got, err, done := recvOne(rx)
	verif.Assert(done && err == nil, lab+"/payload-did-not-cross-the-devices")
	if done && err == nil {
		verif.Assert(len(got) == len(body) && verif.BytesEq(got, body), lab+"/payload-changed-by-the-devices")
	}
	got2, err2, done2 := recvOne(rx)
	verif.Assert(done2 && err2 == nil && verif.BytesEq(got2, []byte{'S', 'E', 'N', 'T'}), lab+"/messages-merged-split-or-lost")
	_, _, done3 := recvOne(rx)
	verif.Assert(!done3, lab+"/duplicate-delivered-by-the-devices")
	verif.Reach("oneway-chain-checked")
	tx.Close()
	rx.Close()
	for _, d := range devs {
		d.Close()
	}
}

// VH22g_hold: a message received over a real transport is kept by the
// application while more traffic of the same size flows in both directions
// (pool Get may hand out any pooled buffer): its header and body never
// change. Fan-out patterns deliver the same publication to two receivers:
// each holds its own copy and may scribble on it without the other noticing.
func VH22g_hold() {
	kinds := [][2]string{{"pair", "pair"}, {"pub", "sub"}, {"bus", "bus"}, {"req", "rep"}, {"xpair", "xpair"}}
	k := kinds[verif.Choice("kind", len(kinds))]
	lab := "C17/" + trans[verif.Param("tran", 0)] + "/" + k[0]
	tx := vp.New(k[0])
	rx1, rx2 := vp.New(k[1]), vp.New(k[1])
	for _, r := range []mangos.Socket{rx1, rx2} {
		if k[1] == "sub" {
			r.SetOption(mangos.OptionSubscribe, []byte{})
		}
	}
	a1, o1 := e2eAddr("61")
	verif.Assert(tx.ListenOptions(a1, o1) == nil, lab+"/listen")
	verif.Assert(rx1.DialOptions(a1, o1) == nil, lab+"/dial-1")
	fan := k[0] == "pub" || k[0] == "bus"
	if fan {
		verif.Assert(rx2.DialOptions(a1, o1) == nil, lab+"/dial-2")
	}
	verif.Quiesce()
	body := verif.Bytes("body", 1+verif.Choice("len", 3))
	verif.Assert(tx.Send(body) == nil, lab+"/send")
	verif.Quiesce()
	recv := func(s mangos.Socket) *mangos.Message {
		var m *mangos.Message
		var err error
		g := verif.Go("recv", func() { m, err = s.RecvMsg() })
		verif.Quiesce()
		if !g.Done() || err != nil {
			return nil
		}
		return m
	}
	m1 := recv(rx1)
	verif.Assert(m1 != nil, lab+"/not-received")
	if m1 == nil {
		return
	}
	verif.Owned(m1)
	verif.Assert(verif.BytesEq(m1.Body, body), lab+"/body-changed-in-transit")
	h1 := append([]byte{}, m1.Header...)
	var m2 *mangos.Message
	if fan {
		m2 = recv(rx2)
		verif.Assert(m2 != nil, lab+"/second-receiver-missed-the-publication")
		if m2 != nil {
			verif.Owned(m2)
			// the second receiver scribbles on ITS message
			for i := range m2.Body {
				m2.Body[i] ^= 0xff
			}
			verif.Assert(verif.BytesEq(m1.Body, body), lab+"/receivers-share-one-buffer")
		}
	}
	// more traffic of the same size, both ways where the pattern allows
	for i := 0; i < 2; i++ {
		if k[0] == "req" {
			rx1.Send([]byte{'r', byte(i)})
			verif.Quiesce()
			if m := recv(tx); m != nil {
				m.Free()
			}
		}
		other := verif.Bytes("later", len(body))
		tx.Send(other)
		verif.Quiesce()
		if k[0] != "req" {
			if m := recv(rx1); m != nil {
				m.Free()
			}
		}
		if k[0] == "pair" || k[0] == "bus" || k[0] == "xpair" {
			rx1.Send(verif.Bytes("back", len(body)))
			verif.Quiesce()
			if m := recv(tx); m != nil {
				m.Free()
			}
		}
	}
	verif.Assert(len(m1.Body) == len(body) && verif.BytesEq(m1.Body, body), lab+"/application-owned-message-changed")
	verif.Assert(len(m1.Header) == len(h1) && verif.BytesEq(m1.Header, h1), lab+"/application-owned-message-changed")
	verif.Reach("held")
	m1.Free()
	if m2 != nil {
		m2.Free()
	}
	tx.Close()
	rx1.Close()
	rx2.Close()
}

// VH22h_inproc_two_addresses: two inproc listeners whose accept loops are
// busy (slow Attaching hooks), one dial waiting on each address. When either
// accept loop resumes, the dial waiting for THAT listener completes - whichever
// waiter the library wakes first, and in either order of resumption (C11 never
// deadlock, C12 every call completes).
func VH22h_inproc_two_addresses() {
	lab := "C11/inproc-two-addresses"
	type srv struct {
		sock mangos.Socket
		gate chan struct{}
		held int
	}
	mk := func(addr string) *srv {
		s := &srv{sock: vp.New("bus"), gate: make(chan struct{})}
		s.sock.SetPipeEventHook(func(ev mangos.PipeEvent, p mangos.Pipe) {
			if ev == mangos.PipeEventAttaching && s.held == 0 {
				s.held++
				<-s.gate
			}
		})
		verif.Assert(s.sock.Listen(addr) == nil, lab+"/listen")
		return s
	}
	sx, sy := mk("inproc://two-x"), mk("inproc://two-y")
	verif.Quiesce()
	// first connections: both accept loops get stuck in their hooks
	fx, fy := vp.New("bus"), vp.New("bus")
	verif.Assert(fx.Dial("inproc://two-x") == nil && fy.Dial("inproc://two-y") == nil, lab+"/first-dials")
	verif.Quiesce()
	// second connections have to wait
	wx, wy := vp.New("bus"), vp.New("bus")
	var ex, ey error
	order := verif.Choice("waits-first", 2)
	var gx, gy *verif.G
	if order == 0 {
		gx = verif.Go("dial-x", func() { ex = wx.Dial("inproc://two-x") })
		verif.Quiesce()
		gy = verif.Go("dial-y", func() { ey = wy.Dial("inproc://two-y") })
	} else {
		gy = verif.Go("dial-y", func() { ey = wy.Dial("inproc://two-y") })
		verif.Quiesce()
		gx = verif.Go("dial-x", func() { ex = wx.Dial("inproc://two-x") })
	}
	verif.Quiesce()
	verif.Assert(!gx.Done() && !gy.Done(), lab+"/dial-completed-although-nobody-accepts")
	// one accept loop resumes
	if verif.Choice("resumes-first", 2) == 0 {
		close(sx.gate)
		verif.Quiesce()
		verif.Assert(gx.Done() && ex == nil, lab+"/dial-still-waiting-although-its-listener-accepts")
		close(sy.gate)
	} else {
		close(sy.gate)
		verif.Quiesce()
		verif.Assert(gy.Done() && ey == nil, lab+"/dial-still-waiting-although-its-listener-accepts")
		close(sx.gate)
	}
	verif.Quiesce()
	verif.Assert(gx.Done() && gy.Done() && ex == nil && ey == nil, lab+"/dial-still-waiting-although-its-listener-accepts")
	verif.Reach("both-connected")
	for _, s := range []mangos.Socket{sx.sock, sy.sock, fx, fy, wx, wy} {
		s.Close()
	}
	verif.Quiesce()
	verif.Assert(verif.LiveGoroutines() == 0, "C10/inproc/goroutines-left-after-close")
}

// VH22i_inproc_listener_gone: a dialer's connection attempt over inproc is
// waiting because the listener is busy (its accept loop sits in the Attaching
// hook of an earlier connection) when the listening socket is closed. The
// attempt must end (it is not left waiting on a listener that no longer
// exists), and once another socket listens on the same address the dialer
// connects to it on a later attempt and traffic flows -- whether the dial was
// synchronous or asynchronous, and whether the replacement listener appears
// before or after the old one has gone.
func VH22i_inproc_listener_gone() {
	lab := "C14/inproc-listener-gone"
	addr := "inproc://gone"
	gate := make(chan struct{})
	held := 0
	l1 := vp.New("pair")
	l1.SetPipeEventHook(func(ev mangos.PipeEvent, p mangos.Pipe) {
		if ev == mangos.PipeEventAttaching && held == 0 {
			held++
			<-gate
		}
	})
	verif.Assert(l1.Listen(addr) == nil, lab+"/listen")
	verif.Quiesce()
	first := vp.New("pair")
	verif.Assert(first.Dial(addr) == nil, lab+"/first-dial")
	verif.Quiesce()
	// the second dialer has to wait: nobody is accepting
	d := vp.New("pair")
	asynch := verif.Choice("asynch", 2) == 1
	verif.Assert(d.SetOption(mangos.OptionDialAsynch, asynch) == nil, lab+"/asynch")
	var derr error
	dg := verif.Go("dial", func() { derr = d.Dial(addr) })
	verif.Quiesce()
	if !asynch {
		verif.Assert(!dg.Done(), lab+"/dial-completed-although-nobody-accepts")
	}
	// the listening socket goes away while the attempt is waiting
	cg := verif.Go("close-listener", func() { l1.Close() })
	verif.Quiesce()
	close(gate)
	verif.Quiesce()
	verif.Assert(cg.Done(), lab+"/close-of-the-listening-socket-blocks")
	verif.Assert(dg.Done(), lab+"/dial-left-waiting-on-a-listener-that-is-gone")
	if !dg.Done() {
		return
	}
	if !asynch {
		verif.Assert(derr != nil, lab+"/synchronous-dial-reports-success-without-a-connection")
	}
	// a replacement listener on the same address
	l2 := vp.New("pair")
	verif.Assert(l2.Listen(addr) == nil, lab+"/address-not-free-after-the-listener-was-closed")
	verif.Quiesce()
	if !asynch {
		// the application tries again
		verif.Assert(d.Dial(addr) == nil, lab+"/second-dial")
		verif.Quiesce()
	} else {
		for i := 0; i < 4; i++ {
			if !verif.FireTimer() {
				break
			}
		}
	}
	var got []byte
	var rerr error
	rg := verif.Go("recv", func() { got, rerr = l2.Recv() })
	sg := verif.Go("send", func() { d.Send([]byte{'h', 'i'}) })
	verif.Quiesce()
	verif.Assert(sg.Done() && rg.Done() && rerr == nil && len(got) == 2 && got[0] == 'h', lab+"/dialer-never-connected-to-the-replacement-listener")
	verif.Reach("reconnected-to-replacement")
	for _, s := range []mangos.Socket{first, d, l2} {
		s.Close()
	}
	verif.Quiesce()
	verif.Assert(verif.LiveGoroutines() == 0, "C10/inproc/goroutines-left-after-close")
}

// setsHeader: cooked patterns whose Send builds the protocol header itself (PAIR, PUSH and PUB have none: there
// the documented rule "applications do not touch Header in cooked mode" is all there is, and a header left in a
// forwarded message goes out in front of the body - outside the claim)
var setsHeader = map[string]bool{"req": true, "surveyor": true, "pair1": true, "bus": true, "star": true}

// VH22j_longrun: R rounds (12; thorough 24) over two real sockets on the real
// inproc transport, for every pattern pairing. From the second round on the
// application does not allocate: it SENDS THE MESSAGE OBJECT IT RECEIVED in the
// previous round (new body, whatever header the library left in it), as a
// forwarding application does; request/reply patterns answer every request by
// sending the received request object back and the asker re-uses the reply
// object for its next request. Every round the receiver gets exactly the bytes
// sent in that round, once -- also in round 10, 11, 12: nothing accumulates in
// a re-used message (hop counts, routing words), no id or counter runs into a
// limit, no per-exchange state is left behind.
func VH22j_longrun() {
	R := verif.Param("R", 12)
	pi := verif.Param("pairing", -1)
	if pi < 0 {
		pi = verif.Choice("pairing", len(pairings))
	}
	pr := pairings[pi]
	lab := "C01/longrun/" + pr.tx + "-" + pr.rx
	tx, rx := vp.New(pr.tx), vp.New(pr.rx)
	if pr.rx == "sub" {
		rx.SetOption(mangos.OptionSubscribe, []byte{})
	}
	verif.Assert(rx.Listen("inproc://longrun") == nil, lab+"/listen")
	verif.Assert(tx.Dial("inproc://longrun") == nil, lab+"/dial")
	verif.Quiesce()
	twoWay := pr.tx == "req" || pr.tx == "surveyor"
	raw := pr.tx[0] == 'x'
	var m *mangos.Message
	for i := 0; i < R; i++ {
		if m == nil {
			m = mangos.NewMessage(8)
		}
		body := []byte{byte(i), verif.Byte("payload"), byte(0x55 ^ i)}
		m.Body = append(m.Body[:0], body...)
		if raw && (pr.tx == "xpair" || pr.tx == "xpush" || pr.tx == "xpub") {
			m.Header = m.Header[:0]
		}
		if setsHeader[pr.tx] && i%3 == 2 {
			// a cooked socket sets the protocol header itself: whatever header a forwarded message still carries
			// (here: four stale bytes) must not reach the wire
			m.Header = append(m.Header[:0], 0x7f, byte(i), 0x33, 0x44)
		}
		var serr error
		sg := verif.Go("send", func() { serr = tx.SendMsg(m) })
		verif.Quiesce()
		verif.Assert(sg.Done() && serr == nil, lab+"/send-blocks-or-fails-in-a-later-round")
		if !sg.Done() || serr != nil {
			return
		}
		var got *mangos.Message
		var rerr error
		rg := verif.Go("recv", func() { got, rerr = rx.RecvMsg() })
		verif.Quiesce()
		verif.Assert(rg.Done() && rerr == nil, lab+"/message-of-a-later-round-not-delivered")
		if !rg.Done() || rerr != nil {
			return
		}
		verif.Assert(verif.BytesEq(got.Body, body), lab+"/message-of-a-later-round-changed")
		if !twoWay {
			m = got // forwarded in the next round
			continue
		}
		// answer with the request object itself
		rb := []byte{byte(0x80 | i), verif.Byte("reply")}
		got.Body = append(got.Body[:0], rb...)
		if i%3 == 1 {
			got.Header = append(got.Header[:0], 0x80, 0, byte(i), 0x55) // a stale id, as a reply taken from a REQ socket carries
		}
		var aerr error
		ag := verif.Go("answer", func() { aerr = rx.SendMsg(got) })
		verif.Quiesce()
		verif.Assert(ag.Done() && aerr == nil, lab+"/answer-blocks-or-fails-in-a-later-round")
		var rep *mangos.Message
		var perr error
		pg := verif.Go("recv-answer", func() { rep, perr = tx.RecvMsg() })
		verif.Quiesce()
		verif.Assert(pg.Done() && perr == nil, lab+"/answer-of-a-later-round-not-delivered")
		if !pg.Done() || perr != nil {
			return
		}
		verif.Assert(verif.BytesEq(rep.Body, rb), lab+"/answer-of-a-later-round-changed")
		m = rep
	}
	xg := verif.Go("extra", func() { rx.RecvMsg() })
	verif.Quiesce()
	verif.Assert(!xg.Done(), lab+"/extra-message-delivered")
	verif.Reach("long-run-done")
	tx.Close()
	rx.Close()
	verif.Quiesce()
	verif.Assert(verif.LiveGoroutines() == 0, "C10/longrun/goroutines-left-after-close")
}

// VH22k_inproc_busy: an inproc address is held by socket A; socket B's Listen
// on it is refused (address in use), or B only creates a listener for it
// without starting it. B's listener, or B itself, is then closed. A is not
// affected: a dial to the address still reaches A and a message flows, and the
// address is still taken for a third socket. When A finally closes, the address
// is free.
func VH22k_inproc_busy() {
	lab := "C12/inproc-busy"
	addr := "inproc://busy"
	a := vp.New("pair")
	verif.Assert(a.Listen(addr) == nil, lab+"/holder-listen")
	verif.Quiesce()
	b := vp.New("pair")
	l, err := b.NewListener(addr, nil)
	verif.Assert(err == nil, lab+"/new-listener")
	if err != nil {
		return
	}
	if verif.Choice("started", 2) == 1 {
		verif.Assert(l.Listen() == mangos.ErrAddrInUse, lab+"/listen-on-busy-address-not-refused-with-address-in-use")
	}
	if verif.Choice("closes", 2) == 0 {
		l.Close()
	} else {
		b.Close()
	}
	verif.Quiesce()
	d := vp.New("pair")
	verif.Assert(d.Dial(addr) == nil, lab+"/holder-of-the-address-unreachable-after-the-refused-listener-was-closed")
	verif.Quiesce()
	var got []byte
	var rerr error
	rg := verif.Go("recv", func() { got, rerr = a.Recv() })
	sg := verif.Go("send", func() { d.Send([]byte{'o', 'k'}) })
	verif.Quiesce()
	verif.Assert(sg.Done() && rg.Done() && rerr == nil && len(got) == 2, lab+"/message-does-not-reach-the-holder-of-the-address")
	c := vp.New("pair")
	verif.Assert(c.Listen(addr) == mangos.ErrAddrInUse, lab+"/address-handed-out-twice")
	a.Close()
	verif.Quiesce()
	verif.Assert(c.Listen(addr) == nil, lab+"/address-not-free-after-its-holder-closed")
	verif.Reach("inproc-busy-checked")
	for _, s := range []mangos.Socket{b, c, d} {
		s.Close()
	}
	verif.Quiesce()
	verif.Assert(verif.LiveGoroutines() == 0, "C10/inproc/goroutines-left-after-close")
}

// VH22l_fanout: a broadcasting socket with two peers over a real transport sends one message the caller also holds
// a reference to. The two connections' sender goroutines work on the same message at the same time: under the
// happens-before race detector they share no written location; both peers receive the body whole; the caller's
// reference shows the same header, spare header capacity and body afterwards.
func VH22l_fanout() {
	type fo struct{ tx, rx string }
	fos := []fo{{"pub", "sub"}, {"xpub", "sub"}, {"bus", "bus"}, {"xbus", "bus"}, {"star", "star"}, {"xstar", "star"},
		{"surveyor", "respondent"}, {"xsurveyor", "respondent"}}
	f := fos[verif.Choice("pattern", len(fos))]
	tn := trans[verif.Param("tran", 0)]
	lab := "C11/fanout/" + tn + "/" + f.tx
	tx := vp.New(f.tx)
	rxs := []mangos.Socket{vp.New(f.rx), vp.New(f.rx)}
	addr, opts := e2eAddr("09")
	verif.Assert(tx.ListenOptions(addr, opts) == nil, lab+"/listen")
	for _, r := range rxs {
		if f.rx == "sub" {
			r.SetOption(mangos.OptionSubscribe, []byte{})
		}
		verif.Assert(r.DialOptions(addr, opts) == nil, lab+"/dial")
		verif.Quiesce()
	}
	bl := verif.Choice("blen", 3)
	body := verif.Bytes("body", bl)
	m := mangos.NewMessage(0)
	m.Body = append(m.Body, body...)
	switch f.tx {
	case "xsurveyor":
		m.Header = append(m.Header, 0x80, 0, 0, 1)
	case "xstar", "xbus":
		m.Header = append(m.Header, 0, 0, 0, 0)
	}
	m.Clone() // the caller's own reference
	held := m
	hcap := append([]byte{}, m.Header[:cap(m.Header)]...)
	hlen := len(m.Header)
	verif.Assert(tx.SendMsg(m) == nil, lab+"/send")
	verif.Quiesce()
	for _, r := range rxs {
		got, err, done := recvOne(r)
		verif.Assert(done && err == nil, lab+"/peer-did-not-receive")
		if done && err == nil {
			verif.Assert(verif.BytesEq(got, body), lab+"/body-changed-in-transit")
		}
	}
	verif.Assert(len(held.Body) == bl && verif.BytesEq(held.Body, body), lab+"/held-body-changed")
	if f.tx[0] == 'x' {
		verif.Assert(len(held.Header) == hlen, lab+"/held-header-length-changed")
		verif.Assert(verif.BytesEq(held.Header[:cap(held.Header)][:len(hcap)], hcap), lab+"/bytes-behind-the-held-header-changed")
	}
	held.Free()
	verif.Reach("fanout-checked")
	tx.Close()
	for _, r := range rxs {
		r.Close()
	}
	verif.Quiesce()
}
