package transport

import (
	"io"
	"net"
	"time"

	"go.nanomsg.org/mangos/v3/zzverif/verif"
)

// vconn is the harness byte stream standing in for a kernel socket: `in` is
// what the peer sends, `out` records what mangos writes. Reads may be
// fragmented arbitrarily (a decision per Read).
type vaddr string

func (a vaddr) Network() string { return "vt" }
func (a vaddr) String() string  { return string(a) }

type vconn struct {
	in       []byte
	rpos     int
	out      []byte
	closed   bool
	frag     bool
	reads    int
	writes   int
	wfail    bool // Write fails
	readsAtFirstWrite int
	readLens []int
	eofErr   error
}

func (c *vconn) Read(b []byte) (int, error) {
	c.reads++
	c.readLens = append(c.readLens, len(b))
	if c.closed {
		return 0, io.ErrClosedPipe
	}
	avail := len(c.in) - c.rpos
	if avail == 0 {
		return 0, io.EOF
	}
	n := len(b)
	if n > avail {
		n = avail
	}
	if c.frag && n > 1 {
		n = 1 + verif.Choice("frag", n)
	}
	copy(b, c.in[c.rpos:c.rpos+n])
	c.rpos += n
	return n, nil
}

func (c *vconn) Write(b []byte) (int, error) {
	if c.writes == 0 {
		c.readsAtFirstWrite = c.reads
	}
	c.writes++
	if c.closed {
		return 0, io.ErrClosedPipe
	}
	if c.wfail {
		return 0, io.ErrShortWrite
	}
	c.out = append(c.out, b...)
	return len(b), nil
}

func (c *vconn) Close() error                       { c.closed = true; return nil }
func (c *vconn) LocalAddr() net.Addr                { return vaddr("local") }
func (c *vconn) RemoteAddr() net.Addr               { return vaddr("remote") }
func (c *vconn) SetDeadline(t time.Time) error      { return nil }
func (c *vconn) SetReadDeadline(t time.Time) error  { return nil }
func (c *vconn) SetWriteDeadline(t time.Time) error { return nil }
