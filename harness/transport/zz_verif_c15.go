package transport

import (
	"go.nanomsg.org/mangos/v3/zzverif/verif"
)

// VH15a: conn.handshake over the harness stream. Own/peer protocol numbers
// and all 8 peer bytes are solver variables.
func VH15a_handshake() {
	self := verif.Uint16("self")
	peer := verif.Uint16("peer")
	in := verif.Bytes("in", 8)
	c := &vconn{in: in, frag: verif.Param("frag", 0) == 1}
	p := &conn{c: c, proto: ProtocolInfo{Self: self, Peer: peer}}
	err := p.handshake()
	verif.Reach("handshake-returned")
	verif.Observe("handshake", err, c.out, c.closed, p.open, c.reads)
	// exactly the 8-byte SP header, written before anything was read
	verif.Assert(len(c.out) == 8, "C15/handshake/sent-8-bytes")
	if len(c.out) == 8 {
		o := c.out
		verif.Assert(verif.All(o[0] == 0, o[1] == 'S', o[2] == 'P', o[3] == 0,
			o[4] == byte(self>>8), o[5] == byte(self), o[6] == 0, o[7] == 0), "C15/handshake/sent-header-bytes")
	}
	verif.Assert(c.readsAtFirstWrite == 0, "C15/handshake/write-before-read")
	well := verif.All(in[0] == 0, in[1] == 'S', in[2] == 'P', in[3] == 0,
		in[4] == byte(peer>>8), in[5] == byte(peer), in[6] == 0, in[7] == 0)
	verif.Assert(verif.Iff(err == nil, well), "C15/handshake/accept-iff-wellformed")
	if err != nil {
		verif.Reach("rejected")
		verif.Assert(c.closed, "C15/handshake/closed-on-reject")
		verif.Assert(!p.open, "C15/handshake/not-open-on-reject")
	} else {
		verif.Reach("accepted")
		verif.Assert(p.open, "C15/handshake/open-on-accept")
		verif.Assert(!c.closed, "C15/handshake/not-closed-on-accept")
	}
}
