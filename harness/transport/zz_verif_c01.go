package transport

import (
	"go.nanomsg.org/mangos/v3"
	"go.nanomsg.org/mangos/v3/zzverif/verif"
)

func be64(n uint64) []byte {
	return []byte{byte(n >> 56), byte(n >> 48), byte(n >> 40), byte(n >> 32), byte(n >> 24), byte(n >> 16), byte(n >> 8), byte(n)}
}

type vmsg struct{ h, b []byte }

// VH01b_stream: N messages back to back through conn.Send / connipc.Send into the
// harness stream, checked against an independent codec (C15), then read back
// by conn.Recv / connipc.Recv with arbitrary Read fragmentation (C01).
// Header and body bytes are solver variables; lengths are decisions.
func VH01b_stream() {
	H := verif.Param("H", 2)
	B := verif.Param("B", 3)
	N := verif.Param("N", 2)
	ipc := verif.Choice("ipc", 2) == 1
	w := &vconn{}
	var tx Pipe
	if ipc {
		tx = &connipc{conn: conn{c: w, open: true}}
	} else {
		tx = &conn{c: w, open: true}
	}
	var sent []vmsg
	var ref []byte // independent encoding
	for i := 0; i < N; i++ {
		hl := verif.Choice("hlen", H+1)
		bl := verif.Choice("blen", B+1)
		h := verif.Bytes("h", hl)
		b := verif.Bytes("b", bl)
		m := mangos.NewMessage(bl)
		m.Header = append(m.Header, h...)
		m.Body = append(m.Body, b...)
		sent = append(sent, vmsg{h, b})
		err := tx.Send(m)
		verif.Assert(err == nil, "C01/stream/send-ok")
		if ipc {
			ref = append(ref, 1)
		}
		ref = append(ref, be64(uint64(hl+bl))...)
		ref = append(ref, h...)
		ref = append(ref, b...)
	}
	verif.Observe("wire", w.out, w.writes)
	verif.Assert(verif.BytesEq(w.out, ref), "C15/framing/mangos-writes-reference-encoding")
	verif.Reach("encoded")

	// receive side: feed the reference encoding (what an independent peer writes)
	r := &vconn{in: ref, frag: verif.Param("frag", 0) == 1}
	var rx Pipe
	if ipc {
		rx = &connipc{conn: conn{c: r, open: true}}
	} else {
		rx = &conn{c: r, open: true}
	}
	for i := 0; i < N; i++ {
		got, err := rx.Recv()
		verif.Assert(err == nil, "C01/stream/recv-ok")
		if err != nil {
			return
		}
		verif.Observe("recv", got.Header, got.Body, r.rpos, r.reads)
		want := append(append([]byte{}, sent[i].h...), sent[i].b...)
		verif.Assert(len(got.Header) == 0, "C01/stream/no-header-from-transport")
		verif.Assert(verif.BytesEq(got.Body, want), "C01/stream/bytes-identical")
	}
	verif.Reach("decoded")
	// nothing left over, and the next Recv reports end of stream rather than inventing a message
	verif.Assert(r.rpos == len(r.in), "C01/stream/consumed-exactly")
	_, err := rx.Recv()
	verif.Assert(err != nil, "C01/stream/no-invented-message")
}

// VH16a_prefix: hostile length prefix. All 64 prefix bits and maxrx are solver
// variables. Oracle: sz<0 or sz>maxrx => ErrTooLong with no allocation and no
// Read beyond the prefix; otherwise exactly sz bytes are requested.
func VH16a_prefix() {
	ipc := verif.Choice("ipc", 2) == 1
	pre := verif.Bytes("prefix", 8)
	maxrx := verif.Int("maxrx")
	verif.Assume(verif.And(maxrx >= 1, maxrx <= 1<<31))
	// MaxRecvSize 0 = "no limit" (documented: trusted peers only). Even then a NEGATIVE announced length is
	// malformed and must be refused, not sliced; non-negative lengths in that mode are outside the claim.
	unlimited := verif.Choice("unlimited", 2) == 1
	if unlimited {
		maxrx = 0
	}
	var in []byte
	if ipc {
		in = append(in, 1)
	}
	in = append(in, pre...)
	r := &vconn{in: in}
	var rx Pipe
	if ipc {
		rx = &connipc{conn: conn{c: r, open: true, maxrx: maxrx}}
	} else {
		rx = &conn{c: r, open: true, maxrx: maxrx}
	}
	sz := int64(uint64(pre[0])<<56 | uint64(pre[1])<<48 | uint64(pre[2])<<40 | uint64(pre[3])<<32 |
		uint64(pre[4])<<24 | uint64(pre[5])<<16 | uint64(pre[6])<<8 | uint64(pre[7]))
	if unlimited {
		verif.Assume(sz < 0)
	}
	a0 := verif.AllocBytes()
	msg, err := rx.Recv()
	a1 := verif.AllocBytes()
	verif.Observe("prefix-recv", err, msg == nil, r.reads, r.rpos)
	nprefix := 1
	if ipc {
		nprefix = 2
	}
	tooLong := verif.Or(sz < 0, verif.And(maxrx > 0, sz > int64(maxrx)))
	verif.Assert(verif.Iff(err == mangos.ErrTooLong, tooLong), "C16/prefix/too-long-iff-over-limit")
	if err == mangos.ErrTooLong {
		verif.Reach("too-long")
		verif.Assert(msg == nil, "C16/prefix/nothing-delivered-when-too-long")
		verif.Assert(r.reads == nprefix, "C16/prefix/no-read-after-oversize-prefix")
		verif.AssertVM(a1-a0 <= 16, "C16/prefix/no-allocation-for-oversize")
	} else {
		verif.Reach("in-limit")
		// stream ended right after the prefix
		if sz == 0 {
			verif.Assert(err == nil, "C16/prefix/empty-message-delivered")
			if err == nil {
				verif.Assert(len(msg.Body) == 0, "C16/prefix/empty-body")
			}
		} else {
			verif.Assert(err != nil, "C16/prefix/truncated-stream-is-error")
			verif.Assert(msg == nil, "C16/prefix/nothing-delivered-on-truncation")
			verif.AssertVM(a1-a0 <= int(sz)+65536+64, "C16/prefix/allocation-bounded-by-announced-size")
			last := r.readLens[len(r.readLens)-1]
			verif.Assert(int64(last) == sz, "C16/prefix/reads-exactly-announced-size")
		}
	}
}

// VH01i_boundary: one message whose header length or body length sits on a boundary that the code itself names
// (c-1, c, c+1 for every integer constant c <= maxlen found in the transport and message code - recomputed from the
// current source, so a new inline-buffer size or size threshold puts its own neighbours on the list), followed by a
// one-byte sentinel message, through conn.Send / connipc.Send and back through Recv. All bytes are solver variables.
// The wire image must equal the independent encoding, both messages must come back whole, nothing may be left over.
func VH01i_boundary() {
	const scope = "go.nanomsg.org/mangos/v3/transport,go.nanomsg.org/mangos/v3"
	max := verif.Param("maxlen", 72)
	n := verif.BoundaryCount(scope, max)
	big := verif.Boundary(scope, max, verif.Choice("boundary", n))
	other := []int{0, 3}[verif.Choice("other", 2)]
	hl, bl := big, other
	if verif.Choice("which", 2) == 1 {
		hl, bl = other, big
	}
	ipc := verif.Choice("ipc", 2) == 1
	w := &vconn{}
	var tx Pipe
	if ipc {
		tx = &connipc{conn: conn{c: w, open: true}}
	} else {
		tx = &conn{c: w, open: true}
	}
	lens := [][2]int{{hl, bl}, {0, 1}}
	var sent []vmsg
	var ref []byte
	for _, l := range lens {
		h := verif.Bytes("h", l[0])
		b := verif.Bytes("b", l[1])
		m := mangos.NewMessage(l[1])
		m.Header = append(m.Header, h...)
		m.Body = append(m.Body, b...)
		sent = append(sent, vmsg{h, b})
		verif.Assert(tx.Send(m) == nil, "C01/boundary/send-ok")
		if ipc {
			ref = append(ref, 1)
		}
		ref = append(ref, be64(uint64(l[0]+l[1]))...)
		ref = append(ref, h...)
		ref = append(ref, b...)
	}
	verif.Assert(len(w.out) == len(ref), "C15/boundary/wire-length")
	verif.Assert(verif.BytesEq(w.out, ref), "C15/boundary/mangos-writes-reference-encoding")
	verif.Reach("boundary-encoded")
	r := &vconn{in: ref}
	var rx Pipe
	if ipc {
		rx = &connipc{conn: conn{c: r, open: true}}
	} else {
		rx = &conn{c: r, open: true}
	}
	for i := range lens {
		got, err := rx.Recv()
		verif.Assert(err == nil, "C01/boundary/recv-ok")
		if err != nil {
			return
		}
		want := append(append([]byte{}, sent[i].h...), sent[i].b...)
		verif.Assert(len(got.Header) == 0 && len(got.Body) == len(want), "C01/boundary/length")
		verif.Assert(verif.BytesEq(got.Body, want), "C01/boundary/bytes-identical")
	}
	verif.Assert(r.rpos == len(r.in), "C01/boundary/consumed-exactly")
	verif.Reach("boundary-decoded")
}
