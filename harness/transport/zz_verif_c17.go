package transport

import (
	"go.nanomsg.org/mangos/v3"
	"go.nanomsg.org/mangos/v3/zzverif/verif"
)

// VH17d_sendfail: a stream pipe whose write fails leaves the message with the
// caller (not released); a successful one takes it.
func VH17d_sendfail() {
	lab := "C17/stream-send"
	ipc := verif.Choice("ipc", 2) == 1
	fail := verif.Choice("fail", 2) == 1
	w := &vconn{wfail: fail}
	var p Pipe
	if ipc {
		p = &connipc{conn: conn{c: w, open: true}}
		lab += "/ipc"
	} else {
		p = &conn{c: w, open: true}
		lab += "/tcp"
	}
	body := verif.Bytes("body", 3)
	m := mangos.NewMessage(3)
	m.Body = append(m.Body, body...)
	shared := verif.Choice("shared", 2) == 1
	if shared {
		m.Clone() // another pipe still holds a reference (fan-out)
	}
	err := p.Send(m)
	if fail {
		verif.Assert(err != nil, lab+"/failed-write-reported-as-success")
		verif.AssertVM(!verif.Released(m), lab+"/failed-send-released-the-message")
		verif.Assert(verif.BytesEq(m.Body, body), lab+"/failed-send-changed-the-body")
		// the caller disposes of its reference, as every protocol does on a send error
		m.Free()
		if shared {
			verif.AssertVM(!verif.Released(m), lab+"/message-released-while-another-holder-has-a-reference")
			m.Free()
		}
		verif.Reach("send-failed")
	} else {
		verif.Assert(err == nil, lab+"/send-error")
		if shared {
			verif.AssertVM(!verif.Released(m), lab+"/message-released-while-another-holder-has-a-reference")
			m.Free()
		}
		verif.Reach("send-ok")
	}
}
