package req

import "go.nanomsg.org/mangos/v3/protocol"

// Accessor for harnesses (overlay only; never written into /repo): the request
// id counter is seeded from the clock ("quasi-random"), i.e. by the
// environment, so harnesses make it a solver variable.
func ZZSetNextID(p protocol.Protocol, v uint32) { p.(*socket).nextID = v }

// ZZAddNextID advances the id counter by d, as d requests (surveys) issued meanwhile on other contexts of the
// socket would.
func ZZAddNextID(p protocol.Protocol, d uint32) { p.(*socket).nextID += d }
